// explicit instantiation of the whole SoPlexBase<double> class from /repo's current sources
#define VL_NO_EXTERN
#include "sxinc.hpp"
namespace soplex
{
template class SoPlexBase<double>;
}
