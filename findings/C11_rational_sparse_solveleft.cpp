// C11 finding: SLUFactorRational::solveLeft(SSVectorRational& x, const SVectorRational& b) -- the call behind
// SoPlex::getBasisInverseRowRational() -- and its two/three right-hand-side siblings return a WRONG vector, an index set with
// duplicates, and write outside the caller's index array.
//
// Root cause (clufactor_rational.hpp, CLUFactorRational::solveLleft(Rational* vec, int* nonz, int rn), SOPLEX_WITH_L_ROWS branch;
// same pattern in solveUleft / vSolveUright / vSolveLright*): the floating-point original keeps an entry that cancels to zero alive
// as SOPLEX_FACTOR_MARKER (1e-100) so that "value == 0" means "not yet in the priority queue".  The rational port stores the exact 0
// ("// vec[m] = ( y != 0 ) ? y : SOPLEX_MARKER;  vec[m] = y;").  An index whose value cancels to 0 and is filled again later is
// enqueued a second time; in solveLleft it is then dequeued twice, its L row is applied twice (wrong values), it is recorded twice
// (duplicate indices), and because heap and result list share one array of dim ints ("last = nonz + thedim; *(--last) = r") the list
// runs over the front of the caller's index array (heap-buffer-overflow, 4 bytes before x.idx).
//
// Proposed fix: never rely on "value == 0" for queue membership in exact arithmetic.  Validated in a scratch copy: in solveLleft, before
// "enQueueMaxRat(nonz, &rn, rperm[m])", test whether rperm[m] is already in the heap (linear scan of nonz[0..rn), or better a per-index
// flag array of size dim that is set on enqueue and cleared on dequeue) and enqueue only if it is not; with that change this program
// prints the exact row and the index set "2 4 3 1 0".  The same membership test belongs in solveUleft, vSolveUright*, solveLleftForest
// and vSolveLright* of CLUFactorRational.  (Merely skipping an index that is dequeued twice in a row is NOT enough: heap and result list
// have already collided in the shared array by then.)
//
// Build:  B=/verif/.cache/build/<srchash>; g++ -std=gnu++14 -O1 -g -DNDEBUG -I/repo/src -I$B/inc \
//         /verif/findings/C11_rational_sparse_solveleft.cpp $B/opt.*/lib/{spxout,spxdefines,usertimer,wallclocktimer,idxset,didxset,spxid,nameset,mpsinput,spxgithash}.o \
//         -lgmp -lmpfr -lz -o /var/tmp/repro && /var/tmp/repro       (add -fsanitize=address,undefined and the asan.* objects for the overflow report)
// Expected on the pinned tree: row 3 of B^-1 from the sparse solve differs from the dense solve (which satisfies x^T B = e_3^T exactly),
// index set "0 0 0 0 0 0" (6 entries for dimension 5).
#include "soplex.h"
#include <cstdio>
#include <cstdlib>
using namespace soplex;

int main()
{
   const int n = 5;
   const char* M[n][n] =
   {
      {"-1/2", "-9", "1/2", "-1/2", "-1"},
      {"1", "2", "-1", "1208925819614629174706177/1208925819614629174706176", "-1/8"},   // 1 + 2^-80
      {"0", "1", "0", "0", "8"},
      {"0", "3", "1", "0", "8"},
      {"0", "0", "-2", "0", "-6"}
   };
   SLUFactorRational F;
   std::vector<DSVectorRational> c(n, DSVectorRational(n + 1));
   const SVectorRational* cols[n];
   for(int j = 0; j < n; j++)
   {
      for(int i = 0; i < n; i++)
      {
         Rational v(M[i][j]);
         if(v != 0) c[j].add(i, v);
      }
      cols[j] = &c[j];
   }
   if(F.load(cols, n) != SLinSolverRational::OK) return 2;
   const int r = 3;
   VectorRational bd(n), xd(n);
   bd[r] = 1;
   F.solveLeft(xd, bd);
   bool denseOk = true;
   for(int j = 0; j < n; j++)
   {
      Rational s = 0;
      for(int i = 0; i < n; i++) s += xd[i] * Rational(M[i][j]);
      if(s != (j == r ? 1 : 0)) denseOk = false;
   }
   printf("dense  solveLeft(e_%d): x^T B == e_%d^T exactly: %s\n", r, r, denseOk ? "yes" : "NO");

   SSVectorRational xs(n);
   DSVectorRational b(2);
   b.add(r, Rational(1));
   F.solveLeft(xs, b);
   bool same = true;
   for(int i = 0; i < n; i++) if(xs[i] != xd[i]) same = false;
   printf("sparse solveLeft(e_%d): equal to the dense (exact) solution: %s\n", r, same ? "yes" : "NO  <-- defect");
   for(int i = 0; i < n; i++) printf("   x[%d] dense %s   sparse %s\n", i, xd[i].str().c_str(), xs[i].str().c_str());
   if(xs.isSetup())
   {
      printf("sparse result claims %d non-zeros for dimension %d, index set:", xs.size(), n);
      for(int k = 0; k < xs.size() && k < 3 * n; k++) printf(" %d", xs.index(k));
      printf("\n");
   }
   fflush(stdout);
   _Exit(same ? 0 : 1);   // skip destructors: the heap block of the index array has been written 4 bytes before its start
}
