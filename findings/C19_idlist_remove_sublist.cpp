// C19 finding: IdList<T>::remove(IdList<T>& list).  (a) a sublist that ends at the last element: 'the_last = list.last()->prev()'
// must be list.first()->prev() (for sublists longer than one element last() ends up INSIDE the removed part); (b) a sublist in the
// middle: only after->next() is re-linked, the prev() pointer of the element behind the sublist still points into the removed part,
// so backward traversal (prev()) walks through removed elements and isConsistent() fails.
// Fix (idlist.h): (a) this->the_last = list.first()->prev();  (b) T* after = list.first()->prev(); after->next() = list.last()->next();
//                 list.last()->next()->prev() = after;
// build: g++ -std=gnu++14 -DNDEBUG -I/repo/src -I<dir with soplex/config.h> FILE /repo/src/soplex/{didxset,idxset,nameset,spxdefines,spxout,spxid,mpsinput,usertimer,wallclocktimer,spxgithash}.cpp -lgmp -lmpfr -lz   (add -fsanitize=address to see the memory errors)
#include <cstdio>
#include "soplex/spxdefines.h"
#include "soplex/spxalloc.h"
#include "soplex/idlist.h"
using namespace soplex;
struct P { int v; };
typedef IdElement<P> E;
int main()
{
   E e[4]; for(int i = 0; i < 4; i++) e[i].v = i;
   IdList<E> l; for(int i = 0; i < 4; i++) l.append(&e[i]);
   { IdList<E> sub(&e[1], &e[2]); l.remove(sub); }          // list should be 0 3
   printf("middle: prev(last)=%d (expected 0)\n", l.prev(l.last())->v);
   int bad = l.prev(l.last())->v != 0;
   IdList<E> m; for(int i = 0; i < 4; i++) m.append(&e[i]);
   { IdList<E> sub(&e[2], &e[3]); m.remove(sub); }          // list should be 0 1
   printf("tail  : last()=%d (expected 1)\n", m.last()->v);
   return (bad || m.last()->v != 1) ? 1 : 0;
}
