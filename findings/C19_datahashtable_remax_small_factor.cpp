// C19 finding: DataHashTable::reMax() re-inserts the saved elements through add(), and add() calls reMax(int(m_memfactor * m_used) + 1)
// as soon as m_used >= 0.7 * size -- with m_used being the PARTIAL count during the re-insertion.  For growth factors below
// 1 / SOPLEX_HASHTABLE_FILLFACTOR (1 < factor < 1.43, allowed by assert(m_memfactor > 1.0)) the nested calls shrink the table below
// the number of saved elements, it becomes completely full and the probing loop of add() never ends.  NameSet passes its 'fac'
// parameter as this factor.
// Fix (datahashtable.h): in add() grow to at least m_used / FILLFACTOR + 1, and let reMax() re-insert without the growth test.
// build: g++ -std=gnu++14 -DNDEBUG -I/repo/src -I<dir with soplex/config.h> FILE /repo/src/soplex/{didxset,idxset,nameset,spxdefines,spxout,spxid,mpsinput,usertimer,wallclocktimer,spxgithash}.cpp -lgmp -lmpfr -lz   (add -fsanitize=address to see the memory errors)
#include <cstdio>
#include <unistd.h>
#include "soplex/dataarray.h"
#include "soplex/datahashtable.h"
using namespace soplex;
struct K { int a; friend int operator==(const K& x, const K& y) { return x.a == y.a; } };
static int hf(const K* k) { return (k->a % 7) * 3; }
int main()
{
   for(int n = 0; n < 40; n++)
   {
      DataHashTable<K, int> h(hf, 3, 0, 1.25);
      for(int i = 0; i < n; i++) { K k; k.a = i; h.add(k, i); }
      printf("n=%d reMax() ...", n); fflush(stdout);
      alarm(5);                         // n = 17 does not return
      h.reMax();
      printf(" ok\n");
   }
   return 0;
}
