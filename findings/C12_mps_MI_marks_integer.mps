* C12: the BOUNDS reader tests field1()[1] == 'I' (meant for LI/UI) which is also true for "MI": the column is reported as
* integer and its upper bound is reset to infinity.  soplex --writefile=/var/tmp/o.lp C12_mps_MI_marks_integer.mps ; cat /var/tmp/o.lp
* shows "-Inf <= x" without the upper bound 5 and x in the Generals section.
NAME          MI
ROWS
 N  obj
 G  c1
COLUMNS
    x         obj                  1   c1                   1
    y         obj                  1   c1                   1
RHS
    RHS       c1                   1
BOUNDS
 UP BND       x                    5
 MI BND       x
ENDATA
