#include "sxinc.hpp"
#include <cstdio>
using namespace soplex;
int main(){ SoPlex sp; sp.setIntParam(SoPlex::VERBOSITY, getenv("V")?atoi(getenv("V")):0);
 if(getenv("SIMP")) sp.setIntParam(SoPlex::SIMPLIFIER, atoi(getenv("SIMP"))); if(getenv("SCALER")) sp.setIntParam(SoPlex::SCALER, atoi(getenv("SCALER")));
 sp.setIntParam(SoPlex::OBJSENSE, SoPlex::OBJSENSE_MINIMIZE);
 DSVectorReal e(0);
 sp.addColReal(LPColReal(7.0, e, infinity, -4.0));
 sp.addColReal(LPColReal(-17.0, e, -3.0, -3.0));
 sp.addColReal(LPColReal(1.0, e, infinity, -3.0));
 sp.addColReal(LPColReal(16.0, e, infinity, -5.0));
 sp.addColReal(LPColReal(20.0, e, infinity, 5.0));
 sp.addColReal(LPColReal(28.0, e, -1.0, -5.0));
 sp.addColReal(LPColReal(23.0, e, infinity, -infinity));
 sp.addColReal(LPColReal(-24.0, e, infinity, -8.0));
 { DSVectorReal r(9);
   r.add(4, -4.0);
   sp.addRowReal(LPRowReal(-23.0, r, -20.0)); }
 { DSVectorReal r(9);
   r.add(3, 2.0);
   r.add(4, 2.0);
   sp.addRowReal(LPRowReal(-infinity, r, 4.0)); }
 { DSVectorReal r(9);
   r.add(1, 3.0);
   r.add(5, -7.0);
   r.add(6, -8.0);
   sp.addRowReal(LPRowReal(-infinity, r, 28.0)); }
 { DSVectorReal r(9);
   r.add(0, -2.0);
   r.add(3, -1.0);
   r.add(7, -2.0);
   sp.addRowReal(LPRowReal(-infinity, r, infinity)); }
 { DSVectorReal r(9);
   r.add(4, 4.0);
   sp.addRowReal(LPRowReal(-infinity, r, infinity)); }
 { DSVectorReal r(9);
   sp.addRowReal(LPRowReal(-7.0, r, infinity)); }
 { DSVectorReal r(9);
   r.add(3, -5.0);
   r.add(6, 3.0);
   sp.addRowReal(LPRowReal(-infinity, r, 19.0)); }
 { DSVectorReal r(9);
   sp.addRowReal(LPRowReal(0.0, r, infinity)); }
 { DSVectorReal r(9);
   r.add(5, -4.0);
   sp.addRowReal(LPRowReal(7.0, r, infinity)); }
 { DSVectorReal r(9);
   r.add(0, -2.0);
   r.add(4, -5.0);
   r.add(7, 8.0);
   sp.addRowReal(LPRowReal(-49.0, r, -49.0)); }
 sp.optimize(); printf("status %d obj %.10g\n", (int)sp.status(), sp.hasSol()?sp.objValueReal():0.0); return 0; }
