// C10 finding: SLUFactor<R>::change(idx, subst, eta) with the documented optional argument eta (= B^-1 subst from solveRight(), see
// SLinSolver::change: "One may also pass the optional parameter eta to the solution of solveRight() if readily available") and
// *without* a preceding solve*4update() corrupts a FOREST_TOMLIN factorisation: every later solve is wrong.
//
// slufactor.hpp, SLUFactor<R>::change():
//      else if(e != nullptr)                 // ETA updates
//      {
//         this->l.updateType = ETA;
//         this->updateNoClear(idx, e->values(), e->indexMem(), e->size());
//         this->l.updateType = uptype;       // back to FOREST_TOMLIN
//      }
// appends a product-form (column) eta to the L file and then switches the factor back to Forest-Tomlin mode, in which
// solveLright()/solveLleftForest() interpret every entry behind l.firstUpdate as a Forest-Tomlin *row* transformation.
// (Inside the simplex the branch is never reached because every change() is preceded by a solve4update(), which sets `usetup`.)
//
// Proposed fix: take the branch only for the product-form update type,
//      else if(e != nullptr && this->l.updateType == ETA)
// and let FOREST_TOMLIN fall through to a proper Forest-Tomlin update of `subst` (forest = subst; solveLright(forest); set up its index
// list; forestUpdate(idx, forest.altValues(), forest.size(), forest.altIndexMem())) -- the existing fallback below it passes num = 0 /
// nonz = nullptr, which forestUpdate() cannot handle (its own comment says so).
//
// Build:  B=/verif/.cache/build/<srchash>; g++ -std=gnu++14 -O1 -g -DNDEBUG -I/repo/src -I$B/inc \
//         /verif/findings/C10_change_with_eta_argument_forest_tomlin.cpp $B/opt.*/lib/{spxout,spxdefines,usertimer,wallclocktimer,idxset,didxset,spxid,nameset,mpsinput,spxgithash}.o \
//         -lgmp -lmpfr -lz -o /var/tmp/repro && /var/tmp/repro
// Expected on the pinned tree: ETA prints the exact solution (1, 2); FOREST_TOMLIN prints something else.
#include "soplex.h"
#include <cstdio>
using namespace soplex;

static void run(SLUFactor<double>::UpdateType ut, const char* name)
{
   const int n = 2;
   auto tol = std::make_shared<Tolerances>();
   SLUFactor<double> F;
   F.setTolerances(tol);
   F.setUtype(ut);
   DSVectorBase<double> c0(2), c1(2);
   c0.add(0, 1.0);
   c1.add(1, 1.0);
   const SVectorBase<double>* cols[n] = {&c0, &c1};
   F.load(cols, n);                                   // B = I

   DSVectorBase<double> enter(2);                     // new column 0: (2, 1)^T  ->  B = [2 0; 1 1]
   enter.add(0, 2.0);
   enter.add(1, 1.0);
   SSVectorBase<double> eta(0, tol);
   eta.reDim(n);
   F.solveRight(eta, (const SVectorBase<double>&)enter);   // eta = B^-1 enter
   eta.setup();
   F.change(0, enter, &eta);

   VectorBase<double> x(n), b(n);                     // solve B x = (2, 3)^T, exact solution (1, 2)^T
   b[0] = 2.0;
   b[1] = 3.0;
   F.solveRight(x, b);
   printf("%-14s status %d  x = (%g, %g)   residual (%g, %g)\n", name, (int)F.status(), x[0], x[1], 2 * x[0] - 2.0, x[0] + x[1] - 3.0);
}

int main()
{
   run(SLUFactor<double>::ETA, "ETA");
   run(SLUFactor<double>::FOREST_TOMLIN, "FOREST_TOMLIN");
   return 0;
}
