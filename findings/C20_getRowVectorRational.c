/* C20 finding: SoPlex_getRowVectorRational crashes on every non-empty row.
 * soplex_interface.cpp:606-609:  `SVectorRational row; ... row = lprow.rowVector();`  A default-constructed SVectorBase
 * has no storage (m_elem == nullptr, max() == 0); SVectorBase::operator= copies the elements through that null pointer
 * (its assert(max() >= sv.size()) is compiled out in release builds).  UBSan: member call on null pointer of type
 * 'struct Nonzero'; without sanitizer: SIGSEGV.
 * Build + run:  ./C20_build.sh C20_getRowVectorRational.c && ./C20_getRowVectorRational
 * Minimal fix: use a vector that owns memory:  `DSVectorRational row(lprow.rowVector());`  or read
 * `const SVectorRational& row = so->rowVectorRational(i);` directly.  */
#include <stdio.h>
#include "soplex_interface.h"
int main(void)
{
   void* s = SoPlex_create();
   long rownums[] = {-1, 3}, rowdenoms[] = {1, 4};
   long idx[2], num[2], den[2];
   int nnz = -1;
   SoPlex_setIntParam(s, 9, 0);
   SoPlex_setRational(s);
   SoPlex_addRowRational(s, rownums, rowdenoms, 2, 2, 1, 5, 1000000, 1);
   SoPlex_getRowVectorRational(s, 0, &nnz, idx, num, den);
   printf("nnz %d: x%ld * %ld/%ld, x%ld * %ld/%ld (expected 2: x0 * -1/1, x1 * 3/4)\n", nnz, idx[0], num[0], den[0], idx[1], num[1], den[1]);
   SoPlex_free(s);
   return 0;
}
