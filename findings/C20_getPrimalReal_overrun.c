/* C20 finding (NOT in known_findings.d/C20.json: the check performs exact solves only where they end OPTIMAL, because the
 * exact solver leaves inconsistent state behind otherwise; this repro documents what a C caller sees in that region):
 * SoPlex_getPrimalReal / SoPlex_getDualReal / SoPlex_getRedCostReal write beyond `dim` after an exact
 * solve that ends INFEASIBLE.  Root cause is in the wrapped C++ call: SoPlexBase::getPrimalReal(R*, int size) checks
 * `size >= numCols()` but then copies the WHOLE internal vector (`std::copy(primal.begin(), primal.end(), p_vector)`,
 * soplex.hpp:1142-1155; same pattern in getDualReal/getRedCostReal, soplex.hpp:803-835), and after the feasibility
 * refinement of an infeasible exact solve the stored solution has one more entry than the LP has columns.
 * Build + run:  ./C20_build.sh C20_getPrimalReal_overrun.c && ./C20_getPrimalReal_overrun
 * Expected with the defect: AddressSanitizer heap-buffer-overflow WRITE in std::copy <- getPrimalReal <- SoPlex_getPrimalReal.
 * Minimal fix: copy only numCols()/numRows() entries (std::copy_n(primal.begin(), numCols(), p_vector)), and/or restore
 * the solution dimensions when the feasibility transformation is undone.  */
#include <stdio.h>
#include <stdlib.h>
#include "soplex_interface.h"
int main(void)
{
   void* s = SoPlex_create();
   long none_n[] = {0}, none_d[] = {1};
   long c1n[] = {1, 0}, c1d[] = {1, 1};
   double* primal;
   int st, n;
   SoPlex_setIntParam(s, 9, 0);
   SoPlex_setRational(s);
   SoPlex_setIntParam(s, 0, -1);
   SoPlex_addRowRational(s, none_n, none_d, 0, 0, -7, 1, 1, 1);          /* -7 <= 0 <= 1 */
   SoPlex_addRowRational(s, none_n, none_d, 0, 0, 10, 1, 1000, 1);      /* 10 <= 0 <= 1000: infeasible */
   SoPlex_changeRowRangeReal(s, 0, 0.0, 0.0);
   SoPlex_addColRational(s, c1n, c1d, 2, 1, 5, 1, -1, 1, 5, 3);
   SoPlex_addColRational(s, none_n, none_d, 0, 0, 2, 1, 0, 1, 9, 1);
   st = SoPlex_optimize(s);
   n = SoPlex_numCols(s);
   printf("status %d (3 = INFEASIBLE), numCols %d\n", st, n);
   primal = (double*)malloc(sizeof(double) * (size_t)n);
   SoPlex_getPrimalReal(s, primal, n);                                   /* dim = numCols, as in the C test */
   printf("no overrun\n");
   free(primal);
   SoPlex_free(s);
   return 0;
}
