// C10 finding: product-form (ETA) update, CLUFactor<R>::vSolveUpdateRight() writes one element past the end of the caller's
// index array when the result vector is already completely dense.
//
//   for(j = lbeg[i + 1]; j > k; --j) { int m = ridx[n] = *idx++; ... n += (y == 0) ? 1 : 0; ... }
//
// stores the candidate index at ridx[n] *before* knowing whether position m is a new non-zero.  When all dim entries of the
// result are already non-zero, n == dim and ridx[dim] is written.  A result vector created as SSVectorBase<R> x(dim) (or by the
// SSVectorBase copy constructor) owns exactly dim index slots -> heap-buffer-overflow by one int in every solve*4update of the
// product-form update.  (The solver's own vectors are created empty and then reDim()'ed, which reserves dim + 1 slots, so the
// simplex itself is not hit; stand-alone users of SLUFactor and copies of SSVectors are.)
//
// Proposed fix (clufactor.hpp, vSolveUpdateRight):
//      int m = *idx++;
//      y = vec[m];
//      if(y == 0) ridx[n++] = m;
//      y = y - x * (*val++);
//      vec[m] = (y != 0) ? y : SOPLEX_FACTOR_MARKER;
//
// Build (ASan):  B=/verif/.cache/build/<srchash>; g++ -std=gnu++14 -O1 -g -DNDEBUG -fsanitize=address,undefined -I/repo/src -I$B/inc \
//                /verif/findings/C10_eta_vsolveupdateright_index_overflow.cpp $B/asan.*/lib/{spxout,spxdefines,usertimer,wallclocktimer,idxset,didxset,spxid,nameset,mpsinput,spxgithash}.o \
//                -lgmp -lmpfr -lz -o /var/tmp/repro && /var/tmp/repro
// Expected on the pinned tree: AddressSanitizer: heap-buffer-overflow WRITE of size 4 in CLUFactor<double>::vSolveUpdateRight.
#include "soplex.h"
#include <cstdio>
using namespace soplex;

int main()
{
   const int n = 2;
   auto tol = std::make_shared<Tolerances>();
   SLUFactor<double> F;
   F.setTolerances(tol);
   F.setUtype(SLUFactor<double>::ETA);
   DSVectorBase<double> c0(2), c1(2);
   c0.add(0, 1.0);
   c1.add(1, 1.0);
   const SVectorBase<double>* cols[n] = {&c0, &c1};
   if(F.load(cols, n) != SLinSolver<double>::OK) return 2;

   // one product-form update: replace column 1 by (1,1)^T
   DSVectorBase<double> enter(2);
   enter.add(0, 1.0);
   enter.add(1, 1.0);
   SSVectorBase<double> x(n, tol);            // exactly n index slots
   F.solveRight4update(x, enter);
   F.change(1, enter, &x);

   // any further solve*4update whose result is dense writes x.idx[n]
   SSVectorBase<double> y(n, tol);
   DSVectorBase<double> rhs(2);
   rhs.add(0, 3.0);
   rhs.add(1, 5.0);
   F.solveRight4update(y, rhs);
   printf("y = (%g, %g)  [expected (-2, 5)]; no sanitizer report => defect not present\n", y[0], y[1]);
   return 0;
}
