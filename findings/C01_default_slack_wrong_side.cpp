// default configuration (simplifier + bi-equilibrium scaling): the 9x2 LP below is solved by presolve (one forcing row, the rest redundant); the reported slack of
// row 6 is its rhs (-0.19921875) while A x = its lhs (-0.22265625).  Simplifier off or scaler off: correct.  Build like the harnesses.
#include "sxinc.hpp"
#include <cstdio>
using namespace soplex;
int main()
{
   SoPlex sp;
   sp.setIntParam(SoPlex::VERBOSITY, getenv("V") ? atoi(getenv("V")) : 0);
   if(getenv("SIMP")) sp.setIntParam(SoPlex::SIMPLIFIER, atoi(getenv("SIMP")));
   if(getenv("SCALER")) sp.setIntParam(SoPlex::SCALER, atoi(getenv("SCALER")));
   sp.setIntParam(SoPlex::OBJSENSE, SoPlex::OBJSENSE_MINIMIZE);
   const int m = 9, n = 2;
   double A[m][n] = {{-1.0 / 65536, -7.0 / 17179869184.0}, {256, -3.0 / 2048}, {3.0 / 131072, 1.0 / 8589934592.0}, {-1.0 / 262144, -7.0 / 137438953472.0}, {524288, -0.5},
      {1.0 / 512, 9.0 / 268435456}, {18432, 3.0 / 32}, {0.25, 1.0 / 524288}, {576, 3.0 / 1024}};
   double lhs[m] = {5.0 / 17179869184.0, -7.0 / 4096, -infinity, 1.0 / 17179869184.0, -19.0 / 4, -19.0 / 536870912, -57.0 / 256, -infinity, -65.0 / 8192};
   double rhs[m] = {infinity, -23.0 / 16384, infinity, infinity, infinity, -31.0 / 1073741824, -51.0 / 256, infinity, -57.0 / 8192};
   double lo[n] = {-5.0 / 524288, -0.5}, up[n] = {-1.0 / 262144, 0.25}, obj[n] = {30932992, 72};
   DSVectorReal e(0);
   for(int j = 0; j < n; j++) sp.addColReal(LPColReal(obj[j], e, up[j], lo[j]));
   for(int i = 0; i < m; i++)
   {
      DSVectorReal r(n);
      for(int j = 0; j < n; j++) if(A[i][j] != 0) r.add(j, A[i][j]);
      sp.addRowReal(LPRowReal(lhs[i], r, rhs[i]));
   }
   sp.optimize();
   printf("status %d obj %.10g\n", (int)sp.status(), sp.objValueReal());
   VectorReal x(n), s(m);
   sp.getPrimal(x); sp.getSlacksReal(s);
   printf("x = %.12g %.12g\n", x[0], x[1]);
   for(int i = 0; i < m; i++) { double a = A[i][0] * x[0] + A[i][1] * x[1]; printf("row %d: Ax %.10g slack %.10g diff %.3g  [%g,%g]\n", i, a, s[i], s[i] - a, lhs[i], rhs[i]); }
   return 0;
}
