// C11 findings in the two/three right-hand-side "4update" right solves of SLUFactorRational (public, but without a caller in SoPlex).
//
// (1) Wrong result.  CLUFactorRational::vSolveRight4update2 / vSolveRight4update3 (clufactor_rational.hpp) prepare the second and
//     third right-hand side for the sparse U solve with an inverted test:
//            x = rhs2[k];
//            if(x == 0) enQueueMaxRat(ridx2, &j, rperm[k]);   // <- should be  x != 0
//            else       rhs2[k] = 0;                          // <- deletes every genuine non-zero
//     (the floating-point original reads "if(x < -eps2) enqueue; else if(x > eps2) enqueue; else rhs2[k] = 0;").
//     Whenever the L-solved right-hand side has at most dim/5 non-zeros, the returned y (and z) is the zero vector.
//     Fix: "if(x != 0) enQueueMaxRat(...); else rhs2[k] = 0;" in both functions (same for rhs3).
//
// (2) Index overrun.  CLUFactorRational::vSolveLright / vSolveLright2 / vSolveLright3 / vSolveUpdateRight still use the speculative
//     store "ridx[rn] = n = *idx++; rn += (y == 0) ? 1 : 0;" (writes ridx[dim] when the vector is already dense; and, because the
//     rational code dropped the SOPLEX_FACTOR_MARKER trick, an entry that cancels to exactly 0 is appended a second time later, so
//     the list can also grow beyond dim).  With a user right-hand side SSVectorRational d(dim) this is a heap-buffer-overflow.
//     Fix: port CLUFactor<R>::updateSolutionVectorLright (append only when the old value is zero; bounded by dim unique indices).
//
// Build:  B=/verif/.cache/build/<srchash>; g++ -std=gnu++14 -O1 -g -DNDEBUG -fsanitize=address,undefined -I/repo/src -I$B/inc \
//         /verif/findings/C11_rational_multi_rhs_4update.cpp $B/asan.*/lib/{spxout,spxdefines,usertimer,wallclocktimer,idxset,didxset,spxid,nameset,mpsinput,spxgithash}.o \
//         -lgmp -lmpfr -lz -o /var/tmp/repro && /var/tmp/repro
// Expected on the pinned tree: "y[0] = 0 (exact solution 1)" for both calls, then an AddressSanitizer heap-buffer-overflow in vSolveLright2.
#include "soplex.h"
#include <cstdio>
using namespace soplex;

int main()
{
   {
      const int n = 6;
      SLUFactorRational F;
      std::vector<DSVectorRational> c(n, DSVectorRational(2));
      const SVectorRational* cols[n];
      for(int j = 0; j < n; j++)
      {
         c[j].add(j, Rational(1));
         cols[j] = &c[j];
      }
      if(F.load(cols, n) != SLinSolverRational::OK) return 2;
      DSVectorRational b(2);
      b.add(1, Rational(1));
      {
         SSVectorRational x(n), d(n);
         VectorRational y(n);
         d.setValue(0, Rational(1));          // d = e_0, set up
         F.solve2right4update(x, y, b, d);
         printf("solve2right4update: x[1] = %s (exact 1), y[0] = %s (exact solution 1)\n", x[1].str().c_str(), y[0].str().c_str());
      }
      {
         SSVectorRational x(n), d(n), e(n);
         VectorRational y(n), z(n);
         d.setValue(0, Rational(1));
         e.setValue(2, Rational(3));
         F.solve3right4update(x, y, z, b, d, e);
         printf("solve3right4update: y[0] = %s (exact solution 1), z[2] = %s (exact solution 3)\n", y[0].str().c_str(), z[2].str().c_str());
      }
   }
   {
      // dense 3x3 matrix (2 on the diagonal, 1 elsewhere: no singletons, so L is not empty), dense second right-hand side:
      // vSolveLright2 writes ridx2[3]
      const int n = 3;
      SLUFactorRational F;
      std::vector<DSVectorRational> c(n, DSVectorRational(4));
      const SVectorRational* cols[n];
      for(int j = 0; j < n; j++)
      {
         for(int i = 0; i < n; i++) c[j].add(i, Rational(i == j ? 2 : 1));
         cols[j] = &c[j];
      }
      if(F.load(cols, n) != SLinSolverRational::OK) return 2;
      DSVectorRational b(4);
      for(int i = 0; i < n; i++) b.add(i, Rational(1));
      SSVectorRational x(n), d(n);
      VectorRational y(n);
      for(int i = 0; i < n; i++) d.setValue(i, Rational(1));
      F.solve2right4update(x, y, b, d);
      printf("no sanitizer report => index overrun not present\n");
   }
   return 0;
}
