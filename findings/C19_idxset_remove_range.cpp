// C19 finding: IdxSet::remove(int n, int m) ("removes indices at position numbers n through m").  If fewer indices follow m than
// are removed, cpy = size() - m can be 0 and the do/while body still runs once with cpy == -1:  idx[n - 1] = idx[num]  overwrites
// the index BEFORE the removed range (documented: "all indices before the first removed index keep their number unchanged"), and
// for n == 0 it writes idx[-1] (heap-buffer-overflow for DIdxSet / SSVectorBase).
// Fix (idxset.cpp): replace the do/while by  while(cpy > 0) { --num; --cpy; idx[n + cpy] = idx[num]; }  num = newnum;
// build: g++ -std=gnu++14 -DNDEBUG -I/repo/src -I<dir with soplex/config.h> FILE /repo/src/soplex/{didxset,idxset,nameset,spxdefines,spxout,spxid,mpsinput,usertimer,wallclocktimer,spxgithash}.cpp -lgmp -lmpfr -lz   (add -fsanitize=address to see the memory errors)
#include <cstdio>
#include "soplex/idxset.h"
using namespace soplex;
int main()
{
   int mem[5] = { -1, 10, 20, 30, -1 };
   IdxSet s(3, mem + 1, 3);
   s.remove(1, 2);                      // remove 20 and 30
   printf("size=%d index(0)=%d   (expected 1 and 10)\n", s.size(), s.index(0));
   int mem2[3] = { -1, 10, -1 };
   IdxSet t(1, mem2 + 1, 1);
   t.remove(0, 0);
   printf("word in front of the index memory: %d (expected -1: untouched)\n", mem2[0]);
   return (s.index(0) == 10 && mem2[0] == -1) ? 0 : 1;
}
