// C19 finding: DSVectorBase<R>::add(const SVectorBase<S>& vec) is documented "Append nonzeros of sv" but starts with
// SVectorBase<R>::clear(): the nonzeros already stored are dropped (and 'SVectorBase<S>::add(vec)' only compiles for S == R).
// Fix (dsvectorbase.h): remove the clear() and call SVectorBase<R>::add(vec).
// build: g++ -std=gnu++14 -DNDEBUG -I/repo/src -I<dir with soplex/config.h> FILE /repo/src/soplex/{didxset,idxset,nameset,spxdefines,spxout,spxid,mpsinput,usertimer,wallclocktimer,spxgithash}.cpp -lgmp -lmpfr -lz   (add -fsanitize=address to see the memory errors)
#include <cstdio>
#include "soplex/basevectors.h"
using namespace soplex;
int main()
{
   DSVectorBase<double> a, b;
   a.add(0, 1.0); b.add(1, 2.0);
   a.add(static_cast<const SVectorBase<double>&>(b));
   printf("size()=%d a[0]=%g a[1]=%g   (expected 2, 1, 2)\n", a.size(), a[0], a[1]);
   return a.size() == 2 ? 0 : 1;
}
