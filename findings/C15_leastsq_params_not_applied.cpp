// C15: leastsq_maxrounds / leastsq_acrcy are forwarded only to the scaler that is selected at the moment of the call
// ("if(_scaler) _scaler->setIntParam(value)"); every scaler except SPxLeastSqSC ignores them.  Unless scaler = 5 was selected first, the
// least-squares scaler keeps its built-in maxrounds = 20 / accuracy 1000: even the documented default 50 is never used.
// Proposed fix: forward to _scalerLeastsq (and _boostedScalerLeastsq) directly, independent of the selected scaler.
// build: g++ -std=gnu++14 -DNDEBUG -I/repo/src -I<dir with soplex/config.h> FILE.cpp /repo/src/soplex/{didxset,idxset,mpsinput,nameset,spxdefines,spxgithash,spxid,spxout,usertimer,wallclocktimer}.cpp -lgmp -lmpfr -lz
// (or against the cached objects: see /verif/HARNESS_GUIDE.md)
// (private members are read to show the state; standard headers first so that only SoPlex is opened up)
#include <string>
#include <sstream>
#include <iostream>
#include <fstream>
#include <iomanip>
#include <vector>
#include <list>
#include <memory>
#include <map>
#include <set>
#include <unordered_map>
#include <algorithm>
#include <functional>
#include <numeric>
#include <random>
#include <limits>
#include <thread>
#include <mutex>
#include <atomic>
#include <chrono>
#include <cmath>
#include <cstring>
#include <cassert>
#include <climits>
#include <cfloat>
#include <boost/multiprecision/gmp.hpp>
#include <boost/multiprecision/mpfr.hpp>
#include <boost/multiprecision/number.hpp>
#include <boost/multiprecision/detail/default_ops.hpp>
#define private public
#define protected public
#include "soplex.h"
#undef private
#undef protected
#include <cstdio>
using namespace soplex;
int main()
{
   SoPlex s;
   s.setIntParam(SoPlex::LEASTSQ_MAXROUNDS, 7);
   s.setRealParam(SoPlex::LEASTSQ_ACRCY, 5.0);
   s.setIntParam(SoPlex::SCALER, SoPlex::SCALER_LEASTSQ);
   printf("leastsq_maxrounds = %d, scaler %s uses %d;  leastsq_acrcy = %g, scaler uses %g\n", s.intParam(SoPlex::LEASTSQ_MAXROUNDS), s.getScalerName(),
          s._scalerLeastsq.maxrounds, s.realParam(SoPlex::LEASTSQ_ACRCY), (double)s._scalerLeastsq.acrcydivisor);
   SoPlex t;
   t.setIntParam(SoPlex::SCALER, SoPlex::SCALER_LEASTSQ);
   printf("default object + scaler=5: leastsq_maxrounds = %d (documented default), scaler uses %d\n", t.intParam(SoPlex::LEASTSQ_MAXROUNDS), t._scalerLeastsq.maxrounds);
   return 0;
}
