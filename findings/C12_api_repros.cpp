// C12 findings that need the library API (the soplex binary catches the exception / does not pass integer markers).
// Build (full, ~2 min):  g++ -std=gnu++14 -O0 -DNDEBUG -I/repo/src -I<dir with soplex/config.h> C12_api_repros.cpp \
//                        /repo/src/soplex/{didxset,idxset,mpsinput,nameset,spxdefines,spxgithash,spxid,spxout,usertimer,wallclocktimer}.cpp -lgmp -lmpfr -lz
// Run:  ./a.out free | intub | dualmps   (files go to /var/tmp)
#include "soplex.h"
#include <iostream>
#include <fstream>
using namespace soplex;

static void build(SoPlex& s, bool freeRow)
{
   s.setIntParam(SoPlex::VERBOSITY, 0);
   s.setIntParam(SoPlex::OBJSENSE, SoPlex::OBJSENSE_MINIMIZE);
   DSVectorReal e(0);
   s.addColReal(LPColReal(1.0, e, infinity, 0.0));
   s.addColReal(LPColReal(1.0, e, infinity, 0.0));
   DSVectorReal r(2);
   r.add(0, 1.0);
   r.add(1, 1.0);
   s.addRowReal(LPRowReal(1.0, r, infinity));
   if(freeRow) s.addRowReal(LPRowReal(-infinity, r, infinity));
}

int main(int argc, char** argv)
{
   std::string what = argc > 1 ? argv[1] : "free";
   SoPlex s;
   if(what == "free")
   {
      // (1) a free row is a legal row; writeFile(".mps") throws SPxInternalCodeException XMPSWR02 instead of returning;
      //     when the LP is persistently scaled the unscaled copy made inside writeFile is leaked as well
      build(s, true);
      try
      {
         bool ok = s.writeFile("/var/tmp/c12_free.mps");
         std::cout << "writeFile returned " << ok << "\n";
      }
      catch(const SPxException& x)
      {
         std::cout << "writeFile threw: " << x.what() << "\n";
      }
   }
   else if(what == "intub")
   {
      // (2) integer column with infinite upper bound: "UP BOUND x0 1e100" is printed with %.15lf into char buf[81] and
      //     truncated; reading the file back gives the finite bound 1e69
      build(s, false);
      DIdxSet iv;
      iv.addIdx(0);
      s.writeFile("/var/tmp/c12_intub.mps", nullptr, nullptr, &iv);
      SoPlex t;
      t.setIntParam(SoPlex::VERBOSITY, 0);
      t.readFile("/var/tmp/c12_intub.mps");
      // the MPS writer puts integer columns last: x0 is column 1 of the LP read back
      std::cout << "upper bound written: " << s.upperReal(0) << "  read back: " << t.upperReal(1) << "\n";
   }
   else
   {
      // (3) writeDualFileReal to an .mps name: the temporary dual LP has no Tolerances object, writeMPS calls
      //     this->tolerances()->epsilon() on a null shared_ptr  => SIGSEGV
      build(s, false);
      s.writeDualFileReal("/var/tmp/c12_dual.lp");
      std::cout << "dual written in LP format\n";
      s.writeDualFileReal("/var/tmp/c12_dual.mps");
      std::cout << "dual written in MPS format\n";
   }
   return 0;
}
