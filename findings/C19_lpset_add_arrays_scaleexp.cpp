// C19 finding: the array-based LPRowSetBase<R>::add(DataKey&, const S* lhs, const S* rowValues, const int* rowIndices, int rowSize,
// const S* rhs, const S* obj) (and the LPColSetBase twin) extends left/right/object but not scaleExp (the SVectorBase-based add
// does 'scaleExp.reSize(num())').  remove(i), remove(perm) and add(set) index scaleExp by row number: heap-buffer-overflow
// (read and write) on the next removal.  This overload is what SPxLPBase::addRow/addCol(const R*...) and the C interface use.
// Fix (lprowsetbase.h / lpcolsetbase.h): add 'scaleExp.reSize(num());' in the if(num() > left.dim()) block and set
// scaleExp[num() - 1] = 0.
// build: g++ -std=gnu++14 -DNDEBUG -I/repo/src -I<dir with soplex/config.h> FILE /repo/src/soplex/{didxset,idxset,nameset,spxdefines,spxout,spxid,mpsinput,usertimer,wallclocktimer,spxgithash}.cpp -lgmp -lmpfr -lz   (add -fsanitize=address to see the memory errors)
#include <cstdio>
#include "soplex/basevectors.h"
#include "soplex/lprowsetbase.h"
using namespace soplex;
struct Peek : LPRowSetBase<double> { int se() const { return scaleExp.size(); } };
int main()
{
   Peek rows;
   double lhs = 0, rhs = 1, obj = 0, val[1] = {1.0}; int idx[1] = {0};
   DataKey k;
   for(int i = 0; i < 4; i++) rows.add(k, &lhs, val, idx, 1, &rhs, &obj);
   printf("num()=%d scaleExp.size()=%d   (expected equal)\n", rows.num(), rows.se());
   rows.remove(1);                     // ASan: heap-buffer-overflow in LPRowSetBase::remove (scaleExp[1] = scaleExp[3])
   return rows.se() >= rows.num() ? 0 : 1;
}
