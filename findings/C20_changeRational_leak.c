/* C20 finding: SoPlex_changeObjRational / SoPlex_changeLhsRational / SoPlex_changeRhsRational leak.
 * Each allocates `Rational* x = new Rational[dim]` (soplex_interface.cpp:314, 350, 402), copies it into a
 * VectorRational and never deletes it.  The wrapped C++ calls (changeObjRational(VectorRational) ...) do not leak.
 * Build + run:  ./C20_build.sh C20_changeRational_leak.c && ./C20_changeRational_leak
 * Expected with the defect: LeakSanitizer "Direct leak of 2064 byte(s) ... in SoPlex_changeObjRational soplex_interface.cpp:314" etc.
 * Minimal fix: build the VectorRational directly (VectorRational objective(dim); objective[i] = Rational(num, denom);)
 * or `delete[] objrational;` after constructing the vector.  */
#include <stdio.h>
#include "soplex_interface.h"
int main(void)
{
   void* s = SoPlex_create();
   long rownums[] = {-1, 1}, rowdenoms[] = {1, 1}, nums[] = {1, 1}, denoms[] = {1, 1}, one[] = {1}, den[] = {5};
   int i;
   SoPlex_setIntParam(s, 9, 0);
   SoPlex_setRational(s);
   SoPlex_addRowRational(s, rownums, rowdenoms, 2, 2, 1, 5, 1000000, 1);
   for(i = 0; i < 32; i++)
   {
      SoPlex_changeObjRational(s, nums, denoms, 2);
      SoPlex_changeLhsRational(s, one, den, 1);
      SoPlex_changeRhsRational(s, nums, denoms, 1);
   }
   SoPlex_free(s);
   printf("done; everything was freed by the caller's means\n");
   return 0;
}
