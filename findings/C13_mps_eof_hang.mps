NAME T
ROWS
 N obj
 G r1
COLUMNS
 x1 obj 1 r1 1
