// C19 finding: ClassSet<T>::reMax(newmax) with newmax < max() allocates newmax items and then moves max() (the OLD maximum)
// items into them: heap-buffer-overflow.  Reached through SVSetBase::reMax(), LPRowSetBase/LPColSetBase::reMax() as well
// (their default argument newmax = 0 means "shrink to size()").
// Fix (classset.h, reMax): copy only the items that exist in both blocks:  for(i = 0; i < max() && i < newmax; i++) ...
// build: g++ -std=gnu++14 -DNDEBUG -I/repo/src -I<dir with soplex/config.h> FILE /repo/src/soplex/{didxset,idxset,nameset,spxdefines,spxout,spxid,mpsinput,usertimer,wallclocktimer,spxgithash}.cpp -lgmp -lmpfr -lz   (add -fsanitize=address to see the memory errors)
#include <cstdio>
#include "soplex/classset.h"
using namespace soplex;
struct T { int v; T():v(-7){} T(const T&o):v(o.v){} T& operator=(const T&o){v=o.v;return *this;} };
int main()
{
   ClassSet<T> s(8);
   DataKey k; T a; a.v = 1;
   s.add(k, a); s.add(k, a);
   s.reMax(0);                         // newmax = size() = 2, but 8 items are written  -> ASan: heap-buffer-overflow
   printf("max()=%d num()=%d (run under -fsanitize=address)\n", s.max(), s.num());
   return 0;
}
