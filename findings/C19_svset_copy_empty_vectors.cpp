// C19 finding: SVSetBase<R>::operator= (both versions) and therefore the copy constructors test 'rhs.size() > 0', which is
// ClassArray::size() == memSize() (used nonzero memory), not num().  A set whose vectors are all empty and whose nonzero memory
// was packed (memSize() == 0, e.g. an LP with rows but no nonzeros after memPack()) is copied as an EMPTY set; for
// LPRowSetBase/LPColSetBase the side vectors are copied, so the copy is inconsistent (lhs().dim() != num()).
// Fix (svsetbase.h, both operator=):  if(rhs.num() > 0)
// build: g++ -std=gnu++14 -DNDEBUG -I/repo/src -I<dir with soplex/config.h> FILE /repo/src/soplex/{didxset,idxset,nameset,spxdefines,spxout,spxid,mpsinput,usertimer,wallclocktimer,spxgithash}.cpp -lgmp -lmpfr -lz   (add -fsanitize=address to see the memory errors)
#include <cstdio>
#include "soplex/basevectors.h"
#include "soplex/lprowsetbase.h"
using namespace soplex;
int main()
{
   LPRowSetBase<double> rows;
   DSVectorBase<double> e;
   rows.add(1.0, e, 2.0);
   rows.add(3.0, e, 4.0);
   rows.memPack();
   LPRowSetBase<double> copy(rows);
   printf("source num()=%d  copy num()=%d  copy lhs().dim()=%d   (expected 2 2 2)\n", rows.num(), copy.num(), copy.lhs().dim());
   return copy.num() == 2 ? 0 : 1;
}
