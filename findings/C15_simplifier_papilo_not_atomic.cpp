// C15: without PaPILO, setIntParam(SIMPLIFIER, SIMPLIFIER_PAPILO) returns false but has already re-pointed _simplifier (and the boosted
// simplifier) to the internal simplifier: a rejected call changes the solver.  intParam(SIMPLIFIER) still says 0 (off).
// Proposed fix (soplex.hpp, setIntParam, case SIMPLIFIER_PAPILO in the #else branch): just "return false;" (drop the four assignments).
// build: g++ -std=gnu++14 -DNDEBUG -I/repo/src -I<dir with soplex/config.h> FILE.cpp /repo/src/soplex/{didxset,idxset,mpsinput,nameset,spxdefines,spxgithash,spxid,spxout,usertimer,wallclocktimer}.cpp -lgmp -lmpfr -lz
// (or against the cached objects: see /verif/HARNESS_GUIDE.md)
#include "soplex.h"
#include <cstdio>
using namespace soplex;
int main()
{
   SoPlex s;
   s.setIntParam(SoPlex::SIMPLIFIER, SoPlex::SIMPLIFIER_OFF);
   printf("simplifier = %d, getSimplifierName() = %s\n", s.intParam(SoPlex::SIMPLIFIER), s.getSimplifierName());
   bool r = s.setIntParam(SoPlex::SIMPLIFIER, SoPlex::SIMPLIFIER_PAPILO);
   printf("setIntParam(simplifier, 2) -> %d; simplifier = %d, getSimplifierName() = %s   (expected: 0, 0, none)\n", r, s.intParam(SoPlex::SIMPLIFIER),
          s.getSimplifierName());
   return 0;
}
