// C15: setRealParam accepts NaN for 26 of 27 real parameters: the range test "value < lower || value > upper" is false for NaN.
// epsilon_zero..precision_boosting_factor store NaN (getter and tolerances() return NaN); feastol, opttol, infty and maxscaleincr
// convert the value to Rational and die with SIGFPE inside GMP.  Same through parseSettingsString("real:feastol = nan") / settings files.
// Proposed fix (soplex.hpp, setRealParam, range check):  if(!(value >= lower[param] && value <= upper[param])) return false;
// build: g++ -std=gnu++14 -DNDEBUG -I/repo/src -I<dir with soplex/config.h> FILE.cpp /repo/src/soplex/{didxset,idxset,mpsinput,nameset,spxdefines,spxgithash,spxid,spxout,usertimer,wallclocktimer}.cpp -lgmp -lmpfr -lz
// (or against the cached objects: see /verif/HARNESS_GUIDE.md)
#include "soplex.h"
#include <cmath>
#include <cstdio>
using namespace soplex;
int main(int argc, char** argv)
{
   SoPlex s;
   bool r = s.setRealParam(SoPlex::EPSILON_ZERO, NAN);
   printf("setRealParam(epsilon_zero, NaN) -> %d, realParam = %g, tolerances()->epsilon() = %g   (expected: 0, 1e-16, 1e-16)\n", r,
          s.realParam(SoPlex::EPSILON_ZERO), s.tolerances()->epsilon());
   r = s.setRealParam(SoPlex::OBJ_OFFSET, NAN);
   printf("setRealParam(obj_offset, NaN) -> %d, realParam = %g\n", r, s.realParam(SoPlex::OBJ_OFFSET));
   fflush(stdout);
   printf("now setRealParam(feastol, NaN): expected 'false', observed SIGFPE\n");
   fflush(stdout);
   r = s.setRealParam(SoPlex::FEASTOL, NAN);
   printf("returned %d\n", r);
   return 0;
}
