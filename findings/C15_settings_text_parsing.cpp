// C15: defects of the text front ends parseSettingsString / _parseSettingsLine (the code is duplicated, so each exists twice):
//  1. bool values: "strtol(value, nullptr, 5) == 0" accepts ANY non-numeric text as false ("yes", "on", "maybe"); the "invalid value" branch is
//     only reachable for numbers like 2.  Fix: compare the spellings exactly, drop the strtol tests (or test *end == 0 and the value 0/1).
//  2. std::stoi / std::stod / std::stoul exceptions (invalid_argument, out_of_range -- also for subnormal reals such as 1e-320, which
//     saveSettingsFile happily writes) escape instead of the documented "return false".  Fix: try/catch -> message + return false.
//  3. a string that ends right after the type or the name ("bool", "int:iterlimit"): "*line = '\\0'; line++" steps over the terminating NUL and
//     parses whatever the (uninitialised / stale) buffer holds behind it; with the bytes of an earlier call this SETS a parameter.
//     Fix: only advance if the character was not NUL.
//  4. "uint:random_seed_nosuch = 7" is accepted (strncmp(name, "random_seed", 11) is a prefix test).
//  5. loadSettingsFile(<missing file>): spxifstream (zstr/strict_fstream) throws strict_fstream::Exception; the "if(!file) return false" is dead.
// build: g++ -std=gnu++14 -DNDEBUG -I/repo/src -I<dir with soplex/config.h> FILE.cpp /repo/src/soplex/{didxset,idxset,mpsinput,nameset,spxdefines,spxgithash,spxid,spxout,usertimer,wallclocktimer}.cpp -lgmp -lmpfr -lz
// (or against the cached objects: see /verif/HARNESS_GUIDE.md)
#include "soplex.h"
#include <cstdio>
#include <cstring>
using namespace soplex;
static bool parse(SoPlex& s, const char* t)
{
   char buf[600];
   strcpy(buf, t);
   try
   {
      bool r = s.parseSettingsString(buf);
      printf("parseSettingsString(\"%s\") -> %d\n", t, r);
      return r;
   }
   catch(const std::exception& e)
   {
      printf("parseSettingsString(\"%s\") -> EXCEPTION %s\n", t, e.what());
      return false;
   }
}
int main()
{
   SoPlex s;
   s.setIntParam(SoPlex::VERBOSITY, 0);
   s.setBoolParam(SoPlex::LIFTING, true);
   parse(s, "bool:lifting = yes");
   printf("   lifting = %d (expected: rejected, still 1)\n", s.boolParam(SoPlex::LIFTING));
   parse(s, "int:iterlimit = abc");
   parse(s, "int:iterlimit = 99999999999");
   parse(s, "real:feastol = 1e-320");
   parse(s, "uint:random_seed = abc");
   parse(s, "# 0123456789012 = 77");        // a comment: returns true, leaves its bytes in the stack buffer
   parse(s, "int:displayfreq");             // no '=' and no value: must fail
   printf("   displayfreq = %d (expected: 200)\n", s.intParam(SoPlex::DISPLAYFREQ));
   parse(s, "uint:random_seed_nosuch = 7");
   printf("   randomSeed() = %u (expected: 0)\n", s.randomSeed());
   try
   {
      bool r = s.loadSettingsFile("/nonexistent/dir/file.set");
      printf("loadSettingsFile(missing) -> %d\n", r);
   }
   catch(const std::exception& e)
   {
      printf("loadSettingsFile(missing) -> EXCEPTION %s\n", e.what());
   }
   return 0;
}
