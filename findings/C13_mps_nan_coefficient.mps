NAME T
ROWS
 N obj
 G r1
 L r2
COLUMNS
 x1 obj 1 r1 nan
 x2 obj 1 r2 1
RHS
 rhs r1 1 r2 nan
ENDATA
