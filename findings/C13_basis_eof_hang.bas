NAME b
 UL x0
