// C19 finding: SVectorBase<R>::remove(int n, int m) ("Remove nonzeros n thru m") sets the new size to size() - cpy where cpy is the
// number of nonzeros MOVED (min(m-n+1, size()-m-1)), not the number removed; if fewer nonzeros follow m than are removed the size is
// too large, and if none follow (cpy == 0) 'do { *r++ = *e--; } while(--cpy);' runs ~2^32 times over the heap.
// Fix (svectorbase.h): int cnt = m - n + 1; int cpy = min(cnt, size() - m - 1); ... set_size(size() - cnt); while(cpy-- > 0) *r++ = *e--;
// build: g++ -std=gnu++14 -DNDEBUG -I/repo/src -I<dir with soplex/config.h> FILE /repo/src/soplex/{didxset,idxset,nameset,spxdefines,spxout,spxid,mpsinput,usertimer,wallclocktimer,spxgithash}.cpp -lgmp -lmpfr -lz   (add -fsanitize=address to see the memory errors)
#include <cstdio>
#include "soplex/basevectors.h"
using namespace soplex;
int main()
{
   DSVectorBase<double> v;
   for(int i = 0; i < 4; i++) v.add(i, 1.0 + i);
   v.remove(1, 2);                      // one nonzero follows, two are removed
   printf("size()=%d (expected 2)\n", v.size());
   // v.remove(n, v.size() - 1) would not return
   return v.size() == 2 ? 0 : 1;
}
