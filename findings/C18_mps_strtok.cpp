// C18 finding: MPSInput::readLine (src/soplex/mpsinput.cpp) tokenises with strtok(), whose save pointer is process-global.
// Threads that read MPS files (or basis files: SPxBasisBase::readBasis uses the same MPSInput) into their OWN solver objects
// at the same time continue each other's tokenisation: fields come from another thread's line buffer, NULs are written
// into it, files are rejected, wrong LPs are built, and the process can die with SIGSEGV.
//
// usage: C18_mps_strtok [threads=8] [rounds=200] [tmpdir=/var/tmp]
// prints how many concurrent reads differ from the read alone (or crashes).  Under -fsanitize=thread: data races on MPSInput::m_buf.
// proposed fix (minimal): in MPSInput::readLine replace the seven strtok(x, " ") calls by strtok_r(x, " ", &saveptr) with a
// local `char* saveptr` (declared next to `char* s`); _WIN32: strtok_s.
#include "sxinc.hpp"
#include <thread>
#include <atomic>
#include <unistd.h>
using namespace soplex;

static const char* kMps =
   "NAME          TINY\n"
   "ROWS\n"
   " N  COST\n"
   " L  LIM1\n"
   " G  LIM2\n"
   " E  MYEQN\n"
   "COLUMNS\n"
   "    X         COST         1.0   LIM1         1.0\n"
   "    X         LIM2         1.0\n"
   "    Y         COST         2.0   LIM1         1.0\n"
   "    Y         MYEQN       -1.0\n"
   "    Z         COST        -1.0   MYEQN        1.0\n"
   "RHS\n"
   "    RHS       LIM1         4.0   LIM2         1.0\n"
   "    RHS       MYEQN        7.0\n"
   "BOUNDS\n"
   " UP BND       X            4.0\n"
   " LO BND       Y           -1.0\n"
   " UP BND       Y            1.0\n"
   "ENDATA\n";

static unsigned long digest(SoPlex& sp, bool ok)
{
   unsigned long h = 1469598103934665603UL;
   auto mix = [&](double d)
   {
      unsigned long u;
      memcpy(&u, &d, 8);
      h = (h ^ u) * 1099511628211UL;
   };
   mix(ok);
   mix(sp.numRows());
   mix(sp.numCols());
   mix(sp.numNonzeros());
   for(int i = 0; i < sp.numRows(); i++)
   {
      mix(sp.lhsReal(i));
      mix(sp.rhsReal(i));
   }
   for(int j = 0; j < sp.numCols(); j++)
   {
      mix(sp.lowerReal(j));
      mix(sp.upperReal(j));
      mix(sp.objReal(j));
   }
   for(int i = 0; i < sp.numRows(); i++) for(int j = 0; j < sp.numCols(); j++) mix(sp.coefReal(i, j));
   return h;
}
static unsigned long readOnce(const std::string& path)
{
   SoPlex sp;
   sp.setIntParam(SoPlex::VERBOSITY, 0);
   static thread_local std::ostringstream devnull;
   for(int v = 0; v <= 5; v++) sp.spxout.setStream((SPxOut::Verbosity)v, devnull);
   devnull.str("");
   bool ok = sp.readFile(path.c_str());
   return digest(sp, ok);
}

int main(int argc, char** argv)
{
   int T = argc > 1 ? atoi(argv[1]) : 8, rounds = argc > 2 ? atoi(argv[2]) : 200;
   std::string dir = argc > 3 ? argv[3] : "/var/tmp";
   std::vector<std::string> paths;
   for(int t = 0; t < T; t++)
   {
      paths.push_back(dir + "/c18_strtok_" + std::to_string((long)getpid()) + "_" + std::to_string(t) + ".mps");
      std::ofstream(paths.back()) << kMps;      // per-thread file, same content
   }
   unsigned long alone = readOnce(paths[0]);
   std::atomic<long> differ(0), total(0);
   std::vector<std::thread> th;
   for(int t = 0; t < T; t++)
      th.emplace_back([&, t]
   {
      for(int r = 0; r < rounds; r++)
      {
         total++;
         if(readOnce(paths[(size_t)t]) != alone) differ++;
      }
   });
   for(auto& x : th) x.join();
   for(auto& p : paths) unlink(p.c_str());
   printf("%ld of %ld concurrent reads (each thread: its own SoPlex object and its own file) differ from the read alone\n", differ.load(), total.load());
   return differ.load() ? 1 : 0;
}
