/* C20 finding: the strings returned by SoPlex_getPrimalRationalString / SoPlex_objValueRationalString are allocated
 * with `new char[]` (soplex_interface.cpp:251, 445) but the header says "The caller needs to ensure the char array is
 * freed."  A C caller can only call free(): allocator mismatch (undefined behaviour; ASan: alloc-dealloc-mismatch
 * (operator new [] vs free)).
 * Build + run:  ./C20_build.sh C20_string_free_mismatch.c && ./C20_string_free_mismatch
 * Minimal fix: allocate with malloc:  rawstring = (char*)malloc(stringlength);  (both functions).  */
#include <stdio.h>
#include <stdlib.h>
#include "soplex_interface.h"
int main(void)
{
   void* s = SoPlex_create();
   long rownums[] = {-1, 1}, rowdenoms[] = {1, 1};
   SoPlex_setIntParam(s, 9, 0);
   SoPlex_setRational(s);
   SoPlex_setIntParam(s, 0, -1);
   SoPlex_addRowRational(s, rownums, rowdenoms, 2, 2, 1, 5, 1000000, 1);
   SoPlex_optimize(s);
   char* p = SoPlex_getPrimalRationalString(s, 2);
   printf("primal [%s]\n", p);
   free(p);                                      /* as documented */
   SoPlex_free(s);
   return 0;
}
