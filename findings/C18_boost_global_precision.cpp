// C18 finding: precision boosting reads and writes the PROCESS-GLOBAL Boost.Multiprecision default precision.
//
// soplex/solverational.hpp uses `BP::default_precision()` (BP = number<mpfr_float_backend<0>>) as if it were the
// solver's own / the thread's current precision:
//    _resetBoostedPrecision():  BP::default_precision(50)                       (every exact solve; also the SoPlex ctor)
//    _boostPrecision():         newNbDigits = floor(BP::default_precision() * factor);  BP::default_precision(newNbDigits)
//    _solveRealForRationalBoosted / _performOptIRStableBoosted:
//                               tolerance = 10^-(int)(BP::default_precision() * ratio), epsilons likewise
// In Boost (1.83 here) `number::default_precision(v)` sets BOTH the thread-local default and a process-global atomic,
// and the getter `number::default_precision()` returns the PROCESS-GLOBAL value.  So a solver object that is boosting in
// one thread has its precision schedule and its tolerances rewritten by any other thread that merely constructs a SoPlex
// object or starts an exact solve (global := 50), and vice versa.  No data race in the C++ sense (the global is an
// atomic), hence invisible to ThreadSanitizer; visible as results that differ from the run alone.
//
// Part 1 is deterministic (threads are sequenced by join).  Part 2 shows the consequence on a 4x6 LP.
//
// build (from /verif):  see harness build line; e.g.
//   g++ -O2 -DNDEBUG -std=gnu++14 -I/repo/src -I<cache>/inc -Ivlib findings/C18_boost_global_precision.cpp <cache>/opt.*/lib/*.o -lgmp -lmpfr -lz -lpthread
// proposed fix (minimal): in solverational.hpp / soplex.hpp replace every READ `BP::default_precision()` by
//   `BP::thread_default_precision()` and every WRITE `BP::default_precision(v)` by `BP::thread_default_precision(v)`
//   (10 reads, 4 writes), so that the precision is per-thread state as the code assumes.
#include "sxinc.hpp"
#include <thread>
#include <atomic>
using namespace soplex;
typedef boost::multiprecision::number<boost::multiprecision::mpfr_float_backend<0>, boost::multiprecision::et_off> BPx;

static void setupExact(SoPlex& sp)
{
   sp.setIntParam(SoPlex::VERBOSITY, 0);
   sp.setIntParam(SoPlex::SOLVEMODE, SoPlex::SOLVEMODE_RATIONAL);
   sp.setIntParam(SoPlex::SYNCMODE, SoPlex::SYNCMODE_AUTO);
   sp.setIntParam(SoPlex::CHECKMODE, SoPlex::CHECKMODE_RATIONAL);
   sp.setRealParam(SoPlex::FEASTOL, 0.0);
   sp.setRealParam(SoPlex::OPTTOL, 0.0);
   sp.setBoolParam(SoPlex::PRECISION_BOOSTING, true);
   sp.setBoolParam(SoPlex::ITERATIVE_REFINEMENT, false);
}
static Rational R(long a, long b = 1)
{
   return Rational(a) / Rational(b);
}
// min 4x0+11x1+5x2+3x3+6x4+6x5  s.t. 3x1+3x2+x3+2x4+2/11x5 = 0; 3/11x2-2x3 <= 3; -3/11x3-2/7x5 >= 0; 3x1-x5 = -2; bounds below
static void loadLP(SoPlex& sp)
{
   sp.setIntParam(SoPlex::OBJSENSE, SoPlex::OBJSENSE_MINIMIZE);
   const long obj[6] = {4, 11, 5, 3, 6, 6};
   Rational inf(1e100), ninf(-1e100);
   Rational lo[6] = {R(-2), R(0), R(-2), ninf, R(0), R(0)};
   Rational up[6] = {inf, R(2), R(0), R(0), inf, inf};
   DSVectorRational empty(1);
   for(int j = 0; j < 6; j++) sp.addColRational(LPColRational(R(obj[j]), empty, up[j], lo[j]));
   DSVectorRational r0(6), r1(6), r2(6), r3(6);
   r0.add(1, R(3));
   r0.add(2, R(3));
   r0.add(3, R(1));
   r0.add(4, R(2));
   r0.add(5, R(2, 11));
   r1.add(2, R(3, 11));
   r1.add(3, R(-2));
   r2.add(3, R(-3, 11));
   r2.add(5, R(-2, 7));
   r3.add(1, R(3));
   r3.add(5, R(-1));
   sp.addRowRational(LPRowRational(R(0), r0, R(0)));
   sp.addRowRational(LPRowRational(ninf, r1, R(3)));
   sp.addRowRational(LPRowRational(R(0), r2, inf));
   sp.addRowRational(LPRowRational(R(-2), r3, R(-2)));
}
struct Res
{
   int status, iters, boosts, itersBoosted;
   bool operator==(const Res& o) const
   {
      return status == o.status && iters == o.iters && boosts == o.boosts && itersBoosted == o.itersBoosted;
   }
};
static Res solveOnce()
{
   SoPlex sp;
   setupExact(sp);
   loadLP(sp);
   sp.optimize();
   return Res{(int)sp.status(), sp.numIterations(), sp.numPrecisionBoosts(), sp.numIterationsBoosted()};
}

int main()
{
   int bad = 0;
   // ---- part 1: another thread's solver object rewrites "my" precision
   BPx::default_precision(100);          // what a solver that has boosted to 100 digits has done in this thread
   printf("main thread before : default_precision()=%u thread_default_precision()=%u\n", BPx::default_precision(), BPx::thread_default_precision());
   std::thread t([]
   {
      SoPlex other;                      // constructor: BP::default_precision(_initialPrecision = 50)
   });
   t.join();
   printf("main thread after another thread constructed a SoPlex object: default_precision()=%u (what SoPlex reads) thread_default_precision()=%u\n",
          BPx::default_precision(), BPx::thread_default_precision());
   if(BPx::default_precision() != 100)
   {
      printf("  => the precision SoPlex's boosting loop reads in this thread was changed by an object of another thread\n");
      bad++;
   }
   BPx::default_precision(50);
   // ---- part 2: consequence for results
   Res alone = solveOnce();
   printf("alone     : status=%d iterations=%d precisionBoosts=%d boostedIterations=%d\n", alone.status, alone.iters, alone.boosts, alone.itersBoosted);
   std::atomic<bool> stop(false);
   std::thread noise([&]
   {
      while(!stop.load())
      {
         SoPlex s;                       // distinct object, never shared: only constructed and destroyed
      }
   });
   int differ = 0, N = 300;
   Res first = alone;
   for(int i = 0; i < N; i++)
   {
      Res r = solveOnce();
      if(!(r == alone))
      {
         if(!differ) first = r;
         differ++;
      }
   }
   stop.store(true);
   noise.join();
   printf("concurrent: %d of %d solves differ from the solve alone", differ, N);
   if(differ) printf(" (e.g. status=%d iterations=%d precisionBoosts=%d boostedIterations=%d)", first.status, first.iters, first.boosts, first.itersBoosted);
   printf("\n");
   if(differ) bad++;
   return bad ? 1 : 0;
}
