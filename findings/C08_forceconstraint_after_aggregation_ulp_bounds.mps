NAME b
OBJSENSE
    MAX
ROWS
 N  obj
 L  r0
 E  r1
COLUMNS
    x0        obj       6              r0        9
    x0        r1        2
    x1        obj       36             r1        5
    x2        obj       -11            r0        8
RHS
    RHS       r0        67             r1        -14
RANGES
    RNG       r0        6
BOUNDS
 LO BND       x0        3
 LO BND       x1        -4
 UP BND       x1        1
 LO BND       x2        5
 UP BND       x2        8
ENDATA
