// C19 finding: SVectorBase<R>::operator=(const SSVectorBase<S>& sv) (basevectors.h) loops 'for(int i = 0; i < nnz; ++i)' with nnz == 0
// (should be sv.size()) and tests sv.value(idx) instead of sv.value(i): the result is always the empty vector.  Hence
// DSVectorBase(const SSVectorBase&) and DSVectorBase::operator=(const SSVectorBase&) always produce an empty vector.
// Fix: for(int i = 0; i < sv.size(); ++i) { idx = sv.index(i); if(sv.value(i) != 0.0) { e->idx = idx; e->val = sv[idx]; ++e; ++nnz; } }
// build: g++ -std=gnu++14 -DNDEBUG -I/repo/src -I<dir with soplex/config.h> FILE /repo/src/soplex/{didxset,idxset,nameset,spxdefines,spxout,spxid,mpsinput,usertimer,wallclocktimer,spxgithash}.cpp -lgmp -lmpfr -lz   (add -fsanitize=address to see the memory errors)
#include <cstdio>
#include "soplex/basevectors.h"
using namespace soplex;
int main()
{
   SSVectorBase<double> ss(4, std::make_shared<Tolerances>());
   ss.setValue(1, 2.0); ss.setValue(3, 5.0);
   DSVectorBase<double> d(ss);
   DSVectorBase<double> e; e = ss;
   printf("DSVector(ss).size()=%d, (d = ss).size()=%d   (expected 2 2)\n", d.size(), e.size());
   return d.size() == 2 ? 0 : 1;
}
