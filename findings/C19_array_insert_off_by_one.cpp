// C19 finding: all four Array<T>::insert(i, ...) overloads insert at 'data.begin() + i - 1': the new elements land BEFORE element
// i-1 instead of before element i as documented, and insert(0, ...) is begin() - 1 (undefined behaviour, heap corruption).
// Fix (array.h): data.begin() + i.
// build: g++ -std=gnu++14 -DNDEBUG -I/repo/src -I<dir with soplex/config.h> FILE /repo/src/soplex/{didxset,idxset,nameset,spxdefines,spxout,spxid,mpsinput,usertimer,wallclocktimer,spxgithash}.cpp -lgmp -lmpfr -lz   (add -fsanitize=address to see the memory errors)
#include <cstdio>
#include "soplex/array.h"
using namespace soplex;
int main()
{
   Array<double> a;
   a.push_back(1.0); a.push_back(2.0); a.push_back(3.0);
   double x = 99.0;
   a.insert(1, 1, x);                   // documented: before element 1  -> 1 99 2 3
   printf("%g %g %g %g   (expected 1 99 2 3)\n", a[0], a[1], a[2], a[3]);
   return a[1] == 99.0 ? 0 : 1;
}
