// C15: resetSettings() does not restore the random seed although saveSettingsFile documents it as a setting ("uint:random_seed", default 0):
// after resetSettings(), saveSettingsFile(onlyChanged=true) still lists the seed as changed.
// Proposed fix (soplex.hpp, resetSettings): setRandomSeed(SOPLEX_DEFAULT_RANDOM_SEED);
// build: g++ -std=gnu++14 -DNDEBUG -I/repo/src -I<dir with soplex/config.h> FILE.cpp /repo/src/soplex/{didxset,idxset,mpsinput,nameset,spxdefines,spxgithash,spxid,spxout,usertimer,wallclocktimer}.cpp -lgmp -lmpfr -lz
// (or against the cached objects: see /verif/HARNESS_GUIDE.md)
#include "soplex.h"
#include <cstdio>
using namespace soplex;
int main()
{
   SoPlex s;
   s.setRandomSeed(5);
   s.setIntParam(SoPlex::ITERLIMIT, 3);
   s.resetSettings();
   printf("after resetSettings(): iterlimit = %d (default -1), randomSeed() = %u (documented default 0)\n", s.intParam(SoPlex::ITERLIMIT), s.randomSeed());
   return 0;
}
