// C19 finding: DataArray<T>::reMax(newMax, newSize = -1) with newMax < size() shrinks the allocation to newMax elements but leaves
// size() unchanged (max() < size(), isConsistent() false, the elements behind max() are gone / out of bounds).  The documentation
// promises that reMax() without arguments "will reduce the memory consumption to a minimum" with size() unchanged; ClassArray::reMax
// clamps newMax to the size.
// Fix (dataarray.h): if(newSize < 0) newSize = size(); ... if(newMax < newSize) newMax = newSize;  (as in ClassArray)
// build: g++ -std=gnu++14 -DNDEBUG -I/repo/src -I<dir with soplex/config.h> FILE /repo/src/soplex/{didxset,idxset,nameset,spxdefines,spxout,spxid,mpsinput,usertimer,wallclocktimer,spxgithash}.cpp -lgmp -lmpfr -lz   (add -fsanitize=address to see the memory errors)
#include <cstdio>
#include "soplex/dataarray.h"
using namespace soplex;
int main()
{
   DataArray<int> a(0, 8);
   for(int i = 0; i < 5; i++) a.append(i);
   a.reMax();                           // documented: minimal memory, size() unchanged
   printf("size()=%d max()=%d   (expected max() >= size())\n", a.size(), a.max());
   return a.max() >= a.size() ? 0 : 1;
}
