// C19 finding: SVSetBase<R>::xtend(svec, newmax) for the LAST vector calls ensureMem(newmax - ps->max(), false).  If ensureMem()
// decides to memPack(), every vector's max() is cut to its size(), so the following
//    SVSetBaseArray::insert(memSize(), newmax - ps->max())
// needs more room than was ensured; ClassArray::insert -> reSize -> reMax then reallocates the nonzero memory WITHOUT the pointer
// fix-up of memRemax(): all vectors of the set point into freed memory (the assert(olddata == data) is compiled out in release).
// add2() writes through the stale pointer right away (heap-use-after-free).
// Fix (svsetbase.h, xtend, last-vector branch): recompute the amount after ensureMem, e.g.
//    ensureMem(newmax - sz, false);  ...  insert(memSize(), newmax - ps->max());   // ps->max() >= sz always
// or call memRemax() instead of relying on insert() when memSize() + need > memMax().
// build: g++ -std=gnu++14 -DNDEBUG -I/repo/src -I<dir with soplex/config.h> FILE /repo/src/soplex/{didxset,idxset,nameset,spxdefines,spxout,spxid,mpsinput,usertimer,wallclocktimer,spxgithash}.cpp -lgmp -lmpfr -lz   (add -fsanitize=address to see the memory errors)
#include <cstdio>
#include "soplex/basevectors.h"
using namespace soplex;
int main()
{
   SVSetBase<double> s(2, 3);
   DSVectorBase<double> e;                  // empty vector: max() = 1, size() = 0
   s.add(e);
   s.memRemax(1);                           // memMax() == memSize() == 1, one unused nonzero
   Nonzero<double>* before = s[0].mem();
   int idx[2] = {5, 6}; double val[2] = {1.0, 2.0};
   (void)before;
   s.xtend(s[0], 2);                        // ensureMem packs (max 1 -> 0), insert(…, 2) reallocates without fix-up
   printf("vector max()=%d; writing two nonzeros through it ...\n", s[0].max());
   s[0].add(2, idx, val);                   // ASan: heap-use-after-free (the same happens inside add2(svec, 2, idx, val))
   printf("size=%d [5]=%g [6]=%g\n", s[0].size(), s[0][5], s[0][6]);
   return 0;
}
