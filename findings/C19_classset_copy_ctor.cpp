// C19 finding: ClassSet<T>::ClassSet(const ClassSet&) copy-constructs only the first old.thenum items of theitem[] and
// default-constructs the rest (i < old.thenum instead of i < old.thesize).  With a hole in the item array (an element was
// removed) the live items behind position num() are lost and their 'info' (number / free-list link) is garbage.
// Fix (classset.h, copy constructor):  for(i = 0; i < old.thesize; i++) new(&(theitem[i])) Item(old.theitem[i]);
// build: g++ -std=gnu++14 -DNDEBUG -I/repo/src -I<dir with soplex/config.h> FILE /repo/src/soplex/{didxset,idxset,nameset,spxdefines,spxout,spxid,mpsinput,usertimer,wallclocktimer,spxgithash}.cpp -lgmp -lmpfr -lz   (add -fsanitize=address to see the memory errors)
#include <cstdio>
#include "soplex/classset.h"
using namespace soplex;
struct T { int v; T():v(-7){} T(const T&o):v(o.v){} T& operator=(const T&o){v=o.v;return *this;} };
int main()
{
   ClassSet<T> s(4);
   DataKey k0, k1, k2; T a, b, c; a.v = 10; b.v = 20; c.v = 30;
   s.add(k0, a); s.add(k1, b); s.add(k2, c);
   s.remove(k0);                       // items: [free, b, c], num() = 2, size() = 3
   ClassSet<T> copy(s);
   printf("source: num=%d  [k1]=%d [k2]=%d number(k2)=%d\n", s.num(), s[k1].v, s[k2].v, s.number(k2));
   printf("copy  : num=%d  [k1]=%d [k2]=%d number(k2)=%d   (expected 20 30 and the same number)\n", copy.num(), copy[k1].v, copy[k2].v, copy.number(k2));
   return (copy[k2].v == 30 && copy.number(k2) == s.number(k2)) ? 0 : 1;
}
