#!/bin/sh
# builds a C20 repro (C source) against the ASan+UBSan objects cached by ./vcheck for the current /repo tree
# usage: ./C20_build.sh C20_xxx.c   ->   ./C20_xxx
set -e
REPO=${VERIF_REPO:-/repo}
L=""
for d in $(ls -td /verif/.cache/build/*/asan.*/lib 2>/dev/null); do
   if [ -f "$d/soplex_interface.x.o" ] && ls $d/inst_soplex.*.o >/dev/null 2>&1; then L=$d; break; fi
done
[ -n "$L" ] || { echo "run 'cd /verif && ./vcheck build C20' first"; exit 2; }
out=${1%.c}
gcc -g -fsanitize=address -I$REPO/src -c "$1" -o "$out.o"
g++ -fsanitize=address,undefined "$out.o" $L/inst_soplex.*.o $L/soplex_interface.x.o $L/didxset.o $L/idxset.o $L/mpsinput.o $L/nameset.o $L/spxdefines.o \
    $L/spxgithash.o $L/spxid.o $L/spxout.o $L/usertimer.o $L/wallclocktimer.o -lgmp -lmpfr -lz -o "$out"
rm -f "$out.o"
