// default exact options, SYNCMODE_ONLYREAL: the LP below (double image of a rational LP, unbounded only by a rounding-level slope) ends with status ERROR (-15)
// "Maximum number of digits for the multiprecision type reached".  Build like the harnesses (vlib/sxinc.hpp + cached objects).
#include "sxinc.hpp"
#include <cstdio>
using namespace soplex;
int main(int argc, char** argv)
{
   SoPlex sp;
   sp.setIntParam(SoPlex::VERBOSITY, getenv("V") ? atoi(getenv("V")) : 0);
   sp.setIntParam(SoPlex::SYNCMODE, getenv("SYNC") ? atoi(getenv("SYNC")) : SoPlex::SYNCMODE_ONLYREAL);
   sp.setIntParam(SoPlex::SOLVEMODE, SoPlex::SOLVEMODE_RATIONAL);
   sp.setIntParam(SoPlex::CHECKMODE, SoPlex::CHECKMODE_RATIONAL);
   sp.setRealParam(SoPlex::FEASTOL, 0.0);
   sp.setRealParam(SoPlex::OPTTOL, 0.0);
   sp.setIntParam(SoPlex::OBJSENSE, SoPlex::OBJSENSE_MAXIMIZE);
   sp.setRealParam(SoPlex::OBJ_OFFSET, -12.0);
   const int n = 6;
   double obj[n] = {-2, 6, -10, 4, -60, 7000000049.0 / 3};
   double lo[n] = {-infinity, -infinity, 0, -5, -infinity, -12.0 / 1000000007};
   double up[n] = {0, 0, infinity, 5, infinity, 0};
   double a[n] = {1.0 / 3, -1, 1, -2.0 / 3, 10, -1000000007.0 / 9};
   DSVectorReal e(0);
   for(int j = 0; j < n; j++) sp.addColReal(LPColReal(obj[j], e, up[j], lo[j]));
   DSVectorReal r(n);
   for(int j = 0; j < n; j++) r.add(j, a[j]);
   sp.addRowReal(LPRowReal(0.0, r, 0.0));
   sp.optimize();
   printf("status %d refinements %d\n", (int)sp.status(), sp.numRefinements());
   return 0;
}
