// C15: setSettings() executes "*_currentSettings = newSettings" BEFORE calling the typed setters.  Consequences:
//  (a) init=true, target object in syncmode only-real, new settings with syncmode auto: setIntParam(SYNCMODE, AUTO) tests
//      "intParam(SYNCMODE) == ONLYREAL" against the already overwritten value, never builds the rational LP, and the following
//      setRealParam(INFTY) calls _recomputeRangeTypesRational() on a null _rationalLP: SIGSEGV inside setSettings.
//  (b) init=false: every setter sees "value == current value" and returns early: all values are stored, nothing is applied
//      (pricer, scaler, tolerances(), verbosity, LP sense/offset ... keep their old state while the getters show the new values).
// Proposed fix: do not pre-assign; loop over the setters with newSettings._xxxParamValues[i] (as resetSettings does with the defaults).
// build: g++ -std=gnu++14 -DNDEBUG -I/repo/src -I<dir with soplex/config.h> FILE.cpp /repo/src/soplex/{didxset,idxset,mpsinput,nameset,spxdefines,spxgithash,spxid,spxout,usertimer,wallclocktimer}.cpp -lgmp -lmpfr -lz
// (or against the cached objects: see /verif/HARNESS_GUIDE.md)
#include "soplex.h"
#include <cstdio>
using namespace soplex;
int main(int argc, char** argv)
{
   SoPlex a, b, c;
   a.setIntParam(SoPlex::PRICER, SoPlex::PRICER_DEVEX);
   a.setRealParam(SoPlex::FEASTOL, 1e-3);
   bool r = b.setSettings(a.settings(), false);
   printf("(b) setSettings(init=false) -> %d: pricer param %d, getPricerName() = %s; feastol param %g, tolerances()->feastol() = %g\n", r,
          b.intParam(SoPlex::PRICER), b.getPricerName(), b.realParam(SoPlex::FEASTOL), b.tolerances()->feastol());
   a.setIntParam(SoPlex::SYNCMODE, SoPlex::SYNCMODE_AUTO);
   printf("(a) setSettings(settings with syncmode=auto) on a default object: expected 'true', observed SIGSEGV\n");
   fflush(stdout);
   r = c.setSettings(a.settings());
   printf("returned %d, numRowsRational() = %d\n", r, c.numRowsRational());
   return 0;
}
