// C19 finding (compile time): VectorBase<R>::minAbs() uses 'SOPLEX_MIN_element', which is declared nowhere (a search-and-replace of
// std::min_element): the documented operation cannot be instantiated, this file does not compile.
// Fix (vectorbase.h): std::min_element.
#include "soplex/basevectors.h"
int main()
{
   soplex::VectorBase<double> v(3);
   return v.minAbs() == 0 ? 0 : 1;
}
