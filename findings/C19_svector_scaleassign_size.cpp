// C19 finding: SVectorBase<Real>::scaleAssign(int scaleExp, const SVectorBase<Real>& sv) (and the const int* overload) copy the scaled
// nonzeros but never call set_size(sv.size()): the target keeps its old size ("scale and assign" does not assign).  Unused in SoPlex.
// Fix (svectorbase.h): set_size(sv.size()) after the loops.
// build: g++ -std=gnu++14 -DNDEBUG -I/repo/src -I<dir with soplex/config.h> FILE /repo/src/soplex/{didxset,idxset,nameset,spxdefines,spxout,spxid,mpsinput,usertimer,wallclocktimer,spxgithash}.cpp -lgmp -lmpfr -lz   (add -fsanitize=address to see the memory errors)
#include <cstdio>
#include "soplex/basevectors.h"
using namespace soplex;
int main()
{
   DSVectorBase<double> src, dst(4);
   src.add(0, 1.0); src.add(2, 3.0);
   static_cast<SVectorBase<double>&>(dst).scaleAssign(1, src);
   printf("dst.size()=%d dst[2]=%g   (expected 2 and 6)\n", dst.size(), dst[2]);
   return dst.size() == 2 ? 0 : 1;
}
