/* C20 finding: SoPlex_objValueRationalString returns a 1-byte array without NUL terminator.
 * soplex_interface.cpp:443-446 computes `stringlength = strlen(objstring.c_str()) + 1` BEFORE objstring is assigned, so the
 * array is new char[1] and strncpy copies only the first character.  Any strlen/strcmp/printf("%s") on the result
 * (as tests/c_interface/main.c does) reads past the allocation.
 * Build + run (ASan objects of the check's cache; see C20_build.sh):  ./C20_build.sh C20_objValueRationalString.c && ./C20_objValueRationalString
 * Expected with the defect: AddressSanitizer heap-buffer-overflow in strlen (READ of size 2, 0 bytes after 1-byte region).
 * Minimal fix: assign first, then size:   objstring = so->objValueRational().str(); stringlength = objstring.size() + 1;  */
#include <stdio.h>
#include <string.h>
#include "soplex_interface.h"
int main(void)
{
   void* s = SoPlex_create();
   long rownums[] = {-1, 1}, rowdenoms[] = {1, 1}, objnums[] = {1, 1}, objdenoms[] = {1, 1};
   SoPlex_setIntParam(s, 9, 0);                 /* verbosity off */
   SoPlex_setRational(s);
   SoPlex_setIntParam(s, 0, -1);                /* minimize */
   SoPlex_addRowRational(s, rownums, rowdenoms, 2, 2, 1, 5, 1000000, 1);
   SoPlex_changeObjRational(s, objnums, objdenoms, 2);
   printf("status %d\n", SoPlex_optimize(s));
   char* v = SoPlex_objValueRationalString(s);  /* exact value is "1/5" */
   printf("strlen = %zu (expected 3)\n", strlen(v));
   printf("value  = [%s] (expected [1/5])\n", v);
   SoPlex_free(s);
   return 0;
}
