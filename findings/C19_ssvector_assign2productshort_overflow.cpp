// C19 finding: SSVectorBase<R>::assign2productShort (reached through assign2product4setup when the target is set up and x is sparse)
// stores the index of every visited matrix element with 'idx[nonzero_idx] = elt.idx' BEFORE it knows whether the position is new.
// Once the intermediate result is dense (nonzero_idx == dim) the next element is written to idx[dim]; an SSVectorBase built by its
// constructor has exactly dim index entries: heap-buffer-overflow (vectors that went through reDim()/reMem() have one spare entry,
// which hides the defect inside the solver).
// Fix (basevectors.h): write idx[nonzero_idx] only inside 'if(oldval == 0)'.
// build: g++ -std=gnu++14 -DNDEBUG -fsanitize=address -I/repo/src -I<dir with soplex/config.h> FILE /repo/src/soplex/{didxset,idxset,nameset,spxdefines,spxout,spxid,mpsinput,usertimer,wallclocktimer,spxgithash}.cpp -lgmp -lmpfr -lz
#include <cstdio>
#include "soplex/basevectors.h"
using namespace soplex;
int main()
{
   SVSetBase<double> A(8, 8);
   DSVectorBase<double> c0, c1, e;
   c0.add(0, 1.0); c0.add(1, 2.0); c0.add(2, 3.0);
   c1.add(1, 1.0);
   A.add(c0); A.add(c1);
   for(int i = 0; i < 6; i++) A.add(e);
   auto tol = std::make_shared<Tolerances>();
   SSVectorBase<double> x(8, tol), y(3, tol);
   x.setValue(0, 1.0); x.setValue(1, 1.0);
   int ns = 0, nf = 0;
   y.assign2product4setup(A, x, nullptr, nullptr, ns, nf);      // ASan: heap-buffer-overflow in assign2productShort
   printf("y = (%g %g %g), sparse calls %d\n", y[0], y[1], y[2], ns);
   return 0;
}
