// C19 finding: LPRowSetBase<R>::remove(const int nums[], int n, int* perm) (and remove(nums, n), and the LPColSetBase twins) move the
// side values with a loop bound taken AFTER the removal:
//    SVSetBase<R>::remove(nums, n, perm);  int j = num();  for(int i = 0; i < j; ++i) if(perm[i] >= 0 && perm[i] != i) left[perm[i]] = left[i]; ...
// perm has the OLD num() entries; survivors whose old number is >= the new num() are never moved, so they end up with the
// lhs/rhs/obj of another row.  (remove(int perm[]) reads num() before the removal and is correct.)
// Fix: int j = num(); before the call of SVSetBase<R>::remove(nums, n, perm).
// build: g++ -std=gnu++14 -DNDEBUG -I/repo/src -I<dir with soplex/config.h> FILE /repo/src/soplex/{didxset,idxset,nameset,spxdefines,spxout,spxid,mpsinput,usertimer,wallclocktimer,spxgithash}.cpp -lgmp -lmpfr -lz   (add -fsanitize=address to see the memory errors)
#include <cstdio>
#include "soplex/basevectors.h"
#include "soplex/lprowsetbase.h"
using namespace soplex;
int main()
{
   LPRowSetBase<double> rows;
   DataKey k[4];
   for(int i = 0; i < 4; i++) { DSVectorBase<double> v; v.add(i, 1.0); rows.add(k[i], 10.0 * i, v, 10.0 * i + 1); }
   int nums[1] = {0}, perm[4];
   rows.remove(nums, 1, perm);
   int bad = 0;
   for(int i = 1; i < 4; i++)
   {
      printf("row with key %d: number %d vector index %d lhs %g (expected %g)\n", i, rows.number(k[i]), rows.rowVector(k[i]).index(0), rows.lhs(k[i]), 10.0 * i);
      bad += rows.lhs(k[i]) != 10.0 * i;
   }
   return bad ? 1 : 0;
}
