// C19 finding: SVSetBase<R>::add(DataKey nkey[], const SVectorBase<R> svec[], int n) returns the keys with
//    for(int i = num() - 1; --n; --i) nkey[n] = key(i);
// '--n' as loop condition stops before n == 0: nkey[0] is never written; for n == 0 the loop runs ~2^32 times writing nkey[-1],..
// Fix (svsetbase.h):  for(int i = num() - 1; n > 0; --i) nkey[--n] = key(i);
// build: g++ -std=gnu++14 -DNDEBUG -I/repo/src -I<dir with soplex/config.h> FILE /repo/src/soplex/{didxset,idxset,nameset,spxdefines,spxout,spxid,mpsinput,usertimer,wallclocktimer,spxgithash}.cpp -lgmp -lmpfr -lz   (add -fsanitize=address to see the memory errors)
#include <cstdio>
#include "soplex/basevectors.h"
using namespace soplex;
int main()
{
   SVSetBase<double> s;
   DSVectorBase<double> a, b; a.add(0, 1.0); b.add(1, 2.0);
   SVectorBase<double> v[2] = { SVectorBase<double>(static_cast<const SVectorBase<double>&>(a)), SVectorBase<double>(static_cast<const SVectorBase<double>&>(b)) };
   DataKey keys[2];
   s.add(keys, v, 2);
   printf("keys[0].idx=%d keys[1].idx=%d   (expected two valid keys, got an invalid keys[0])\n", keys[0].idx, keys[1].idx);
   return keys[0].isValid() ? 0 : 1;
}
