// int:starter=2 (sum), simplifier/scaler off: the LP below is UNBOUNDED (x4 free, objective +1, only in the free row r3) but SoPlex reports OPTIMAL -16.67
// with the free row r3 nonbasic (status ZERO) and dual 1: coTest() in enter.hpp has no P_FREE case.  Build like the harnesses (vlib/sxinc.hpp + cached objects).
#include "sxinc.hpp"
#include <cstdio>
using namespace soplex;
int main()
{
   SoPlex sp;
   sp.setIntParam(SoPlex::VERBOSITY, getenv("V") ? atoi(getenv("V")) : 0);
   sp.setIntParam(SoPlex::SIMPLIFIER, 0);
   sp.setIntParam(SoPlex::SCALER, 0);
   sp.setIntParam(SoPlex::STARTER, getenv("STARTER") ? atoi(getenv("STARTER")) : 2);
   sp.setIntParam(SoPlex::OBJSENSE, SoPlex::OBJSENSE_MAXIMIZE);
   const int m = 6, n = 8;
   double obj[n] = {-3, 2, 1, 0, 1, 0, -5, -4};
   double lo[n] = {-1, -3, -infinity, -3, -infinity, -1, -1, 5};
   double up[n] = {2, 2, 4, infinity, infinity, infinity, infinity, 9};
   double lhs[m] = {39, -16, -58, -infinity, -79, 24};
   double rhs[m] = {infinity, infinity, infinity, infinity, -67, infinity};
   double A[m][n] = {{0, 9, 2, 2, 0, 0, 0, 5}, {0, 0, 0, 0, 0, -4, 0, 0}, {0, -9, -1, -1, 0, 0, -3, -9}, {0, 7, 2, 2, 1, 0, 0, 0}, {0, 0, 0, 0, 0, -7, 0, -9}, {0, -9, 0, 0, 0, 8, 0, 2}};
   DSVectorReal e(0);
   for(int j = 0; j < n; j++) sp.addColReal(LPColReal(obj[j], e, up[j], lo[j]));
   for(int i = 0; i < m; i++)
   {
      DSVectorReal r(n);
      for(int j = 0; j < n; j++) if(A[i][j] != 0) r.add(j, A[i][j]);
      sp.addRowReal(LPRowReal(lhs[i], r, rhs[i]));
   }
   sp.optimize();
   printf("status %d it %d obj %g\n", (int)sp.status(), sp.numIterations(), sp.hasSol() ? sp.objValueReal() : 0.0);
   VectorReal x(n), r(n), y(m), s(m);
   sp.getPrimal(x); sp.getRedCost(r); sp.getDual(y); sp.getSlacksReal(s);
   for(int j = 0; j < n; j++) printf("x%d = %g rc %g stat %d\n", j, x[j], r[j], (int)sp.basisColStatus(j));
   for(int i = 0; i < m; i++) printf("r%d = %g y %g stat %d\n", i, s[i], y[i], (int)sp.basisRowStatus(i));
}
