// vlib/cont_common.hpp -- shared part of harness/h_cont.cpp + harness/cont_*.cpp (property C19).
//  * the one place where the SoPlex container headers are included (same prelude in every TU of the harness, so
//    that the inline isConsistent() bodies are identical in all of them): islist.h is included BEFORE
//    ENABLE_CONSISTENCY_CHECKS is defined (IsList::isConsistent does not compile with it), every other container
//    header after it.  nameset.cpp / idxset.cpp / didxset.cpp come from the shared support objects, i.e. WITHOUT the
//    macro (their isConsistent() bodies are the trivial `return true`); cont_misc.cpp mirrors those three bodies.
//  * the model-based testing framework: a Unit owns one container under test plus its reference model, executes one
//    operation at a time and compares the full observable state after every operation.
#pragma once
#include "base.hpp"
#include <list>
#include <unordered_map>
#include <memory>
#include <iostream>
#include <iomanip>
#include <sstream>
#include <numeric>
#include <limits>
#include <climits>
#include <cfloat>
#include <cassert>
#include <type_traits>
#include <boost/multiprecision/mpfr.hpp>
#include <boost/multiprecision/number.hpp>
#include <boost/multiprecision/detail/default_ops.hpp>
#define protected public
#define private public
#include "soplex/spxdefines.h"
#include "soplex/islist.h"
#define ENABLE_CONSISTENCY_CHECKS
#include "soplex/rational.h"
#include "soplex/dataarray.h"
#include "soplex/classarray.h"
#include "soplex/array.h"
#include "soplex/dataset.h"
#include "soplex/classset.h"
#include "soplex/idlist.h"
#include "soplex/idxset.h"
#include "soplex/didxset.h"
#include "soplex/datahashtable.h"
#include "soplex/nameset.h"
#include "soplex/basevectors.h"
#include "soplex/lprowsetbase.h"
#include "soplex/lpcolsetbase.h"
#include "soplex/sorter.h"
#include "soplex/stablesum.h"
#undef protected
#undef private

namespace cont
{
using namespace vl;
using soplex::DataKey;
using soplex::Rational;

// ---------------------------------------------------------------- numeric traits
template <class R> struct RT;
template <> struct RT<double>
{
   static double make(const Q& q)
   {
      return dq(q);
   }
   static Q get(double d)
   {
      return qd(d);
   }
   static const char* nm()
   {
      return "double";
   }
   static const bool exact = false;
};
template <> struct RT<Rational>
{
   static Rational make(const Q& q)
   {
      return q;
   }
   static Q get(const Rational& d)
   {
      return d;
   }
   static const char* nm()
   {
      return "Rational";
   }
   static const bool exact = true;
};

inline Q qfrac(long long n, long long d)
{
   Q q(n);
   q /= Q(d);
   return q;
}

// ---------------------------------------------------------------- unit framework
struct Unit
{
   std::string name;                    // e.g. "DataSet", "SVSet.double"
   std::string prop = "C19";
   bool bad = false;                    // a violation was reported in the current sequence
   bool rnd = false;                    // random-argument mode (long sequences) vs. deterministic arguments (exhaustive)
   bool asan = false;
   Rng g;
   std::vector<std::string> opNames;    // filled by the derived class
   std::vector<int> weights;            // random-mode weights (default 10)
   std::vector<long long> opCount, opSkip;
   std::vector<char> disabled;
   std::vector<std::string> traceBuf;   // descriptors of the operations of the current sequence
   long long traceDropped = 0;
   uint64_t seqHash = 0;
   long long checks = 0, mutations = 0;
   int curOp = -1;

   virtual ~Unit() {}
   virtual void reset() = 0;            // fresh container + model
   virtual void step(int op) = 0;       // one operation + full comparison
   virtual std::vector<int> exOps() const = 0;   // alphabet of the bounded-exhaustive enumeration

   int op(const std::string& n, int w = 10)
   {
      opNames.push_back(n);
      weights.push_back(w);
      opCount.push_back(0);
      opSkip.push_back(0);
      disabled.push_back(0);
      return (int)opNames.size() - 1;
   }
   int numOps() const
   {
      return (int)opNames.size();
   }
   // position selector: a = 0 first, 1 last, 2 middle (exhaustive) / random (random mode); n > 0
   int pos(int a, int n)
   {
      if(n <= 1) return 0;
      if(a == 0) return 0;
      if(a == 1) return n - 1;
      return rnd ? g.range(0, n - 1) : n / 2;
   }
   void note(const std::string& s)      // argument description appended to the trace entry of the current op
   {
      if(!traceBuf.empty()) traceBuf.back() += s;
   }
   void skip()                          // operation not applicable in the current state
   {
      if(curOp >= 0) opSkip[curOp]++;
      note("[n/a]");
   }
   std::string traceStr() const
   {
      std::string s;
      if(traceDropped) s += "...(" + std::to_string(traceDropped) + " earlier ops) ";
      for(size_t i = 0; i < traceBuf.size(); i++)
      {
         if(i) s += "; ";
         s += traceBuf[i];
      }
      return s;
   }
   void fail(const std::string& opn, const std::string& what, const std::string& detail)
   {
      bad = true;
      std::string key = prop + ":" + name + ":" + opn + ":" + what;
      Json r;
      r.str("unit", name).str("trace", traceStr());
      sink().viol(key, detail + " | ops: " + traceStr(), r.done());
   }
   void fail(const std::string& what, const std::string& detail)
   {
      fail(curOp >= 0 ? opNames[curOp] : std::string("init"), what, detail);
   }
   void beginSeq()
   {
      bad = false;
      traceBuf.clear();
      traceDropped = 0;
      seqHash = fnv(name);
      curOp = -1;
   }
   void doStep(int o)
   {
      if(disabled[o]) return;
      curOp = o;
      opCount[o]++;
      seqHash = (seqHash ^ (uint64_t)(o + 1)) * 1099511628211ULL;
      if(traceBuf.size() >= 48)
      {
         traceBuf.erase(traceBuf.begin(), traceBuf.begin() + 16);
         traceDropped += 16;
      }
      traceBuf.push_back(opNames[o]);
      step(o);
   }
   void flushCounters()
   {
      Sink& S = sink();
      for(size_t i = 0; i < opNames.size(); i++)
      {
         if(opCount[i]) S.count("ops." + name + "." + opNames[i], opCount[i] - opSkip[i]);
         if(opSkip[i]) S.count("skipped." + name + "." + opNames[i], opSkip[i]);
         opCount[i] = opSkip[i] = 0;
      }
      if(checks) S.count("checks." + name, checks);
      checks = 0;
   }
};

#define CK(cond, what, detail) do { checks++; if(!(cond)) { fail(what, detail); return; } } while(0)
#define CKOP(cond, opn, what, detail) do { checks++; if(!(cond)) { fail(opn, what, detail); return; } } while(0)

inline std::string I(long long v)
{
   return std::to_string(v);
}

// ================================================================================================ sparse vector helpers
typedef std::map<int, Q> SpModel;

template <class R>
inline bool spEq(const soplex::SVectorBase<R>& v, const SpModel& m, std::string* why)
{
   SpModel got;
   if(v.size() < 0 || v.size() > v.max())
   {
      *why = "size()=" + I(v.size()) + " max()=" + I(v.max());
      return false;
   }
   for(int j = 0; j < v.size(); j++)
   {
      Q val = RT<R>::get(v.value(j));
      if(val == 0) continue;
      if(got.count(v.index(j)))
      {
         *why = "index " + I(v.index(j)) + " stored twice";
         return false;
      }
      got[v.index(j)] = val;
   }
   if(got != m)
   {
      std::string a, b;
      for(auto& kv : got) a += I(kv.first) + ":" + qs(kv.second) + " ";
      for(auto& kv : m) b += I(kv.first) + ":" + qs(kv.second) + " ";
      *why = "vector is {" + a + "} expected {" + b + "}";
      return false;
   }
   return true;
}


template <class R>
struct ValGen
{
   // double: dyadic with small numerator (all arithmetic on them is exact); Rational: arbitrary small fractions
   static Q val(Rng& g)
   {
      for(;;)
      {
         int n = g.range(-24, 24);
         if(n == 0) continue;
         if(RT<R>::exact)
         {
            static const int dens[] = {1, 2, 3, 5, 7, 4};
            return qfrac(n, dens[g.range(0, 5)]);
         }
         return qfrac(n, 1 << g.range(0, 2));
      }
   }
};

template <class R>
inline void fillDSV(soplex::DSVectorBase<R>& d, const SpModel& m, Rng* shuffle)
{
   std::vector<int> idx;
   for(auto& kv : m) idx.push_back(kv.first);
   if(shuffle) shuffle->shuffle(idx);
   for(int i : idx) d.add(i, RT<R>::make(m.at(i)));
}


// hazard flags: argument patterns that are known to corrupt memory on the pinned tree are only executed if a
// non-crashing variant of the same call behaved correctly (inference probe) or, for the one case where no such
// variant exists, if a forked child survived it under AddressSanitizer (cont::forkProbe).
struct Hazards
{
   bool svecRemoveTail = false;       // SVectorBase::remove(n,m) with fewer survivors behind m than removed
   bool idxRemoveTail = false;        // IdxSet::remove(n,m) with n==0 and m==size()-1 writes idx[-1]
   bool arrayInsert0 = false;         // Array::insert(0,..) is begin()-1
   bool svsetAddKeys0 = false;        // SVSetBase::add(keys[], svec[], 0) loops ~2^32 times
   bool classSetShrink = false;       // ClassSet::reMax(newmax < max()) writes max() items into newmax slots
   bool xtendLastStale = false;       // SVSetBase::xtend(last vector) can reallocate the nonzero memory without pointer fix-up
   bool a2pShortOverflow = false;     // SSVectorBase::assign2productShort writes idx[dim] when the index memory has exactly dim entries
   bool probed = false;
};
Hazards& hazards();
void probeHazards(Unit* reporter);    // defined in h_cont.cpp
// runs fn in a forked child; 0 = child returned true, 1 = child returned false, 2 = child crashed, 3 = child hung
int forkProbe(const std::function<bool()>& fn, int timeoutSec, std::string* errText, int cpuSec = 0);
void probeHashRemax(Unit* reporter);   // DataHashTable::reMax() with a growth factor below 1/0.7 (h_cont.cpp)

// factories (one per translation unit)
Unit* makeSetsUnit(int which);        // cont_sets.cpp   : 0..7
Unit* makeMiscUnit(int which);        // cont_misc.cpp   : 0..9
Unit* makeVecUnit(int which);         // cont_vec.cpp    : 0..1
extern const char* const setsUnitNames[];
extern const char* const miscUnitNames[];
extern const char* const vecUnitNames[];
const int NSETS = 8, NMISC = 10, NVEC = 2;

} // namespace cont
