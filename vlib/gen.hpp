// vlib/gen.hpp -- seeded LP family generators (DESIGN 3.6).  All data are small integers (times powers
// of two for the badly-scaled family) so every number is exactly representable as a double.
#pragma once
#include "refsolve.hpp"

namespace vl
{
struct Planted
{
   bool has = false;
   RefStatus status = REF_FAIL;
   Q objval = 0;
   std::vector<Q> x, y, r;      // optimal certificate (planted-opt)
   std::vector<Q> farkas;       // planted-infeasible
   std::vector<Q> x0, ray;      // planted-unbounded
};

inline Q qi(long long v)
{
   return Q(v);
}
inline Q PINF()
{
   return QINF();
}
inline Q NINF()
{
   return Q(-QINF());
}

inline int smallNonzero(Rng& g, int mag = 9)
{
   int v = g.range(1, mag);
   return g.chance(0.5) ? v : -v;
}

// random sparse integer matrix, every column and row gets at least one entry with probability pfill
inline void randomMatrix(Rng& g, LPModel& M, int m, int n, double dens, int mag = 9)
{
   M.m = m;
   M.n = n;
   M.A.assign(m, std::vector<Q>(n, Q(0)));
   for(int i = 0; i < m; i++) for(int j = 0; j < n; j++) if(g.chance(dens)) M.A[i][j] = smallNonzero(g, mag);
   M.lhs.assign(m, NINF());
   M.rhs.assign(m, PINF());
   M.lo.assign(n, Q(0));
   M.up.assign(n, PINF());
   M.obj.assign(n, Q(0));
}

inline void randomSenseOffset(Rng& g, LPModel& M)
{
   M.sense = g.chance(0.5) ? 1 : -1;
   M.offset = g.chance(0.4) ? Q(g.range(-20, 20)) : Q(0);
}

// ---- arbitrary: no planted truth
inline LPModel genArbitrary(Rng& g, int maxm = 10, int maxn = 10)
{
   LPModel M;
   M.family = "arbitrary";
   int m = g.range(0, maxm), n = g.range(1, maxn);
   if(g.chance(0.9) && m == 0) m = 1;
   double dens = g.pick(std::vector<double> {0.2, 0.35, 0.5, 0.8, 1.0});
   randomMatrix(g, M, m, n, dens);
   randomSenseOffset(g, M);
   for(int j = 0; j < n; j++)
   {
      int t = g.range(0, 9);
      int a = g.range(-6, 6), w = g.range(0, 8);
      if(t <= 2)
      {
         M.lo[j] = a;   // lower only
         M.up[j] = PINF();
      }
      else if(t <= 4)
      {
         M.lo[j] = a;   // boxed
         M.up[j] = a + w;
      }
      else if(t == 5)
      {
         M.lo[j] = NINF();
         M.up[j] = a;
      }
      else if(t == 6)
      {
         M.lo[j] = NINF();
         M.up[j] = PINF();
      }
      else if(t == 7)
      {
         M.lo[j] = a;
         M.up[j] = a;
      }
      else
      {
         M.lo[j] = 0;
         M.up[j] = g.chance(0.5) ? PINF() : Q(g.range(1, 10));
      }
      M.obj[j] = g.chance(0.8) ? g.range(-9, 9) : 0;
   }
   for(int i = 0; i < m; i++)
   {
      int t = g.range(0, 9);
      int a = g.range(-15, 15), w = g.range(0, 12);
      if(t <= 2)
      {
         M.lhs[i] = NINF();
         M.rhs[i] = a;
      }
      else if(t <= 5)
      {
         M.lhs[i] = a;
         M.rhs[i] = PINF();
      }
      else if(t <= 7)
      {
         M.lhs[i] = a;
         M.rhs[i] = a;
      }
      else if(t == 8)
      {
         M.lhs[i] = a;
         M.rhs[i] = a + w;
      }
      else
      {
         M.lhs[i] = NINF();
         M.rhs[i] = PINF();
      }
   }
   return M;
}

// ---- planted optimum
inline LPModel genPlantedOpt(Rng& g, Planted& P, int maxm = 10, int maxn = 10, bool degenerate = false)
{
   LPModel M;
   M.family = degenerate ? "degenerate" : "planted-opt";
   int m = g.range(1, maxm), n = g.range(1, maxn);
   double dens = g.pick(std::vector<double> {0.25, 0.4, 0.6, 1.0});
   randomMatrix(g, M, m, n, dens, degenerate ? 3 : 9);
   randomSenseOffset(g, M);
   int sg = M.sense > 0 ? -1 : 1;   // multiply "min-orientation" duals by sg to get user duals
   std::vector<Q> x(n), r(n, Q(0)), y(m, Q(0));
   for(int j = 0; j < n; j++)
   {
      int t = g.range(0, 9);
      int a = degenerate ? 0 : g.range(-5, 5);
      int w = g.range(1, 6);
      int rmag = (degenerate && g.chance(0.5)) ? 0 : g.range(0, 6);
      if(t <= 2)        // at lower, upper inf
      {
         M.lo[j] = a;
         M.up[j] = PINF();
         x[j] = a;
         r[j] = sg * rmag;
      }
      else if(t == 3)   // at lower, boxed
      {
         M.lo[j] = a;
         M.up[j] = a + w;
         x[j] = a;
         r[j] = sg * rmag;
      }
      else if(t == 4)   // at upper, boxed
      {
         M.lo[j] = a - w;
         M.up[j] = a;
         x[j] = a;
         r[j] = -sg * rmag;
      }
      else if(t == 5)   // at upper, lower -inf
      {
         M.lo[j] = NINF();
         M.up[j] = a;
         x[j] = a;
         r[j] = -sg * rmag;
      }
      else if(t == 6)   // strictly inside box
      {
         M.lo[j] = a - w;
         M.up[j] = a + w;
         x[j] = a;
      }
      else if(t == 7)   // free
      {
         M.lo[j] = NINF();
         M.up[j] = PINF();
         x[j] = a;
      }
      else if(t == 8)   // fixed
      {
         M.lo[j] = a;
         M.up[j] = a;
         x[j] = a;
         r[j] = g.range(-6, 6);
      }
      else              // inside, one-sided
      {
         M.lo[j] = a - w;
         M.up[j] = PINF();
         x[j] = a;
      }
   }
   for(int i = 0; i < m; i++)
   {
      Q a = M.activity(i, x);
      int t = g.range(0, 9);
      int w = g.range(1, 8);
      int ymag = (degenerate && g.chance(0.5)) ? 0 : g.range(0, 5);
      if(t <= 1)        // equality
      {
         M.lhs[i] = a;
         M.rhs[i] = a;
         y[i] = g.range(-5, 5);
      }
      else if(t <= 3)   // active at lhs (>=)
      {
         M.lhs[i] = a;
         M.rhs[i] = g.chance(0.3) ? Q(a + w) : PINF();
         y[i] = sg * ymag;
      }
      else if(t <= 5)   // active at rhs (<=)
      {
         M.rhs[i] = a;
         M.lhs[i] = g.chance(0.3) ? Q(a - w) : NINF();
         y[i] = -sg * ymag;
      }
      else if(t <= 7)   // inactive
      {
         M.lhs[i] = g.chance(0.5) ? Q(a - w) : NINF();
         M.rhs[i] = g.chance(0.5) ? Q(a + w) : PINF();
      }
      else if(t == 8)   // free row
      {
         M.lhs[i] = NINF();
         M.rhs[i] = PINF();
      }
      else              // degenerate: active but zero dual
      {
         M.lhs[i] = a;
         M.rhs[i] = PINF();
      }
   }
   for(int j = 0; j < n; j++)
   {
      Q c = r[j];
      for(int i = 0; i < m; i++) if(M.A[i][j] != 0 && y[i] != 0) c += M.A[i][j] * y[i];
      M.obj[j] = c;
   }
   P.has = true;
   P.status = REF_OPTIMAL;
   P.x = x;
   P.y = y;
   P.r = r;
   P.objval = M.objval(x);
   return M;
}

// ---- planted infeasible (Farkas margin >= 1)
inline LPModel genPlantedInfeasible(Rng& g, Planted& P, int maxm = 10, int maxn = 10)
{
   LPModel M;
   M.family = "planted-infeasible";
   int m = g.range(1, maxm), n = g.range(1, maxn);
   randomMatrix(g, M, m, n, g.pick(std::vector<double> {0.3, 0.5, 0.8}), 6);
   randomSenseOffset(g, M);
   std::vector<Q> y(m, Q(0));
   int k = g.range(1, std::min(m, 3));
   std::vector<int> rows(m);
   for(int i = 0; i < m; i++) rows[i] = i;
   g.shuffle(rows);
   for(int t = 0; t < k; t++) y[rows[t]] = (t == 0) ? (g.chance(0.5) ? 1 : -1) : smallNonzero(g, 3);
   // with probability make z = y^T A zero on some columns by giving free variables etc.
   for(int j = 0; j < n; j++)
   {
      M.obj[j] = g.range(-5, 5);
      Q z = 0;
      for(int i = 0; i < m; i++) z += y[i] * M.A[i][j];
      int a = g.range(-4, 4), w = g.range(0, 5);
      if(z > 0)
      {
         M.lo[j] = a;
         M.up[j] = g.chance(0.5) ? PINF() : Q(a + w);
      }
      else if(z < 0)
      {
         M.up[j] = a;
         M.lo[j] = g.chance(0.5) ? NINF() : Q(a - w);
      }
      else
      {
         int t = g.range(0, 3);
         M.lo[j] = t == 0 ? NINF() : Q(a);
         M.up[j] = t <= 1 ? PINF() : Q(a + w);
      }
   }
   // xmin = min over box of z.x
   Q xmin = 0;
   for(int j = 0; j < n; j++)
   {
      Q z = 0;
      for(int i = 0; i < m; i++) z += y[i] * M.A[i][j];
      if(z > 0) xmin += z * M.lo[j];
      else if(z < 0) xmin += z * M.up[j];
   }
   // want max of y.s over sides = xmin - margin
   Q target = xmin - g.range(1, 5);
   Q acc = 0;
   for(int t = 1; t < k; t++)
   {
      int i = rows[t];
      int a = g.range(-10, 10);
      if(y[i] > 0)
      {
         M.rhs[i] = a;
         M.lhs[i] = g.chance(0.5) ? NINF() : Q(a - g.range(0, 5));
      }
      else
      {
         M.lhs[i] = a;
         M.rhs[i] = g.chance(0.5) ? PINF() : Q(a + g.range(0, 5));
      }
      acc += y[i] * a;
   }
   {
      int i = rows[0];
      Q need = target - acc;        // y_i * side = need, y_i = +-1
      if(y[i] > 0)
      {
         M.rhs[i] = need;
         M.lhs[i] = g.chance(0.5) ? NINF() : Q(need - g.range(0, 5));
      }
      else
      {
         M.lhs[i] = -need;
         M.rhs[i] = g.chance(0.5) ? PINF() : Q(-need + g.range(0, 5));
      }
   }
   for(int t = k; t < m; t++)
   {
      int i = rows[t];
      int a = g.range(-12, 12), w = g.range(0, 9);
      int ty = g.range(0, 4);
      M.lhs[i] = (ty == 0 || ty == 4) ? NINF() : Q(a);
      M.rhs[i] = (ty == 1 || ty == 4) ? PINF() : (ty == 2 ? Q(a) : Q(a + w));
   }
   P.has = true;
   P.status = REF_INFEASIBLE;
   P.farkas = y;
   return M;
}

// ---- planted unbounded
inline LPModel genPlantedUnbounded(Rng& g, Planted& P, int maxm = 10, int maxn = 10)
{
   LPModel M;
   M.family = "planted-unbounded";
   int m = g.range(0, maxm), n = g.range(1, maxn);
   randomMatrix(g, M, m, n, g.pick(std::vector<double> {0.3, 0.5, 0.8}), 6);
   randomSenseOffset(g, M);
   std::vector<Q> x0(n), d(n, Q(0));
   int k = g.range(1, std::min(n, 3));
   std::vector<int> cols(n);
   for(int j = 0; j < n; j++) cols[j] = j;
   g.shuffle(cols);
   for(int t = 0; t < k; t++) d[cols[t]] = smallNonzero(g, 3);
   for(int j = 0; j < n; j++)
   {
      int a = g.range(-4, 4), w = g.range(0, 4);
      x0[j] = a;
      if(d[j] > 0)
      {
         M.up[j] = PINF();
         M.lo[j] = g.chance(0.7) ? Q(a - w) : NINF();
      }
      else if(d[j] < 0)
      {
         M.lo[j] = NINF();
         M.up[j] = g.chance(0.7) ? Q(a + w) : PINF();
      }
      else
      {
         int t = g.range(0, 4);
         M.lo[j] = t == 0 ? NINF() : Q(a - w);
         M.up[j] = t == 1 ? PINF() : Q(a + g.range(0, 4));
      }
      M.obj[j] = g.range(-6, 6);
   }
   for(int i = 0; i < m; i++)
   {
      Q a = M.activity(i, x0), ad = M.activity(i, d);
      int w1 = g.range(0, 6), w2 = g.range(0, 6);
      if(ad > 0)
      {
         M.rhs[i] = PINF();
         M.lhs[i] = g.chance(0.8) ? Q(a - w1) : NINF();
      }
      else if(ad < 0)
      {
         M.lhs[i] = NINF();
         M.rhs[i] = g.chance(0.8) ? Q(a + w2) : PINF();
      }
      else
      {
         int t = g.range(0, 4);
         M.lhs[i] = t == 0 ? NINF() : Q(a - w1);
         M.rhs[i] = t == 1 ? PINF() : (t == 2 ? Q(a - w1) : Q(a + w2));
         if(t == 2) M.lhs[i] = M.rhs[i] = a;
      }
   }
   Q cd = 0;
   for(int j = 0; j < n; j++) cd += M.obj[j] * d[j];
   Q want = M.sense > 0 ? Q(1) : Q(-1);    // need cd*sign >= 1
   if(cd * want < 1)
   {
      if(cd * want <= -1)
      {
         for(int j = 0; j < n; j++) M.obj[j] = -M.obj[j];
      }
      else
      {
         int j = cols[0];
         M.obj[j] += (d[j] > 0 ? want : Q(-want)) * 2;
         cd = 0;
         for(int jj = 0; jj < n; jj++) cd += M.obj[jj] * d[jj];
         if(cd * want < 1)
         {
            for(int jj = 0; jj < n; jj++) M.obj[jj] = -M.obj[jj];
         }
      }
   }
   P.has = true;
   P.status = REF_UNBOUNDED;
   P.x0 = x0;
   P.ray = d;
   return M;
}

// ---- block composition (primal-and-dual infeasible etc.)
inline LPModel blockCompose(const LPModel& A, const LPModel& B)
{
   LPModel M;
   M.m = A.m + B.m;
   M.n = A.n + B.n;
   M.sense = A.sense;
   M.offset = A.offset;
   M.A.assign(M.m, std::vector<Q>(M.n, Q(0)));
   for(int i = 0; i < A.m; i++) for(int j = 0; j < A.n; j++) M.A[i][j] = A.A[i][j];
   for(int i = 0; i < B.m; i++) for(int j = 0; j < B.n; j++) M.A[A.m + i][A.n + j] = B.A[i][j];
   M.lhs = A.lhs;
   M.lhs.insert(M.lhs.end(), B.lhs.begin(), B.lhs.end());
   M.rhs = A.rhs;
   M.rhs.insert(M.rhs.end(), B.rhs.begin(), B.rhs.end());
   M.lo = A.lo;
   M.lo.insert(M.lo.end(), B.lo.begin(), B.lo.end());
   M.up = A.up;
   M.up.insert(M.up.end(), B.up.begin(), B.up.end());
   M.obj = A.obj;
   for(int j = 0; j < B.n; j++) M.obj.push_back(B.sense == A.sense ? B.obj[j] : Q(-B.obj[j]));
   return M;
}

inline LPModel genPlantedBoth(Rng& g, Planted& P)
{
   Planted p1, p2;
   LPModel a = genPlantedInfeasible(g, p1, 5, 5);
   LPModel b = genPlantedUnbounded(g, p2, 5, 5);
   LPModel M = blockCompose(a, b);
   M.family = "planted-both";
   P.has = true;
   P.status = REF_INFEASIBLE;
   P.farkas = p1.farkas;
   P.farkas.resize(M.m, Q(0));
   return M;
}

// ---- permute rows/cols randomly (keeps planted vectors aligned)
inline void permuteModel(Rng& g, LPModel& M, Planted* P)
{
   std::vector<int> rp(M.m), cp(M.n);
   for(int i = 0; i < M.m; i++) rp[i] = i;
   for(int j = 0; j < M.n; j++) cp[j] = j;
   g.shuffle(rp);
   g.shuffle(cp);
   LPModel N = M;
   for(int i = 0; i < M.m; i++)
   {
      N.lhs[i] = M.lhs[rp[i]];
      N.rhs[i] = M.rhs[rp[i]];
      for(int j = 0; j < M.n; j++) N.A[i][j] = M.A[rp[i]][cp[j]];
   }
   for(int j = 0; j < M.n; j++)
   {
      N.lo[j] = M.lo[cp[j]];
      N.up[j] = M.up[cp[j]];
      N.obj[j] = M.obj[cp[j]];
   }
   auto pr = [&](std::vector<Q>& v, const std::vector<int>& p)
   {
      if(v.empty()) return;
      std::vector<Q> w(v.size());
      for(size_t i = 0; i < v.size(); i++) w[i] = v[p[i]];
      v.swap(w);
   };
   if(P)
   {
      pr(P->x, cp);
      pr(P->r, cp);
      pr(P->x0, cp);
      pr(P->ray, cp);
      pr(P->y, rp);
      pr(P->farkas, rp);
   }
   M = N;
}

// ---- presolve-rich: inject structures into a base LP (planted truth is dropped; truth by refsolve)
inline LPModel genPresolveRich(Rng& g, int maxm = 8, int maxn = 8)
{
   Planted P;
   LPModel M = g.chance(0.7) ? genPlantedOpt(g, P, maxm, maxn, g.chance(0.3)) : genArbitrary(g, maxm, maxn);
   M.family = "presolve-rich";
   std::string tags;
   int ninj = g.range(2, 7);
   for(int t = 0; t < ninj; t++)
   {
      int kind = g.range(0, 15);
      int m = M.m, n = M.n;
      std::vector<Q> zr(n, Q(0)), zc(m, Q(0));
      switch(kind)
      {
      case 0:   // empty row (feasible or occasionally infeasible sides)
      {
         int a = g.range(0, 5);
         M.addRow(g.chance(0.5) ? NINF() : Q(-a), zr, g.chance(0.5) ? PINF() : Q(a));
         tags += "emptyrow,";
         break;
      }
      case 1:   // singleton row = bound
      {
         std::vector<Q> r = zr;
         int j = g.range(0, n - 1);
         r[j] = smallNonzero(g, 4);
         int a = g.range(-8, 8);
         int ty = g.range(0, 3);
         M.addRow(ty == 0 ? NINF() : Q(a), r, ty == 1 ? PINF() : (ty == 2 ? Q(a) : Q(a + g.range(0, 9))));
         tags += "singletonrow,";
         break;
      }
      case 2:   // duplicate row (multiple of an existing row)
      {
         if(m == 0) break;
         int i = g.range(0, m - 1);
         int f = smallNonzero(g, 3);
         std::vector<Q> r(n);
         for(int j = 0; j < n; j++) r[j] = M.A[i][j] * f;
         Q l = M.lhs[i], u = M.rhs[i];
         int sh = g.range(-2, 2);
         auto sc = [&](const Q & v, bool isl) -> Q
         {
            if(isNInf(v) || isPInf(v)) return v;
            return Q(v * f + (isl ? -std::abs(sh) : std::abs(sh)) * (g.chance(0.5) ? 1 : 0));
         };
         Q nl = sc(l, true), nu = sc(u, false);
         if(f < 0)
         {
            Q a = isPInf(u) ? NINF() : Q(u * f), b = isNInf(l) ? PINF() : Q(l * f);
            nl = a;
            nu = b;
         }
         M.addRow(nl, r, nu);
         tags += "duprow,";
         break;
      }
      case 3:   // empty column
      {
         int a = g.range(-3, 3);
         int c = g.range(-4, 4);
         // keep bounded in the direction of optimisation most of the time
         M.addCol(c, g.chance(0.85) ? Q(a) : NINF(), g.chance(0.85) ? Q(a + g.range(0, 5)) : PINF(), zc);
         tags += "emptycol,";
         break;
      }
      case 4:   // fixed variable
      {
         std::vector<Q> c = zc;
         for(int i = 0; i < m; i++) if(g.chance(0.4)) c[i] = smallNonzero(g, 5);
         int a = g.range(-4, 4);
         M.addCol(g.range(-5, 5), a, a, c);
         tags += "fixedcol,";
         break;
      }
      case 5:   // singleton column (free or bounded)
      {
         if(m == 0) break;
         std::vector<Q> c = zc;
         c[g.range(0, m - 1)] = smallNonzero(g, 4);
         int ty = g.range(0, 3);
         int a = g.range(-4, 4);
         M.addCol(g.range(-4, 4), ty == 0 ? NINF() : Q(a), (ty == 0 || ty == 1) ? PINF() : Q(a + g.range(0, 6)), c);
         tags += "singletoncol,";
         break;
      }
      case 6:   // duplicate / parallel column
      {
         if(n == 0) break;
         int j = g.range(0, n - 1);
         int f = g.chance(0.6) ? 1 : smallNonzero(g, 2);
         std::vector<Q> c(m);
         for(int i = 0; i < m; i++) c[i] = M.A[i][j] * f;
         int a = g.range(-3, 3);
         M.addCol(g.chance(0.5) ? Q(M.obj[j] * f) : Q(M.obj[j] * f + g.range(-2, 2)), g.chance(0.8) ? Q(a) : NINF(), g.chance(0.6) ? Q(a + g.range(0,
                  5)) : PINF(), c);
         tags += "dupcol,";
         break;
      }
      case 7:   // doubleton equation  a x_j + b x_k = c
      {
         if(n < 2) break;
         std::vector<Q> r = zr;
         int j = g.range(0, n - 1), k = g.range(0, n - 2);
         if(k >= j) k++;
         r[j] = smallNonzero(g, 4);
         r[k] = smallNonzero(g, 4);
         int a = g.range(-6, 6);
         M.addRow(a, r, a);
         tags += "doubleton,";
         break;
      }
      case 8:   // forcing row: all coefficients >=0 on vars with finite lower, rhs = min activity
      {
         std::vector<Q> r = zr;
         Q mn = 0;
         int cnt = 0;
         for(int j = 0; j < n; j++) if(!isNInf(M.lo[j]) && g.chance(0.5))
            {
               r[j] = g.range(1, 4);
               mn += r[j] * M.lo[j];
               cnt++;
            }
         if(cnt == 0) break;
         M.addRow(NINF(), r, mn);
         tags += "forcingrow,";
         break;
      }
      case 9:   // redundant row (bounds imply it)
      {
         std::vector<Q> r = zr;
         Q mx = 0;
         int cnt = 0;
         for(int j = 0; j < n; j++) if(!isPInf(M.up[j]) && !isNInf(M.lo[j]) && g.chance(0.6))
            {
               int a = smallNonzero(g, 3);
               r[j] = a;
               mx += a > 0 ? Q(a * M.up[j]) : Q(a * M.lo[j]);
               cnt++;
            }
         if(cnt == 0) break;
         M.addRow(NINF(), r, mx + g.range(0, 3));
         tags += "redundantrow,";
         break;
      }
      case 10:   // free row
      {
         std::vector<Q> r = zr;
         for(int j = 0; j < n; j++) if(g.chance(0.4)) r[j] = smallNonzero(g, 5);
         M.addRow(NINF(), r, PINF());
         tags += "freerow,";
         break;
      }
      case 11:   // dominated column: cost worse, same column, wider use
      {
         if(n == 0) break;
         int j = g.range(0, n - 1);
         std::vector<Q> c(m);
         for(int i = 0; i < m; i++) c[i] = M.A[i][j];
         Q cost = M.obj[j] + (M.sense > 0 ? -1 : 1) * g.range(0, 3);
         M.addCol(cost, 0, g.chance(0.5) ? PINF() : Q(g.range(1, 5)), c);
         tags += "dominatedcol,";
         break;
      }
      case 12:   // tighten a bound to make a variable fixed through its bounds
      {
         if(n == 0) break;
         int j = g.range(0, n - 1);
         if(!isNInf(M.lo[j]))
         {
            M.up[j] = M.lo[j];
            tags += "fixbybound,";
         }
         break;
      }
      case 13:   // zero objective column with one-signed coefficients (dual fixing)
      {
         if(m == 0) break;
         std::vector<Q> c = zc;
         for(int i = 0; i < m; i++) if(g.chance(0.4)) c[i] = g.range(1, 4);
         int a = g.range(-2, 2);
         M.addCol((M.sense > 0 ? -1 : 1) * g.range(0, 3), a, g.chance(0.5) ? PINF() : Q(a + g.range(1, 5)), c);
         tags += "dualfixcol,";
         break;
      }
      case 14:   // row with tiny range / equal sides via range
      {
         if(m == 0) break;
         int i = g.range(0, m - 1);
         if(!isNInf(M.lhs[i]) && isPInf(M.rhs[i]))
         {
            M.rhs[i] = M.lhs[i] + g.range(0, 2);
            tags += "rangedrow,";
         }
         break;
      }
      default:  // implied free column singleton in an equality
      {
         if(m == 0) break;
         std::vector<Q> c = zc;
         int i = g.range(0, m - 1);
         c[i] = smallNonzero(g, 3);
         M.addCol(g.range(-3, 3), NINF(), PINF(), c);
         tags += "freesingleton,";
         break;
      }
      }
   }
   M.tags = tags;
   if(g.chance(0.8)) permuteModel(g, M, nullptr);
   return M;
}

// ---- badly scaled: multiply rows by 2^a_i, columns by 2^b_j (exact), optionally by 10^k (values stay exact doubles
// because the result is rounded to double first and then taken as the model value)
inline Q pow2q(int e)
{
   Q r = 1;
   Q two = 2;
   for(int k = 0; k < std::abs(e); k++) r *= two;
   return e >= 0 ? r : Q(1 / r);
}
inline void scaleModel(LPModel& M, const std::vector<int>& re, const std::vector<int>& ce, Planted* P)
{
   // x' = x / 2^ce  (column j multiplied by 2^ce),   row i multiplied by 2^re
   for(int i = 0; i < M.m; i++)
   {
      Q f = pow2q(re[i]);
      for(int j = 0; j < M.n; j++) if(M.A[i][j] != 0) M.A[i][j] *= f * pow2q(ce[j]);
      if(!isNInf(M.lhs[i])) M.lhs[i] *= f;
      if(!isPInf(M.rhs[i])) M.rhs[i] *= f;
   }
   for(int j = 0; j < M.n; j++)
   {
      Q f = pow2q(ce[j]);
      M.obj[j] *= f;
      if(!isNInf(M.lo[j])) M.lo[j] /= f;
      if(!isPInf(M.up[j])) M.up[j] /= f;
   }
   if(P && P->has)
   {
      for(size_t j = 0; j < P->x.size(); j++) P->x[j] /= pow2q(ce[j]);
      for(size_t j = 0; j < P->r.size(); j++) P->r[j] *= pow2q(ce[j]);
      for(size_t i = 0; i < P->y.size(); i++) P->y[i] /= pow2q(re[i]);
      for(size_t j = 0; j < P->x0.size(); j++) P->x0[j] /= pow2q(ce[j]);
      for(size_t j = 0; j < P->ray.size(); j++) P->ray[j] /= pow2q(ce[j]);
      for(size_t i = 0; i < P->farkas.size(); i++) P->farkas[i] /= pow2q(re[i]);
   }
}
inline void badlyScale(Rng& g, LPModel& M, Planted* P, int maxexp = 20)
{
   std::vector<int> re(M.m), ce(M.n);
   int mode = g.range(0, 2);
   for(int i = 0; i < M.m; i++) re[i] = mode == 1 ? 0 : g.range(-maxexp, maxexp);
   for(int j = 0; j < M.n; j++) ce[j] = mode == 2 ? 0 : g.range(-maxexp, maxexp);
   scaleModel(M, re, ce, P);
   M.family += "+scaled";
}

// every finite number must be an exact double for the real-interface workloads
inline bool allExactDoubles(const LPModel& M)
{
   auto ok = [](const Q & v)
   {
      if(isPInf(v) || isNInf(v)) return true;
      return qd(dq(v)) == v;
   };
   for(int i = 0; i < M.m; i++)
   {
      if(!ok(M.lhs[i]) || !ok(M.rhs[i])) return false;
      for(int j = 0; j < M.n; j++) if(!ok(M.A[i][j])) return false;
   }
   for(int j = 0; j < M.n; j++) if(!ok(M.lo[j]) || !ok(M.up[j]) || !ok(M.obj[j])) return false;
   return ok(M.offset);
}

// ---- family dispatcher
struct Instance
{
   LPModel M;
   Planted P;
   Truth T;          // filled by ensureTruth
   bool truthDone = false;
};

inline void ensureTruth(Instance& I)
{
   if(I.truthDone) return;
   I.truthDone = true;
   if(I.P.has)
   {
      // certify the planted certificate exactly; a failure here is a generator bug -> no truth
      if(I.P.status == REF_OPTIMAL)
      {
         OptResid o = optResiduals(I.M, I.P.x, std::vector<Q>(), I.P.y, I.P.r);
         if(optExact(o))
         {
            I.T.known = I.T.robust = true;
            I.T.status = REF_OPTIMAL;
            I.T.objval = I.P.objval;
            return;
         }
      }
      else if(I.P.status == REF_INFEASIBLE)
      {
         FarkasRes f = checkFarkas(I.M, I.P.farkas);
         if(f.proves && f.margin >= 1)
         {
            I.T.known = I.T.robust = true;
            I.T.status = REF_INFEASIBLE;
            return;
         }
      }
      else if(I.P.status == REF_UNBOUNDED)
      {
         RayRes r = checkRay(I.M, I.P.ray);
         bool feas = true;
         for(int j = 0; j < I.M.n && feas; j++)
         {
            if(!isNInf(I.M.lo[j]) && I.P.x0[j] < I.M.lo[j]) feas = false;
            if(!isPInf(I.M.up[j]) && I.P.x0[j] > I.M.up[j]) feas = false;
         }
         for(int i = 0; i < I.M.m && feas; i++)
         {
            Q a = I.M.activity(i, I.P.x0);
            if(!isNInf(I.M.lhs[i]) && a < I.M.lhs[i]) feas = false;
            if(!isPInf(I.M.rhs[i]) && a > I.M.rhs[i]) feas = false;
         }
         if(r.valid && feas && r.improve >= 1)
         {
            // robustness of "unbounded" w.r.t. tolerances: feasible point has slack? not needed: a valid ray with
            // improvement >= 1 and an exactly feasible point.
            I.T.known = I.T.robust = true;
            I.T.status = REF_UNBOUNDED;
            return;
         }
      }
      sink().count("gen.planted_not_certified");
   }
   I.T = computeTruth(I.M, true);
}

inline Instance genFamily(Rng& g, const std::string& fam, int maxm = 10, int maxn = 10)
{
   Instance I;
   if(fam == "planted-opt") I.M = genPlantedOpt(g, I.P, maxm, maxn, false);
   else if(fam == "degenerate") I.M = genPlantedOpt(g, I.P, maxm, maxn, true);
   else if(fam == "planted-infeasible") I.M = genPlantedInfeasible(g, I.P, maxm, maxn);
   else if(fam == "planted-unbounded") I.M = genPlantedUnbounded(g, I.P, maxm, maxn);
   else if(fam == "planted-both") I.M = genPlantedBoth(g, I.P);
   else if(fam == "presolve-rich") I.M = genPresolveRich(g, maxm, maxn);
   else if(fam == "badly-scaled")
   {
      int b = g.range(0, 3);
      if(b == 0) I.M = genPlantedOpt(g, I.P, maxm, maxn, false);
      else if(b == 1) I.M = genPlantedInfeasible(g, I.P, maxm, maxn);
      else if(b == 2) I.M = genPlantedUnbounded(g, I.P, maxm, maxn);
      else I.M = genPlantedOpt(g, I.P, maxm, maxn, true);
      int mexp = g.pick(std::vector<int> {3, 6, 20, 40});
      badlyScale(g, I.M, &I.P, mexp);
      I.M.family = "badly-scaled";
      // beyond 2^6 the planted margins (>= 1 before scaling) are no longer far above the absolute tolerances of a
      // floating-point solver, so no verdict-level truth is claimed for such instances (certificates are still checked)
      if(mexp > 6)
      {
         I.P.has = false;
         I.truthDone = true;
      }
   }
   else I.M = genArbitrary(g, maxm, maxn);
   if(I.M.family != "presolve-rich" && g.chance(0.5)) permuteModel(g, I.M, &I.P);
   return I;
}

} // namespace vl
