// vlib/cert.hpp -- exact certificate checkers over the reference model.
// All arithmetic is rational; thresholds are applied by the caller.
#pragma once
#include "model.hpp"

namespace vl
{
struct OptResid
{
   Q boundViol = 0, sideViol = 0, slackResid = 0, rcResid = 0, ySignViol = 0, rSignViol = 0;
   Q pobj = 0, dobj = 0, gap = 0;     // gap = (pobj-dobj) for min, (dobj-pobj) for max; >= 0 for feasible pairs
   Q scale = 1;                       // natural scale of the dual objective terms
   int worstBound = -1, worstSide = -1, worstRc = -1, worstYs = -1, worstRs = -1, worstSl = -1;
};

// x (n), s (m, may be empty => use A x), y (m), r (n, may be empty => use c - A^T y)
// zeroTol: |y_i|,|r_j| <= zeroTol count as zero for the infinite-bound terms of the dual objective
inline OptResid optResiduals(const LPModel& M, const std::vector<Q>& x, const std::vector<Q>& s,
                             const std::vector<Q>& y, const std::vector<Q>& r, const Q& zeroTol = Q(0))
{
   OptResid o;
   auto upd = [](Q & cur, const Q & v, int& wi, int i)
   {
      if(v > cur)
      {
         cur = v;
         wi = i;
      }
   };
   for(int j = 0; j < M.n; j++)
   {
      if(!isNInf(M.lo[j]) && x[j] < M.lo[j]) upd(o.boundViol, M.lo[j] - x[j], o.worstBound, j);
      if(!isPInf(M.up[j]) && x[j] > M.up[j]) upd(o.boundViol, x[j] - M.up[j], o.worstBound, j);
   }
   std::vector<Q> act(M.m);
   for(int i = 0; i < M.m; i++)
   {
      act[i] = M.activity(i, x);
      if(!s.empty()) upd(o.slackResid, qabs(act[i] - s[i]), o.worstSl, i);
      const Q& sv = s.empty() ? act[i] : s[i];
      if(!isNInf(M.lhs[i]) && sv < M.lhs[i]) upd(o.sideViol, M.lhs[i] - sv, o.worstSide, i);
      if(!isPInf(M.rhs[i]) && sv > M.rhs[i]) upd(o.sideViol, sv - M.rhs[i], o.worstSide, i);
      if(!isNInf(M.lhs[i]) && act[i] < M.lhs[i]) upd(o.sideViol, M.lhs[i] - act[i], o.worstSide, i);
      if(!isPInf(M.rhs[i]) && act[i] > M.rhs[i]) upd(o.sideViol, act[i] - M.rhs[i], o.worstSide, i);
   }
   // reduced costs
   std::vector<Q> rc(M.n);
   for(int j = 0; j < M.n; j++)
   {
      Q t = M.obj[j];
      for(int i = 0; i < M.m; i++) if(M.A[i][j] != 0 && y[i] != 0) t -= M.A[i][j] * y[i];
      rc[j] = t;
      if(!r.empty()) upd(o.rcResid, qabs(t - r[j]), o.worstRc, j);
   }
   const std::vector<Q>& rr = r.empty() ? rc : r;
   // sign conditions and dual objective, in "min" orientation: multiply by sg
   // min: y_i>0 needs finite lhs (contributes y*lhs), y_i<0 needs finite rhs; r_j>0 needs finite lo, r_j<0 finite up.
   // max: all signs flip.
   int sg = M.sense > 0 ? -1 : 1;
   o.pobj = M.objval(x);
   Q d = M.offset;
   Q sc = 1 + qabs(o.pobj);
   for(int i = 0; i < M.m; i++)
   {
      Q yy = sg > 0 ? y[i] : Q(-y[i]);
      if(yy > 0)
      {
         if(isNInf(M.lhs[i]))
         {
            upd(o.ySignViol, yy, o.worstYs, i);
         }
         else
         {
            d += y[i] * M.lhs[i];
            sc += qabs(y[i] * M.lhs[i]);
         }
      }
      else if(yy < 0)
      {
         if(isPInf(M.rhs[i]))
         {
            upd(o.ySignViol, -yy, o.worstYs, i);
         }
         else
         {
            d += y[i] * M.rhs[i];
            sc += qabs(y[i] * M.rhs[i]);
         }
      }
   }
   for(int j = 0; j < M.n; j++)
   {
      Q q = sg > 0 ? rr[j] : Q(-rr[j]);
      if(q > 0)
      {
         if(isNInf(M.lo[j]))
         {
            upd(o.rSignViol, q, o.worstRs, j);
         }
         else
         {
            d += rr[j] * M.lo[j];
            sc += qabs(rr[j] * M.lo[j]);
         }
      }
      else if(q < 0)
      {
         if(isPInf(M.up[j]))
         {
            upd(o.rSignViol, -q, o.worstRs, j);
         }
         else
         {
            d += rr[j] * M.up[j];
            sc += qabs(rr[j] * M.up[j]);
         }
      }
   }
   (void)zeroTol;
   o.dobj = d;
   o.gap = sg > 0 ? Q(o.pobj - o.dobj) : Q(o.dobj - o.pobj);
   o.scale = sc;
   return o;
}

inline bool optExact(const OptResid& o)
{
   return o.boundViol == 0 && o.sideViol == 0 && o.slackResid == 0 && o.rcResid == 0 && o.ySignViol == 0 && o.rSignViol == 0
          && o.gap == 0;
}

// ---------------------------------------------------------------- Farkas
// Orientation-free: y proves infeasibility iff the interval of (y^T A) x over the column box and the
// interval of y.s over s in [lhs,rhs] are disjoint.  noise (relative) zeroes tiny z_j / y_i on infinite sides.
struct FarkasRes
{
   bool proves = false;
   Q margin = 0;       // positive gap between the intervals (0 if not a proof)
   Q norm = 0;         // ||y||_1-ish scale for relative thresholds
   std::string why;
};
inline FarkasRes checkFarkas(const LPModel& M, const std::vector<Q>& y, double noise = 0.0)
{
   FarkasRes f;
   Q ymax = 0;
   for(int i = 0; i < M.m; i++)
   {
      f.norm += qabs(y[i]);
      if(qabs(y[i]) > ymax) ymax = qabs(y[i]);
   }
   if(ymax == 0)
   {
      f.why = "zero vector";
      return f;
   }
   Q nz = noise > 0 ? Q(qd(noise) * ymax) : Q(0);
   // interval of z.x
   bool xminInf = false, xmaxInf = false;
   Q xmin = 0, xmax = 0;
   for(int j = 0; j < M.n; j++)
   {
      Q z = 0, colnorm = 0;
      for(int i = 0; i < M.m; i++) if(M.A[i][j] != 0 && y[i] != 0)
         {
            z += y[i] * M.A[i][j];
            colnorm += qabs(M.A[i][j]);
         }
      if(z == 0) continue;
      bool tiny = noise > 0 && qabs(z) <= nz * (colnorm > 1 ? colnorm : Q(1));
      if(z > 0)
      {
         if(isNInf(M.lo[j]))
         {
            if(!tiny) xminInf = true;
         }
         else xmin += z * M.lo[j];
         if(isPInf(M.up[j]))
         {
            if(!tiny) xmaxInf = true;
         }
         else xmax += z * M.up[j];
      }
      else
      {
         if(isPInf(M.up[j]))
         {
            if(!tiny) xminInf = true;
         }
         else xmin += z * M.up[j];
         if(isNInf(M.lo[j]))
         {
            if(!tiny) xmaxInf = true;
         }
         else xmax += z * M.lo[j];
      }
   }
   bool sminInf = false, smaxInf = false;
   Q smin = 0, smax = 0;
   for(int i = 0; i < M.m; i++)
   {
      if(y[i] == 0) continue;
      bool tiny = noise > 0 && qabs(y[i]) <= nz;
      if(y[i] > 0)
      {
         if(isNInf(M.lhs[i]))
         {
            if(!tiny) sminInf = true;
         }
         else smin += y[i] * M.lhs[i];
         if(isPInf(M.rhs[i]))
         {
            if(!tiny) smaxInf = true;
         }
         else smax += y[i] * M.rhs[i];
      }
      else
      {
         if(isPInf(M.rhs[i]))
         {
            if(!tiny) sminInf = true;
         }
         else smin += y[i] * M.rhs[i];
         if(isNInf(M.lhs[i]))
         {
            if(!tiny) smaxInf = true;
         }
         else smax += y[i] * M.lhs[i];
      }
   }
   // need z.x == y.s for feasible x; disjoint if xmin > smax or xmax < smin
   Q best = 0;
   bool ok = false;
   if(!xminInf && !smaxInf && xmin > smax)
   {
      ok = true;
      best = xmin - smax;
   }
   if(!xmaxInf && !sminInf && xmax < smin)
   {
      Q g = smin - xmax;
      if(!ok || g > best) best = g;
      ok = true;
   }
   f.proves = ok;
   f.margin = ok ? best : Q(0);
   if(!ok) f.why = std::string("intervals overlap: x[") + (xminInf ? "-inf" : qs(xmin)) + "," + (xmaxInf ? "inf" : qs(
                         xmax)) + "] s[" + (sminInf ? "-inf" : qs(smin)) + "," + (smaxInf ? "inf" : qs(smax)) + "]";
   return f;
}

// ---------------------------------------------------------------- primal ray
struct RayRes
{
   bool valid = false;
   Q improve = 0;     // c.d in min orientation (negative = improving); reported as positive improvement
   Q norm = 0;
   std::string why;
};
inline RayRes checkRay(const LPModel& M, const std::vector<Q>& d, double noise = 0.0)
{
   RayRes r;
   Q dmax = 0;
   for(int j = 0; j < M.n; j++) if(qabs(d[j]) > dmax) dmax = qabs(d[j]);
   r.norm = dmax;
   if(dmax == 0)
   {
      r.why = "zero ray";
      return r;
   }
   Q nz = noise > 0 ? Q(qd(noise) * dmax) : Q(0);
   for(int j = 0; j < M.n; j++)
   {
      if(d[j] > nz && !isPInf(M.up[j]))
      {
         r.why = "d[" + std::to_string(j) + "]>0 with finite upper";
         return r;
      }
      if(d[j] < -nz && !isNInf(M.lo[j]))
      {
         r.why = "d[" + std::to_string(j) + "]<0 with finite lower";
         return r;
      }
   }
   for(int i = 0; i < M.m; i++)
   {
      Q a = 0, rn = 0;
      for(int j = 0; j < M.n; j++) if(M.A[i][j] != 0 && d[j] != 0)
         {
            a += M.A[i][j] * d[j];
            rn += qabs(M.A[i][j]);
         }
      Q t = nz * (rn > 1 ? rn : Q(1));
      if(a > t && !isPInf(M.rhs[i]))
      {
         r.why = "(Ad)[" + std::to_string(i) + "]>0 with finite rhs";
         return r;
      }
      if(a < -t && !isNInf(M.lhs[i]))
      {
         r.why = "(Ad)[" + std::to_string(i) + "]<0 with finite lhs";
         return r;
      }
   }
   Q cd = 0, cn = 0;
   for(int j = 0; j < M.n; j++) if(M.obj[j] != 0)
      {
         cd += M.obj[j] * d[j];
         cn += qabs(M.obj[j]);
      }
   Q imp = M.sense > 0 ? cd : Q(-cd);   // positive = improving
   r.improve = imp;
   if(imp <= nz * (cn > 1 ? cn : Q(1)))
   {
      r.why = "objective does not strictly improve along ray: " + qs(imp);
      return r;
   }
   r.valid = true;
   return r;
}

// ---------------------------------------------------------------- exact linear algebra (small dense)
// rank / inverse by Gaussian elimination over Q.  Returns false if singular.
inline bool invertQ(std::vector<std::vector<Q>> B, std::vector<std::vector<Q>>& inv)
{
   int n = (int)B.size();
   inv.assign(n, std::vector<Q>(n, Q(0)));
   for(int i = 0; i < n; i++) inv[i][i] = 1;
   for(int c = 0; c < n; c++)
   {
      int p = -1;
      for(int r = c; r < n; r++) if(B[r][c] != 0)
         {
            p = r;
            break;
         }
      if(p < 0) return false;
      std::swap(B[p], B[c]);
      std::swap(inv[p], inv[c]);
      Q piv = B[c][c];
      for(int k = 0; k < n; k++)
      {
         if(B[c][k] != 0) B[c][k] /= piv;
         if(inv[c][k] != 0) inv[c][k] /= piv;
      }
      for(int r = 0; r < n; r++) if(r != c && B[r][c] != 0)
         {
            Q f = B[r][c];
            for(int k = 0; k < n; k++)
            {
               if(B[c][k] != 0) B[r][k] -= f * B[c][k];
               if(inv[c][k] != 0) inv[r][k] -= f * inv[c][k];
            }
         }
   }
   return true;
}
inline bool nonsingularQ(std::vector<std::vector<Q>> B)
{
   int n = (int)B.size();
   for(int c = 0; c < n; c++)
   {
      int p = -1;
      for(int r = c; r < n; r++) if(B[r][c] != 0)
         {
            p = r;
            break;
         }
      if(p < 0) return false;
      std::swap(B[p], B[c]);
      for(int r = c + 1; r < n; r++) if(B[r][c] != 0)
         {
            Q f = B[r][c] / B[c][c];
            for(int k = c; k < n; k++) if(B[c][k] != 0) B[r][k] -= f * B[c][k];
         }
   }
   return true;
}
// solve B x = b exactly (B nonsingular); returns false if singular
inline bool solveQ(std::vector<std::vector<Q>> B, std::vector<Q> b, std::vector<Q>& x)
{
   int n = (int)B.size();
   for(int c = 0; c < n; c++)
   {
      int p = -1;
      for(int r = c; r < n; r++) if(B[r][c] != 0)
         {
            p = r;
            break;
         }
      if(p < 0) return false;
      std::swap(B[p], B[c]);
      std::swap(b[p], b[c]);
      for(int r = c + 1; r < n; r++) if(B[r][c] != 0)
         {
            Q f = B[r][c] / B[c][c];
            for(int k = c; k < n; k++) if(B[c][k] != 0) B[r][k] -= f * B[c][k];
            b[r] -= f * b[c];
         }
   }
   x.assign(n, Q(0));
   for(int c = n - 1; c >= 0; c--)
   {
      Q t = b[c];
      for(int k = c + 1; k < n; k++) if(B[c][k] != 0) t -= B[c][k] * x[k];
      x[c] = t / B[c][c];
   }
   return true;
}

// basis matrix from SoPlex-style basis indices: bind[i] >= 0 column, < 0 slack of row -1-bind[i] (unit vector)
inline std::vector<std::vector<Q>> basisMatrix(const LPModel& M, const std::vector<int>& bind)
{
   int m = M.m;
   std::vector<std::vector<Q>> B(m, std::vector<Q>(m, Q(0)));
   for(int k = 0; k < m; k++)
   {
      if(bind[k] >= 0)
      {
         for(int i = 0; i < m; i++) B[i][k] = M.A[i][bind[k]];
      }
      else B[-1 - bind[k]][k] = 1;
   }
   return B;
}

} // namespace vl
