// vlib/base.hpp -- RNG, exact rational helpers, JSON event output.
// Shared by every harness.  Header-only, no SoPlex dependency except the
// Rational type (boost gmp_rational), which is also what SoPlex uses.
#pragma once
#include <cstdint>
#include <cstdio>
#include <cstdlib>
#include <cstring>
#include <cmath>
#include <string>
#include <vector>
#include <map>
#include <set>
#include <sstream>
#include <algorithm>
#include <functional>
#include <boost/multiprecision/gmp.hpp>
#include <unistd.h>

#if defined(__SANITIZE_ADDRESS__)
extern "C" int __lsan_do_recoverable_leak_check();
#endif

namespace vl
{
typedef boost::multiprecision::number<boost::multiprecision::gmp_rational, boost::multiprecision::et_off> Q;
typedef boost::multiprecision::number<boost::multiprecision::gmp_int, boost::multiprecision::et_off> Z;

// ---------------------------------------------------------------- RNG
struct Rng
{
   uint64_t s[4];
   static uint64_t splitmix(uint64_t& x)
   {
      uint64_t z = (x += 0x9e3779b97f4a7c15ULL);
      z = (z ^ (z >> 30)) * 0xbf58476d1ce4e5b9ULL;
      z = (z ^ (z >> 27)) * 0x94d049bb133111ebULL;
      return z ^ (z >> 31);
   }
   Rng(uint64_t a = 1, uint64_t b = 0, uint64_t c = 0)
   {
      reseed(a, b, c);
   }
   void reseed(uint64_t a, uint64_t b, uint64_t c)
   {
      uint64_t x = a * 0x9E3779B97F4A7C15ULL ^ (b + 0x1234567) * 0xC2B2AE3D27D4EB4FULL ^ (c + 0x89abcdef) * 0x165667B19E3779F9ULL;
      for(int i = 0; i < 4; i++) s[i] = splitmix(x);
   }
   static uint64_t rotl(uint64_t x, int k)
   {
      return (x << k) | (x >> (64 - k));
   }
   uint64_t next()
   {
      uint64_t r = rotl(s[1] * 5, 7) * 9, t = s[1] << 17;
      s[2] ^= s[0];
      s[3] ^= s[1];
      s[1] ^= s[2];
      s[0] ^= s[3];
      s[2] ^= t;
      s[3] = rotl(s[3], 45);
      return r;
   }
   // uniform in [lo,hi]
   int range(int lo, int hi)
   {
      if(hi <= lo) return lo;
      return lo + (int)(next() % (uint64_t)(hi - lo + 1));
   }
   bool chance(double p)
   {
      return (next() >> 11) * (1.0 / 9007199254740992.0) < p;
   }
   double unit()
   {
      return (next() >> 11) * (1.0 / 9007199254740992.0);
   }
   template <class T> const T& pick(const std::vector<T>& v)
   {
      return v[(size_t)(next() % v.size())];
   }
   template <class T> void shuffle(std::vector<T>& v)
   {
      for(size_t i = v.size(); i > 1; i--) std::swap(v[i - 1], v[(size_t)(next() % i)]);
   }
};

inline uint64_t fnv(const std::string& s, uint64_t h = 1469598103934665603ULL)
{
   for(unsigned char c : s)
   {
      h ^= c;
      h *= 1099511628211ULL;
   }
   return h;
}

// ---------------------------------------------------------------- exact helpers
inline Q qd(double d)     // exact conversion (mpq_set_d is exact); d must be finite
{
   Q r;
   mpq_set_d(r.backend().data(), d);
   return r;
}
inline double dq(const Q& q)    // nearest-or-truncated double (only for reporting / thresholds)
{
   return q.convert_to<double>();
}
inline Q qabs(const Q& a)
{
   return a < 0 ? Q(-a) : a;
}
inline std::string qs(const Q& q)
{
   return q.str();
}
inline std::string ds(double d)
{
   char b[64];
   snprintf(b, sizeof b, "%.17g", d);
   return b;
}
inline uint64_t dbits(double d)
{
   uint64_t u;
   memcpy(&u, &d, 8);
   return u;
}
inline bool sameBits(double a, double b)
{
   return dbits(a) == dbits(b);
}
// correctly rounded (nearest-even) double of a rational
inline double roundNearest(const Q& q)
{
   if(q == 0) return 0.0;
   double t = mpq_get_d(q.backend().data());   // truncation toward zero
   if(std::isinf(t)) return t;
   Q qt = qd(t);
   if(qt == q) return t;
   double away = std::nextafter(t, q > 0 ? INFINITY : -INFINITY);
   if(std::isinf(away))
   {
      // beyond DBL_MAX: compare against the half-ulp threshold
      return t;
   }
   Q qa = qd(away);
   Q dl = qabs(q - qt), dh = qabs(qa - q);
   if(dl < dh) return t;
   if(dh < dl) return away;
   // tie: even mantissa
   return (dbits(t) & 1) == 0 ? t : away;
}
inline bool isAdjacentDouble(const Q& q, double d)   // d is one of the two doubles enclosing q (or equal)
{
   if(std::isnan(d) || std::isinf(d)) return false;
   Q qdv = qd(d);
   if(qdv == q) return true;
   double other = std::nextafter(d, qdv < q ? INFINITY : -INFINITY);
   if(std::isinf(other)) return true;
   Q qo = qd(other);
   return (qdv < q && q < qo) || (qo < q && q < qdv);
}

// ---------------------------------------------------------------- JSON / events
inline std::string jesc(const std::string& s)
{
   std::string o;
   for(unsigned char c : s)
   {
      if(c == '"') o += "\\\"";
      else if(c == '\\') o += "\\\\";
      else if(c == '\n') o += "\\n";
      else if(c == '\t') o += "\\t";
      else if(c == '\r') o += "\\r";
      else if(c < 0x20 || c >= 0x7f)
      {
         char b[8];
         snprintf(b, sizeof b, "\\u%04x", c);
         o += b;
      }
      else o += (char)c;
   }
   return o;
}

struct Json
{
   std::string s;
   bool first = true;
   Json()
   {
      s = "{";
   }
   Json& raw(const std::string& k, const std::string& v)
   {
      if(!first) s += ",";
      first = false;
      s += "\"" + jesc(k) + "\":" + v;
      return *this;
   }
   Json& str(const std::string& k, const std::string& v)
   {
      return raw(k, "\"" + jesc(v) + "\"");
   }
   Json& num(const std::string& k, long long v)
   {
      return raw(k, std::to_string(v));
   }
   Json& dbl(const std::string& k, double v)
   {
      if(std::isnan(v) || std::isinf(v)) return str(k, ds(v));
      return raw(k, ds(v));
   }
   Json& boolean(const std::string& k, bool v)
   {
      return raw(k, v ? "true" : "false");
   }
   std::string done() const
   {
      return s + "}";
   }
};

// Global per-process event sink.  One JSON object per line on stdout.
struct Sink
{
   std::string prop;
   long long curCase = -1;
   long long nviol = 0;
   std::map<std::string, long long> counters;          // name -> count (merged by driver)
   std::map<std::string, double> maxima;               // name -> max observed (merged by driver with max)
   std::map<std::string, std::set<uint64_t>> distinct;  // name -> set of hashes (driver merges sets)
   std::vector<std::string> samples;
   size_t maxSamples = 6;
   std::set<std::string> violKeysThisCase;

   void emit(const std::string& line)
   {
      fputs(line.c_str(), stdout);
      fputc('\n', stdout);
      fflush(stdout);
   }
   void begin(long long k, const std::string& desc = "")
   {
      curCase = k;
      violKeysThisCase.clear();
      Json j;
      j.str("ev", "begin").num("case", k);
      if(!desc.empty()) j.str("desc", desc);
      emit(j.done());
   }
   int sinceFlush = 0;
   void end(long long k)
   {
      leakCheck();
      Json j;
      j.str("ev", "end").num("case", k);
      emit(j.done());
      // periodic incremental summaries, so that the observations of completed cases survive a later crash of this worker
      if(++sinceFlush >= 25) flushSummary();
   }
   // LeakSanitizer check attributed to the current case (call before end()); leaks are keyed by the top soplex frames of
   // the allocation stack.  No-op in non-ASan builds.
   int leakEvery = 1;
   long long leakCalls = 0;
   std::set<std::string> seenLeaks;
   void leakCheck()
   {
#if defined(__SANITIZE_ADDRESS__)
      if(leakEvery <= 0 || (++leakCalls % leakEvery) != 0) return;
      fflush(stderr);
      FILE* tf = tmpfile();
      if(!tf) return;
      int saved = dup(2);
      dup2(fileno(tf), 2);
      int r = __lsan_do_recoverable_leak_check();
      fflush(stderr);
      dup2(saved, 2);
      close(saved);
      if(r)
      {
         std::string txt;
         rewind(tf);
         char buf[4096];
         size_t n;
         while((n = fread(buf, 1, sizeof buf, tf)) > 0 && txt.size() < 4000000) txt.append(buf, n);
         // one block per leaked allocation stack; LSan repeats old leaks on every call, so remember what was reported
         size_t bp = 0;
         while((bp = txt.find("irect leak of", bp)) != std::string::npos)
         {
            size_t be = txt.find("irect leak of", bp + 10);
            std::string blk = txt.substr(bp, be == std::string::npos ? std::string::npos : be - bp);
            bool direct = bp > 0 && txt[bp - 1] == 'D';      // "Direct leak of": indirect leaks are children of a direct one
            bp += 10;
            if(!direct) continue;
            std::string frames, firstUser;
            std::vector<std::string> sxFrames;
            size_t pos = 0;
            while((pos = blk.find(" in ", pos)) != std::string::npos)
            {
               pos += 4;
               size_t e = blk.find_first_of("\n", pos);
               std::string line = blk.substr(pos, e == std::string::npos ? std::string::npos : e - pos);
               std::string fn;
               int depth = 0;
               for(char ch : line)
               {
                  if(ch == '<' || ch == '(') depth++;
                  else if(ch == '>' || ch == ')') depth--;
                  else if(depth == 0)
                  {
                     if(ch == ' ')
                     {
                        // "void soplex::spx_alloc..." : drop a leading return type
                        if(fn == "void" || fn == "int" || fn == "bool")
                        {
                           fn.clear();
                           continue;
                        }
                        break;
                     }
                     fn += ch;
                  }
               }
               if(fn.empty() || (fn[0] >= '0' && fn[0] <= '9')) continue;
               bool sx = line.find("soplex::") != std::string::npos || line.find("SoPlex_") != std::string::npos;
               if(firstUser.empty() && fn.find("__interceptor") == std::string::npos && fn.find("operator") == std::string::npos) firstUser = fn;
               if(!sx) continue;
               size_t q = fn.find("soplex::");
               if(q != std::string::npos) fn = fn.substr(q + 8);
               if(!fn.empty() && (sxFrames.empty() || sxFrames.back() != fn)) sxFrames.push_back(fn);
            }
            // key by the OUTERMOST soplex frames (the API call that leaked): all objects lost by one call share them
            if(!sxFrames.empty())
            {
               frames = sxFrames.back();
               if(sxFrames.size() >= 2 && sxFrames[sxFrames.size() - 2] != frames) frames += "|" + sxFrames[sxFrames.size() - 2];
            }
            if(frames.empty()) frames = "nosoplexframe:" + firstUser;
            if(!seenLeaks.insert(frames).second) continue;
            count("lsan.leak_reports");
            viol(prop + ":leak:" + frames, "LeakSanitizer: memory allocated during (or shortly before) this case is unreachable\n" + blk.substr(0, 2500));
         }
      }
      fclose(tf);
#endif
   }
   void flushSummary()
   {
      sinceFlush = 0;
      long long nv = nviol;
      finishRecord("partial");
      counters.clear();
      maxima.clear();
      distinct.clear();
      samples.clear();
      maxSamples = 0;
      nviol = nv;
   }
   void count(const std::string& name, long long d = 1)
   {
      counters[name] += d;
   }
   void maxi(const std::string& name, double v)
   {
      auto it = maxima.find(name);
      if(it == maxima.end() || v > it->second) maxima[name] = v;
   }
   void seen(const std::string& name, uint64_t h)
   {
      auto& s = distinct[name];
      if(s.size() < 200000) s.insert(h);
   }
   void sample(const std::string& json)
   {
      if(samples.size() < maxSamples) samples.push_back(json);
   }
   // report a violation; key must be stable across seeds (see DESIGN section 6)
   void viol(const std::string& key, const std::string& detail, const std::string& replayJson = "")
   {
      if(violKeysThisCase.count(key)) return;
      violKeysThisCase.insert(key);
      nviol++;
      Json j;
      j.str("ev", "viol").num("case", curCase).str("key", key).str("detail", detail);
      if(!replayJson.empty()) j.raw("replay", replayJson);
      emit(j.done());
   }
   void note(const std::string& kind, const std::string& detail)
   {
      Json j;
      j.str("ev", "note").num("case", curCase).str("kind", kind).str("detail", detail);
      emit(j.done());
   }
   void finish()
   {
      finishRecord("summary");
   }
   void finishRecord(const char* evname)
   {
      Json j;
      j.str("ev", evname);
      {
         Json c;
         for(auto& kv : counters) c.num(kv.first, kv.second);
         j.raw("counters", c.done());
      }
      {
         Json c;
         for(auto& kv : maxima) c.dbl(kv.first, kv.second);
         j.raw("maxima", c.done());
      }
      {
         Json c;
         for(auto& kv : distinct)
         {
            std::string a = "[";
            bool f = true;
            for(uint64_t h : kv.second)
            {
               if(!f) a += ",";
               f = false;
               a += "\"" + std::to_string(h) + "\"";
            }
            a += "]";
            c.raw(kv.first, a);
         }
         j.raw("distinct", c.done());
      }
      {
         std::string a = "[";
         for(size_t i = 0; i < samples.size(); i++)
         {
            if(i) a += ",";
            a += samples[i];
         }
         a += "]";
         j.raw("samples", a);
      }
      j.num("nviol", nviol);
      emit(j.done());
   }
};

inline Sink& sink()
{
   static Sink s;
   return s;
}

// ---------------------------------------------------------------- CLI
struct Cli
{
   std::string prop = "C00";
   uint64_t seed = 0;
   long long from = 0, to = 0;
   std::string tier = "quick";
   std::string replay;
   std::string sub;       // optional sub-workload selector
   std::string tmpdir = "/var/tmp";
   std::map<std::string, std::string> extra;
   void parse(int argc, char** argv)
   {
      for(int i = 1; i < argc; i++)
      {
         std::string a = argv[i];
         auto val = [&]() -> std::string { return i + 1 < argc ? std::string(argv[++i]) : std::string(); };
         if(a == "--prop") prop = val();
         else if(a == "--seed") seed = strtoull(val().c_str(), nullptr, 10);
         else if(a == "--from") from = atoll(val().c_str());
         else if(a == "--to") to = atoll(val().c_str());
         else if(a == "--tier") tier = val();
         else if(a == "--replay") replay = val();
         else if(a == "--sub") sub = val();
         else if(a == "--tmpdir") tmpdir = val();
         else if(a.rfind("--", 0) == 0) extra[a.substr(2)] = val();
      }
   }
   bool thorough() const
   {
      return tier == "thorough";
   }
};

} // namespace vl
