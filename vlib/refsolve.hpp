// vlib/refsolve.hpp -- independent exact LP solver (two-phase primal simplex over Q, Bland's rule,
// dense tableau on a standard-form transformation).  Its answers are only *used* after the certificate
// it returns has been re-checked exactly by cert.hpp (refCertified), so a bug here yields "inconclusive",
// never an alarm.
#pragma once
#include "cert.hpp"

namespace vl
{
enum RefStatus { REF_OPTIMAL = 1, REF_UNBOUNDED = 2, REF_INFEASIBLE = 3, REF_FAIL = 0 };

// basis status codes identical to SoPlex's VarStatus: ON_UPPER=0, ON_LOWER=1, FIXED=2, ZERO=3, BASIC=4
enum { VS_ON_UPPER = 0, VS_ON_LOWER = 1, VS_FIXED = 2, VS_ZERO = 3, VS_BASIC = 4, VS_UNDEFINED = 5 };

struct RefResult
{
   RefStatus status = REF_FAIL;
   bool certified = false;
   std::vector<Q> x, y, r, s;       // optimal: primal/dual/redcost/slack; unbounded: x feasible point
   std::vector<Q> ray;              // unbounded
   std::vector<Q> farkas;           // infeasible
   Q objval = 0;
   std::vector<int> rowStat, colStat;   // basis statuses of an optimal basis (optimal only)
   bool basisOk = false;
   int pivots = 0;
   std::string why;
};

struct RefSolver
{
   // std-form bookkeeping
   struct ColMap
   {
      int kind;     // 0 fixed, 1 lo-shift, 2 up-shift, 3 free
      int z1 = -1, z2 = -1, t = -1; // z1: main var, z2: negative part (free), t: slack of the bound row
      int brow = -1;
   };
   struct RowMap
   {
      int kind;     // 0 free, 1 equality, 2 rhs only, 3 lhs only, 4 ranged
      int row = -1, s = -1, t = -1, rrow = -1;
   };

   const LPModel& M;
   std::vector<ColMap> cm;
   std::vector<RowMap> rm;
   int N = 0, R = 0;                 // structural std columns, std rows
   std::vector<std::vector<Q>> T;    // R x (N + R + 1): [std cols | artificials | rhs]
   std::vector<int> basis;           // basis[row] = column index
   std::vector<int> rowsign;
   std::vector<int> prio;            // Bland priority per column
   int maxPivots = 20000;
   int pivots = 0;

   RefSolver(const LPModel& m) : M(m) {}

   void build(Rng* rng)
   {
      cm.resize(M.n);
      rm.resize(M.m);
      N = 0;
      R = 0;
      for(int j = 0; j < M.n; j++)
      {
         ColMap& c = cm[j];
         bool fl = !isNInf(M.lo[j]), fu = !isPInf(M.up[j]);
         if(fl && fu && M.lo[j] == M.up[j]) c.kind = 0;
         else if(fl)
         {
            c.kind = 1;
            c.z1 = N++;
            if(fu)
            {
               c.t = N++;
               c.brow = 0;
            }
         }
         else if(fu)
         {
            c.kind = 2;
            c.z1 = N++;
         }
         else
         {
            c.kind = 3;
            c.z1 = N++;
            c.z2 = N++;
         }
      }
      for(int i = 0; i < M.m; i++)
      {
         RowMap& r = rm[i];
         bool fl = !isNInf(M.lhs[i]), fr = !isPInf(M.rhs[i]);
         if(!fl && !fr) r.kind = 0;
         else if(fl && fr && M.lhs[i] == M.rhs[i])
         {
            r.kind = 1;
            r.row = R++;
         }
         else if(!fl)
         {
            r.kind = 2;
            r.row = R++;
            r.s = N++;
         }
         else if(!fr)
         {
            r.kind = 3;
            r.row = R++;
            r.s = N++;
         }
         else
         {
            r.kind = 4;
            r.row = R++;
            r.s = N++;
            r.t = N++;
            r.rrow = R++;
         }
      }
      for(int j = 0; j < M.n; j++) if(cm[j].t >= 0) cm[j].brow = R++;
      T.assign(R, std::vector<Q>(N + R + 1, Q(0)));
      rowsign.assign(R, 1);
      int RHS = N + R;
      for(int i = 0; i < M.m; i++)
      {
         RowMap& r = rm[i];
         if(r.kind == 0) continue;
         Q b = (r.kind == 2) ? M.rhs[i] : M.lhs[i];     // equality uses lhs==rhs
         for(int j = 0; j < M.n; j++)
         {
            const Q& a = M.A[i][j];
            if(a == 0) continue;
            const ColMap& c = cm[j];
            if(c.kind == 0) b -= a * M.lo[j];
            else if(c.kind == 1)
            {
               b -= a * M.lo[j];
               T[r.row][c.z1] += a;
            }
            else if(c.kind == 2)
            {
               b -= a * M.up[j];
               T[r.row][c.z1] -= a;
            }
            else
            {
               T[r.row][c.z1] += a;
               T[r.row][c.z2] -= a;
            }
         }
         if(r.kind == 2) T[r.row][r.s] = 1;
         if(r.kind == 3 || r.kind == 4) T[r.row][r.s] = -1;
         T[r.row][RHS] = b;
         if(r.kind == 4)
         {
            T[r.rrow][r.s] = 1;
            T[r.rrow][r.t] = 1;
            T[r.rrow][RHS] = M.rhs[i] - M.lhs[i];
         }
      }
      for(int j = 0; j < M.n; j++) if(cm[j].t >= 0)
         {
            T[cm[j].brow][cm[j].z1] = 1;
            T[cm[j].brow][cm[j].t] = 1;
            T[cm[j].brow][RHS] = M.up[j] - M.lo[j];
         }
      basis.assign(R, -1);
      for(int r = 0; r < R; r++)
      {
         if(T[r][RHS] < 0)
         {
            rowsign[r] = -1;
            for(int k = 0; k <= RHS; k++) if(T[r][k] != 0) T[r][k] = -T[r][k];
         }
         T[r][N + r] = 1;
         basis[r] = N + r;
      }
      prio.resize(N + R);
      for(int k = 0; k < N + R; k++) prio[k] = k;
      if(rng)
      {
         std::vector<int> p(N);
         for(int k = 0; k < N; k++) p[k] = k;
         rng->shuffle(p);
         for(int k = 0; k < N; k++) prio[k] = p[k];
      }
   }

   void pivot(int pr, int pc, std::vector<Q>& d, Q& dval)
   {
      int W = N + R + 1;
      Q piv = T[pr][pc];
      for(int k = 0; k < W; k++) if(T[pr][k] != 0) T[pr][k] /= piv;
      for(int r = 0; r < R; r++) if(r != pr && T[r][pc] != 0)
         {
            Q f = T[r][pc];
            for(int k = 0; k < W; k++) if(T[pr][k] != 0) T[r][k] -= f * T[pr][k];
         }
      if(d[pc] != 0)
      {
         Q f = d[pc];
         for(int k = 0; k < N + R; k++) if(T[pr][k] != 0) d[k] -= f * T[pr][k];
         dval -= f * T[pr][N + R];     // dval holds -(objective) convention: see run()
      }
      basis[pr] = pc;
      pivots++;
   }

   // run simplex on cost vector c (size N+R); allowed[k] columns may enter.  returns 1 optimal, 2 unbounded (ecol set), 0 fail
   int run(const std::vector<Q>& c, const std::vector<char>& allowed, std::vector<Q>& d, Q& negobj, int& ecol)
   {
      int RHS = N + R;
      d = c;
      negobj = 0;
      for(int r = 0; r < R; r++)
      {
         const Q& cb = c[basis[r]];
         if(cb == 0) continue;
         for(int k = 0; k < N + R; k++) if(T[r][k] != 0) d[k] -= cb * T[r][k];
         negobj -= cb * T[r][RHS];
      }
      while(true)
      {
         if(pivots > maxPivots) return 0;
         int e = -1;
         for(int k = 0; k < N + R; k++) if(allowed[k] && d[k] < 0 && (e < 0 || prio[k] < prio[e])) e = k;
         if(e < 0) return 1;
         int lr = -1;
         Q best;
         for(int r = 0; r < R; r++) if(T[r][e] > 0)
            {
               Q ratio = T[r][RHS] / T[r][e];
               if(lr < 0 || ratio < best || (ratio == best && prio[basis[r]] < prio[basis[lr]]))
               {
                  lr = r;
                  best = ratio;
               }
            }
         if(lr < 0)
         {
            ecol = e;
            return 2;
         }
         pivot(lr, e, d, negobj);
      }
   }

   void zToX(const std::vector<Q>& z, std::vector<Q>& x, bool direction) const
   {
      x.assign(M.n, Q(0));
      for(int j = 0; j < M.n; j++)
      {
         const ColMap& c = cm[j];
         if(c.kind == 0) x[j] = direction ? Q(0) : M.lo[j];
         else if(c.kind == 1) x[j] = (direction ? Q(0) : M.lo[j]) + z[c.z1];
         else if(c.kind == 2) x[j] = (direction ? Q(0) : M.up[j]) - z[c.z1];
         else x[j] = z[c.z1] - z[c.z2];
      }
   }

   RefResult solve(Rng* rng = nullptr)
   {
      RefResult res;
      if((long long)M.m * M.n > 4000 || M.m > 80 || M.n > 80)
      {
         res.why = "too big";
         return res;
      }
      build(rng);
      int RHS = N + R;
      std::vector<Q> d;
      Q negobj;
      int ecol = -1;
      // phase 1
      std::vector<Q> c1(N + R, Q(0));
      for(int r = 0; r < R; r++) c1[N + r] = 1;
      std::vector<char> all(N + R, 1);
      for(int r = 0; r < R; r++) all[N + r] = 0;      // artificials never re-enter
      int st = R == 0 ? 1 : run(c1, all, d, negobj, ecol);
      res.pivots = pivots;
      if(st != 1)
      {
         res.why = "phase1 did not finish";
         return res;
      }
      Q p1 = -negobj;
      if(R > 0 && p1 > 0)
      {
         res.status = REF_INFEASIBLE;
         res.farkas.assign(M.m, Q(0));
         for(int i = 0; i < M.m; i++) if(rm[i].kind != 0)
            {
               int r = rm[i].row;
               Q pi = 1 - d[N + r];
               res.farkas[i] = rowsign[r] > 0 ? pi : Q(-pi);
            }
         FarkasRes f = checkFarkas(M, res.farkas);
         res.certified = f.proves;
         if(!f.proves) res.why = "farkas not certified: " + f.why;
         return res;
      }
      // drive basic artificials out
      for(int r = 0; r < R; r++) if(basis[r] >= N)
         {
            int pc = -1;
            for(int k = 0; k < N; k++) if(T[r][k] != 0 && (pc < 0 || prio[k] < prio[pc])) pc = k;
            if(pc >= 0)
            {
               std::vector<Q> dd(N + R, Q(0));
               Q dv = 0;
               pivot(r, pc, dd, dv);
            }
         }
      // phase 2 (minimise cmin)
      std::vector<Q> c2(N + R, Q(0));
      for(int j = 0; j < M.n; j++)
      {
         if(M.obj[j] == 0) continue;
         Q cj = M.sense > 0 ? Q(-M.obj[j]) : M.obj[j];
         const ColMap& c = cm[j];
         if(c.kind == 1) c2[c.z1] = cj;
         else if(c.kind == 2) c2[c.z1] = -cj;
         else if(c.kind == 3)
         {
            c2[c.z1] = cj;
            c2[c.z2] = -cj;
         }
      }
      st = run(c2, all, d, negobj, ecol);
      res.pivots = pivots;
      if(st == 0)
      {
         res.why = "phase2 pivot limit";
         return res;
      }
      std::vector<Q> z(N, Q(0));
      for(int r = 0; r < R; r++) if(basis[r] < N) z[basis[r]] = T[r][RHS];
      zToX(z, res.x, false);
      if(st == 2)
      {
         res.status = REF_UNBOUNDED;
         std::vector<Q> dz(N, Q(0));
         dz[ecol] = 1;
         for(int r = 0; r < R; r++) if(basis[r] < N && T[r][ecol] != 0) dz[basis[r]] = -T[r][ecol];
         zToX(dz, res.ray, true);
         // certify: x feasible, ray valid
         bool feas = true;
         for(int j = 0; j < M.n && feas; j++)
         {
            if(!isNInf(M.lo[j]) && res.x[j] < M.lo[j]) feas = false;
            if(!isPInf(M.up[j]) && res.x[j] > M.up[j]) feas = false;
         }
         for(int i = 0; i < M.m && feas; i++)
         {
            Q a = M.activity(i, res.x);
            if(!isNInf(M.lhs[i]) && a < M.lhs[i]) feas = false;
            if(!isPInf(M.rhs[i]) && a > M.rhs[i]) feas = false;
         }
         RayRes rr = checkRay(M, res.ray);
         res.certified = feas && rr.valid;
         if(!res.certified) res.why = "unbounded not certified: " + rr.why;
         return res;
      }
      res.status = REF_OPTIMAL;
      res.y.assign(M.m, Q(0));
      for(int i = 0; i < M.m; i++) if(rm[i].kind != 0)
         {
            int r = rm[i].row;
            Q pi = -d[N + r];
            Q yy = rowsign[r] > 0 ? pi : Q(-pi);
            res.y[i] = M.sense > 0 ? Q(-yy) : yy;
         }
      res.r.assign(M.n, Q(0));
      for(int j = 0; j < M.n; j++)
      {
         Q t = M.obj[j];
         for(int i = 0; i < M.m; i++) if(M.A[i][j] != 0 && res.y[i] != 0) t -= M.A[i][j] * res.y[i];
         res.r[j] = t;
      }
      res.s.assign(M.m, Q(0));
      for(int i = 0; i < M.m; i++) res.s[i] = M.activity(i, res.x);
      res.objval = M.objval(res.x);
      OptResid o = optResiduals(M, res.x, res.s, res.y, res.r);
      res.certified = optExact(o);
      if(!res.certified) res.why = "optimal pair not certified (gap " + qs(o.gap) + ")";
      // basis statuses
      std::vector<char> isb(N + R, 0);
      for(int r = 0; r < R; r++) isb[basis[r]] = 1;
      res.colStat.assign(M.n, VS_BASIC);
      res.rowStat.assign(M.m, VS_BASIC);
      int nb = 0;
      for(int j = 0; j < M.n; j++)
      {
         const ColMap& c = cm[j];
         int s = VS_BASIC;
         if(c.kind == 0) s = VS_FIXED;
         else if(c.kind == 1) s = !isb[c.z1] ? VS_ON_LOWER : (c.t >= 0 && !isb[c.t]) ? VS_ON_UPPER : VS_BASIC;
         else if(c.kind == 2) s = !isb[c.z1] ? VS_ON_UPPER : VS_BASIC;
         else s = (isb[c.z1] || isb[c.z2]) ? VS_BASIC : VS_ZERO;
         res.colStat[j] = s;
         if(s == VS_BASIC) nb++;
      }
      for(int i = 0; i < M.m; i++)
      {
         const RowMap& r = rm[i];
         int s = VS_BASIC;
         if(r.kind == 0) s = VS_BASIC;
         else if(r.kind == 1) s = isb[N + r.row] ? VS_BASIC : VS_FIXED;
         else if(r.kind == 2) s = !isb[r.s] ? VS_ON_UPPER : VS_BASIC;
         else if(r.kind == 3) s = !isb[r.s] ? VS_ON_LOWER : VS_BASIC;
         else s = !isb[r.s] ? VS_ON_LOWER : !isb[r.t] ? VS_ON_UPPER : VS_BASIC;
         res.rowStat[i] = s;
         if(s == VS_BASIC) nb++;
      }
      res.basisOk = (nb == M.m);
      return res;
   }
};

inline RefResult refSolve(const LPModel& M, Rng* rng = nullptr)
{
   RefSolver s(M);
   return s.solve(rng);
}

// Truth with the class-stability guard of DESIGN 3.3: solve the LP, the relaxed LP and the tightened LP.
struct Truth
{
   RefStatus status = REF_FAIL;
   bool known = false;      // certified
   bool robust = false;     // same class under +-delta perturbation of finite sides/bounds
   Q objval = 0;
   RefResult ref;
};

inline LPModel perturbed(const LPModel& M, int dir /* +1 relax, -1 tighten */, const Q& base = Q(1) / Q(10000))
{
   LPModel P = M;
   auto delta = [&](const Q & v) { return Q(base * (1 + qabs(v))); };
   for(int j = 0; j < M.n; j++)
   {
      bool fl = !isNInf(M.lo[j]), fu = !isPInf(M.up[j]);
      if(dir < 0 && fl && fu && (M.up[j] - M.lo[j]) < 4 * (delta(M.lo[j]) + delta(M.up[j]))) continue;
      if(fl) P.lo[j] = M.lo[j] - dir * delta(M.lo[j]);
      if(fu) P.up[j] = M.up[j] + dir * delta(M.up[j]);
   }
   for(int i = 0; i < M.m; i++)
   {
      bool fl = !isNInf(M.lhs[i]), fr = !isPInf(M.rhs[i]);
      if(dir < 0 && fl && fr && (M.rhs[i] - M.lhs[i]) < 4 * (delta(M.lhs[i]) + delta(M.rhs[i]))) continue;
      if(fl) P.lhs[i] = M.lhs[i] - dir * delta(M.lhs[i]);
      if(fr) P.rhs[i] = M.rhs[i] + dir * delta(M.rhs[i]);
   }
   return P;
}

inline Truth computeTruth(const LPModel& M, bool wantRobust = true)
{
   Truth t;
   t.ref = refSolve(M);
   if(!t.ref.certified) return t;
   t.known = true;
   t.status = t.ref.status;
   t.objval = t.ref.objval;
   if(!wantRobust) return t;
   RefResult a = refSolve(perturbed(M, +1)), b = refSolve(perturbed(M, -1));
   t.robust = a.certified && b.certified && a.status == t.status && b.status == t.status;
   return t;
}

} // namespace vl
