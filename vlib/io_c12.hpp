// vlib/io_c12.hpp -- helpers of the C12 check (LP/MPS round trip, numeric literals, dual writer):
//   * an independent parser for numeric literals + the exhaustive enumeration of the literal grammar,
//   * a named LP model, the *documented* normalisations of the LP/MPS writers, the structural comparison,
//   * reading an LP back through the rational accessors, legal name generation, fork isolation for inputs that are
//     known to kill the process (SIGFPE inside GMP).
// What the writers/readers of the pinned tree document (src/soplex/spxlpbase_real.hpp, spxlpbase_rational.hpp):
//   - writeMPS: "objective function inverted when writing maximization problem in MPS file format" (XMPSWR03): the
//     objective row MINIMIZE carries -maxObj and no OBJSENSE section is written => re-read as min of -c;
//   - writeLPF / LPFwriteRows: "ranged row -> write two non-ranged rows" <name>_1 (>= lhs) and <name>_2 (<= rhs);
//   - zero objective coefficients are only written with writeZeroObjective; a column without any entry and without a
//     written objective coefficient does not occur in the COLUMNS section / in any LP expression, and both readers
//     ignore bounds of unknown columns (WLPFRD11, entryIgnored) => the column is dropped;
//   - LP format: a free row is written "<= 1e+100" (= infinity) and stays a free row; the LP reader orders the columns
//     by first occurrence (objective, then rows) => columns are identified by name;
//   - the objective offset is a parameter of the SoPlex object (OBJ_OFFSET), it is neither written nor read.
#pragma once
#include "sx.hpp"
#include <unistd.h>
#include <sys/wait.h>
#include <signal.h>
#include <setjmp.h>
#if defined(__SANITIZE_ADDRESS__)
#include <sanitizer/lsan_interface.h>
#endif

namespace vl
{
// ================================================================================================ literals
struct LitInfo
{
   bool fraction = false, hasDot = false, hasExp = false, neg = false, mantZero = false, denZero = false;
   long exp = 0;
   std::string cls;
};

inline Z digitsToZ(const std::string& d)     // base 10, leading zeros are just zeros (no octal)
{
   Z v = 0;
   for(char c : d) v = v * 10 + (int)(c - '0');
   return v;
}
inline Z pow10z(unsigned long e)
{
   Z r;
   mpz_ui_pow_ui(r.backend().data(), 10UL, e);
   return r;
}

// Independent parser of  sign? digits? (. digits)? ([eE] sign? digits)?  |  sign? digits / digits
// (at least one mantissa digit).  Returns false if s is not in the grammar or denotes no number (zero denominator).
inline bool parseLiteral(const std::string& s, Q& out, LitInfo& L)
{
   L = LitInfo();
   size_t i = 0, n = s.size();
   if(i < n && (s[i] == '+' || s[i] == '-')) L.neg = s[i++] == '-';
   size_t a0 = i;
   while(i < n && s[i] >= '0' && s[i] <= '9') i++;
   std::string ip = s.substr(a0, i - a0), fp;
   if(i < n && s[i] == '/')
   {
      size_t b0 = ++i;
      while(i < n && s[i] >= '0' && s[i] <= '9') i++;
      std::string dp = s.substr(b0, i - b0);
      if(ip.empty() || dp.empty() || i != n) return false;
      L.fraction = true;
      L.cls = "fraction";
      Z den = digitsToZ(dp);
      if(den == 0)
      {
         L.denZero = true;
         return false;
      }
      Q q = Q(digitsToZ(ip));
      q /= Q(den);
      out = L.neg ? Q(-q) : q;
      return true;
   }
   if(i < n && s[i] == '.')
   {
      L.hasDot = true;
      size_t b0 = ++i;
      while(i < n && s[i] >= '0' && s[i] <= '9') i++;
      fp = s.substr(b0, i - b0);
      if(fp.empty()) return false;
   }
   if(ip.empty() && fp.empty()) return false;
   long e = 0;
   if(i < n && (s[i] == 'e' || s[i] == 'E'))
   {
      L.hasExp = true;
      i++;
      bool en = false;
      if(i < n && (s[i] == '+' || s[i] == '-')) en = s[i++] == '-';
      size_t c0 = i;
      while(i < n && s[i] >= '0' && s[i] <= '9') i++;
      if(i == c0 || i - c0 > 7) return false;
      e = atol(s.substr(c0, i - c0).c_str());
      if(en) e = -e;
   }
   if(i != n) return false;
   Z mant = digitsToZ(ip + fp);
   L.mantZero = mant == 0;
   L.exp = e;
   long sc = e - (long)fp.size();
   Q q = Q(mant);
   if(sc >= 0) q *= Q(pow10z((unsigned long)sc));
   else q /= Q(pow10z((unsigned long)(-sc)));
   out = L.neg ? Q(-q) : q;
   if(L.neg && L.hasDot && L.mantZero) L.cls = "neg-zero";
   else if(L.hasExp) L.cls = e < 0 ? "neg-exponent" : e > 308 ? "huge-exponent" : e > 22 ? "large-exponent" : "exponent";
   else if(L.hasDot) L.cls = "decimal";
   else L.cls = "integer";
   return true;
}

// all strings of the grammar up to maxLen over digits {0,1,5,9}, signs {+,-}, '.', {e,E}, '/'; sorted by (length, text)
inline std::vector<std::string> enumerateLiterals(int maxLen)
{
   const char* D = "0159";
   std::vector<std::vector<std::string>> ds(maxLen + 1);      // ds[k] = digit strings of length k
   ds[0].push_back("");
   for(int k = 1; k <= maxLen; k++) for(const std::string& p : ds[k - 1]) for(int c = 0; c < 4; c++) ds[k].push_back(p + D[c]);
   std::vector<std::string> out;
   const std::vector<std::string> signs = {"", "+", "-"};
   for(const std::string& sg : signs)
   {
      int s = (int)sg.size();
      for(int a = 0; a <= maxLen; a++) for(int b = 0; b <= maxLen; b++)
         {
            if(a == 0 && b == 0) continue;
            int base = s + a + (b ? b + 1 : 0);
            if(base > maxLen) continue;
            for(const std::string& A : ds[a]) for(const std::string& B : ds[b])
               {
                  std::string m = sg + A + (b ? "." + B : std::string());
                  out.push_back(m);
                  for(const char* E : {"e", "E"}) for(const std::string& es : signs) for(int e = 1; base + 1 + (int)es.size() + e <= maxLen; e++)
                           for(const std::string& X : ds[e]) out.push_back(m + E + es + X);
               }
         }
      for(int a = 1; a <= maxLen; a++) for(int b = 1; s + a + 1 + b <= maxLen; b++)
            for(const std::string& A : ds[a]) for(const std::string& B : ds[b]) out.push_back(sg + A + "/" + B);
   }
   std::sort(out.begin(), out.end(), [](const std::string & x, const std::string & y)
   {
      return x.size() != y.size() ? x.size() < y.size() : x < y;
   });
   return out;
}
// closed-form size of enumerateLiterals (the same formula is evaluated in pylib/propdefs/io12.py)
inline long long countLiterals(int L)
{
   auto p4 = [](int k)
   {
      long long r = 1;
      while(k-- > 0) r *= 4;
      return r;
   };
   long long tot = 0;
   for(int s = 0; s <= 1; s++)
   {
      long long sm = s ? 2 : 1;
      for(int a = 0; a <= L; a++) for(int b = 0; b <= L; b++)
         {
            if(a == 0 && b == 0) continue;
            int base = s + a + (b ? b + 1 : 0);
            if(base > L) continue;
            long long m = sm * p4(a) * p4(b);
            tot += m;
            for(int es = 0; es <= 1; es++) for(int e = 1; base + 1 + es + e <= L; e++) tot += m * 2 * (es ? 2 : 1) * p4(e);
         }
      for(int a = 1; a <= L; a++) for(int b = 1; s + a + 1 + b <= L; b++) tot += sm * p4(a) * p4(b);
   }
   return tot;
}

// ================================================================================================ fork isolation
struct ChildOut
{
   bool normal = false;
   int sig = 0;
   std::string out;
};
// runs fn in a forked child and returns what it returned; a child killed by a signal is reported, not propagated.
inline ChildOut runInChild(const std::function<std::string()>& fn)
{
   ChildOut r;
   int fd[2];
   if(pipe(fd) != 0) return r;
   fflush(stdout);
   fflush(stderr);
   pid_t p = fork();
   if(p < 0)
   {
      close(fd[0]);
      close(fd[1]);
      return r;
   }
   if(p == 0)
   {
      close(fd[0]);
      signal(SIGFPE, SIG_DFL);      // GMP raises SIGFPE on inf/nan; die silently instead of a sanitizer report per literal
      signal(SIGABRT, SIG_DFL);
      std::string o;
      try
      {
         o = fn();
      }
      catch(...)
      {
         o = "X uncaught exception in child";
      }
      size_t off = 0;
      while(off < o.size())
      {
         ssize_t w = write(fd[1], o.data() + off, o.size() - off);
         if(w <= 0) break;
         off += (size_t)w;
      }
      close(fd[1]);
      _exit(0);
   }
   close(fd[1]);
   char buf[4096];
   ssize_t k;
   while((k = read(fd[0], buf, sizeof buf)) > 0) r.out.append(buf, (size_t)k);
   close(fd[0]);
   int st = 0;
   while(waitpid(p, &st, 0) < 0 && errno == EINTR) {}
   r.normal = WIFEXITED(st) && WEXITSTATUS(st) == 0;
   r.sig = WIFSIGNALED(st) ? WTERMSIG(st) : 0;
   return r;
}

// In-process variant for pure functions (ratFromString): a SIGFPE raised inside fn (GMP's reaction to inf / nan) is turned
// into the return value "C...".  The temporaries that are skipped by the jump are not reported as leaks.
inline sigjmp_buf& fpeJmp()
{
   static sigjmp_buf b;
   return b;
}
inline void fpeHandler(int)
{
   siglongjmp(fpeJmp(), 1);
}
inline std::string runCatchingFPE(const std::function<std::string()>& fn)
{
   struct sigaction sa, old;
   memset(&sa, 0, sizeof sa);
   sa.sa_handler = fpeHandler;
   sigemptyset(&sa.sa_mask);
   sigaction(SIGFPE, &sa, &old);
#if defined(__SANITIZE_ADDRESS__)
   __lsan_disable();
#endif
   bool crashed = false;
   std::string out;
   if(sigsetjmp(fpeJmp(), 1) == 0) out = fn();
   else crashed = true;
#if defined(__SANITIZE_ADDRESS__)
   __lsan_enable();
#endif
   sigaction(SIGFPE, &old, nullptr);
   return crashed ? std::string("Cthe process received SIGFPE (GMP invalid operation)") : out;
}

// ================================================================================================ named LPs
struct NamedLP
{
   LPModel M;
   std::vector<std::string> rn, cn;   // row / column names (always filled: user names or the writers' default names)
   std::vector<char> isInt;           // integer marker per column
   std::vector<char> optional;        // (expected models only) column may legitimately be absent, see expectedAfterRoundTrip
};

inline void defaultNames(NamedLP& L)
{
   L.rn.resize(L.M.m);
   L.cn.resize(L.M.n);
   for(int i = 0; i < L.M.m; i++) L.rn[i] = "C" + std::to_string(i);
   for(int j = 0; j < L.M.n; j++) L.cn[j] = "x" + std::to_string(j);
   if((int)L.isInt.size() != L.M.n) L.isInt.assign(L.M.n, 0);
}

// user names legal in both formats: <= 8 characters, no blanks, first character a letter that cannot start an LP-format
// keyword / exponent / "inf" / "free" (documented: "check for forbidden variable names with initial 'e' or 'E'"), further
// characters letters, digits and a few of the special characters the LP format allows; no '_' in row names (the LP writer
// appends _1/_2 to split ranged rows, user names must not collide with that).
inline std::string randomName(Rng& g, bool row, std::set<std::string>& used, int maxLen = 8)
{
   static const std::string first = "acdhjknopqruvwxyzACDHJKNOPQRUVWXYZ";
   static const std::string restC = "abcdefghijklmnopqrstuvwxyzABCDEFGHIJKLMNOPQRSTUVWXYZ0123456789_#@!~|";
   static const std::string restR = "abcdefghijklmnopqrstuvwxyzABCDEFGHIJKLMNOPQRSTUVWXYZ0123456789#@!~|";
   for(;;)
   {
      int len = g.chance(0.3) ? maxLen : g.range(1, maxLen);
      std::string s(1, first[(size_t)g.range(0, (int)first.size() - 1)]);
      const std::string& rest = row ? restR : restC;
      while((int)s.size() < len) s += rest[(size_t)g.range(0, (int)rest.size() - 1)];
      if(s == "MINIMIZE" || s == "RHS" || s == "RANGE" || s == "BOUND") continue;
      if(used.insert(s).second) return s;
   }
}
inline void userNames(NamedLP& L, Rng& g, int maxColLen = 8)
{
   std::set<std::string> ur, uc;
   L.rn.resize(L.M.m);
   L.cn.resize(L.M.n);
   for(int i = 0; i < L.M.m; i++) L.rn[i] = randomName(g, true, ur);
   for(int j = 0; j < L.M.n; j++) L.cn[j] = randomName(g, false, uc, maxColLen);
   if((int)L.isInt.size() != L.M.n) L.isInt.assign(L.M.n, 0);
}

struct NormStats
{
   int rangedSplit = 0, droppedCols = 0, negatedMax = 0, freeRows = 0, emptyRows = 0;
};

// the LP a reader must see after `in` was written in format fmt ("lp"/"mps") with writeZeroObjective = wzo
// realMps: the real MPS writer tests the objective coefficient with isNotZero(.., epsilon) and prints 15 decimals, so a column
// without entries whose objective coefficient is below 2e-15 may or may not survive (it is zero "to the printed 15 decimals")
inline NamedLP expectedAfterRoundTrip(const NamedLP& in, const std::string& fmt, bool wzo, NormStats& ns, bool realMps = false)
{
   const LPModel& M = in.M;
   NamedLP E;
   bool mps = fmt == "mps";
   std::vector<int> keep;
   for(int j = 0; j < M.n; j++)
   {
      bool used = wzo || M.obj[j] != 0;
      for(int i = 0; i < M.m && !used; i++) if(M.A[i][j] != 0) used = true;
      if(used) keep.push_back(j);
      else ns.droppedCols++;
   }
   LPModel& X = E.M;
   X.n = (int)keep.size();
   X.sense = mps ? -1 : M.sense;
   X.offset = 0;
   bool neg = mps && M.sense > 0;
   if(neg) ns.negatedMax++;
   for(int j : keep)
   {
      X.obj.push_back(neg ? Q(-M.obj[j]) : M.obj[j]);
      X.lo.push_back(M.lo[j]);
      X.up.push_back(M.up[j]);
      E.cn.push_back(in.cn[j]);
      E.isInt.push_back(in.isInt.empty() ? 0 : in.isInt[j]);
      bool entries = false;
      for(int i = 0; i < M.m && !entries; i++) if(M.A[i][j] != 0) entries = true;
      E.optional.push_back(realMps && !wzo && !entries && qabs(M.obj[j]) <= Q(2) / Q(pow10z(15)));
   }
   for(int i = 0; i < M.m; i++)
   {
      std::vector<Q> row;
      bool empty = true;
      for(int j : keep)
      {
         row.push_back(M.A[i][j]);
         if(M.A[i][j] != 0) empty = false;
      }
      if(empty) ns.emptyRows++;
      bool fl = !isNInf(M.lhs[i]), fr = !isPInf(M.rhs[i]);
      if(!fl && !fr) ns.freeRows++;
      if(!mps && fl && fr && M.lhs[i] != M.rhs[i])
      {
         ns.rangedSplit++;
         X.A.push_back(row);
         X.lhs.push_back(M.lhs[i]);
         X.rhs.push_back(QINF());
         E.rn.push_back(in.rn[i] + "_1");
         X.A.push_back(row);
         X.lhs.push_back(Q(-QINF()));
         X.rhs.push_back(M.rhs[i]);
         E.rn.push_back(in.rn[i] + "_2");
      }
      else
      {
         X.A.push_back(row);
         X.lhs.push_back(M.lhs[i]);
         X.rhs.push_back(M.rhs[i]);
         E.rn.push_back(in.rn[i]);
      }
   }
   X.m = (int)X.A.size();
   return E;
}

inline char colType(const LPModel& M, int j)
{
   return isNInf(M.lo[j]) ? (isPInf(M.up[j]) ? 'F' : 'U') : (isPInf(M.up[j]) ? 'L' : (M.lo[j] == M.up[j] ? 'X' : 'B'));
}
inline char rowType(const LPModel& M, int i)
{
   return isNInf(M.lhs[i]) ? (isPInf(M.rhs[i]) ? 'f' : 'l') : (isPInf(M.rhs[i]) ? 'g' : (M.lhs[i] == M.rhs[i] ? 'e' : 'r'));
}

// comparison of one number; tol == false: exact.  tol == true: "to the printed 15 decimals" (%.15f) resp. 15 significant
// digits: |r - e| <= 2e-15 + 1e-14 |e| (two units of the 15th decimal: a ranged row is written as lhs and rhs-lhs, each
// rounded to 15 decimals, and added up by the reader); infinite values must match as infinite.
// scale: magnitude the relative part refers to (ranged rows: max(|lhs|,|rhs|), because the reader adds up lhs and range)
inline bool sameNumber(const Q& e, const Q& r, bool tol, double* relOut = nullptr, const Q* scale = nullptr)
{
   bool ei = !isFin(e), ri = !isFin(r);
   if(ei || ri) return ei && ri && ((e > 0) == (r > 0));
   if(e == r) return true;
   if(!tol) return false;
   Q d = qabs(e - r);
   Q thr = Q(2) / Q(pow10z(15)) + (scale ? *scale : qabs(e)) / Q(pow10z(14));
   if(relOut) *relOut = std::max(*relOut, dq(d) / dq(thr));
   return d <= thr;
}

struct Diff
{
   std::string what;     // first stable bucket (empty = equal)
   std::string detail;
   std::vector<std::pair<std::string, std::string>> all;   // every distinct bucket with its first detail
   bool exactEqual = true;   // every number identical (only interesting in tolerance mode)
   bool numbersOk = true;    // no failure other than integer markers
};

inline Diff compareNamedImpl(const NamedLP& E, const NamedLP& R, bool tol, double* maxRel);
// E (expected) vs R (read back); rows and columns are matched by name.
inline Diff compareNamed(const NamedLP& E, const NamedLP& R, bool tol, double* maxRel = nullptr)
{
   NamedLP Ered;
   const NamedLP* Ep = &E;
   if(!E.optional.empty())
   {
      std::set<std::string> have(R.cn.begin(), R.cn.end());
      std::vector<int> perm(E.M.n, 0);
      bool drop = false;
      for(int j = 0, k = 0; j < E.M.n; j++)
      {
         if(E.optional[j] && !have.count(E.cn[j]))
         {
            perm[j] = -1;
            drop = true;
         }
         else perm[j] = k++;
      }
      if(drop)
      {
         Ered = E;
         Ered.M.removeColsByPerm(perm);
         Ered.cn.clear();
         Ered.isInt.clear();
         Ered.optional.clear();
         for(int j = 0; j < E.M.n; j++) if(perm[j] >= 0)
            {
               Ered.cn.push_back(E.cn[j]);
               Ered.isInt.push_back(E.isInt.empty() ? 0 : E.isInt[j]);
            }
         Ep = &Ered;
      }
   }
   Diff d = compareNamedImpl(*Ep, R, tol, maxRel);
   if(Ep != &E) d.exactEqual = false;      // a (numerically zero) column is missing: not the identical LP
   return d;
}
inline Diff compareNamedImpl(const NamedLP& E, const NamedLP& R, bool tol, double* maxRel)
{
   Diff d;
   auto fail = [&](const std::string & w, const std::string & det)
   {
      if(d.what.empty())
      {
         d.what = w;
         d.detail = det;
      }
      for(auto& p : d.all) if(p.first == w) return;
      d.all.push_back(std::make_pair(w, det));
      if(w.compare(0, 9, "intmarker") != 0) d.numbersOk = false;
   };
   auto qsx = [](const Q & q)
   {
      return isPInf(q) ? std::string("+inf") : isNInf(q) ? std::string("-inf") : qs(q);
   };
   const LPModel& X = E.M, &Y = R.M;
   if(X.sense != Y.sense) fail("sense", std::string("expected ") + (X.sense > 0 ? "max" : "min") + ", read " + (Y.sense > 0 ? "max" : "min"));
   std::map<std::string, int> cidx, ridx;
   for(int j = 0; j < Y.n; j++) cidx[R.cn[j]] = j;
   for(int i = 0; i < Y.m; i++) ridx[R.rn[i]] = i;
   if((int)cidx.size() != Y.n) fail("colnames", "duplicate column names after reading");
   if((int)ridx.size() != Y.m) fail("rownames", "duplicate row names after reading");
   if(X.n != Y.n)
   {
      std::string miss, extra;
      for(int j = 0; j < X.n; j++) if(!cidx.count(E.cn[j])) miss += " " + E.cn[j];
      std::set<std::string> en(E.cn.begin(), E.cn.end());
      for(int j = 0; j < Y.n; j++) if(!en.count(R.cn[j])) extra += " " + R.cn[j];
      fail("ncols", "expected " + std::to_string(X.n) + " columns, read " + std::to_string(Y.n) + "; missing:" + miss + " unexpected:" + extra);
   }
   if(X.m != Y.m) fail("nrows", "expected " + std::to_string(X.m) + " rows, read " + std::to_string(Y.m));
   if(!d.what.empty()) return d;
   std::vector<int> cm(X.n), rm(X.m);
   for(int j = 0; j < X.n; j++)
   {
      auto it = cidx.find(E.cn[j]);
      if(it == cidx.end())
      {
         fail("colnames", "column name '" + E.cn[j] + "' not found after reading (have '" + R.cn[std::min(j, Y.n - 1)] + "' at that position)");
         return d;
      }
      cm[j] = it->second;
   }
   for(int i = 0; i < X.m; i++)
   {
      auto it = ridx.find(E.rn[i]);
      if(it == ridx.end())
      {
         fail("rownames", "row name '" + E.rn[i] + "' not found after reading (have '" + R.rn[std::min(i, Y.m - 1)] + "' at that position)");
         return d;
      }
      rm[i] = it->second;
   }
   auto num = [&](const Q & e, const Q & r, const Q* scale = nullptr)
   {
      if(e == r || (!isFin(e) && !isFin(r) && (e > 0) == (r > 0))) return true;
      d.exactEqual = false;
      return sameNumber(e, r, tol, maxRel, scale);
   };
   for(int j = 0; j < X.n; j++)
   {
      int k = cm[j];
      std::string ct(1, colType(X, j));
      if(!num(X.obj[j], Y.obj[k])) fail("obj", "objective of column " + E.cn[j] + ": expected " + qsx(X.obj[j]) + ", read " + qsx(Y.obj[k]));
      if(!num(X.lo[j], Y.lo[k])) fail("lower:" + ct, "lower bound of column " + E.cn[j] + ": expected " + qsx(X.lo[j]) + ", read " + qsx(Y.lo[k]));
      if(!num(X.up[j], Y.up[k])) fail("upper:" + ct, "upper bound of column " + E.cn[j] + ": expected " + qsx(X.up[j]) + ", read " + qsx(Y.up[k]));
      bool ei = !E.isInt.empty() && E.isInt[j], ri = !R.isInt.empty() && R.isInt[k];
      if(ei != ri) fail("intmarker:" + ct, "integer marker of column " + E.cn[j] + ": expected " + std::to_string(ei) + ", read " + std::to_string(ri));
   }
   for(int i = 0; i < X.m; i++)
   {
      int k = rm[i];
      std::string rt(1, rowType(X, i));
      Q rsc = 0;
      bool ranged = rt == "r";
      if(ranged) rsc = std::max(qabs(X.lhs[i]), qabs(X.rhs[i]));
      if(!num(X.lhs[i], Y.lhs[k], ranged ? &rsc : nullptr)) fail("lhs:" + rt, "lhs of row " + E.rn[i] + ": expected " + qsx(X.lhs[i]) + ", read " + qsx(Y.lhs[k]));
      if(!num(X.rhs[i], Y.rhs[k], ranged ? &rsc : nullptr)) fail("rhs:" + rt, "rhs of row " + E.rn[i] + ": expected " + qsx(X.rhs[i]) + ", read " + qsx(Y.rhs[k]));
      for(int j = 0; j < X.n; j++) if(!num(X.A[i][j], Y.A[k][cm[j]]))
            fail("coef:" + rt, "coefficient (" + E.rn[i] + "," + E.cn[j] + "): expected " + qsx(X.A[i][j]) + ", read " + qsx(Y.A[k][cm[j]]));
   }
   return d;
}

// ================================================================================================ SoPlex glue
inline LPModel readBackRational(SoPlex& s)
{
   LPModel M;
   M.m = s.numRowsRational();
   M.n = s.numColsRational();
   M.A.assign(M.m, std::vector<Q>(M.n, Q(0)));
   M.lhs.resize(M.m);
   M.rhs.resize(M.m);
   M.lo.resize(M.n);
   M.up.resize(M.n);
   M.obj.resize(M.n);
   auto inf = [](const Q & v) -> Q { return v >= QINF() ? QINF() : v <= -QINF() ? Q(-QINF()) : v; };
   for(int i = 0; i < M.m; i++)
   {
      M.lhs[i] = inf(s.lhsRational(i));
      M.rhs[i] = inf(s.rhsRational(i));
      const soplex::SVectorRational& r = s.rowVectorRational(i);
      for(int k = 0; k < r.size(); k++) M.A[i][r.index(k)] += r.value(k);
   }
   for(int j = 0; j < M.n; j++)
   {
      M.lo[j] = inf(s.lowerRational(j));
      M.up[j] = inf(s.upperRational(j));
      M.obj[j] = s.objRational(j);
   }
   M.sense = s.intParam(SoPlex::OBJSENSE) == SoPlex::OBJSENSE_MAXIMIZE ? 1 : -1;
   M.offset = 0;
   return M;
}

inline void fillNameSets(const NamedLP& L, soplex::NameSet& rn, soplex::NameSet& cn)
{
   for(int i = 0; i < L.M.m; i++) rn.add(L.rn[i].c_str());
   for(int j = 0; j < L.M.n; j++) cn.add(L.cn[j].c_str());
}

inline std::string slurp(const std::string& path, size_t maxBytes = 6000)
{
   std::string o;
   FILE* f = fopen(path.c_str(), "rb");
   if(!f) return o;
   char buf[4096];
   size_t k;
   while(o.size() < maxBytes && (k = fread(buf, 1, sizeof buf, f)) > 0) o.append(buf, k);
   fclose(f);
   if(o.size() > maxBytes) o.resize(maxBytes);
   return o;
}

// ---- data transformations that keep an LP valid but make its numbers interesting for a writer/reader pair
// real: every finite number becomes an arbitrary double (needs 17 significant digits); rows are multiplied by a positive
// factor (lhs <= rhs is preserved because rounding is monotone), bounds of a column by a positive factor, objective and
// single coefficients by arbitrary factors.
inline Q rnd(const Q& q)
{
   return qd(roundNearest(q));
}
inline void uglifyReal(LPModel& M, Rng& g)
{
   static const std::vector<double> F = {0.1, 1.0 / 3.0, 1e-3, 7.3, 1.0 + 1.0 / 4503599627370496.0, 123456.789, 1.0 / 1048576.0, 1e5, 0.7, 2.5, 1e-5, 3.0e7 / 7.0};
   auto f = [&]()
   {
      return qd(g.pick(F));
   };
   for(int i = 0; i < M.m; i++)
   {
      Q fi = g.chance(0.6) ? f() : Q(1);
      for(int j = 0; j < M.n; j++) if(M.A[i][j] != 0)
         {
            Q v = M.A[i][j] * fi;
            if(g.chance(0.2)) v *= f();
            M.A[i][j] = rnd(v);
            if(M.A[i][j] == 0) M.A[i][j] = 1;
         }
      if(!isNInf(M.lhs[i])) M.lhs[i] = rnd(M.lhs[i] * fi);
      if(!isPInf(M.rhs[i])) M.rhs[i] = rnd(M.rhs[i] * fi);
   }
   for(int j = 0; j < M.n; j++)
   {
      Q bj = g.chance(0.6) ? f() : Q(1);
      if(!isNInf(M.lo[j])) M.lo[j] = rnd(M.lo[j] * bj);
      if(!isPInf(M.up[j])) M.up[j] = rnd(M.up[j] * bj);
      if(M.obj[j] != 0 && g.chance(0.6))
      {
         M.obj[j] = rnd(M.obj[j] * f());
         if(M.obj[j] == 0) M.obj[j] = 1;
      }
   }
}
// rational: non-dyadic fractions, some with ~70-bit numerators / denominators
inline void uglifyRational(LPModel& M, Rng& g)
{
   auto f = [&]() -> Q
   {
      int t = g.range(0, 5);
      if(t == 0) return Q(1) / Q(3);
      if(t == 1) return Q(22) / Q(7);
      if(t == 2) return Q(1) / Q(10);
      if(t == 3) return Q(g.range(1, 99)) / Q(g.range(1, 99));
      Z a = 1, b = 1;
      for(int k = 0; k < 70; k++)
      {
         a = a * 2 + g.range(0, 1);
         b = b * 2 + g.range(0, 1);
      }
      if(t == 4) return Q(a) / Q(b * 3 + 1);
      return Q(a * 3 + 1) / Q(pow10z(18) + 7);
   };
   for(int i = 0; i < M.m; i++)
   {
      Q fi = g.chance(0.6) ? f() : Q(1);
      for(int j = 0; j < M.n; j++) if(M.A[i][j] != 0)
         {
            M.A[i][j] *= fi;
            if(g.chance(0.15)) M.A[i][j] *= f();
         }
      if(!isNInf(M.lhs[i])) M.lhs[i] *= fi;
      if(!isPInf(M.rhs[i])) M.rhs[i] *= fi;
   }
   for(int j = 0; j < M.n; j++)
   {
      Q bj = g.chance(0.6) ? f() : Q(1);
      if(!isNInf(M.lo[j])) M.lo[j] *= bj;
      if(!isPInf(M.up[j])) M.up[j] *= bj;
      if(M.obj[j] != 0 && g.chance(0.6)) M.obj[j] *= f();
   }
}

// structure injection so that every documented normalisation is exercised often
inline void injectStructures(LPModel& M, Rng& g, std::string& tags)
{
   std::vector<Q> zr(M.n, Q(0)), zc(M.m, Q(0));
   if(g.chance(0.35) && M.m > 0)      // make a one-sided row ranged
   {
      int i = g.range(0, M.m - 1);
      if(!isNInf(M.lhs[i]) && isPInf(M.rhs[i])) M.rhs[i] = M.lhs[i] + g.range(1, 9);
      else if(isNInf(M.lhs[i]) && !isPInf(M.rhs[i])) M.lhs[i] = M.rhs[i] - g.range(1, 9);
      tags += "ranged,";
   }
   if(g.chance(0.25))
   {
      M.addCol(Q(0), Q(g.range(-3, 0)), g.chance(0.5) ? PINF() : Q(g.range(0, 5)), std::vector<Q>(M.m, Q(0)));   // droppable column
      tags += "zerocol,";
   }
   if(g.chance(0.15))
   {
      M.addCol(Q(g.range(1, 4)), Q(0), Q(g.range(0, 5)), std::vector<Q>(M.m, Q(0)));   // column only in the objective
      tags += "objonlycol,";
   }
   if(g.chance(0.2))
   {
      int a = g.range(0, 4);
      int t = g.range(0, 3);
      M.addRow(t == 0 ? NINF() : Q(-a), std::vector<Q>(M.n, Q(0)), t == 1 ? PINF() : (t == 3 ? Q(-a) : Q(a)));   // empty row
      tags += "emptyrow,";
   }
   if(g.chance(0.15) && M.n > 0)
   {
      std::vector<Q> r(M.n, Q(0));
      for(int j = 0; j < M.n; j++) if(g.chance(0.5)) r[j] = smallNonzero(g, 5);
      M.addRow(NINF(), r, PINF());      // free row
      tags += "freerow,";
   }
   if(g.chance(0.08)) for(int j = 0; j < M.n; j++) M.obj[j] = 0;     // zero objective
}
inline void dropFreeRows(LPModel& M, Rng& g)
{
   for(int i = 0; i < M.m; i++) if(isNInf(M.lhs[i]) && isPInf(M.rhs[i]))
      {
         if(g.chance(0.5)) M.lhs[i] = g.range(-9, 9);
         else M.rhs[i] = g.range(-9, 9);
      }
}

} // namespace vl
