// vlib/model.hpp -- reference LP model ("the LP the user entered"), exact.
// Dense m x n rational matrix, sides, bounds, objective, sense, offset, plus
// the 5-15 line mirror operations used by the history checkers (C06/C07/C20).
#pragma once
#include "base.hpp"

namespace vl
{
inline const Q& QINF()
{
   static const Q v = qd(1e100);
   return v;
}
inline bool isPInf(const Q& q)
{
   return q >= QINF();
}
inline bool isNInf(const Q& q)
{
   return q <= -QINF();
}
inline bool isFin(const Q& q)
{
   return !isPInf(q) && !isNInf(q);
}

struct LPModel
{
   int m = 0, n = 0;
   std::vector<std::vector<Q>> A;      // A[i][j]
   std::vector<Q> lhs, rhs, lo, up, obj;
   int sense = -1;                     // -1 minimise, +1 maximise (SoPlex OBJSENSE values)
   Q offset = 0;
   std::string family;                 // generator family (for evidence / keys)
   std::string tags;                   // structural tags recorded by the generator

   void clear()
   {
      m = n = 0;
      A.clear();
      lhs.clear();
      rhs.clear();
      lo.clear();
      up.clear();
      obj.clear();
   }
   void addCol(const Q& c, const Q& l, const Q& u, const std::vector<Q>& colvals /* size m */)
   {
      for(int i = 0; i < m; i++) A[i].push_back(i < (int)colvals.size() ? colvals[i] : Q(0));
      obj.push_back(c);
      lo.push_back(l);
      up.push_back(u);
      n++;
   }
   void addRow(const Q& l, const std::vector<Q>& rowvals /* size n */, const Q& r)
   {
      std::vector<Q> row(n, Q(0));
      for(int j = 0; j < n && j < (int)rowvals.size(); j++) row[j] = rowvals[j];
      A.push_back(row);
      lhs.push_back(l);
      rhs.push_back(r);
      m++;
   }
   // removal with SoPlex's perm[] result: perm[i] < 0 removed, else new index
   void removeRowsByPerm(const std::vector<int>& perm)
   {
      int nm = 0;
      for(int p : perm) if(p >= 0) nm++;
      std::vector<std::vector<Q>> nA(nm);
      std::vector<Q> nl(nm), nr(nm);
      for(int i = 0; i < m; i++) if(perm[i] >= 0)
         {
            nA[perm[i]] = A[i];
            nl[perm[i]] = lhs[i];
            nr[perm[i]] = rhs[i];
         }
      A.swap(nA);
      lhs.swap(nl);
      rhs.swap(nr);
      m = nm;
   }
   void removeColsByPerm(const std::vector<int>& perm)
   {
      int nn = 0;
      for(int p : perm) if(p >= 0) nn++;
      std::vector<Q> no(nn), nl(nn), nu(nn);
      for(int j = 0; j < n; j++) if(perm[j] >= 0)
         {
            no[perm[j]] = obj[j];
            nl[perm[j]] = lo[j];
            nu[perm[j]] = up[j];
         }
      for(int i = 0; i < m; i++)
      {
         std::vector<Q> row(nn);
         for(int j = 0; j < n; j++) if(perm[j] >= 0) row[perm[j]] = A[i][j];
         A[i].swap(row);
      }
      obj.swap(no);
      lo.swap(nl);
      up.swap(nu);
      n = nn;
   }
   int nnz() const
   {
      int c = 0;
      for(int i = 0; i < m; i++) for(int j = 0; j < n; j++) if(A[i][j] != 0) c++;
      return c;
   }
   Q activity(int i, const std::vector<Q>& x) const
   {
      Q s = 0;
      for(int j = 0; j < n; j++) if(A[i][j] != 0) s += A[i][j] * x[j];
      return s;
   }
   Q objval(const std::vector<Q>& x) const
   {
      Q s = offset;
      for(int j = 0; j < n; j++) if(obj[j] != 0) s += obj[j] * x[j];
      return s;
   }
   // structural signature for distinct-case counting
   uint64_t signature() const
   {
      std::string s = std::to_string(m) + "x" + std::to_string(n) + (sense > 0 ? "M" : "m");
      for(int i = 0; i < m; i++)
      {
         s += isNInf(lhs[i]) ? (isPInf(rhs[i]) ? 'f' : 'l') : (isPInf(rhs[i]) ? 'g' : (lhs[i] == rhs[i] ? 'e' : 'r'));
         for(int j = 0; j < n; j++) s += A[i][j] == 0 ? '0' : (A[i][j] > 0 ? '+' : '-');
      }
      for(int j = 0; j < n; j++)
      {
         s += isNInf(lo[j]) ? (isPInf(up[j]) ? 'F' : 'U') : (isPInf(up[j]) ? 'L' : (lo[j] == up[j] ? 'X' : 'B'));
         s += obj[j] == 0 ? '0' : (obj[j] > 0 ? '+' : '-');
      }
      return fnv(s);
   }
   std::string toJson() const
   {
      std::ostringstream o;
      auto vec = [&](const std::vector<Q>& v)
      {
         std::string s = "[";
         for(size_t k = 0; k < v.size(); k++)
         {
            if(k) s += ",";
            s += "\"" + (isPInf(v[k]) ? std::string("inf") : isNInf(v[k]) ? std::string("-inf") : qs(v[k])) + "\"";
         }
         return s + "]";
      };
      o << "{\"m\":" << m << ",\"n\":" << n << ",\"sense\":" << sense << ",\"offset\":\"" << qs(offset) << "\",\"family\":\"" <<
        jesc(family) << "\",\"tags\":\"" << jesc(tags) << "\",\"obj\":" << vec(obj) << ",\"lo\":" << vec(lo) << ",\"up\":" << vec(
           up) << ",\"lhs\":" << vec(lhs) << ",\"rhs\":" << vec(rhs) << ",\"A\":[";
      for(int i = 0; i < m; i++)
      {
         if(i) o << ",";
         o << vec(A[i]);
      }
      o << "]}";
      return o.str();
   }
   // LP-format text (for human replay with the soplex binary); names x<j>, r<i>
   std::string toLPText() const
   {
      std::ostringstream o;
      o << (sense > 0 ? "Maximize\n obj: " : "Minimize\n obj: ");
      bool any = false;
      for(int j = 0; j < n; j++) if(obj[j] != 0)
         {
            o << (obj[j] > 0 ? " + " : " - ") << qs(qabs(obj[j])) << " x" << j;
            any = true;
         }
      if(!any && n > 0) o << "0 x0";
      if(offset != 0) o << (offset > 0 ? " + " : " - ") << qs(qabs(offset));
      o << "\nSubject To\n";
      for(int i = 0; i < m; i++)
      {
         bool fl = !isNInf(lhs[i]), fr = !isPInf(rhs[i]);
         bool ranged = fl && fr && lhs[i] != rhs[i];
         for(int part = 0; part < (ranged ? 2 : 1); part++)     // the LP format has no ranged rows: two rows
         {
            o << " r" << i << (ranged ? (part == 0 ? "a" : "b") : "") << ": ";
            bool a2 = false;
            for(int j = 0; j < n; j++) if(A[i][j] != 0)
               {
                  o << (A[i][j] > 0 ? " + " : " - ") << qs(qabs(A[i][j])) << " x" << j;
                  a2 = true;
               }
            if(!a2) o << "0 x0";
            if(ranged) o << (part == 0 ? " >= " + qs(lhs[i]) : " <= " + qs(rhs[i]));
            else if(fl && fr) o << " = " << qs(rhs[i]);
            else if(fr) o << " <= " << qs(rhs[i]);
            else if(fl) o << " >= " << qs(lhs[i]);
            else o << " >= -inf";
            o << "\n";
         }
      }
      o << "Bounds\n";
      for(int j = 0; j < n; j++)
      {
         bool fl = !isNInf(lo[j]), fu = !isPInf(up[j]);
         if(!fl && !fu) o << " x" << j << " free\n";
         else
         {
            o << " " << (fl ? qs(lo[j]) : std::string("-inf")) << " <= x" << j << " <= " << (fu ? qs(up[j]) : std::string("+inf")) << "\n";
         }
      }
      o << "End\n";
      return o.str();
   }
};

} // namespace vl
