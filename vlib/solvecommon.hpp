// vlib/solvecommon.hpp -- pieces shared by the solve-level harnesses: configuration minimisation for
// violation keys (DESIGN section 6), replay payloads, log capture, oracle self-tests.
#pragma once
#include "sx.hpp"

namespace vl
{
// greedy one-minimal configuration: drop every parameter whose removal keeps the failure
inline ParamSet minimiseConfig(const ParamSet& full, const std::function<bool(const ParamSet&)>& stillFails)
{
   ParamSet cur = full;
   sink().count("minimiser.runs");
   bool changed = true;
   int budget = 60;
   while(changed && budget > 0)
   {
      changed = false;
      if(cur.hasSeed && budget-- > 0)
      {
         ParamSet t = cur;
         t.hasSeed = false;
         if(stillFails(t))
         {
            cur = t;
            changed = true;
         }
      }
      for(auto kv : std::map<int, bool>(cur.b))
      {
         if(budget-- <= 0) break;
         ParamSet t = cur;
         t.b.erase(kv.first);
         if(stillFails(t))
         {
            cur = t;
            changed = true;
         }
      }
      for(auto kv : std::map<int, int>(cur.i))
      {
         if(budget-- <= 0) break;
         ParamSet t = cur;
         t.i.erase(kv.first);
         if(stillFails(t))
         {
            cur = t;
            changed = true;
         }
      }
      for(auto kv : std::map<int, double>(cur.r))
      {
         if(budget-- <= 0) break;
         ParamSet t = cur;
         t.r.erase(kv.first);
         if(stillFails(t))
         {
            cur = t;
            changed = true;
         }
      }
   }
   return cur;
}

// Which default-on features does the failure depend on?  (stable root-cause hint appended to the key: a failure that
// disappears when the simplifier / scaler is switched off is attributed to it.)
inline std::string refineNeeds(const ParamSet& minimal, const std::function<bool(const ParamSet&)>& stillFails)
{
   std::string needs;
   struct F
   {
      int id;
      const char* name;
   };
   const F feats[] = {{SoPlex::SIMPLIFIER, "simplifier"}, {SoPlex::SCALER, "scaler"}};
   for(const F& f : feats)
   {
      if(minimal.i.count(f.id)) continue;
      ParamSet t = minimal;
      t.i[f.id] = 0;
      if(!stillFails(t)) needs += std::string(needs.empty() ? "" : ",") + f.name;
   }
   return needs.empty() ? std::string() : "+needs{" + needs + "}";
}
inline std::string cellKey(const ParamSet& full, const std::function<bool(const ParamSet&)>& stillFails, ParamSet* minimalOut = nullptr)
{
   ParamSet mc = minimiseConfig(full, stillFails);
   if(minimalOut) *minimalOut = mc;
   return mc.key() + refineNeeds(mc, stillFails);
}

inline std::string replayJson(const LPModel& M, const ParamSet& cfg, const ParamSet& minimal, int loadMode)
{
   Json j;
   j.raw("lp", M.toJson()).str("lp_text", M.toLPText()).raw("config", cfg.json()).str("settings", cfg.settingsText()).str("minimal_cell",
         minimal.key()).num("loadMode", loadMode);
   return j.done();
}

// redirect all solver output of verbosity <= level into buf
struct LogCapture
{
   CountingBuf buf;
   std::ostream os;
   LogCapture() : os(&buf) {}
   void attach(SoPlex& sp, int level)
   {
      sp.setIntParam(SoPlex::VERBOSITY, level, true);
      for(int v = 0; v <= 5; v++) sp.spxout.setStream((soplex::SPxOut::Verbosity)v, os);
   }
};

// hand-built true and false certificates; a failure means the oracle library itself is broken -> exit 2
inline void selfTestOracles()
{
   auto die = [](const char* what)
   {
      fprintf(stderr, "ORACLE-SELFTEST-FAILED: %s\n", what);
      exit(2);
   };
   // min x+y s.t. x+y>=2, 0<=x<=3, y>=0 : optimum 2
   LPModel M;
   M.m = 1;
   M.n = 2;
   M.A = {{1, 1}};
   M.lhs = {2};
   M.rhs = {PINF()};
   M.lo = {0, 0};
   M.up = {3, PINF()};
   M.obj = {1, 1};
   M.sense = -1;
   {
      OptResid o = optResiduals(M, {2, 0}, {2}, {1}, {0, 0});
      if(!optExact(o)) die("true optimal certificate rejected");
      OptResid b = optResiduals(M, {2, 0}, {2}, {-1}, {2, 2});
      if(optExact(b)) die("wrong-sign dual accepted");
      OptResid c = optResiduals(M, {3, 0}, {3}, {1}, {0, 0});
      if(optExact(c)) die("non-optimal primal accepted (gap)");
      OptResid d = optResiduals(M, {1, 0}, {1}, {1}, {0, 0});
      if(d.sideViol == 0) die("infeasible primal accepted");
   }
   RefResult r = refSolve(M);
   if(!(r.status == REF_OPTIMAL && r.certified && r.objval == 2)) die("refsolve optimum");
   LPModel X = M;
   X.sense = 1;
   RefResult u = refSolve(X);
   if(!(u.status == REF_UNBOUNDED && u.certified)) die("refsolve unbounded");
   LPModel F = M;
   F.rhs = {1};
   F.lhs = {NINF()};
   F.lo = {1, 1};
   RefResult f = refSolve(F);
   if(!(f.status == REF_INFEASIBLE && f.certified)) die("refsolve infeasible");
   {
      FarkasRes a = checkFarkas(F, {1});
      if(!a.proves || a.margin != 1) die("true Farkas rejected");
      FarkasRes b = checkFarkas(M, {1});
      if(b.proves) die("Farkas accepted on feasible LP");
      RayRes ry = checkRay(X, {0, 1});
      if(!ry.valid) die("true ray rejected");
      RayRes rz = checkRay(X, {1, 0});
      if(rz.valid) die("ray through finite upper bound accepted");
      RayRes rw = checkRay(M, {0, 1});
      if(rw.valid) die("non-improving ray accepted");
   }
   if(roundNearest(Q(1) / Q(10)) != 0.1) die("roundNearest");
   if(!isAdjacentDouble(Q(1) / Q(3), 1.0 / 3.0)) die("isAdjacentDouble");
}

} // namespace vl
