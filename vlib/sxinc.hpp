// vlib/sxinc.hpp -- the one place where SoPlex headers are included by harnesses.
// Standard/boost headers first, then SoPlex with `private`/`protected` opened up: this (a) lets monitors read
// private state (e.g. _rowTypes, m_hist) without source hooks and (b) makes the whole-class explicit instantiation
// in inst/inst_soplex.cpp compile (a debug-only member accesses a protected base).  Access specifiers do not change
// layout or mangling with GCC/Clang, so objects from inst_*.cpp and harness TUs are link-compatible.
#pragma once
#include <string>
#include <sstream>
#include <iostream>
#include <fstream>
#include <iomanip>
#include <vector>
#include <list>
#include <memory>
#include <map>
#include <set>
#include <unordered_map>
#include <algorithm>
#include <functional>
#include <numeric>
#include <random>
#include <limits>
#include <thread>
#include <mutex>
#include <atomic>
#include <chrono>
#include <cmath>
#include <cstring>
#include <cassert>
#include <climits>
#include <cfloat>
#include <boost/multiprecision/gmp.hpp>
#include <boost/multiprecision/mpfr.hpp>
#include <boost/multiprecision/number.hpp>
#include <boost/multiprecision/detail/default_ops.hpp>
#define protected public
#define private public
#include "soplex.h"
#undef protected
#undef private
#ifndef VL_NO_EXTERN
namespace soplex
{
extern template class SoPlexBase<double>;
}
#endif
