// vlib/sx.hpp -- glue between the reference model and the real SoPlex API: loading, parameter sets,
// result extraction, the OPTIMAL / Farkas / ray / basis monitors shared by the solve-level harnesses.
#pragma once
#include "sxinc.hpp"
#include "gen.hpp"

namespace vl
{
using soplex::SoPlex;
typedef soplex::SPxSolverBase<double> SPX;
typedef SPX::VarStatus VarStatus;

inline double toReal(const Q& q)      // model value -> the double handed to SoPlex (infinite sentinels preserved)
{
   if(isPInf(q)) return soplex::infinity;
   if(isNInf(q)) return -soplex::infinity;
   return dq(q);
}
inline Q fromReal(double d)
{
   if(d >= 1e100) return QINF();
   if(d <= -1e100) return Q(-QINF());
   return qd(d);
}
inline std::vector<Q> toQ(const soplex::VectorBase<double>& v)
{
   std::vector<Q> r(v.dim());
   // non-finite entries (never legitimate in a solution vector) are mapped to a huge finite value so that the exact monitors flag
   // them as violations instead of GMP raising SIGFPE inside the harness
   for(int i = 0; i < v.dim(); i++) r[i] = std::isfinite(v[i]) ? qd(v[i]) : Q(qd(1e300) * (std::isnan(v[i]) ? 7 : (v[i] > 0 ? 1 : -1)));
   return r;
}
inline std::vector<Q> toQ(const soplex::VectorBase<soplex::Rational>& v)
{
   std::vector<Q> r(v.dim());
   for(int i = 0; i < v.dim(); i++) r[i] = v[i];
   return r;
}

// ---------------------------------------------------------------- parameter sets
struct ParamSet
{
   std::map<int, bool> b;
   std::map<int, int> i;
   std::map<int, double> r;
   bool hasSeed = false;
   unsigned seed = 0;

   std::string key() const
   {
      std::vector<std::string> parts;
      for(auto& kv : b) parts.push_back(SoPlex::Settings::boolParam.name[kv.first] + "=" + (kv.second ? "1" : "0"));
      for(auto& kv : i) parts.push_back(SoPlex::Settings::intParam.name[kv.first] + "=" + std::to_string(kv.second));
      for(auto& kv : r) parts.push_back(SoPlex::Settings::realParam.name[kv.first] + "=" + ds(kv.second));
      std::sort(parts.begin(), parts.end());
      std::string s = "{";
      for(size_t k = 0; k < parts.size(); k++) s += (k ? "," : "") + parts[k];
      return s + "}";
   }
   std::string json() const
   {
      Json j;
      for(auto& kv : b) j.boolean("bool:" + SoPlex::Settings::boolParam.name[kv.first], kv.second);
      for(auto& kv : i) j.num("int:" + SoPlex::Settings::intParam.name[kv.first], kv.second);
      for(auto& kv : r) j.dbl("real:" + SoPlex::Settings::realParam.name[kv.first], kv.second);
      if(hasSeed) j.num("uint:random_seed", seed);
      return j.done();
   }
   // settings-file text (can be fed to the soplex binary with --loadset)
   std::string settingsText() const
   {
      std::ostringstream o;
      for(auto& kv : b) o << "bool:" << SoPlex::Settings::boolParam.name[kv.first] << " = " << (kv.second ? "true" : "false") << "\n";
      for(auto& kv : i) o << "int:" << SoPlex::Settings::intParam.name[kv.first] << " = " << kv.second << "\n";
      for(auto& kv : r) o << "real:" << SoPlex::Settings::realParam.name[kv.first] << " = " << ds(kv.second) << "\n";
      if(hasSeed) o << "uint:random_seed = " << seed << "\n";
      return o.str();
   }
   bool apply(SoPlex& s) const
   {
      bool ok = true;
      for(auto& kv : i) ok = s.setIntParam((SoPlex::IntParam)kv.first, kv.second, true) && ok;
      for(auto& kv : b) ok = s.setBoolParam((SoPlex::BoolParam)kv.first, kv.second, true) && ok;
      for(auto& kv : r) ok = s.setRealParam((SoPlex::RealParam)kv.first, kv.second, true) && ok;
      if(hasSeed) s.setRandomSeed(seed);
      return ok;
   }
   // remove entries equal to the library default
   void normalise()
   {
      for(auto it = b.begin(); it != b.end();) it = (it->second == SoPlex::Settings::boolParam.defaultValue[it->first]) ? b.erase(it) : std::next(it);
      for(auto it = i.begin(); it != i.end();) it = (it->second == SoPlex::Settings::intParam.defaultValue[it->first]) ? i.erase(it) : std::next(it);
      for(auto it = r.begin(); it != r.end();) it = (it->second == SoPlex::Settings::realParam.defaultValue[it->first]) ? r.erase(it) : std::next(it);
   }
   size_t size() const
   {
      return b.size() + i.size() + r.size();
   }
};

// algorithmic parameter space (DESIGN 3.5)
struct ParamDim
{
   char kind;   // 'b','i','r'
   int id;
   std::vector<double> vals;
};
inline const std::vector<ParamDim>& algDims()
{
   static std::vector<ParamDim> d =
   {
      {'i', SoPlex::REPRESENTATION, {0, 1, 2}},
      {'i', SoPlex::ALGORITHM, {0, 1}},
      {'i', SoPlex::FACTOR_UPDATE_TYPE, {0, 1}},
      {'i', SoPlex::FACTOR_UPDATE_MAX, {0, 2, 5, 20}},
      {'i', SoPlex::SIMPLIFIER, {0, 1, 3}},
      {'i', SoPlex::SCALER, {0, 1, 2, 3, 4, 5, 6}},
      {'i', SoPlex::STARTER, {0, 1, 2, 3}},
      {'i', SoPlex::PRICER, {0, 1, 2, 3, 4, 5}},
      {'i', SoPlex::RATIOTESTER, {0, 1, 2, 3}},
      {'i', SoPlex::HYPER_PRICING, {0, 1, 2}},
      {'i', SoPlex::SOLUTION_POLISHING, {0, 1, 2}},
      {'b', SoPlex::ROWBOUNDFLIPS, {0, 1}},
      {'b', SoPlex::PERSISTENTSCALING, {0, 1}},
      {'b', SoPlex::FULLPERTURBATION, {0, 1}},
      {'b', SoPlex::ENSURERAY, {0, 1}},
      {'r', SoPlex::MIN_MARKOWITZ, {0.01, 0.1, 0.5, 0.99}},
      {'r', SoPlex::SPARSITY_THRESHOLD, {0.0, 0.6, 1.0}},
      {'r', SoPlex::REPRESENTATION_SWITCH, {0.5, 1.2, 5.0}},
      {'r', SoPlex::REFAC_BASIS_NNZ, {1.0, 10.0}},
      {'r', SoPlex::REFAC_UPDATE_FILL, {1.0, 5.0}},
      {'r', SoPlex::REFAC_MEM_FACTOR, {1.0, 1.5}},
   };
   return d;
}
inline void setDim(ParamSet& p, const ParamDim& d, double v)
{
   if(d.kind == 'b') p.b[d.id] = v != 0;
   else if(d.kind == 'i') p.i[d.id] = (int)v;
   else p.r[d.id] = v;
}
inline ParamSet randomAlgConfig(Rng& g, double pChange = 0.35)
{
   ParamSet p;
   for(auto& d : algDims()) if(g.chance(pChange)) setDim(p, d, g.pick(d.vals));
   if(g.chance(0.3))
   {
      p.hasSeed = true;
      p.seed = (unsigned)g.range(0, 1000);
   }
   p.normalise();
   return p;
}
// greedy pairwise covering array over algDims (deterministic for a given seed)
inline std::vector<ParamSet> pairwiseConfigs(uint64_t seed)
{
   const auto& D = algDims();
   int nd = (int)D.size();
   std::set<std::tuple<int, int, int, int>> need;   // (d1,v1,d2,v2)
   for(int a = 0; a < nd; a++) for(int b = a + 1; b < nd; b++)
         for(size_t x = 0; x < D[a].vals.size(); x++) for(size_t y = 0; y < D[b].vals.size(); y++) need.insert(std::make_tuple(a, (int)x, b, (int)y));
   Rng g(777, seed, 0);
   std::vector<ParamSet> out;
   while(!need.empty() && out.size() < 200)
   {
      std::vector<int> best;
      int bestCov = -1;
      for(int trial = 0; trial < 30; trial++)
      {
         std::vector<int> c(nd);
         for(int a = 0; a < nd; a++) c[a] = g.range(0, (int)D[a].vals.size() - 1);
         if(trial == 0)
         {
            // seed the candidate with one uncovered pair
            auto t = *need.begin();
            c[std::get<0>(t)] = std::get<1>(t);
            c[std::get<2>(t)] = std::get<3>(t);
         }
         int cov = 0;
         for(int a = 0; a < nd; a++) for(int b = a + 1; b < nd; b++) if(need.count(std::make_tuple(a, c[a], b, c[b]))) cov++;
         if(cov > bestCov)
         {
            bestCov = cov;
            best = c;
         }
      }
      for(int a = 0; a < nd; a++) for(int b = a + 1; b < nd; b++) need.erase(std::make_tuple(a, best[a], b, best[b]));
      ParamSet p;
      for(int a = 0; a < nd; a++) setDim(p, D[a], D[a].vals[best[a]]);
      p.normalise();
      out.push_back(p);
   }
   return out;
}

// ---------------------------------------------------------------- loading
inline void quiet(SoPlex& s)
{
   s.setIntParam(SoPlex::VERBOSITY, 0, true);
}

// load the model through the real interface; mode 0: columns then rows (rows carry entries), 1: rows then columns
// (columns carry entries), 2: one by one mixed.  All finite values must be exact doubles.
inline void loadReal(SoPlex& s, const LPModel& M, int mode = 0)
{
   using namespace soplex;
   s.setIntParam(SoPlex::OBJSENSE, M.sense > 0 ? SoPlex::OBJSENSE_MAXIMIZE : SoPlex::OBJSENSE_MINIMIZE, true);
   s.setRealParam(SoPlex::OBJ_OFFSET, dq(M.offset), true);
   if(mode == 1)
   {
      LPRowSetReal rows;
      DSVectorReal empty(1);
      for(int i = 0; i < M.m; i++) rows.add(toReal(M.lhs[i]), empty, toReal(M.rhs[i]));
      s.addRowsReal(rows);
      LPColSetReal cols;
      for(int j = 0; j < M.n; j++)
      {
         DSVectorReal c(M.m + 1);
         for(int i = 0; i < M.m; i++) if(M.A[i][j] != 0) c.add(i, dq(M.A[i][j]));
         cols.add(dq(M.obj[j]), toReal(M.lo[j]), c, toReal(M.up[j]));
      }
      s.addColsReal(cols);
   }
   else if(mode == 2)
   {
      DSVectorReal empty(1);
      for(int j = 0; j < M.n; j++) s.addColReal(LPColReal(dq(M.obj[j]), empty, toReal(M.up[j]), toReal(M.lo[j])));
      for(int i = 0; i < M.m; i++)
      {
         DSVectorReal r(M.n + 1);
         for(int j = 0; j < M.n; j++) if(M.A[i][j] != 0) r.add(j, dq(M.A[i][j]));
         s.addRowReal(LPRowReal(toReal(M.lhs[i]), r, toReal(M.rhs[i])));
      }
   }
   else
   {
      LPColSetReal cols;
      DSVectorReal empty(1);
      for(int j = 0; j < M.n; j++) cols.add(dq(M.obj[j]), toReal(M.lo[j]), empty, toReal(M.up[j]));
      s.addColsReal(cols);
      LPRowSetReal rows;
      for(int i = 0; i < M.m; i++)
      {
         DSVectorReal r(M.n + 1);
         for(int j = 0; j < M.n; j++) if(M.A[i][j] != 0) r.add(j, dq(M.A[i][j]));
         rows.add(toReal(M.lhs[i]), r, toReal(M.rhs[i]));
      }
      s.addRowsReal(rows);
   }
}

inline soplex::Rational toRat(const Q& q, const SoPlex& s)
{
   (void)s;
   if(isPInf(q)) return soplex::Rational(QINF());
   if(isNInf(q)) return soplex::Rational(-QINF());
   return q;
}
inline void loadRational(SoPlex& s, const LPModel& M, int mode = 0)
{
   using namespace soplex;
   s.setIntParam(SoPlex::OBJSENSE, M.sense > 0 ? SoPlex::OBJSENSE_MAXIMIZE : SoPlex::OBJSENSE_MINIMIZE, true);
   s.setRealParam(SoPlex::OBJ_OFFSET, dq(M.offset), true);
   if(mode == 1)
   {
      DSVectorRational empty(1);
      for(int i = 0; i < M.m; i++) s.addRowRational(LPRowRational(toRat(M.lhs[i], s), empty, toRat(M.rhs[i], s)));
      LPColSetRational cols;
      for(int j = 0; j < M.n; j++)
      {
         DSVectorRational c(M.m + 1);
         for(int i = 0; i < M.m; i++) if(M.A[i][j] != 0) c.add(i, M.A[i][j]);
         cols.add(M.obj[j], toRat(M.lo[j], s), c, toRat(M.up[j], s));
      }
      s.addColsRational(cols);
   }
   else
   {
      DSVectorRational empty(1);
      LPColSetRational cols;
      for(int j = 0; j < M.n; j++) cols.add(M.obj[j], toRat(M.lo[j], s), empty, toRat(M.up[j], s));
      s.addColsRational(cols);
      LPRowSetRational rows;
      for(int i = 0; i < M.m; i++)
      {
         DSVectorRational r(M.n + 1);
         for(int j = 0; j < M.n; j++) if(M.A[i][j] != 0) r.add(j, M.A[i][j]);
         rows.add(toRat(M.lhs[i], s), r, toRat(M.rhs[i], s));
      }
      s.addRowsRational(rows);
   }
}

// read the LP back through the real accessors into a model (for mirror comparison)
inline LPModel readBackReal(SoPlex& s)
{
   LPModel M;
   M.m = s.numRows();
   M.n = s.numCols();
   M.A.assign(M.m, std::vector<Q>(M.n, Q(0)));
   M.lhs.resize(M.m);
   M.rhs.resize(M.m);
   M.lo.resize(M.n);
   M.up.resize(M.n);
   M.obj.resize(M.n);
   for(int i = 0; i < M.m; i++)
   {
      M.lhs[i] = fromReal(s.lhsReal(i));
      M.rhs[i] = fromReal(s.rhsReal(i));
      soplex::DSVectorReal r;
      s.getRowVectorReal(i, r);
      for(int k = 0; k < r.size(); k++) M.A[i][r.index(k)] = qd(r.value(k));
   }
   for(int j = 0; j < M.n; j++)
   {
      M.lo[j] = fromReal(s.lowerReal(j));
      M.up[j] = fromReal(s.upperReal(j));
      M.obj[j] = qd(s.objReal(j));
   }
   M.sense = s.intParam(SoPlex::OBJSENSE) == SoPlex::OBJSENSE_MAXIMIZE ? 1 : -1;
   M.offset = qd(s.realParam(SoPlex::OBJ_OFFSET));
   return M;
}

inline const char* statusName(int st)
{
   switch(st)
   {
   case 1: return "OPTIMAL";
   case 2: return "UNBOUNDED";
   case 3: return "INFEASIBLE";
   case 4: return "INForUNBD";
   case 5: return "OPTIMAL_UNSCALED_VIOLATIONS";
   case 0: return "UNKNOWN";
   case -1: return "RUNNING";
   case -2: return "REGULAR";
   case -3: return "SINGULAR";
   case -4: return "NO_PROBLEM";
   case -5: return "ABORT_VALUE";
   case -6: return "ABORT_ITER";
   case -7: return "ABORT_TIME";
   case -8: return "ABORT_CYCLING";
   case -9: return "NO_SOLVER";
   case -10: return "NO_PRICER";
   case -11: return "NO_RATIOTESTER";
   case -12: return "NOT_INIT";
   case -13: return "ABORT_EXDECOMP";
   case -14: return "ABORT_DECOMP";
   case -15: return "ERROR";
   }
   return "?";
}

// ---------------------------------------------------------------- stream capture (INFO logs of the solver)
struct CountingBuf : public std::streambuf
{
   std::string cur, all;
   long lines = 0;
   long resolveNotes = 0;                 // "detected violations in original problem space"
   long despiteNotes = 0;                 // "termination despite violations (numerical difficulties, ...)" (spxsolve.hpp)
   std::function<void(const std::string&)> onLine;
   int overflow(int c) override
   {
      if(c == '\n')
      {
         lines++;
         if(cur.find("violations in original problem space") != std::string::npos) resolveNotes++;
         if(cur.find("termination despite violations") != std::string::npos) despiteNotes++;
         if(onLine) onLine(cur);
         if(all.size() < 20000) all += cur + "\n";
         cur.clear();
      }
      else if(c != EOF) cur += (char)c;
      return c;
   }
};

// ---------------------------------------------------------------- monitors
struct SolveOut
{
   int status = 0;
   bool hasSol = false, hasBasis = false;
   std::vector<Q> x, s, y, r;
   double objval = 0;
   int iters = 0;
   std::vector<int> rowStat, colStat, bind;
};

inline void extract(SoPlex& sp, SolveOut& o)
{
   using namespace soplex;
   o.status = (int)sp.status();
   o.hasSol = sp.hasSol();
   o.hasBasis = sp.hasBasis();
   o.iters = sp.numIterations();
   int m = sp.numRows(), n = sp.numCols();
   if(o.hasSol)
   {
      VectorReal x(n), s(m), y(m), r(n);
      bool a = sp.getPrimal(x), b = sp.getSlacksReal(s), c = sp.getDual(y), d = sp.getRedCost(r);
      if(a) o.x = toQ(x);
      if(b) o.s = toQ(s);
      if(c) o.y = toQ(y);
      if(d) o.r = toQ(r);
      o.objval = sp.objValueReal();
   }
   if(o.hasBasis)
   {
      std::vector<VarStatus> rs(m + 1), cs(n + 1);
      sp.getBasis(rs.data(), cs.data());
      o.rowStat.resize(m);
      o.colStat.resize(n);
      for(int i = 0; i < m; i++) o.rowStat[i] = (int)rs[i];
      for(int j = 0; j < n; j++) o.colStat[j] = (int)cs[j];
   }
}

// tolerance policy (DESIGN 3.4)
struct Tol
{
   double feas = 1e-6, opt = 1e-6;
   double alarm = 10.0;     // multiple of tau beyond which we alarm
   double rnd = 1e-9;       // relative allowance on the magnitude of the summed terms (badly scaled data: 1e-6, see monitorOptimal)
};

// Checks the OPTIMAL certificate in the user's space, element by element, exactly.  Returns "" if fine, else
// "<monitor>:<detail>".  Thresholds (DESIGN 3.4): alarm*tau absolute (the property's "within the tolerance") plus a
// 1e-9 relative rounding allowance on the magnitude of the terms that were summed.  Records max(observed/threshold).
inline std::string monitorOptimal(const LPModel& M, const SolveOut& o, const Tol& t, const std::string& pfx)
{
   if((int)o.x.size() != M.n || (int)o.y.size() != M.m || (int)o.s.size() != M.m || (int)o.r.size() != M.n)
      return "vectors:missing solution vector(s) although status is OPTIMAL";
   Sink& S = sink();
   // badly scaled instances (entries spanning 2^+-40, possibly solved with scaling switched off): the solver's tolerances are absolute
   // in its working space, so on rows whose terms are 1e10 a relative accuracy of 1e-9 is not something the property promises
   const double F = t.alarm * t.feas, O = t.alarm * t.opt, RND = (M.family == "badly-scaled" ? std::max(t.rnd, 1e-6) : t.rnd);
   std::string bad;
   auto fail = [&](const std::string & s_)
   {
      if(bad.empty()) bad = s_;
   };
   int sg = M.sense > 0 ? -1 : 1;      // orientation: multiply duals by sg to get the "min" convention
   double wB = 0, wS = 0, wSl = 0, wRc = 0, wYs = 0, wRs = 0, wCx = 0, wCy = 0;
   std::vector<Q> act(M.m);
   std::vector<double> rsc(M.m, 0.0);
   for(int i = 0; i < M.m; i++)
   {
      Q a = 0, sc = 0;
      for(int j = 0; j < M.n; j++) if(M.A[i][j] != 0 && o.x[j] != 0)
         {
            Q tt = M.A[i][j] * o.x[j];
            a += tt;
            sc += qabs(tt);
         }
      act[i] = a;
      rsc[i] = dq(sc);
   }
   // bounds
   for(int j = 0; j < M.n; j++)
   {
      Q v = 0;
      if(!isNInf(M.lo[j]) && o.x[j] < M.lo[j]) v = M.lo[j] - o.x[j];
      if(!isPInf(M.up[j]) && o.x[j] > M.up[j]) v = o.x[j] - M.up[j];
      double thr = F + 1e-12 * std::fabs(dq(o.x[j]));
      double ratio = dq(v) / thr;
      if(ratio > wB) wB = ratio;
      if(ratio > 1) fail("bound:primal violates bound of column " + std::to_string(j) + " by " + ds(dq(v)));
   }
   // sides (on exact activity and on the reported slack) and slack = activity
   for(int i = 0; i < M.m; i++)
   {
      for(int w = 0; w < 2; w++)
      {
         const Q& sv = w == 0 ? act[i] : o.s[i];
         Q v = 0;
         if(!isNInf(M.lhs[i]) && sv < M.lhs[i]) v = M.lhs[i] - sv;
         if(!isPInf(M.rhs[i]) && sv > M.rhs[i]) v = sv - M.rhs[i];
         double thr = F + RND * rsc[i];
         double ratio = dq(v) / thr;
         if(ratio > wS) wS = ratio;
         if(ratio > 1) fail(std::string("side:") + (w == 0 ? "row activity" : "reported slack") + " violates side of row " + std::to_string(
                                  i) + " by " + ds(dq(v)));
      }
      double thr = O + RND * rsc[i];
      double ratio = dq(qabs(act[i] - o.s[i])) / thr;
      if(ratio > wSl) wSl = ratio;
      if(ratio > 1) fail("slack:slack != A x in row " + std::to_string(i) + " by " + ds(dq(qabs(act[i] - o.s[i]))));
   }
   // reduced costs: r = c - A^T y
   std::vector<Q> rex(M.n);
   for(int j = 0; j < M.n; j++)
   {
      Q tt = M.obj[j], sc = qabs(M.obj[j]);
      for(int i = 0; i < M.m; i++) if(M.A[i][j] != 0 && o.y[i] != 0)
         {
            Q u = M.A[i][j] * o.y[i];
            tt -= u;
            sc += qabs(u);
         }
      rex[j] = tt;
      double thr = O + RND * dq(sc);
      double ratio = dq(qabs(tt - o.r[j])) / thr;
      if(ratio > wRc) wRc = ratio;
      if(ratio > 1) fail("redcost:redcost != c - A^T y in column " + std::to_string(j) + " by " + ds(dq(qabs(tt - o.r[j]))));
      // sign condition / complementarity of column j (on the reported reduced cost)
      Q q = sg > 0 ? o.r[j] : Q(-o.r[j]);
      double rthr = O + RND * dq(sc);
      if(dq(qabs(q)) > rthr)
      {
         bool pos = q > 0;
         const Q& bnd = pos ? M.lo[j] : M.up[j];
         bool inf = pos ? isNInf(bnd) : isPInf(bnd);
         if(inf)
         {
            double ratio2 = dq(qabs(q)) / rthr;
            if(ratio2 > wRs) wRs = ratio2;
            fail("rcsign:reduced cost of column " + std::to_string(j) + " = " + ds(dq(o.r[j])) + " has the wrong sign for an infinite bound");
         }
         else
         {
            double dist = dq(qabs(o.x[j] - bnd));
            double ratio2 = dist / (F + 1e-12 * std::fabs(dq(o.x[j])));
            if(ratio2 > wCx) wCx = ratio2;
            if(ratio2 > 1) fail("compl-col:column " + std::to_string(j) + " has reduced cost " + ds(dq(o.r[j])) + " but is " + ds(
                                      dist) + " away from the bound it prices (duality gap)");
         }
      }
   }
   for(int i = 0; i < M.m; i++)
   {
      Q q = sg > 0 ? o.y[i] : Q(-o.y[i]);
      if(dq(qabs(q)) > O)
      {
         bool pos = q > 0;
         const Q& side = pos ? M.lhs[i] : M.rhs[i];
         bool inf = pos ? isNInf(side) : isPInf(side);
         if(inf)
         {
            double ratio2 = dq(qabs(q)) / O;
            if(ratio2 > wYs) wYs = ratio2;
            fail("dualsign:dual of row " + std::to_string(i) + " = " + ds(dq(o.y[i])) + " has the wrong sign for an infinite side");
         }
         else
         {
            double dist = dq(qabs(act[i] - side));
            double ratio2 = dist / (F + RND * rsc[i]);
            if(ratio2 > wCy) wCy = ratio2;
            if(ratio2 > 1) fail("compl-row:row " + std::to_string(i) + " has dual " + ds(dq(o.y[i])) + " but its activity is " + ds(
                                      dist) + " away from the side it prices (duality gap)");
         }
      }
   }
   // objective value = c.x + offset
   Q pobj = M.offset, osc = qabs(M.offset);
   for(int j = 0; j < M.n; j++) if(M.obj[j] != 0)
      {
         pobj += M.obj[j] * o.x[j];
         osc += qabs(M.obj[j] * o.x[j]);
      }
   double wOb = std::fabs(o.objval - dq(pobj)) / (RND * (1.0 + dq(osc)));
   if(wOb > 1) fail("objvalue:objValueReal " + ds(o.objval) + " != c.x+offset " + ds(dq(pobj)));
   S.maxi(pfx + "boundViol/thr", wB);
   S.maxi(pfx + "sideViol/thr", wS);
   S.maxi(pfx + "slackResid/thr", wSl);
   S.maxi(pfx + "rcResid/thr", wRc);
   S.maxi(pfx + "complCol/thr", wCx);
   S.maxi(pfx + "complRow/thr", wCy);
   S.maxi(pfx + "objResid/thr", wOb);
   return bad;
}

// basis monitor (C04 a-d).  Returns "" or monitor:detail
inline std::string monitorBasis(SoPlex& sp, const LPModel& M, bool fromSolve, int maxExactDim = 60)
{
   int m = sp.numRows(), n = sp.numCols();
   if(m != M.m || n != M.n) return "dims:solver dims differ from model";
   std::vector<VarStatus> rs(m + 1), cs(n + 1);
   sp.getBasis(rs.data(), cs.data());
   int nb = 0;
   for(int i = 0; i < m; i++)
   {
      if(rs[i] != sp.basisRowStatus(i)) return "query:getBasis row " + std::to_string(i) + " != basisRowStatus";
      if(rs[i] == SPX::BASIC) nb++;
      else if(rs[i] == SPX::ON_LOWER && isNInf(M.lhs[i])) return "bound:row " + std::to_string(i) + " ON_LOWER with infinite lhs";
      else if(rs[i] == SPX::ON_UPPER && isPInf(M.rhs[i])) return "bound:row " + std::to_string(i) + " ON_UPPER with infinite rhs";
      else if(rs[i] == SPX::FIXED && !(isFin(M.lhs[i]) && M.lhs[i] == M.rhs[i])) return "bound:row " + std::to_string(i) + " FIXED with lhs != rhs";
      else if(rs[i] == SPX::ZERO && !(isNInf(M.lhs[i]) && isPInf(M.rhs[i]))) return "bound:row " + std::to_string(i) + " ZERO but not free";
      else if(rs[i] == SPX::UNDEFINED) return "bound:row " + std::to_string(i) + " UNDEFINED";
   }
   for(int j = 0; j < n; j++)
   {
      if(cs[j] != sp.basisColStatus(j)) return "query:getBasis col " + std::to_string(j) + " != basisColStatus";
      if(cs[j] == SPX::BASIC) nb++;
      else if(cs[j] == SPX::ON_LOWER && isNInf(M.lo[j])) return "bound:col " + std::to_string(j) + " ON_LOWER with infinite lower";
      else if(cs[j] == SPX::ON_UPPER && isPInf(M.up[j])) return "bound:col " + std::to_string(j) + " ON_UPPER with infinite upper";
      else if(cs[j] == SPX::FIXED && !(isFin(M.lo[j]) && M.lo[j] == M.up[j])) return "bound:col " + std::to_string(j) + " FIXED with lower != upper";
      else if(cs[j] == SPX::ZERO && !(isNInf(M.lo[j]) && isPInf(M.up[j]))) return "bound:col " + std::to_string(j) + " ZERO but not free";
      else if(cs[j] == SPX::UNDEFINED) return "bound:col " + std::to_string(j) + " UNDEFINED";
   }
   if(nb != m) return "count:" + std::to_string(nb) + " basic variables for " + std::to_string(m) + " rows";
   std::vector<int> bind(m + 1, 0);
   sp.getBasisInd(bind.data());
   std::set<int> seen;
   for(int k = 0; k < m; k++)
   {
      int b = bind[k];
      if(!seen.insert(b).second) return "bind:duplicate basis index " + std::to_string(b);
      if(b >= 0)
      {
         if(b >= n || cs[b] != SPX::BASIC) return "bind:index " + std::to_string(b) + " not a BASIC column";
      }
      else
      {
         int r = -1 - b;
         if(r >= m || rs[r] != SPX::BASIC) return "bind:index " + std::to_string(b) + " not a BASIC row";
      }
   }
   bind.resize(m);
   if(fromSolve && m <= maxExactDim)
   {
      sink().count("basis.exact_regularity_checks");
      if(!nonsingularQ(basisMatrix(M, bind))) return "singular:basis matrix of a solve-produced basis is exactly singular";
   }
   return "";
}

} // namespace vl
