// harness/cont_misc.cpp -- C19 units: IdxSet, DIdxSet, NameSet, DataHashTable (the arrays / lists / sorter are in cont_arr.cpp).
#include "cont_common.hpp"

namespace cont
{
using namespace soplex;

const char* const miscUnitNames[] = {"IdxSet", "DIdxSet", "NameSet", "DataHashTable", "DataArray", "Array", "ClassArray", "IdList", "IsList", "Sorter"};
Unit* makeArrUnit(int which);     // cont_arr.cpp

// ================================================================================================ IdxSet / DIdxSet
// mirror of IdxSet::isConsistent() (idxset.cpp is linked from the shared support objects, compiled without the macro)
static bool idxSetSelfCheck(const IdxSet& s)
{
   if(s.max() > 0 && s.idx == nullptr) return false;
   for(int i = 0; i < s.size(); i++)
   {
      if(s.index(i) < 0) return false;
      for(int j = 0; j < i; j++)
         if(s.index(i) == s.index(j)) return false;
   }
   return true;
}

template <bool DYN>
struct IdxUnit : Unit
{
   IdxSet* set = nullptr;
   std::vector<int> buf;         // IdxSet: caller-provided memory with a guard word on both sides
   std::vector<int> model;
   int O_addIdx, O_addArr, O_addSet, O_addN, O_rem0, O_remLast, O_remMid, O_remRangeHead, O_remRangeMid, O_remRangeTail, O_clear,
       O_copy, O_assign, O_setMax, O_fromIdxSet;
   enum { UNIVERSE = 64, GUARD = -777 };

   IdxUnit(const char* nm)
   {
      name = nm;
      O_addIdx = op("addIdx", 40);
      O_addArr = op("add(n,idx[])", 20);
      O_addSet = op("add(IdxSet)", 10);
      O_addN = op("add(n)", DYN ? 0 : 8);
      O_rem0 = op("remove(first)", 6);
      O_remLast = op("remove(last)", 6);
      O_remMid = op("remove(n)", 12);
      O_remRangeHead = op("remove(0,m)", 5);
      O_remRangeMid = op("remove(n,m)", 8);
      O_remRangeTail = op("remove(n,last)", 5);
      O_clear = op("clear", 1);
      O_copy = op("copy-ctor", 4);
      O_assign = op("operator=", 5);
      O_setMax = op("setMax", DYN ? 8 : 0);
      O_fromIdxSet = op("DIdxSet(IdxSet)", DYN ? 4 : 0);
   }
   ~IdxUnit()
   {
      delete set;
   }
   std::vector<int> exOps() const override
   {
      std::vector<int> v = {O_addIdx, O_addArr, O_addSet, O_rem0, O_remLast, O_remMid, O_remRangeHead, O_remRangeMid, O_remRangeTail, O_clear, O_copy, O_assign};
      v.push_back(DYN ? O_setMax : O_addN);
      return v;
   }
   void reset() override
   {
      delete set;
      if(DYN) set = new DIdxSet(rnd ? g.range(0, 6) : 2);
      else
      {
         int cap = rnd ? g.range(4, UNIVERSE) : 6;
         buf.assign(cap + 2, GUARD);
         set = new IdxSet(cap, buf.data() + 1);
      }
      model.clear();
   }
   DIdxSet& dyn()
   {
      return *static_cast<DIdxSet*>(set);
   }
   int freshIndex(const std::vector<int>& also)
   {
      for(;;)
      {
         int i = g.range(0, UNIVERSE - 1);
         if(std::find(model.begin(), model.end(), i) == model.end() && std::find(also.begin(), also.end(), i) == also.end()) return i;
      }
   }
   bool room(int n)
   {
      if((int)model.size() + n > UNIVERSE - 4) return false;
      if(DYN) return true;
      return set->size() + n <= set->max();
   }
   bool verify(const std::string& on, bool orderKnown = true)
   {
#define VB(cond, what, detail) do { checks++; if(!(cond)) { fail(on, what, detail); return false; } } while(0)
      IdxSet& s = *set;
      VB(s.size() == (int)model.size(), "size-differs", "size()=" + I(s.size()) + " model=" + I(model.size()));
      VB(s.max() >= s.size(), "size-above-max", "size()=" + I(s.size()) + " max()=" + I(s.max()));
      if(!DYN && !buf.empty() && s.idx == buf.data() + 1)
         VB(buf.front() == GUARD && buf.back() == GUARD, "wrote-outside-index-memory", "a word outside the index memory handed to the IdxSet was overwritten");
      std::vector<int> got;
      for(int i = 0; i < s.size(); i++) got.push_back(s.index(i));
      if(orderKnown)
         VB(got == model, "indices-differ", "set is " + vs(got) + " expected " + vs(model));
      else
      {
         std::vector<int> a = got, b = model;
         std::sort(a.begin(), a.end());
         std::sort(b.begin(), b.end());
         VB(a == b, "indices-differ", "set is " + vs(got) + " expected the indices " + vs(model) + " in some order");
         model = got;
      }
      for(size_t i = 0; i < got.size(); i++)
         for(size_t j = 0; j < i; j++)
            VB(got[i] != got[j], "duplicate-index", "index " + I(got[i]) + " is stored twice: " + vs(got));
      int mx = -1;
      for(int v : got) mx = std::max(mx, v);
      VB(s.dim() == mx, "dim-differs", "dim()=" + I(s.dim()) + " expected " + I(mx));
      for(int v = 0; v < UNIVERSE; v++)
      {
         auto it = std::find(got.begin(), got.end(), v);
         int want = it == got.end() ? -1 : (int)(it - got.begin());
         VB(s.pos(v) == want, "pos-differs", "pos(" + I(v) + ")=" + I(s.pos(v)) + " expected " + I(want));
      }
      VB(idxSetSelfCheck(s), "isConsistent-false", "the conditions of IdxSet::isConsistent() do not hold");
      return true;
#undef VB
   }
   static std::string vs(const std::vector<int>& v)
   {
      std::string r = "[";
      for(size_t i = 0; i < v.size(); i++) r += (i ? "," : "") + I(v[i]);
      return r + "]";
   }
   void step(int o) override
   {
      IdxSet& s = *set;
      bool orderKnown = true;
      if(o == O_addIdx)
      {
         if(!room(1)) return skip();
         int i = freshIndex({});
         if(DYN) dyn().addIdx(i);
         else s.addIdx(i);
         model.push_back(i);
      }
      else if(o == O_addArr || o == O_addSet)
      {
         int n = rnd ? g.range(0, 5) : 2;
         if(!room(n)) return skip();
         std::vector<int> add;
         for(int j = 0; j < n; j++) add.push_back(freshIndex(add));
         note("{n=" + I(n) + "}");
         if(o == O_addArr)
         {
            add.push_back(-5);
            if(DYN) dyn().add(n, add.data());
            else s.add(n, add.data());
            add.pop_back();
         }
         else
         {
            std::vector<int> ob(n + 3, 0);
            IdxSet other(n + 3, ob.data());
            for(int v : add) other.addIdx(v);
            if(DYN) dyn().add(other);
            else s.add(other);
         }
         model.insert(model.end(), add.begin(), add.end());
      }
      else if(o == O_addN)
      {
         if(DYN) return skip();
         int n = rnd ? g.range(0, 3) : 1;
         if(!room(n) || buf.empty() || s.idx != buf.data() + 1) return skip();
         int old = s.size();
         s.add(n);
         // the new indices are uninitialised; write them through the memory that was handed to the set
         std::vector<int> add;
         for(int j = 0; j < n; j++)
         {
            add.push_back(freshIndex(add));
            buf[1 + old + j] = add.back();
         }
         model.insert(model.end(), add.begin(), add.end());
      }
      else if(o == O_rem0 || o == O_remLast || o == O_remMid)
      {
         int n = s.size();
         if(n == 0) return skip();
         int i = pos(o == O_rem0 ? 0 : o == O_remLast ? 1 : 2, n);
         note("{" + I(i) + "/" + I(n) + "}");
         s.remove(i);
         std::vector<int> prefix(model.begin(), model.begin() + i);
         model.erase(model.begin() + i);
         orderKnown = false;
         CK(s.size() == n - 1, "size-differs", "size()=" + I(s.size()) + " expected " + I(n - 1));
         for(int j = 0; j < i; j++)
            CK(s.index(j) == prefix[j], "index-before-removed-changed", "documented: indices before the first removed one keep their number; index(" + I(
                  j) + ")=" + I(s.index(j)) + " was " + I(prefix[j]));
      }
      else if(o == O_remRangeHead || o == O_remRangeMid || o == O_remRangeTail)
      {
         int n = s.size();
         if(n == 0) return skip();
         int a, b;
         if(o == O_remRangeHead)
         {
            a = 0;
            b = rnd ? g.range(0, n - 1) : (n - 1) / 2;
         }
         else if(o == O_remRangeTail)
         {
            b = n - 1;
            a = rnd ? g.range(0, n - 1) : n / 2;
         }
         else
         {
            a = rnd ? g.range(0, n - 1) : n / 3;
            b = rnd ? g.range(a, n - 1) : std::min(n - 1, a + 1);
         }
         // IdxSet::remove(n,m) with fewer survivors behind m than removed indices writes idx[n-1]; with n == 0 that is
         // idx[-1], which only the caller-provided (guarded) memory of the plain IdxSet can absorb
         if((DYN || buf.empty() || s.idx != buf.data() + 1) && hazards().idxRemoveTail && a == 0 && (n - 1 - b) < (b - a + 1)) return skip();
         note("{" + I(a) + ".." + I(b) + "/" + I(n) + "}");
         s.remove(a, b);
         std::vector<int> prefix(model.begin(), model.begin() + a);
         model.erase(model.begin() + a, model.begin() + b + 1);
         orderKnown = false;
         CK(s.size() == n - (b - a + 1), "size-differs", "size()=" + I(s.size()) + " expected " + I(n - (b - a + 1)));
         if(!DYN && !buf.empty() && s.idx == buf.data() + 1)
            CK(buf.front() == GUARD && buf.back() == GUARD, "wrote-outside-index-memory", "a word outside the index memory handed to the IdxSet was overwritten");
         for(int j = 0; j < a; j++)
            CK(s.index(j) == prefix[j], "index-before-removed-changed", "documented: indices before the first removed one keep their number; index(" + I(
                  j) + ")=" + I(s.index(j)) + " was " + I(prefix[j]));
      }
      else if(o == O_clear)
      {
         s.clear();
         model.clear();
      }
      else if(o == O_copy)
      {
         IdxSet* c = DYN ? static_cast<IdxSet*>(new DIdxSet(dyn())) : new IdxSet(s);
         if(!verify("copy-ctor(source)"))
         {
            delete c;
            return;
         }
         delete set;
         set = c;
         if(!DYN) buf.clear();
      }
      else if(o == O_assign)
      {
         if(DYN)
         {
            DIdxSet* t = new DIdxSet(rnd ? g.range(0, 10) : 1);
            int pre = rnd ? g.range(0, 3) : 1;
            for(int j = 0; j < pre; j++) t->addIdx(1000 + j);
            if(rnd && g.chance(0.5)) *t = static_cast<const IdxSet&>(s);
            else *t = dyn();
            if(!verify("operator=(source)"))
            {
               delete t;
               return;
            }
            delete set;
            set = t;
         }
         else
         {
            // documented: the left-hand side must have enough index memory
            int cap = s.size() + (rnd ? g.range(0, 6) : 1);
            if(cap < 4) cap = 4;
            std::vector<int> nb(cap + 2, GUARD);
            IdxSet* t = new IdxSet(cap, nb.data() + 1);
            t->addIdx(1000);
            *t = s;
            if(!verify("operator=(source)"))
            {
               delete t;
               return;
            }
            delete set;
            set = t;
            buf.swap(nb);      // vector swap keeps the element storage, so t's pointer stays valid
         }
      }
      else if(o == O_setMax)
      {
         if(!DYN) return skip();
         int nm = rnd ? g.range(0, s.size() + 8) : (s.size() > 1 ? s.size() - 1 : 5);
         note("{" + I(nm) + "}");
         dyn().setMax(nm);
         CK(s.max() >= nm && s.max() >= s.size(), "max-too-small", "max()=" + I(s.max()) + " after setMax(" + I(nm) + ")");
      }
      else if(o == O_fromIdxSet)
      {
         if(!DYN) return skip();
         DIdxSet* c = new DIdxSet(static_cast<const IdxSet&>(s));
         delete set;
         set = c;
      }
      verify(opNames[o], orderKnown);
   }
};

// ================================================================================================ NameSet
struct NameUnit : Unit
{
   NameSet* ns = nullptr;
   std::map<std::string, int> byName;     // live name -> key idx
   std::map<int, std::string> byKey;
   std::set<std::string> gone;            // names that were removed (or never added) and must not be found
   int counter = 0;
   int O_addKey, O_add, O_addDup, O_addSet, O_addSetKeys, O_remKey, O_remNum0, O_remNumLast, O_remNumMid, O_remName, O_remAbsent,
       O_remKeys, O_remNums, O_remDstat, O_clear, O_reMaxGrow, O_reMaxSmall, O_memRemaxGrow, O_memRemaxFit, O_memPack;

   NameUnit(const char* nm)
   {
      name = nm;
      O_addKey = op("add(key,name)", 50);
      O_add = op("add(name)", 20);
      O_addDup = op("add(existing-name)", 6);
      O_addSet = op("add(NameSet)", 6);
      O_addSetKeys = op("add(keys[],NameSet)", 6);
      O_remKey = op("remove(key)", 10);
      O_remNum0 = op("remove(num=first)", 5);
      O_remNumLast = op("remove(num=last)", 5);
      O_remNumMid = op("remove(num)", 8);
      O_remName = op("remove(name)", 10);
      O_remAbsent = op("remove(absent-name)", 3);
      O_remKeys = op("remove(keys,n)", 5);
      O_remNums = op("remove(nums,n)", 5);
      O_remDstat = op("remove(dstat[])", 6);
      O_clear = op("clear", 1);
      O_reMaxGrow = op("reMax(grow)", 5);
      O_reMaxSmall = op("reMax(small)", 4);
      O_memRemaxGrow = op("memRemax(grow)", 4);
      O_memRemaxFit = op("memRemax(fit)", 5);
      O_memPack = op("memPack", 8);
   }
   ~NameUnit()
   {
      delete ns;
   }
   std::vector<int> exOps() const override
   {
      return {O_addKey, O_add, O_addDup, O_addSetKeys, O_remKey, O_remNum0, O_remName, O_remNums, O_remDstat, O_clear, O_reMaxSmall, O_memRemaxFit, O_memPack};
   }
   void reset() override
   {
      delete ns;
      // the entry factor is also the growth factor of the hash table: only values for which DataHashTable::reMax terminates
      if(rnd) ns = new NameSet(g.range(1, 6), g.range(1, 20), 1.5 + 0.25 * g.range(0, 4), 1.0 + 0.25 * g.range(0, 6));
      else ns = new NameSet(2, 8, 2, 2);
      byName.clear();
      byKey.clear();
      gone.clear();
      counter = 0;
   }
   std::string freshName()
   {
      std::string s = "n" + std::to_string(counter++);
      int extra = rnd ? (g.chance(0.05) ? g.range(40, 300) : g.range(0, 6)) : (int)(g.next() % 4);
      for(int i = 0; i < extra; i++) s += (char)('a' + (g.next() % 26));
      return s;
   }
   bool verify(const std::string& on)
   {
#define VB(cond, what, detail) do { checks++; if(!(cond)) { fail(on, what, detail); return false; } } while(0)
      NameSet& s = *ns;
      int n = s.num();
      VB(n == (int)byName.size(), "num-differs", "num()=" + I(n) + " model=" + I(byName.size()));
      VB(n <= s.max() && s.size() <= s.max() && n <= s.size(), "num-size-max-out-of-order", "num()=" + I(n) + " size()=" + I(s.size()) + " max()=" + I(s.max()));
      VB(s.memSize() <= s.memMax() && s.memSize() >= 0, "memSize-above-memMax", "memSize()=" + I(s.memSize()) + " memMax()=" + I(s.memMax()));
      for(int i = 0; i < n; i++)
      {
         DataKey k = s.key(i);
         auto it = byKey.find(k.idx);
         VB(it != byKey.end(), "key-not-live", "key(" + I(i) + ").idx=" + I(k.idx) + " is not the key of a live name");
         const std::string& nm = it->second;
         VB(nm == s[i], "name-by-number-differs", "name number " + I(i) + " is '" + std::string(s[i]).substr(0, 40) + "' expected '" + nm.substr(0, 40) + "'");
         VB(nm == s[k], "name-by-key-differs", "name with key " + I(k.idx) + " is '" + std::string(s[k]).substr(0, 40) + "' expected '" + nm.substr(0, 40) + "'");
         VB(s.number(k) == i && s.has(k) && s.has(i), "number-of-key-differs", "number(key(" + I(i) + "))=" + I(s.number(k)));
         VB(s.has(nm.c_str()), "has(name)-false", "has('" + nm.substr(0, 40) + "') is false for a registered name");
         VB(s.number(nm.c_str()) == i, "number-of-name-differs", "number('" + nm.substr(0, 40) + "')=" + I(s.number(nm.c_str())) + " expected " + I(i));
         VB(s.key(nm.c_str()).idx == k.idx, "key-of-name-differs", "key('" + nm.substr(0, 40) + "').idx=" + I(s.key(nm.c_str()).idx) + " expected " + I(k.idx));
      }
      VB(!s.has(n) && !s.has(-1), "has(number)-true-out-of-range", "has(num()) or has(-1) true");
      for(const std::string& nm : gone)
      {
         VB(!s.has(nm.c_str()), "removed-name-still-found", "has('" + nm.substr(0, 40) + "') is true for a removed name");
         VB(s.number(nm.c_str()) == -1, "removed-name-has-number", "number('" + nm.substr(0, 40) + "')=" + I(s.number(nm.c_str())));
         VB(!s.key(nm.c_str()).isValid(), "removed-name-has-key", "key('" + nm.substr(0, 40) + "') is valid for a removed name");
      }
      VB(s.set.isConsistent(), "isConsistent-false(DataSet)", "DataSet::isConsistent() of the name set returned false");
      VB(s.hashtab.isConsistent(), "isConsistent-false(DataHashTable)", "DataHashTable::isConsistent() of the name table returned false");
      return true;
#undef VB
   }
   void forget(int keyidx)
   {
      std::string nm = byKey[keyidx];
      byKey.erase(keyidx);
      byName.erase(nm);
      gone.insert(nm);
      if(gone.size() > 40) gone.erase(gone.begin());
   }
   bool adoptNew(const std::string& nm, const DataKey* k)
   {
      // the key under which nm was registered
      DataKey kk = k ? *k : ns->key(nm.c_str());
      checks++;
      if(kk.idx < 0)
      {
         fail("key-not-returned", "no valid key for the new name '" + nm.substr(0, 40) + "'");
         return false;
      }
      if(byKey.count(kk.idx))
      {
         fail("new-key-collides-with-live-key", "key idx=" + I(kk.idx) + " of the new name already identifies '" + byKey[kk.idx].substr(0, 40) + "'");
         return false;
      }
      byKey[kk.idx] = nm;
      byName[nm] = kk.idx;
      gone.erase(nm);
      return true;
   }
   void step(int o) override
   {
      NameSet& s = *ns;
      if(o == O_addKey || o == O_add)
      {
         std::string nm = (rnd && !gone.empty() && g.chance(0.2)) ? *gone.begin() : freshName();      // removed names may come back
         note("{len=" + I(nm.size()) + "}");
         DataKey k;
         if(o == O_addKey)
         {
            s.add(k, nm.c_str());
            if(!adoptNew(nm, &k)) return;
         }
         else
         {
            s.add(nm.c_str());
            if(!adoptNew(nm, nullptr)) return;
         }
      }
      else if(o == O_addDup)
      {
         if(byName.empty()) return skip();
         auto it = byName.begin();
         if(rnd) std::advance(it, g.range(0, (int)byName.size() - 1));
         std::string copy = it->first;      // a copy: the set must compare the characters, not the pointer
         DataKey k;
         s.add(k, copy.c_str());
         // nothing may change
      }
      else if(o == O_addSet || o == O_addSetKeys)
      {
         NameSet other(rnd ? g.range(1, 5) : 2, rnd ? g.range(1, 30) : 4);
         int cnt = rnd ? g.range(0, 5) : 3;
         std::vector<std::string> names;
         for(int i = 0; i < cnt; i++)
         {
            std::string nm = (i == 1 && !byName.empty()) ? byName.begin()->first : freshName();     // one name is already present
            names.push_back(nm);
            other.add(nm.c_str());
         }
         note("{n=" + I(other.num()) + "}");
         std::vector<DataKey> keys(other.num() + 1);
         if(o == O_addSet) s.add(other);
         else s.add(keys.data(), other);
         for(int i = 0; i < other.num(); i++)
         {
            std::string nm = other[i];
            if(byName.count(nm)) continue;
            if(!adoptNew(nm, o == O_addSetKeys ? &keys[i] : nullptr)) return;
         }
      }
      else if(o == O_remKey || o == O_remNum0 || o == O_remNumLast || o == O_remNumMid || o == O_remName)
      {
         int n = s.num();
         if(n == 0) return skip();
         int i = pos(o == O_remNum0 ? 0 : o == O_remNumLast ? 1 : 2, n);
         DataKey k = s.key(i);
         note("{" + I(i) + "/" + I(n) + "}");
         if(o == O_remKey) s.remove(k);
         else if(o == O_remName)
         {
            std::string copy = byKey[k.idx];
            s.remove(copy.c_str());
         }
         else s.remove(i);
         forget(k.idx);
      }
      else if(o == O_remAbsent)
      {
         std::string nm = gone.empty() ? std::string("never-added") : *gone.begin();
         s.remove(nm.c_str());
      }
      else if(o == O_remKeys || o == O_remNums || o == O_remDstat)
      {
         int n = s.num();
         if(n == 0) return skip();
         std::vector<char> rem(n, 0);
         if(rnd)
         {
            double p = g.chance(0.2) ? 0.8 : 0.3;
            for(int i = 0; i < n; i++) rem[i] = g.chance(p);
         }
         else
         {
            rem[0] = 1;
            if(n > 2) rem[n - 1] = 1;
         }
         std::vector<DataKey> keys;
         std::vector<int> nums, dstat(n + 1, 4242), kidx;
         for(int i = 0; i < n; i++)
         {
            dstat[i] = rem[i] ? -1 : i;
            if(rem[i])
            {
               keys.push_back(s.key(i));
               nums.push_back(i);
               kidx.push_back(s.key(i).idx);
            }
         }
         int cnt = (int)nums.size();
         if(rnd && o != O_remDstat)
            for(size_t i = keys.size(); i > 1; i--)
            {
               size_t j = (size_t)(g.next() % i);
               std::swap(keys[i - 1], keys[j]);
               std::swap(nums[i - 1], nums[j]);
            }
         keys.push_back(DataKey());
         nums.push_back(-1);
         std::string d = "{";
         for(int i = 0; i < cnt; i++) d += (i ? "," : "") + I(nums[i]);
         note(d + " of " + I(n) + "}");
         std::vector<int> oldkeys(n);
         for(int i = 0; i < n; i++) oldkeys[i] = s.key(i).idx;
         if(o == O_remKeys) s.remove(keys.data(), cnt);
         else if(o == O_remNums) s.remove(nums.data(), cnt);
         else s.remove(dstat.data());
         for(int k : kidx) forget(k);
         if(o == O_remDstat)
         {
            CK(s.num() == n - cnt, "num-differs", "num()=" + I(s.num()) + " expected " + I(n - cnt));
            CK(dstat[n] == 4242, "perm-written-past-num", "dstat[num()] was overwritten");
            for(int i = 0; i < n; i++)
            {
               if(rem[i]) CK(dstat[i] < 0, "removed-not-marked", "dstat[" + I(i) + "]=" + I(dstat[i]) + " for a removed name");
               else
               {
                  CK(dstat[i] >= 0 && dstat[i] < s.num(), "perm-out-of-range", "dstat[" + I(i) + "]=" + I(dstat[i]) + " num()=" + I(s.num()));
                  CK(s.key(dstat[i]).idx == oldkeys[i], "survivor-moved-wrong", "dstat[" + I(i) + "]=" + I(dstat[i]) + " but that number has key " + I(s.key(
                           dstat[i]).idx) + ", the name had key " + I(oldkeys[i]));
               }
            }
         }
      }
      else if(o == O_clear)
      {
         s.clear();
         for(auto& kv : byName) gone.insert(kv.first);
         while(gone.size() > 40) gone.erase(gone.begin());
         byName.clear();
         byKey.clear();
      }
      else if(o == O_reMaxGrow || o == O_reMaxSmall)
      {
         int nm = (o == O_reMaxGrow) ? s.max() + (rnd ? g.range(1, 20) : 3) : (rnd ? g.range(0, s.max()) : 0);
         note("{" + I(nm) + "}");
         s.reMax(nm);
         CK(s.max() >= nm && s.max() >= s.size(), "max-too-small", "max()=" + I(s.max()) + " after reMax(" + I(nm) + "), size()=" + I(s.size()));
      }
      else if(o == O_memRemaxGrow || o == O_memRemaxFit)
      {
         int nm = (o == O_memRemaxGrow) ? s.memMax() + (rnd ? g.range(1, 50) : 5) : (rnd ? g.range(0, s.memSize()) : 0);
         note("{" + I(nm) + "}");
         s.memRemax(nm);
         CK(s.memMax() >= nm && s.memMax() >= s.memSize(), "memMax-too-small", "memMax()=" + I(s.memMax()) + " after memRemax(" + I(nm) + ")");
      }
      else if(o == O_memPack)
      {
         int before = s.memSize();
         s.memPack();
         CK(s.memSize() <= before, "memPack-grew", "memSize() grew from " + I(before) + " to " + I(s.memSize()));
         long long need = 0;
         for(auto& kv : byName) need += (long long)kv.first.size() + 1;
         CK(s.memSize() == need, "memPack-left-garbage", "memSize()=" + I(s.memSize()) + " after memPack(), the live names need " + I(need));
      }
      verify(opNames[o]);
   }
};

// ================================================================================================ DataHashTable
struct HKey
{
   int a;
   int b;
   friend int operator==(const HKey& x, const HKey& y)
   {
      return x.a == y.a && x.b == y.b;
   }
};
struct HInfo
{
   int v;
   int w;
};
static int hkeyHash(const HKey* k)      // many collisions on purpose
{
   return (k->a % 7) * 3 + (k->b & 1);
}
static int hkeyHashWide(const HKey* k)
{
   return (int)(((unsigned)k->a * 2654435761u) % 0x0fffffffu);
}

struct HashUnit : Unit
{
   typedef DataHashTable<HKey, HInfo> HT;
   HT* ht = nullptr;
   std::map<int, int> model;      // a -> v
   int nextVal = 1;
   int O_add, O_remPresent, O_remAbsent, O_clear, O_reMaxGrow, O_reMaxFit, O_reMaxHash1, O_copy, O_assign;
   enum { UNIVERSE = 90 };

   HashUnit(const char* nm)
   {
      name = nm;
      O_add = op("add", 60);
      O_remPresent = op("remove(present)", 30);
      O_remAbsent = op("remove(absent)", 4);
      O_clear = op("clear", 1);
      O_reMaxGrow = op("reMax(grow)", 4);
      O_reMaxFit = op("reMax(-1)", 4);
      O_reMaxHash1 = op("reMax(n,hashsize=1)", 3);
      O_copy = op("copy-ctor", 3);
      O_assign = op("operator=", 3);
   }
   ~HashUnit()
   {
      delete ht;
   }
   std::vector<int> exOps() const override
   {
      return {O_add, O_add, O_remPresent, O_remAbsent, O_clear, O_reMaxGrow, O_reMaxFit, O_reMaxHash1, O_copy, O_assign};
   }
   HKey mk(int a)
   {
      HKey k;
      k.a = a;
      k.b = a * 31 + 5;
      return k;
   }
   void reset() override
   {
      delete ht;
      bool wide = rnd && g.chance(0.3);
      probeHashRemax(this);
      if(rnd) ht = new HT(wide ? hkeyHashWide : hkeyHash, g.range(1, 12), g.chance(0.3) ? 1 : 0, 1.5 + 0.25 * g.range(0, 4));
      else
      {
         probeHashRemax(this);
         ht = new HT(hkeyHash, 2, 0, 2.0);
      }
      model.clear();
      nextVal = 1;
   }
   bool verify(const std::string& on)
   {
#define VB(cond, what, detail) do { checks++; if(!(cond)) { fail(on, what, detail); return false; } } while(0)
      HT& h = *ht;
      for(int a = 0; a < UNIVERSE; a++)
      {
         HKey k = mk(a);
         auto it = model.find(a);
         if(it == model.end())
         {
            VB(!h.has(k), "absent-item-found", "has(" + I(a) + ") is true for an item that is not in the table");
            VB(h.get(k) == nullptr, "absent-item-found", "get(" + I(a) + ") is not null for an item that is not in the table");
         }
         else
         {
            VB(h.has(k), "item-lost", "has(" + I(a) + ") is false for an item of the table");
            const HInfo* p = h.get(k);
            VB(p != nullptr && p->v == it->second && p->w == ~it->second, "info-differs", "get(" + I(a) + ") gives " + (p ? I(p->v) : std::string("null")) + " expected " + I(
                  it->second));
            VB(h[k].v == it->second, "info-differs", "operator[](" + I(a) + ") gives " + I(h[k].v) + " expected " + I(it->second));
         }
      }
      VB(h.isConsistent(), "isConsistent-false", "isConsistent() returned false");
      return true;
#undef VB
   }
   void step(int o) override
   {
      HT& h = *ht;
      if(o == O_add)
      {
         if((int)model.size() >= UNIVERSE - 5) return skip();
         int a;
         do a = g.range(0, UNIVERSE - 1);
         while(model.count(a));
         HInfo inf;
         inf.v = nextVal++;
         inf.w = ~inf.v;
         note("{" + I(a) + "}");
         h.add(mk(a), inf);
         model[a] = inf.v;
      }
      else if(o == O_remPresent)
      {
         if(model.empty()) return skip();
         auto it = model.begin();
         std::advance(it, rnd ? g.range(0, (int)model.size() - 1) : (int)(g.next() % model.size()));
         note("{" + I(it->first) + "}");
         h.remove(mk(it->first));
         model.erase(it);
      }
      else if(o == O_remAbsent)
      {
         int a;
         do a = g.range(0, UNIVERSE - 1);
         while(model.count(a));
         h.remove(mk(a));
      }
      else if(o == O_clear)
      {
         h.clear();
         model.clear();
      }
      else if(o == O_reMaxGrow) h.reMax((int)model.size() * 2 + (rnd ? g.range(1, 40) : 5));
      else if(o == O_reMaxFit) h.reMax();
      else if(o == O_reMaxHash1) h.reMax((int)model.size() + (rnd ? g.range(2, 20) : 3), 1);
      else if(o == O_copy)
      {
         HT* c = new HT(h);
         if(!verify("copy-ctor(source)"))
         {
            delete c;
            return;
         }
         delete ht;
         ht = c;
      }
      else if(o == O_assign)
      {
         HT* t = new HT(hkeyHashWide, rnd ? g.range(1, 30) : 3);
         HInfo inf;
         inf.v = inf.w = 0;
         t->add(mk(UNIVERSE + 1), inf);
         *t = h;
         if(!verify("operator=(source)"))
         {
            delete t;
            return;
         }
         delete ht;
         ht = t;
      }
      verify(opNames[o]);
   }
};

Unit* makeMiscUnit(int which)
{
   switch(which)
   {
   case 0:
      return new IdxUnit<false>(miscUnitNames[0]);
   case 1:
      return new IdxUnit<true>(miscUnitNames[1]);
   case 2:
      return new NameUnit(miscUnitNames[2]);
   case 3:
      return new HashUnit(miscUnitNames[3]);
   default:
      return makeArrUnit(which - 4);
   }
}

} // namespace cont
