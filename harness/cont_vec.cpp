// harness/cont_vec.cpp -- C19 units for the vector classes: VectorBase, SVectorBase, DSVectorBase, SSVectorBase, UnitVectorBase
// for double and Rational.  Reference model: dense vectors of exact rationals.  The double unit only uses dyadic values with
// small numerators (and refreshes an object before its entries leave that range), so every double operation of the code under
// test is exact and the comparison with the rational model is exact as well; a separate operation ("generic doubles") compares
// scalar products and multAdd on arbitrary doubles against exact arithmetic within a rounding bound.
#include "cont_common.hpp"

namespace cont
{
using namespace soplex;

const char* const vecUnitNames[] = {"Vec.double", "Vec.Rational"};

typedef std::vector<Q> Dense;

template <class R> struct Other;
template <> struct Other<double>
{
   typedef Rational type;
};
template <> struct Other<Rational>
{
   typedef double type;
};

// double-only operations (spxLdexp based)
inline bool scaleAssignVec(VectorBase<double>& dst, int e, const VectorBase<double>& src)
{
   dst.scaleAssign(e, src);
   return true;
}
inline bool scaleAssignVec(VectorBase<Rational>&, int, const VectorBase<Rational>&)
{
   return false;
}
inline bool scaleAssignSV(SVectorBase<double>& dst, int e, const SVectorBase<double>& src)
{
   dst.scaleAssign(e, src);
   return true;
}
inline bool scaleAssignSV(SVectorBase<Rational>&, int, const SVectorBase<Rational>&)
{
   return false;
}

template <class R>
struct VecUnit : Unit
{
   typedef typename Other<R>::type R2;
   int D = 4;
   VectorBase<R>* v[2] = {nullptr, nullptr};
   SSVectorBase<R>* s[2] = {nullptr, nullptr};
   DSVectorBase<R>* d[2] = {nullptr, nullptr};
   Nonzero<R>* svmem = nullptr;
   SVectorBase<R>* sv = nullptr;
   UnitVectorBase<R>* u = nullptr;
   SVSetBase<R>* A = nullptr;
   Dense mv[2], ms[2], md[2], msv, mu;
   std::vector<Dense> mA;
   std::shared_ptr<Tolerances> tol;

   // operation ids
   int V_assignV, V_addV, V_subV, V_scale, V_div, V_dotV, V_multAddV, V_assignSV, V_assignOnlySV, V_addSV, V_subSV, V_dotSV, V_multAddSV,
       V_multSubSV, V_assignSS, V_assignOnlySS, V_addSS, V_subSS, V_dotSS, V_multAddSS, V_clear, V_neg, V_plus, V_minus, V_norms, V_reDim,
       V_svMinusV, V_scaleAssign, V_convert, V_write;
   int D_add1, D_addN, D_addSV, D_remove1, D_removeRange, D_clear, D_sort, D_scale, D_assignD, D_assignSVec, D_assignV, D_assignSS, D_ctorSS,
       D_ctorV, D_ctorCopy, D_setMax, D_dotV, D_dotSV, D_norms, D_timesScalar, D_assignArray, D_convert, D_scaleAssign, D_svAssignV, D_svAssignSV;
   int U_make;
   int S_setValue, S_setZero, S_add, S_clearIdx, S_clearNum, S_clear, S_altWrite, S_setup, S_assignSS, S_assignSV, S_assignV, S_addV, S_addSV,
       S_addSS, S_subV, S_subSV, S_subSS, S_scale, S_dotSS, S_multAddSV, S_multAddV, S_pwProduct, S_assign2product, S_assign2product4setup,
       S_assign2productAndSetup, S_setupAndAssign, S_reDim, S_reMem, S_norms, S_copy, S_fromV;
   int G_generic;

   VecUnit(const char* nm)
   {
      name = nm;
      V_assignV = op("Vector=Vector", 6);
      V_addV = op("Vector+=Vector", 8);
      V_subV = op("Vector-=Vector", 6);
      V_scale = op("Vector*=x", 6);
      V_div = op("Vector/=x", 4);
      V_dotV = op("Vector*Vector", 6);
      V_multAddV = op("Vector.multAdd(x,Vector)", 8);
      V_assignSV = op("Vector=SVector", 8);
      V_assignOnlySV = op("Vector.assign(SVector)", 6);
      V_addSV = op("Vector+=SVector", 8);
      V_subSV = op("Vector-=SVector", 6);
      V_dotSV = op("Vector*SVector", 8);
      V_multAddSV = op("Vector.multAdd(x,SVector)", 8);
      V_multSubSV = op("Vector.multSub(x,SVector)", 5);
      V_assignSS = op("Vector=SSVector", 8);
      V_assignOnlySS = op("Vector.assign(SSVector)", 6);
      V_addSS = op("Vector+=SSVector", 8);
      V_subSS = op("Vector-=SSVector", 6);
      V_dotSS = op("Vector*SSVector", 8);
      V_multAddSS = op("Vector.multAdd(x,SSVector)", 8);
      V_clear = op("Vector.clear", 2);
      V_neg = op("-Vector", 3);
      V_plus = op("Vector+Vector", 3);
      V_minus = op("Vector-Vector", 3);
      V_norms = op("Vector.norms", 4);
      V_reDim = op("Vector.reDim", 4);
      V_svMinusV = op("SVector-Vector", 3);
      V_scaleAssign = op("Vector.scaleAssign", RT<R>::exact ? 0 : 4);
      V_convert = op("Vector(other-type)", 4);
      V_write = op("Vector[i]=x", 8);
      D_add1 = op("SVector.add(i,x)", 14);
      D_addN = op("SVector.add(n,idx[],val[])", 8);
      D_addSV = op("DSVector.add(SVector)", 5);
      D_remove1 = op("SVector.remove(n)", 8);
      D_removeRange = op("SVector.remove(n,m)", 8);
      D_clear = op("SVector.clear", 3);
      D_sort = op("SVector.sort", 8);
      D_scale = op("SVector*=x", 6);
      D_assignD = op("DSVector=DSVector", 5);
      D_assignSVec = op("DSVector=SVector", 5);
      D_assignV = op("DSVector=Vector", 6);
      D_assignSS = op("DSVector=SSVector", 6);
      D_ctorSS = op("DSVector(SSVector)", 5);
      D_ctorV = op("DSVector(Vector)", 4);
      D_ctorCopy = op("DSVector(DSVector)", 4);
      D_setMax = op("DSVector.setMax", 5);
      D_dotV = op("SVector*Vector", 8);
      D_dotSV = op("SVector*SVector(sorted)", 8);
      D_norms = op("SVector.norms", 5);
      D_timesScalar = op("SVector*x", 4);
      D_assignArray = op("SVector.assignArray", 5);
      D_convert = op("DSVector(other-type)", 4);
      D_scaleAssign = op("SVector.scaleAssign", RT<R>::exact ? 0 : 3);
      D_svAssignV = op("SVector=Vector", 5);
      D_svAssignSV = op("SVector=SVector", 5);
      U_make = op("UnitVector(i)", 6);
      S_setValue = op("SSVector.setValue(i,x)", 12);
      S_setZero = op("SSVector.setValue(i,0)", 5);
      S_add = op("SSVector.add(i,x)", 8);
      S_clearIdx = op("SSVector.clearIdx", 5);
      S_clearNum = op("SSVector.clearNum", 5);
      S_clear = op("SSVector.clear", 3);
      S_altWrite = op("SSVector.altValues-write", 8);
      S_setup = op("SSVector.setup", 8);
      S_assignSS = op("SSVector=SSVector", 8);
      S_assignSV = op("SSVector=SVector", 8);
      S_assignV = op("SSVector=Vector", 6);
      S_addV = op("SSVector+=Vector", 5);
      S_addSV = op("SSVector+=SVector", 6);
      S_addSS = op("SSVector+=SSVector", 6);
      S_subV = op("SSVector-=Vector", 4);
      S_subSV = op("SSVector-=SVector", 4);
      S_subSS = op("SSVector-=SSVector", 5);
      S_scale = op("SSVector*=x", 6);
      S_dotSS = op("SSVector*SSVector", 8);
      S_multAddSV = op("SSVector.multAdd(x,SVector)", 10);
      S_multAddV = op("SSVector.multAdd(x,Vector)", 5);
      S_pwProduct = op("SSVector.assignPWproduct4setup", 6);
      S_assign2product = op("SSVector.assign2product", 6);
      S_assign2product4setup = op("SSVector.assign2product4setup", 10);
      S_assign2productAndSetup = op("SSVector.assign2productAndSetup", 6);
      S_setupAndAssign = op("SSVector.setup_and_assign", 6);
      S_reDim = op("SSVector.reDim", 4);
      S_reMem = op("SSVector.reMem", 3);
      S_norms = op("SSVector.norms", 4);
      S_copy = op("SSVector(SSVector)", 4);
      S_fromV = op("SSVector(Vector)", 3);
      G_generic = op("generic-doubles", RT<R>::exact ? 0 : 8);
   }
   void destroy()
   {
      for(int i = 0; i < 2; i++)
      {
         delete v[i];
         delete s[i];
         delete d[i];
         v[i] = nullptr;
         s[i] = nullptr;
         d[i] = nullptr;
      }
      delete sv;
      sv = nullptr;
      delete[] svmem;
      svmem = nullptr;
      delete u;
      u = nullptr;
      delete A;
      A = nullptr;
   }
   ~VecUnit()
   {
      destroy();
   }
   std::vector<int> exOps() const override
   {
      return {V_addV, V_dotV, V_multAddV, V_assignSV, V_assignOnlySV, V_addSV, V_dotSV, V_multAddSV, V_assignSS, V_assignOnlySS, V_addSS, V_dotSS,
              V_multAddSS, D_add1, D_remove1, D_removeRange, D_sort, D_scale, D_assignV, D_assignSS, D_ctorSS, D_dotV, D_dotSV, D_svAssignV, U_make,
              S_setValue, S_setZero, S_add, S_clearNum, S_altWrite, S_setup, S_assignSS, S_assignSV, S_addSV, S_addSS, S_subSS, S_scale, S_dotSS,
              S_multAddSV, S_pwProduct, S_assign2product, S_assign2product4setup, S_assign2productAndSetup, S_setupAndAssign};
   }
   // ---- value generation
   Q rv()
   {
      return ValGen<R>::val(g);
   }
   Q rx(bool pow2 = false)      // scalar
   {
      if(RT<R>::exact && !pow2)
      {
         for(;;)
         {
            int n = g.range(-6, 6);
            if(n) return qfrac(n, g.range(1, 5));
         }
      }
      static const int num[] = {2, -2, 1, -1, 3, -3, 4, 1, -1, 3};
      static const int den[] = {1, 1, 2, 2, 1, 2, 1, 4, 1, 4};
      int k = pow2 ? (int)(g.next() % 4) + (g.chance(0.3) ? 4 : 0) : (int)(g.next() % 10);
      if(pow2 && (k == 4 || k == 5)) k = 6;
      return qfrac(num[k], den[k]);
   }
   Dense rndDense(double density)
   {
      Dense m(D, Q(0));
      for(int i = 0; i < D; i++)
         if(g.chance(density)) m[i] = rv();
      return m;
   }
   // ---- (re)building objects from a model through the public API
   void setVec(int k, const Dense& m)
   {
      for(int i = 0; i < D; i++)(*v[k])[i] = RT<R>::make(m[i]);
      mv[k] = m;
   }
   void setSS(int k, const Dense& m, bool setup)
   {
      SSVectorBase<R>& x = *s[k];
      x.clear();
      if(setup)
      {
         std::vector<int> order;
         for(int i = 0; i < D; i++)
            if(m[i] != 0) order.push_back(i);
         if(rnd) g.shuffle(order);
         for(int i : order) x.setValue(i, RT<R>::make(m[i]));
      }
      else
      {
         R* p = x.altValues();
         for(int i = 0; i < D; i++) p[i] = RT<R>::make(m[i]);
      }
      ms[k] = m;
   }
   void setDS(int k, const Dense& m)
   {
      d[k]->clear();
      std::vector<int> order;
      for(int i = 0; i < D; i++)
         if(m[i] != 0) order.push_back(i);
      if(rnd || (g.next() & 1)) g.shuffle(order);
      for(int i : order) d[k]->add(i, RT<R>::make(m[i]));
      md[k] = m;
   }
   void setSV(const Dense& m)
   {
      sv->clear();
      std::vector<int> order;
      for(int i = 0; i < D; i++)
         if(m[i] != 0) order.push_back(i);
      g.shuffle(order);
      for(int i : order) sv->add(i, RT<R>::make(m[i]));
      msv = m;
   }
   void reset() override
   {
      destroy();
      D = rnd ? g.range(1, 10) : 4;
      tol = std::make_shared<Tolerances>();
      for(int k = 0; k < 2; k++)
      {
         v[k] = new VectorBase<R>(D);
         s[k] = new SSVectorBase<R>(D, tol);
         d[k] = new DSVectorBase<R>(rnd ? g.range(0, 4) : 2);
         mv[k] = ms[k] = md[k] = Dense(D, Q(0));
      }
      svmem = new Nonzero<R>[D + 2];
      sv = new SVectorBase<R>(D, svmem);
      msv = Dense(D, Q(0));
      u = new UnitVectorBase<R>(0);
      mu = Dense(D, Q(0));
      mu[0] = 1;
      A = new SVSetBase<R>(D, 2);
      mA.clear();
      for(int j = 0; j < D; j++)
      {
         Dense col = rndDense(j % 3 == 0 ? 0.0 : 0.5);
         DSVectorBase<R> t;
         for(int i = 0; i < D; i++)
            if(col[i] != 0) t.add(i, RT<R>::make(col[i]));
         A->add(t);
         mA.push_back(col);
      }
      double dens = rnd ? 0.2 + 0.6 * g.unit() : 0.6;
      for(int k = 0; k < 2; k++)
      {
         setVec(k, rndDense(dens));
         setSS(k, rndDense(dens), g.chance(0.7));
         setDS(k, rndDense(dens));
      }
      setSV(rndDense(dens));
   }
   static bool small(const Q& q)
   {
      if(q == 0) return true;
      Z nn = boost::multiprecision::numerator(q), dd = boost::multiprecision::denominator(q);
      if(nn < 0) nn = -nn;
      if(RT<R>::exact) return nn < (Z(1) << 60) && dd < (Z(1) << 60);
      // |q| < 2^12 with granularity 2^-10: products need < 44 bits, sums of 16 products < 48 bits (53 available)
      return dd <= (Z(1) << 10) && nn < (Z(1) << 12) * dd;
   }
   static bool allSmall(const Dense& m)
   {
      for(const Q& q : m)
         if(!small(q)) return false;
      return true;
   }
   // keep every entry in the range where products and sums of up to ~16 terms are exact in double precision
   void normalize()
   {
      for(int k = 0; k < 2; k++)
      {
         if(!allSmall(mv[k])) setVec(k, rndDense(0.6));
         if(!allSmall(ms[k])) setSS(k, rndDense(0.6), g.chance(0.7));
         if(!allSmall(md[k])) setDS(k, rndDense(0.6));
      }
      if(!allSmall(msv)) setSV(rndDense(0.6));
   }
   // ---- comparison
   static std::string dstr(const Dense& m)
   {
      std::string r = "(";
      for(size_t i = 0; i < m.size(); i++) r += (i ? "," : "") + qs(m[i]);
      return r + ")";
   }
   bool sparseEq(const SVectorBase<R>& x, const Dense& m, std::string* why)
   {
      SpModel sm;
      for(int i = 0; i < (int)m.size(); i++)
         if(m[i] != 0) sm[i] = m[i];
      if(x.size() > x.max() || x.size() < 0)
      {
         *why = "size()=" + I(x.size()) + " max()=" + I(x.max());
         return false;
      }
      if(!spEq(x, sm, why)) return false;
      for(int i = 0; i < (int)m.size(); i++)
         if(RT<R>::get(x[i]) != m[i])
         {
            *why = "operator[](" + I(i) + ")=" + qs(RT<R>::get(x[i])) + " expected " + qs(m[i]);
            return false;
         }
      return true;
   }
   bool verify(const std::string& on)
   {
#define VB(cond, what, detail) do { checks++; if(!(cond)) { fail(on, what, detail); return false; } } while(0)
      for(int k = 0; k < 2; k++)
      {
         VB(v[k]->dim() == D, "Vector-dim-differs", "dim()=" + I(v[k]->dim()) + " expected " + I(D));
         for(int i = 0; i < D; i++)
            VB(RT<R>::get((*v[k])[i]) == mv[k][i], "Vector-values-differ", "Vector " + I(k) + " entry " + I(i) + " is " + qs(RT<R>::get((*v[k])[i])) + " expected " + qs(
                  mv[k][i]) + " " + dstr(mv[k]));
         SSVectorBase<R>& x = *s[k];
         VB(x.dim() == D, "SSVector-dim-differs", "dim()=" + I(x.dim()) + " expected " + I(D));
         for(int i = 0; i < D; i++)
            VB(RT<R>::get(x[i]) == ms[k][i], "SSVector-values-differ", "SSVector " + I(k) + " entry " + I(i) + " is " + qs(RT<R>::get(x[i])) + " expected " + qs(
                  ms[k][i]) + " " + dstr(ms[k]) + (x.isSetup() ? " (setup)" : " (not setup)"));
         if(x.isSetup())
         {
            std::set<int> idx;
            VB(x.size() >= 0 && x.size() <= D, "SSVector-size-out-of-range", "size()=" + I(x.size()) + " dim " + I(D));
            for(int j = 0; j < x.size(); j++)
            {
               int ix = x.index(j);
               VB(ix >= 0 && ix < D, "SSVector-index-out-of-range", "index(" + I(j) + ")=" + I(ix));
               VB(idx.insert(ix).second, "SSVector-duplicate-index", "index " + I(ix) + " is listed twice");
               VB(RT<R>::get(x.value(j)) == ms[k][ix], "SSVector-value(n)-differs", "value(" + I(j) + ") differs from entry " + I(ix));
            }
            for(int i = 0; i < D; i++)
               if(ms[k][i] != 0) VB(idx.count(i), "SSVector-nonzero-not-indexed", "setup vector: nonzero entry " + I(i) + " is missing in the index set " + dstr(ms[k]));
         }
         VB(x.isConsistent(), "SSVector-isConsistent-false", "SSVectorBase::isConsistent() returned false");
         std::string why;
         VB(sparseEq(*d[k], md[k], &why), "DSVector-values-differ", "DSVector " + I(k) + ": " + why);
         VB(d[k]->isConsistent() && d[k]->SVectorBase<R>::isConsistent(), "DSVector-isConsistent-false", "isConsistent() returned false");
      }
      std::string why;
      VB(sparseEq(*sv, msv, &why), "SVector-values-differ", "SVector: " + why);
      VB(sv->mem() == svmem && sv->max() == D, "SVector-memory-changed", "mem()/max() of the SVector changed");
      VB(sparseEq(*u, mu, &why), "UnitVector-values-differ", "UnitVector: " + why);
      VB(u->size() == 1 && u->value(0) == 1 && u->isConsistent(), "UnitVector-not-unit", "size()=" + I(u->size()));
      for(int j = 0; j < D; j++)
         VB(sparseEq((*A)[j], mA[j], &why), "operand-matrix-changed", "vector " + I(j) + " of the constant SVSet operand changed: " + why);
      return true;
#undef VB
   }
   // ---- model helpers
   static Q dot(const Dense& a, const Dense& b)
   {
      Q r = 0;
      for(size_t i = 0; i < a.size(); i++) r += a[i] * b[i];
      return r;
   }
   // a sparse operand: 0,1 -> d[0], d[1]; 2 -> sv; 3 -> u
   const SVectorBase<R>& sparseOp(int w, const Dense** m)
   {
      if(w < 2)
      {
         *m = &md[w];
         return *d[w];
      }
      if(w == 2)
      {
         *m = &msv;
         return *sv;
      }
      *m = &mu;
      return *u;
   }
   int pickSparse()
   {
      return rnd ? g.range(0, 3) : (int)(g.next() % 4);
   }
   void sortedSetup(int k)      // bring s[k] into the state reached by setup(): index set ascending
   {
      s[k]->unSetup();
      s[k]->setup();
   }
   int nnz(const Dense& m)
   {
      int c = 0;
      for(const Q& q : m) c += (q != 0);
      return c;
   }
   bool valueEq(const R& got, const Q& want, const std::string& what)
   {
      checks++;
      if(RT<R>::get(got) != want)
      {
         fail(what, "result " + qs(RT<R>::get(got)) + " expected " + qs(want));
         return false;
      }
      return true;
   }
   void genericDoubles();
   void step(int o) override
   {
      normalize();
      int a = rnd ? g.range(0, 1) : 0, b = 1 - a;
      if(rnd && g.chance(0.15)) b = a;      // aliasing x op= x where the class allows it
      // ------------------------------------------------------------------ dense
      if(o == V_assignV)
      {
         *v[a] = *v[b];
         mv[a] = mv[b];
      }
      else if(o == V_addV || o == V_subV)
      {
         if(o == V_addV) *v[a] += *v[b];
         else *v[a] -= *v[b];
         Dense r = mv[a];
         for(int i = 0; i < D; i++) r[i] = (o == V_addV) ? mv[a][i] + mv[b][i] : mv[a][i] - mv[b][i];
         mv[a] = r;
      }
      else if(o == V_scale || o == V_div)
      {
         Q x = rx(o == V_div);
         note("{" + qs(x) + "}");
         if(o == V_scale) *v[a] *= RT<R>::make(x);
         else *v[a] /= RT<R>::make(x);
         for(int i = 0; i < D; i++) mv[a][i] = (o == V_scale) ? mv[a][i] * x : mv[a][i] / x;
      }
      else if(o == V_dotV)
      {
         if(!valueEq((*v[a]) * (*v[b]), dot(mv[a], mv[b]), "scalar-product-differs")) return;
      }
      else if(o == V_multAddV)
      {
         if(a == b) b = 1 - a;
         Q x = rx();
         note("{" + qs(x) + "}");
         v[a]->multAdd(RT<R>::make(x), *v[b]);
         for(int i = 0; i < D; i++) mv[a][i] += x * mv[b][i];
      }
      else if(o == V_assignSV || o == V_assignOnlySV || o == V_addSV || o == V_subSV || o == V_dotSV || o == V_multAddSV || o == V_multSubSV)
      {
         const Dense* m;
         int w = pickSparse();
         const SVectorBase<R>& x = sparseOp(w, &m);
         note("{operand " + I(w) + "}");
         Q c = rx();
         if(o == V_assignSV)
         {
            *v[a] = x;
            mv[a] = *m;
         }
         else if(o == V_assignOnlySV)
         {
            v[a]->assign(x);
            for(int i = 0; i < D; i++)
               if((*m)[i] != 0) mv[a][i] = (*m)[i];
         }
         else if(o == V_addSV)
         {
            *v[a] += x;
            for(int i = 0; i < D; i++) mv[a][i] += (*m)[i];
         }
         else if(o == V_subSV)
         {
            *v[a] -= x;
            for(int i = 0; i < D; i++) mv[a][i] -= (*m)[i];
         }
         else if(o == V_dotSV)
         {
            if(!valueEq((*v[a]) * x, dot(mv[a], *m), "scalar-product-differs")) return;
            if(!valueEq(x * (*v[a]), dot(mv[a], *m), "scalar-product-differs(SVector*Vector)")) return;
         }
         else if(o == V_multAddSV)
         {
            v[a]->multAdd(RT<R>::make(c), x);
            for(int i = 0; i < D; i++) mv[a][i] += c * (*m)[i];
         }
         else
         {
            v[a]->multSub(RT<R>::make(c), x);
            for(int i = 0; i < D; i++) mv[a][i] -= c * (*m)[i];
         }
      }
      else if(o == V_assignSS || o == V_assignOnlySS || o == V_addSS || o == V_subSS || o == V_dotSS || o == V_multAddSS)
      {
         int k = rnd ? g.range(0, 1) : (int)(g.next() & 1);
         SSVectorBase<R>& x = *s[k];
         const Dense& m = ms[k];
         note(std::string("{") + (x.isSetup() ? "setup" : "not-setup") + "}");
         Q c = rx();
         if(o == V_assignSS)
         {
            *v[a] = x;
            mv[a] = m;
         }
         else if(o == V_assignOnlySS)
         {
            // documented: assigns all nonzeros, other values remain unchanged (for a vector that is not set up the
            // implementation copies everything, which is the same thing if "nonzeros" are the nonzero entries)
            v[a]->assign(x);
            if(x.isSetup())
            {
               for(int i = 0; i < D; i++)
                  if(m[i] != 0) mv[a][i] = m[i];
            }
            else mv[a] = m;
         }
         else if(o == V_addSS)
         {
            *v[a] += x;
            for(int i = 0; i < D; i++) mv[a][i] += m[i];
         }
         else if(o == V_subSS)
         {
            *v[a] -= x;
            for(int i = 0; i < D; i++) mv[a][i] -= m[i];
         }
         else if(o == V_dotSS)
         {
            if(!valueEq((*v[a]) * x, dot(mv[a], m), "scalar-product-differs")) return;
         }
         else
         {
            v[a]->multAdd(RT<R>::make(c), x);
            for(int i = 0; i < D; i++) mv[a][i] += c * m[i];
         }
      }
      else if(o == V_clear)
      {
         v[a]->clear();
         mv[a] = Dense(D, Q(0));
      }
      else if(o == V_neg || o == V_plus || o == V_minus)
      {
         VectorBase<R> r = (o == V_neg) ? -(*v[b]) : (o == V_plus) ? (*v[a]) + (*v[b]) : (*v[a]) - (*v[b]);
         Dense m(D);
         for(int i = 0; i < D; i++) m[i] = (o == V_neg) ? -mv[b][i] : (o == V_plus) ? mv[a][i] + mv[b][i] : mv[a][i] - mv[b][i];
         CK(r.dim() == D, "result-dim-differs", "dim()=" + I(r.dim()));
         *v[a] = r;
         mv[a] = m;
      }
      else if(o == V_norms)
      {
         Q mx = 0, mn = -1, l2 = 0;
         for(int i = 0; i < D; i++)
         {
            Q t = qabs(mv[a][i]);
            if(t > mx) mx = t;
            if(mn < 0 || t < mn) mn = t;
            l2 += t * t;
         }
         if(!valueEq(v[a]->maxAbs(), mx, "maxAbs-differs")) return;
         // VectorBase::minAbs() cannot be instantiated on the pinned tree (`SOPLEX_MIN_element` is not declared anywhere):
         // a compile-time defect that a runtime check cannot call; see findings/C19_vector_minabs_does_not_compile.cpp
         (void)mn;
         if(!valueEq(v[a]->length2(), l2, "length2-differs")) return;
      }
      else if(o == V_reDim)
      {
         int extra = rnd ? g.range(1, 4) : 2;
         v[a]->reDim(D + extra);
         CK(v[a]->dim() == D + extra, "dim-differs", "dim()=" + I(v[a]->dim()) + " after reDim(" + I(D + extra) + ")");
         for(int i = D; i < D + extra; i++)
            CK((*v[a])[i] == 0, "new-entries-not-zero", "entry " + I(i) + " is not zero after reDim with setZero");
         v[a]->reDim(D);
      }
      else if(o == V_svMinusV)
      {
         const Dense* m;
         const SVectorBase<R>& x = sparseOp(pickSparse(), &m);
         VectorBase<R> r = x - (*v[b]);
         Dense mm(D);
         for(int i = 0; i < D; i++) mm[i] = (*m)[i] - mv[b][i];
         CK(r.dim() == D, "result-dim-differs", "dim()=" + I(r.dim()));
         *v[a] = r;
         mv[a] = mm;
      }
      else if(o == V_scaleAssign)
      {
         if(a == b) b = 1 - a;
         int e = g.range(-3, 3);
         if(!scaleAssignVec(*v[a], e, *v[b])) return skip();
         for(int i = 0; i < D; i++) mv[a][i] = mv[b][i] * (e >= 0 ? Q(1 << e) : qfrac(1, 1 << -e));
      }
      else if(o == V_convert)
      {
         // values that are exactly representable in both scalar types
         Dense m(D, Q(0));
         for(int i = 0; i < D; i++)
            if(g.chance(0.6)) m[i] = ValGen<double>::val(g);
         VectorBase<R2> src(D);
         for(int i = 0; i < D; i++) src[i] = RT<R2>::make(m[i]);
         if(g.chance(0.5))
         {
            VectorBase<R> c(src);
            *v[a] = c;
         }
         else *v[a] = src;
         mv[a] = m;
      }
      else if(o == V_write)
      {
         int i = g.range(0, D - 1);
         Q x = g.chance(0.2) ? Q(0) : rv();
         (*v[a])[i] = RT<R>::make(x);
         mv[a][i] = x;
      }
      // ------------------------------------------------------------------ sparse / dynamic sparse
      else if(o == D_add1 || o == D_addN)
      {
         int w = rnd ? g.range(0, 2) : (int)(g.next() % 3);
         Dense& m = (w < 2) ? md[w] : msv;
         std::vector<int> freeIdx;
         for(int i = 0; i < D; i++)
            if(m[i] == 0) freeIdx.push_back(i);
         // a stored zero would make the index a duplicate: only indices that are not stored at all
         SVectorBase<R>& base = (w < 2) ? static_cast<SVectorBase<R>&>(*d[w]) : *sv;
         std::vector<int> usable;
         for(int i : freeIdx)
            if(base.pos(i) < 0) usable.push_back(i);
         int n = (o == D_add1) ? 1 : (rnd ? g.range(0, 3) : 2);
         if((int)usable.size() < n) return skip();
         g.shuffle(usable);
         std::vector<int> idx(usable.begin(), usable.begin() + n);
         std::vector<R> vals;
         for(int i = 0; i < n; i++)
         {
            Q x = rv();
            vals.push_back(RT<R>::make(x));
            m[idx[i]] = x;
         }
         idx.push_back(0);
         vals.push_back(RT<R>::make(Q(9)));
         if(w == 2 && sv->size() + n > sv->max()) return skip();
         note("{target " + I(w) + " n=" + I(n) + "}");
         int before = base.size();
         if(o == D_add1)
         {
            if(w < 2) d[w]->add(idx[0], vals[0]);
            else sv->add(idx[0], vals[0]);
            CK(base.size() == before + 1 && base.index(before) == idx[0], "nonzero-not-appended", "documented: the new nonzero gets number size(); index(" + I(
                  before) + ")=" + I(base.size() > before ? base.index(before) : -1) + " expected " + I(idx[0]));
         }
         else
         {
            if(w < 2) d[w]->add(n, idx.data(), vals.data());
            else sv->add(n, idx.data(), vals.data());
         }
      }
      else if(o == D_addSV)
      {
         // documented "Append nonzeros of sv": valid if no index of sv is stored already
         int k = a;
         const Dense* m;
         int w = 2 + (int)(g.next() & 1);
         const SVectorBase<R>& x = sparseOp(w, &m);
         for(int j = 0; j < x.size(); j++)
            if(d[k]->pos(x.index(j)) >= 0) return skip();
         d[k]->add(x);
         for(int i = 0; i < D; i++) md[k][i] += (*m)[i];
      }
      else if(o == D_remove1 || o == D_removeRange || o == D_clear || o == D_sort || o == D_scale || o == D_norms || o == D_dotV || o == D_timesScalar)
      {
         int w = rnd ? g.range(0, 2) : (int)(g.next() % 3);
         Dense& m = (w < 2) ? md[w] : msv;
         SVectorBase<R>& x = (w < 2) ? static_cast<SVectorBase<R>&>(*d[w]) : *sv;
         int n = x.size();
         note("{target " + I(w) + " size " + I(n) + "}");
         if(o == D_remove1)
         {
            if(n == 0) return skip();
            int j = pos(2, n);
            if(!rnd) j = (int)(g.next() % n);
            std::vector<int> prefix;
            for(int q = 0; q < j; q++) prefix.push_back(x.index(q));
            m[x.index(j)] = 0;
            x.remove(j);
            CK(x.size() == n - 1, "size-differs", "size()=" + I(x.size()) + " expected " + I(n - 1));
            for(int q = 0; q < j; q++)
               CK(x.index(q) == prefix[q], "nonzero-before-removed-renumbered", "documented: only numbers greater than the first removed one are affected");
         }
         else if(o == D_removeRange)
         {
            if(n == 0) return skip();
            int p = rnd ? g.range(0, n - 1) : (int)(g.next() % n);
            int q = rnd ? g.range(p, n - 1) : std::min(n - 1, p + (int)(g.next() % 2));
            // with fewer nonzeros behind q than removed ones the pinned implementation keeps a wrong size; with none behind
            // q it loops over ~2^32 nonzeros: that variant is only executed if the probe found the first one correct
            if(hazards().svecRemoveTail && q == n - 1) return skip();
            note("{" + I(p) + ".." + I(q) + "}");
            std::vector<int> prefix;
            for(int t = 0; t < p; t++) prefix.push_back(x.index(t));
            for(int t = p; t <= q; t++) m[x.index(t)] = 0;
            x.remove(p, q);
            CK(x.size() == n - (q - p + 1), "size-differs", "size()=" + I(x.size()) + " after removing nonzeros " + I(p) + ".." + I(q) + " of " + I(n));
            for(int t = 0; t < p; t++)
               CK(x.index(t) == prefix[t], "nonzero-before-removed-renumbered", "documented: only numbers greater than the first removed one are affected");
         }
         else if(o == D_clear)
         {
            x.clear();
            m = Dense(D, Q(0));
         }
         else if(o == D_sort)
         {
            x.sort();
            for(int j = 1; j < x.size(); j++)
               CK(x.index(j - 1) <= x.index(j), "not-sorted", "index(" + I(j - 1) + ")=" + I(x.index(j - 1)) + " > index(" + I(j) + ")=" + I(x.index(j)));
         }
         else if(o == D_scale)
         {
            Q c = rx();
            x *= RT<R>::make(c);
            for(int i = 0; i < D; i++) m[i] *= c;
         }
         else if(o == D_norms)
         {
            Q mx = 0, mn = -1, l2 = 0;
            int dim = 0;
            for(int i = 0; i < D; i++)
            {
               if(m[i] == 0) continue;
               Q t = qabs(m[i]);
               if(t > mx) mx = t;
               if(mn < 0 || t < mn) mn = t;
               l2 += t * t;
            }
            for(int j = 0; j < x.size(); j++) dim = std::max(dim, x.index(j) + 1);
            if(!valueEq(x.maxAbs(), mx, "maxAbs-differs")) return;
            bool storedZero = false;
            for(int j = 0; j < x.size(); j++)
               if(x.value(j) == 0) storedZero = true;
            if(mn >= 0 && !storedZero && !valueEq(x.minAbs(), mn, "minAbs-differs")) return;
            if(!valueEq(x.length2(), l2, "length2-differs")) return;
            CK(x.dim() == dim, "dim-differs", "dim()=" + I(x.dim()) + " expected " + I(dim));
            for(int i = 0; i < D; i++)
            {
               int p = x.pos(i);
               if(m[i] != 0) CK(p >= 0 && x.index(p) == i, "pos-differs", "pos(" + I(i) + ")=" + I(p));
            }
         }
         else if(o == D_dotV)
         {
            if(!valueEq(x * (*v[a]), dot(m, mv[a]), "scalar-product-differs")) return;
         }
         else
         {
            Q c = rx();
            DSVectorBase<R> r = g.chance(0.5) ? x * RT<R>::make(c) : RT<R>::make(c) * x;
            Dense mm(D);
            for(int i = 0; i < D; i++) mm[i] = m[i] * c;
            std::string why;
            CK(sparseEq(r, mm, &why), "result-differs", why);
         }
      }
      else if(o == D_dotSV)
      {
         // the merge-based SVector*SVector needs both operands sorted by index
         const Dense* m1;
         const Dense* m2;
         int w1 = rnd ? g.range(0, 2) : (int)(g.next() % 3), w2 = pickSparse();
         SVectorBase<R>& x = const_cast<SVectorBase<R>&>(sparseOp(w1, &m1));
         SVectorBase<R>& y = const_cast<SVectorBase<R>&>(sparseOp(w2, &m2));
         x.sort();
         if(w2 != 3) y.sort();
         note("{" + I(w1) + "*" + I(w2) + "}");
         if(!valueEq(x * y, dot(*m1, *m2), "scalar-product-differs")) return;
      }
      else if(o == D_assignD || o == D_assignSVec || o == D_assignV || o == D_assignSS || o == D_ctorSS || o == D_ctorV || o == D_ctorCopy
              || o == D_convert)
      {
         int k = a;
         if(o == D_assignD)
         {
            *d[k] = *d[b];
            md[k] = md[b];
         }
         else if(o == D_assignSVec)
         {
            const Dense* m;
            const SVectorBase<R>& x = sparseOp(2 + (int)(g.next() & 1), &m);
            *d[k] = x;
            md[k] = *m;
         }
         else if(o == D_assignV)
         {
            *d[k] = *v[b];
            md[k] = mv[b];
         }
         else if(o == D_assignSS || o == D_ctorSS)
         {
            int q = (int)(g.next() & 1);
            if(!s[q]->isSetup()) s[q]->setup();      // documented precondition: the semi-sparse vector is set up
            note("{from SSVector " + I(q) + " nnz=" + I(nnz(ms[q])) + "}");
            if(o == D_assignSS) *d[k] = *s[q];
            else
            {
               DSVectorBase<R>* t = new DSVectorBase<R>(*s[q]);
               delete d[k];
               d[k] = t;
            }
            md[k] = ms[q];
         }
         else if(o == D_ctorV)
         {
            DSVectorBase<R>* t = new DSVectorBase<R>(*v[b]);
            delete d[k];
            d[k] = t;
            md[k] = mv[b];
         }
         else if(o == D_ctorCopy)
         {
            bool fromD = g.chance(0.5);
            DSVectorBase<R>* t = fromD ? new DSVectorBase<R>(*d[b]) : new DSVectorBase<R>(static_cast<const SVectorBase<R>&>(*sv));
            Dense src = fromD ? md[b] : msv;
            delete d[k];
            d[k] = t;
            md[k] = src;
         }
         else
         {
            Dense m(D, Q(0));
            for(int i = 0; i < D; i++)
               if(g.chance(0.5)) m[i] = ValGen<double>::val(g);
            DSVectorBase<R2> src;
            for(int i = 0; i < D; i++)
               if(m[i] != 0) src.add(i, RT<R2>::make(m[i]));
            if(g.chance(0.5))
            {
               DSVectorBase<R>* t = new DSVectorBase<R>(src);
               delete d[k];
               d[k] = t;
            }
            else *d[k] = src;
            md[k] = m;
         }
      }
      else if(o == D_setMax)
      {
         int nm = rnd ? g.range(0, D + 3) : 1;
         d[a]->setMax(nm);
         CK(d[a]->max() >= nm && d[a]->max() >= d[a]->size(), "max-too-small", "max()=" + I(d[a]->max()) + " after setMax(" + I(nm) + ")");
      }
      else if(o == D_assignArray)
      {
         Dense m = rndDense(0.5);
         std::vector<R> vals;
         std::vector<int> idx;
         for(int i = 0; i < D; i++)
            if(m[i] != 0)
            {
               idx.push_back(i);
               vals.push_back(RT<R>::make(m[i]));
            }
         int n = (int)idx.size();
         idx.push_back(0);
         vals.push_back(RT<R>::make(Q(3)));
         sv->assignArray(vals.data(), idx.data(), n);
         msv = m;
      }
      else if(o == D_scaleAssign)
      {
         int e = g.range(-3, 3);
         if(!scaleAssignSV(*sv, e, *d[a])) return skip();
         for(int i = 0; i < D; i++) msv[i] = md[a][i] * (e >= 0 ? Q(1 << e) : qfrac(1, 1 << -e));
      }
      else if(o == D_svAssignV)
      {
         *sv = *v[a];      // capacity D is enough for any vector of dimension D
         msv = mv[a];
      }
      else if(o == D_svAssignSV)
      {
         *sv = static_cast<const SVectorBase<R>&>(*d[a]);
         msv = md[a];
      }
      else if(o == U_make)
      {
         int i = g.range(0, D - 1);
         if(g.chance(0.5))
         {
            UnitVectorBase<R> t(i);
            *u = t;
         }
         else
         {
            UnitVectorBase<R> t(i);
            UnitVectorBase<R>* c = new UnitVectorBase<R>(t);
            delete u;
            u = c;
         }
         mu = Dense(D, Q(0));
         mu[i] = 1;
         CK(u->index(0) == i, "index-differs", "index(0)=" + I(u->index(0)) + " expected " + I(i));
      }
      // ------------------------------------------------------------------ semi-sparse
      else if(o == S_setValue || o == S_setZero)
      {
         int i = g.range(0, D - 1);
         Q x = (o == S_setZero) ? Q(0) : rv();
         note(std::string("{") + (s[a]->isSetup() ? "setup" : "not-setup") + "}");
         s[a]->setValue(i, RT<R>::make(x));
         ms[a][i] = x;
      }
      else if(o == S_add)
      {
         SSVectorBase<R>& x = *s[a];
         if(!x.isSetup()) return skip();
         std::vector<int> ok;
         for(int i = 0; i < D; i++)
            if(ms[a][i] == 0 && x.pos(i) < 0) ok.push_back(i);
         if(ok.empty()) return skip();
         int i = ok[(size_t)(g.next() % ok.size())];
         Q val = rv();
         x.add(i, RT<R>::make(val));
         ms[a][i] = val;
      }
      else if(o == S_clearIdx)
      {
         int i = g.range(0, D - 1);
         s[a]->clearIdx(i);
         ms[a][i] = 0;
      }
      else if(o == S_clearNum)
      {
         SSVectorBase<R>& x = *s[a];
         if(!x.isSetup() || x.size() == 0) return skip();
         int j = (int)(g.next() % x.size());
         ms[a][x.index(j)] = 0;
         x.clearNum(j);
      }
      else if(o == S_clear)
      {
         s[a]->clear();
         ms[a] = Dense(D, Q(0));
         CK(s[a]->isSetup() && s[a]->size() == 0, "clear-not-setup-empty", "after clear(): isSetup()=" + I(s[a]->isSetup()) + " size()=" + I(s[a]->size()));
      }
      else if(o == S_altWrite)
      {
         int i = g.range(0, D - 1);
         Q x = g.chance(0.25) ? Q(0) : rv();
         s[a]->altValues()[i] = RT<R>::make(x);
         ms[a][i] = x;
         CK(!s[a]->isSetup(), "altValues-keeps-setup", "altValues() must make the vector not set up");
      }
      else if(o == S_setup)
      {
         s[a]->setup();
         CK(s[a]->isSetup(), "setup-not-setup", "isSetup() false after setup()");
      }
      else if(o == S_assignSS)
      {
         if(a == b) b = 1 - a;
         note(std::string("{from ") + (s[b]->isSetup() ? "setup" : "not-setup") + "}");
         *s[a] = *s[b];
         ms[a] = ms[b];
         CK(s[a]->isSetup(), "assigned-vector-not-setup", "operator=(SSVector) leaves the target set up");
      }
      else if(o == S_assignSV)
      {
         const Dense* m;
         int w = pickSparse();
         const SVectorBase<R>& x = sparseOp(w, &m);
         note("{operand " + I(w) + "}");
         *s[a] = x;
         ms[a] = *m;
      }
      else if(o == S_assignV)
      {
         *s[a] = *v[b];
         ms[a] = mv[b];
      }
      else if(o == S_addV || o == S_subV)
      {
         if(o == S_addV) *s[a] += *v[b];
         else *s[a] -= *v[b];
         for(int i = 0; i < D; i++) ms[a][i] = (o == S_addV) ? ms[a][i] + mv[b][i] : ms[a][i] - mv[b][i];
      }
      else if(o == S_addSV || o == S_subSV)
      {
         const Dense* m;
         const SVectorBase<R>& x = sparseOp(pickSparse(), &m);
         if(o == S_addSV) *s[a] += x;
         else *s[a] -= x;
         for(int i = 0; i < D; i++) ms[a][i] = (o == S_addSV) ? ms[a][i] + (*m)[i] : ms[a][i] - (*m)[i];
      }
      else if(o == S_addSS || o == S_subSS)
      {
         if(a == b) b = 1 - a;
         if(o == S_addSS && !s[b]->isSetup()) s[b]->setup();      // += asserts a set-up operand; -= handles both
         note(std::string("{operand ") + (s[b]->isSetup() ? "setup" : "not-setup") + "}");
         if(o == S_addSS) *s[a] += *s[b];
         else *s[a] -= *s[b];
         for(int i = 0; i < D; i++) ms[a][i] = (o == S_addSS) ? ms[a][i] + ms[b][i] : ms[a][i] - ms[b][i];
      }
      else if(o == S_scale)
      {
         if(!s[a]->isSetup()) s[a]->setup();
         Q c = rx();
         *s[a] *= RT<R>::make(c);
         for(int i = 0; i < D; i++) ms[a][i] *= c;
      }
      else if(o == S_dotSS)
      {
         if(a == b) b = 1 - a;
         sortedSetup(a);
         sortedSetup(b);
         if(!valueEq((*s[a]) * (*s[b]), dot(ms[a], ms[b]), "scalar-product-differs")) return;
      }
      else if(o == S_multAddSV)
      {
         const Dense* m;
         int w = pickSparse();
         const SVectorBase<R>& x = sparseOp(w, &m);
         Q c = rx();
         note(std::string("{") + (s[a]->isSetup() ? "setup" : "not-setup") + " operand " + I(w) + " x=" + qs(c) + "}");
         s[a]->multAdd(RT<R>::make(c), x);
         for(int i = 0; i < D; i++) ms[a][i] += c * (*m)[i];
      }
      else if(o == S_multAddV)
      {
         Q c = rx();
         s[a]->multAdd(RT<R>::make(c), *v[b]);
         for(int i = 0; i < D; i++) ms[a][i] += c * mv[b][i];
      }
      else if(o == S_pwProduct)
      {
         sortedSetup(0);
         sortedSetup(1);
         SSVectorBase<R> x(*s[0]), y(*s[1]);
         s[a]->assignPWproduct4setup(x, y);
         Dense m(D);
         for(int i = 0; i < D; i++) m[i] = ms[0][i] * ms[1][i];
         ms[a] = m;
      }
      else if(o == S_assign2product)
      {
         if(a == b) b = 1 - a;
         // result_i = A[i] * x
         s[a]->assign2product(*s[b], *A);
         Dense m(D);
         for(int i = 0; i < D; i++) m[i] = dot(mA[i], ms[b]);
         ms[a] = m;
      }
      else if(o == S_assign2product4setup || o == S_assign2productAndSetup)
      {
         if(a == b) b = 1 - a;
         Dense m(D, Q(0));
         for(int j = 0; j < D; j++)
            for(int i = 0; i < D; i++) m[i] += ms[b][j] * mA[j][i];
         if(o == S_assign2product4setup)
         {
            if(!s[b]->isSetup()) s[b]->setup();
            if(rnd && g.chance(0.3)) s[a]->unSetup();
            int ns = 0, nf = 0;
            // assign2productShort stores the index of every visited element at idx[count] before it knows whether the position
            // is new: with an index memory of exactly dim entries (constructor) a dense intermediate result overflows it.  If
            // the probe saw that, give the target one spare entry first (reMem does that, as SoPlex's own reDim does).
            if(hazards().a2pShortOverflow && s[a]->indices().max() <= D) s[a]->reMem(D + 1);
            note("{x.size=" + I(s[b]->size()) + (s[a]->isSetup() ? " setup" : " not-setup") + "}");
            s[a]->assign2product4setup(*A, *s[b], nullptr, nullptr, ns, nf);
            CK(ns + nf == 1, "call-counters-differ", "nCallsSparse+nCallsFull=" + I(ns + nf));
         }
         else
         {
            // documented: x is not set up; the result must be cleared before (the method only adds)
            s[a]->clear();
            R* p = s[b]->altValues();
            (void)p;
            s[a]->assign2productAndSetup(*A, *s[b]);
            CK(s[b]->isSetup(), "operand-not-setup", "assign2productAndSetup must set up x");
         }
         ms[a] = m;
      }
      else if(o == S_setupAndAssign)
      {
         if(a == b) b = 1 - a;
         note(std::string("{from ") + (s[b]->isSetup() ? "setup" : "not-setup") + "}");
         s[a]->setup_and_assign(*s[b]);
         ms[a] = ms[b];
         CK(s[a]->isSetup() && s[b]->isSetup(), "not-setup-after-setup_and_assign", "both vectors must be set up afterwards");
      }
      else if(o == S_reDim)
      {
         int extra = rnd ? g.range(1, 4) : 2;
         s[a]->reDim(D + extra);
         CK(s[a]->dim() == D + extra, "dim-differs", "dim()=" + I(s[a]->dim()));
         for(int i = D; i < D + extra; i++) CK((*s[a])[i] == 0, "new-entries-not-zero", "entry " + I(i) + " not zero after reDim");
         // use the new entries, then shrink again: their indices must disappear
         if(s[a]->isSetup()) s[a]->setValue(D + extra - 1, RT<R>::make(rv()));
         s[a]->reDim(D);
      }
      else if(o == S_reMem)
      {
         s[a]->reMem(D + (rnd ? g.range(1, 20) : 3));
      }
      else if(o == S_norms)
      {
         Q mx = 0, l2 = 0;
         for(int i = 0; i < D; i++)
         {
            Q t = qabs(ms[a][i]);
            if(t > mx) mx = t;
            l2 += t * t;
         }
         if(!valueEq(s[a]->maxAbs(), mx, "maxAbs-differs")) return;
         if(!valueEq(s[a]->length2(), l2, "length2-differs")) return;
      }
      else if(o == S_copy)
      {
         SSVectorBase<R>* c = new SSVectorBase<R>(*s[a]);
         delete s[a];
         s[a] = c;
      }
      else if(o == S_fromV)
      {
         SSVectorBase<R>* c = new SSVectorBase<R>(*v[b]);
         c->setTolerances(tol);
         CK(!c->isSetup(), "ctor-from-Vector-setup", "documented: constructs a non-setup copy");
         delete s[a];
         s[a] = c;
         ms[a] = mv[b];
      }
      else if(o == G_generic)
      {
         genericDoubles();
         return;
      }
      verify(opNames[o]);
   }
};

// arbitrary doubles: scalar products and multAdd against exact arithmetic within a rounding bound
template <> void VecUnit<Rational>::genericDoubles() {}
template <> void VecUnit<double>::genericDoubles()
{
   int n = g.range(1, 12);
   VectorBase<double> x(n), y(n);
   DSVectorBase<double> sp;
   SSVectorBase<double> ss(n, tol);
   std::vector<Q> qx(n), qy(n), qsp(n, Q(0)), qss(n, Q(0));
   for(int i = 0; i < n; i++)
   {
      x[i] = (g.unit() - 0.5) * std::ldexp(1.0, g.range(-8, 8));
      y[i] = (g.unit() - 0.5) * std::ldexp(1.0, g.range(-8, 8));
      qx[i] = qd(x[i]);
      qy[i] = qd(y[i]);
      if(g.chance(0.5))
      {
         double t = (g.unit() - 0.5) * 4;
         if(t != 0)
         {
            sp.add(i, t);
            qsp[i] = qd(t);
         }
      }
      if(g.chance(0.5))
      {
         double t = (g.unit() - 0.5) * 4;
         ss.setValue(i, t);
         qss[i] = qd(t);
      }
   }
   Q eps = qd(std::ldexp(1.0, -53));
   auto dotCheck = [&](double got, const std::vector<Q>& p, const std::vector<Q>& q, const char* what)
   {
      Q ex = 0, ab = 0;
      for(int i = 0; i < n; i++)
      {
         ex += p[i] * q[i];
         ab += qabs(p[i] * q[i]);
      }
      Q bound = Q(2 * (n + 2)) * eps * ab + qd(DBL_MIN);
      Q err = qabs(qd(got) - ex);
      sink().maxi("vec.double.generic.err_over_bound", dq(err / bound));
      checks++;
      if(err > bound)
      {
         fail(what, "scalar product of " + I(n) + " generic doubles is off by " + ds(dq(err)) + " (bound " + ds(dq(bound)) + ")");
         return false;
      }
      return true;
   };
   if(!dotCheck(x * y, qx, qy, "Vector*Vector-inexact")) return;
   if(!dotCheck(x * sp, qx, qsp, "Vector*SVector-inexact")) return;
   if(!dotCheck(sp * x, qx, qsp, "SVector*Vector-inexact")) return;
   if(!dotCheck(x * ss, qx, qss, "Vector*SSVector-inexact")) return;
   double c = (g.unit() - 0.5) * 8;
   VectorBase<double> z(x);
   z.multAdd(c, y);
   for(int i = 0; i < n; i++)
   {
      Q ex = qx[i] + qd(c) * qy[i];
      Q bound = 2 * eps * (qabs(qx[i]) + 2 * qabs(qd(c) * qy[i])) + qd(DBL_MIN);
      checks++;
      if(qabs(qd(z[i]) - ex) > bound)
      {
         fail("multAdd-inexact", "entry " + I(i) + " of x+c*y is off by " + ds(dq(qabs(qd(z[i]) - ex))));
         return;
      }
   }
}

Unit* makeVecUnit(int which)
{
   if(which == 0) return new VecUnit<double>(vecUnitNames[0]);
   return new VecUnit<Rational>(vecUnitNames[1]);
}

} // namespace cont
