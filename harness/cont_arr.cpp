// harness/cont_arr.cpp -- C19 units: DataArray, Array, ClassArray (model std::vector), IdList, IsList (model std::list),
// sorter.h / stablesum.h (model std::multiset / exact rational sum).
#include "cont_common.hpp"

namespace cont
{
using namespace soplex;

// ================================================================================================ arrays
struct DA
{
   int v;
   int w;
};
struct AObj      // a class object with a heap payload: construction / destruction errors show up under AddressSanitizer
{
   int v;
   std::string pad;
   static std::string padOf(int x)
   {
      return std::string((size_t)(18 + (x & 7)), (char)('a' + (x % 26 + 26) % 26));
   }
   AObj() : v(-1), pad(padOf(-1)) {}
   explicit AObj(int x) : v(x), pad(padOf(x)) {}
};
inline DA mkElem(const DA*, int x)
{
   DA d;
   d.v = x;
   d.w = ~x;
   return d;
}
inline AObj mkElem(const AObj*, int x)
{
   return AObj(x);
}
inline bool okElem(const DA& e, int x)
{
   return e.v == x && e.w == ~x;
}
inline bool okElem(const AObj& e, int x)
{
   return e.v == x && e.pad == AObj::padOf(x);
}

// operations that exist only in some of the three classes
template <class T> bool appendNVal(DataArray<T>& a, int n, const T& t)
{
   a.append(n, t);
   return true;
}
template <class T> bool appendNVal(Array<T>& a, int n, const T& t)
{
   a.append(n, t);
   return true;
}
template <class T> bool appendNVal(ClassArray<T>&, int, const T&)
{
   return false;
}
template <class T> bool insertNVal(DataArray<T>& a, int i, int n, const T& t)
{
   a.insert(i, n, t);
   return true;
}
template <class T> bool insertNVal(Array<T>& a, int i, int n, const T& t)
{
   a.insert(i, n, t);
   return true;
}
template <class T> bool insertNVal(ClassArray<T>&, int, int, const T&)
{
   return false;
}
template <class T> bool removeLastN(DataArray<T>& a, int m)
{
   a.removeLast(m);
   return true;
}
template <class T> bool removeLastN(ClassArray<T>& a, int m)
{
   a.removeLast(m);
   return true;
}
template <class T> bool removeLastN(Array<T>&, int)
{
   return false;
}
template <class T> int maxOf(const DataArray<T>& a)
{
   return a.max();
}
template <class T> int maxOf(const ClassArray<T>& a)
{
   return a.max();
}
template <class T> int maxOf(const Array<T>&)
{
   return INT_MAX;
}
template <class T> bool reMaxOf(DataArray<T>& a, int nm, int ns, bool twoArgs, ptrdiff_t*)
{
   if(twoArgs) a.reMax(nm, ns);
   else a.reMax(nm);
   return true;
}
template <class T> bool reMaxOf(ClassArray<T>& a, int nm, int ns, bool twoArgs, ptrdiff_t* d)
{
   *d = twoArgs ? a.reMax(nm, ns) : a.reMax(nm);
   return true;
}
template <class T> bool reMaxOf(Array<T>&, int, int, bool, ptrdiff_t*)
{
   return false;
}
template <class T> const T* lastOf(const DataArray<T>& a)
{
   return &a.last();
}
template <class T> const T* lastOf(const ClassArray<T>& a)
{
   return &a.last();
}
template <class T> const T* lastOf(const Array<T>& a)
{
   return &a[a.size() - 1];
}
template <class T> bool pushBack(Array<T>& a, const T& t)
{
   a.push_back(t);
   return true;
}
template <class A, class T> bool pushBack(A&, const T&)
{
   return false;
}
template <class T> bool appendDefault(Array<T>& a, int n)
{
   a.append(n);
   return true;
}
template <class A> bool appendDefault(A&, int)
{
   return false;
}
template <class T> ClassArray<T>* newArr(const ClassArray<T>*, int sz, int mx, double fac)
{
   return new ClassArray<T>(sz, mx, fac);
}
template <class T> DataArray<T>* newArr(const DataArray<T>*, int sz, int mx, double fac)
{
   return new DataArray<T>(sz, mx, fac);
}
template <class T> Array<T>* newArr(const Array<T>*, int sz, int, double)
{
   return new Array<T>(sz);
}

template <class ARR, class T, int KIND>      // KIND 0 DataArray, 1 Array, 2 ClassArray
struct ArrUnit : Unit
{
   ARR* arr = nullptr;
   std::vector<int> model;
   int nextVal = 1;
   int O_append, O_appendNVal, O_appendArr, O_appendArray, O_pushBack, O_appendDefault, O_insUninit0, O_insUninitEnd, O_insUninitMid,
       O_insVal, O_insArr0, O_insArrEnd, O_insArrMid, O_insArray, O_remFirst, O_remDefault, O_remMid, O_remTail, O_remClip, O_removeLast,
       O_clear, O_reSizeGrow, O_reSizeShrink, O_reMaxGrow, O_reMaxShrink, O_reMaxBoth, O_assign, O_copy, O_write;

   ArrUnit(const char* nm)
   {
      name = nm;
      O_append = op("append(t)", 40);
      O_appendNVal = op("append(n,t)", KIND == 2 ? 0 : 10);
      O_appendArr = op("append(n,t[])", 15);
      O_appendArray = op("append(array)", 8);
      O_pushBack = op("push_back", KIND == 1 ? 10 : 0);
      O_appendDefault = op("append(n)", KIND == 1 ? 6 : 0);
      O_insUninit0 = op("insert(0,n)", 4);
      O_insUninitEnd = op("insert(size,n)", 4);
      O_insUninitMid = op("insert(i,n)", 8);
      O_insVal = op("insert(i,n,t)", KIND == 2 ? 0 : 8);
      O_insArr0 = op("insert(0,n,t[])", 4);
      O_insArrEnd = op("insert(size,n,t[])", 4);
      O_insArrMid = op("insert(i,n,t[])", 10);
      O_insArray = op("insert(i,array)", 8);
      O_remFirst = op("remove(0,m)", 5);
      O_remDefault = op("remove()", 4);
      O_remMid = op("remove(n,m)", 10);
      O_remTail = op("remove(n,to-end)", 5);
      O_remClip = op("remove(n,m>rest)", KIND == 2 ? 0 : 4);
      O_removeLast = op("removeLast(m)", KIND == 1 ? 0 : 8);
      O_clear = op("clear", 1);
      O_reSizeGrow = op("reSize(grow)", 8);
      O_reSizeShrink = op("reSize(shrink)", 5);
      O_reMaxGrow = op("reMax(grow)", KIND == 1 ? 0 : 6);
      O_reMaxShrink = op("reMax(newMax<size)", KIND == 1 ? 0 : 5);
      O_reMaxBoth = op("reMax(newMax,newSize)", KIND == 1 ? 0 : 6);
      O_assign = op("operator=", 5);
      O_copy = op("copy-ctor", 5);
      O_write = op("write[i]", 8);
   }
   ~ArrUnit()
   {
      delete arr;
   }
   std::vector<int> exOps() const override
   {
      std::vector<int> v = {O_append, O_appendArr, O_appendArray, O_insUninitMid, O_insArr0, O_insArrEnd, O_insArrMid, O_insArray, O_remFirst, O_remMid, O_remTail,
                            O_clear, O_reSizeGrow, O_reSizeShrink, O_assign, O_copy
                           };
      if(KIND != 1)
      {
         v.push_back(O_removeLast);
         v.push_back(O_reMaxShrink);
         v.push_back(O_reMaxBoth);
      }
      else
      {
         v.push_back(O_insVal);
         v.push_back(O_appendDefault);
      }
      return v;
   }
   void reset() override
   {
      delete arr;
      if(rnd)
      {
         int sz = g.range(0, 3), mx = g.range(0, 6);
         arr = newArr((ARR*)nullptr, sz, mx, 1.0 + 0.1 * g.range(0, 10));
      }
      else arr = newArr((ARR*)nullptr, 0, 2, 1.2);
      model.assign(arr->size(), -1);
      nextVal = 1;
      fillUnknown();
   }
   T mk(int x)
   {
      return mkElem((T*)nullptr, x);
   }
   void fillUnknown()      // elements documented as uninitialised are written before they are compared
   {
      for(size_t i = 0; i < model.size(); i++)
         if(model[i] == -1 && (int)i < arr->size())
         {
            model[i] = nextVal++;
            (*arr)[(int)i] = mk(model[i]);
         }
   }
   bool verify(const std::string& on)
   {
#define VB(cond, what, detail) do { checks++; if(!(cond)) { fail(on, what, detail); return false; } } while(0)
      ARR& a = *arr;
      VB(a.size() == (int)model.size(), "size-differs", "size()=" + I(a.size()) + " model=" + I(model.size()));
      VB(maxOf(a) >= a.size() && maxOf(a) >= 1, "max-below-size", "max()=" + I(maxOf(a)) + " size()=" + I(a.size()));
      VB(a.isConsistent(), "isConsistent-false", "isConsistent() returned false");
      for(int i = 0; i < a.size(); i++)
      {
         if(model[i] == -1) continue;
         VB(okElem(a[i], model[i]), "element-differs", "element " + I(i) + " has value " + I(a[i].v) + " expected " + I(model[i]) + " (size " + I(a.size()) + ")");
      }
      if(a.size() > 0)
      {
         VB(a.get_ptr() == &a[0] && a.get_const_ptr() == &a[0], "get_ptr-differs", "get_ptr() is not the address of element 0");
         VB(lastOf(a) == &a[a.size() - 1], "last-differs", "last() is not element size()-1");
      }
      return true;
#undef VB
   }
   std::vector<T> mkBlock(int n, std::vector<int>& vals)
   {
      std::vector<T> b;
      for(int i = 0; i < n; i++)
      {
         vals.push_back(nextVal++);
         b.push_back(mk(vals.back()));
      }
      b.push_back(mk(-99));
      return b;
   }
   void step(int o) override
   {
      ARR& a = *arr;
      int sz = a.size();
      if(sz > 400 && o != O_clear && o != O_reSizeShrink) return skip();
      if(o == O_append || o == O_pushBack)
      {
         int v = nextVal++;
         if(o == O_append) a.append(mk(v));
         else if(!pushBack(a, mk(v))) return skip();
         model.push_back(v);
      }
      else if(o == O_appendNVal)
      {
         int n = rnd ? g.range(0, 4) : 2, v = nextVal++;
         if(!appendNVal(a, n, mk(v))) return skip();
         note("{n=" + I(n) + "}");
         model.insert(model.end(), n, v);
      }
      else if(o == O_appendDefault)
      {
         int n = rnd ? g.range(0, 4) : 2;
         if(!appendDefault(a, n)) return skip();
         model.insert(model.end(), n, -1);
         for(int i = sz; i < sz + n && i < a.size(); i++)
            CK(okElem(a[i], -1), "appended-element-not-default", "append(n): element " + I(i) + " is not a default-constructed element");
      }
      else if(o == O_appendArr)
      {
         int n = rnd ? g.range(0, 5) : 2;
         std::vector<int> vals;
         std::vector<T> b = mkBlock(n, vals);
         note("{n=" + I(n) + "}");
         a.append(n, b.data());
         model.insert(model.end(), vals.begin(), vals.end());
      }
      else if(o == O_appendArray || o == O_insArray)
      {
         int n = rnd ? g.range(0, 5) : 2;
         std::vector<int> vals;
         ARR* other = newArr((ARR*)nullptr, 0, rnd ? g.range(0, 8) : 1, 1.5);
         for(int i = 0; i < n; i++)
         {
            vals.push_back(nextVal++);
            other->append(mk(vals.back()));
         }
         int i = (o == O_appendArray) ? sz : pos(2, sz + 1);
         if(o == O_insArray && !rnd) i = (sz + 1) / 2;
         if(o == O_insArray && KIND == 1 && i == 0 && hazards().arrayInsert0)
         {
            delete other;
            return skip();
         }
         note("{i=" + I(i) + " n=" + I(n) + "}");
         if(o == O_appendArray) a.append(*other);
         else a.insert(i, *other);
         delete other;
         model.insert(model.begin() + i, vals.begin(), vals.end());
      }
      else if(o == O_insUninit0 || o == O_insUninitEnd || o == O_insUninitMid || o == O_insVal || o == O_insArr0 || o == O_insArrEnd || o == O_insArrMid)
      {
         int i = (o == O_insUninit0 || o == O_insArr0) ? 0 : (o == O_insUninitEnd || o == O_insArrEnd) ? sz : pos(2, sz + 1);
         int n = rnd ? g.range(0, 4) : 2;
         if(KIND == 1 && i == 0 && hazards().arrayInsert0) return skip();      // Array::insert(0,..) is data.begin() - 1
         note("{i=" + I(i) + " n=" + I(n) + " size=" + I(sz) + "}");
         if(o == O_insUninit0 || o == O_insUninitEnd || o == O_insUninitMid)
         {
            a.insert(i, n);
            model.insert(model.begin() + i, n, -1);
            // the survivors must be intact before the uninitialised gap is written
            if(!verify(opNames[o])) return;
         }
         else if(o == O_insVal)
         {
            int v = nextVal++;
            if(!insertNVal(a, i, n, mk(v))) return skip();
            model.insert(model.begin() + i, n, v);
         }
         else
         {
            std::vector<int> vals;
            std::vector<T> b = mkBlock(n, vals);
            a.insert(i, n, b.data());
            model.insert(model.begin() + i, vals.begin(), vals.end());
         }
      }
      else if(o == O_remFirst || o == O_remDefault || o == O_remMid || o == O_remTail || o == O_remClip)
      {
         if(sz == 0) return skip();
         int n, m;
         if(o == O_remDefault)
         {
            n = 0;
            m = 1;
            a.remove();
         }
         else
         {
            if(o == O_remFirst)
            {
               n = 0;
               m = rnd ? g.range(0, sz) : (sz + 1) / 2;
            }
            else if(o == O_remTail)
            {
               n = rnd ? g.range(0, sz - 1) : sz / 2;
               m = sz - n;
            }
            else if(o == O_remClip)
            {
               if(KIND == 2) return skip();      // ClassArray requires n + m <= size()
               n = rnd ? g.range(0, sz - 1) : sz / 2;
               m = sz - n + (rnd ? g.range(1, 5) : 2);
            }
            else
            {
               n = rnd ? g.range(0, sz - 1) : sz / 3;
               m = rnd ? g.range(0, sz - n) : std::min(sz - n, 1);
            }
            note("{n=" + I(n) + " m=" + I(m) + " size=" + I(sz) + "}");
            a.remove(n, m);
         }
         int e = std::min(sz, n + m);
         model.erase(model.begin() + n, model.begin() + e);
      }
      else if(o == O_removeLast)
      {
         int m = rnd ? g.range(0, sz) : std::min(sz, 1);
         if(!removeLastN(a, m)) return skip();
         note("{m=" + I(m) + "}");
         model.resize(sz - m);
      }
      else if(o == O_clear)
      {
         a.clear();
         model.clear();
      }
      else if(o == O_reSizeGrow || o == O_reSizeShrink)
      {
         int ns = (o == O_reSizeGrow) ? sz + (rnd ? g.range(1, 12) : 3) : (rnd ? g.range(0, sz) : sz / 2);
         note("{" + I(ns) + "}");
         a.reSize(ns);
         model.resize(ns, -1);
         if(!verify(opNames[o])) return;
      }
      else if(o == O_reMaxGrow || o == O_reMaxShrink || o == O_reMaxBoth)
      {
         int nm, ns = -1;
         bool two = false;
         if(o == O_reMaxGrow) nm = maxOf(a) + (rnd ? g.range(1, 12) : 3);
         else if(o == O_reMaxShrink)
         {
            if(sz < 2) return skip();
            nm = rnd ? g.range(0, sz - 1) : 1;
         }
         else
         {
            two = true;
            nm = rnd ? g.range(0, sz + 8) : sz + 1;
            ns = rnd ? g.range(0, sz + 8) : sz / 2 + 1;
         }
         ptrdiff_t d = 0;
         uintptr_t before = (uintptr_t)a.get_ptr();
         note("{newMax=" + I(nm) + " newSize=" + I(ns) + " size=" + I(sz) + " max=" + I(maxOf(a)) + "}");
         if(!reMaxOf(a, nm, ns, two, &d)) return skip();
         if(two) model.resize(ns, -1);
         CK(maxOf(a) >= a.size(), "max-below-size", "max()=" + I(maxOf(a)) + " < size()=" + I(a.size()) + ": the elements behind max() are gone");
         CK(maxOf(a) >= nm, "max-too-small", "max()=" + I(maxOf(a)) + " after reMax(" + I(nm) + ")");
         if(KIND == 2) CK((uintptr_t)a.get_ptr() - before == (uintptr_t)d, "returned-shift-differs", "reMax returned " + I(d) + " but the data moved by " + I((
                        long long)((uintptr_t)a.get_ptr() - before)));
         if(!verify(opNames[o])) return;
      }
      else if(o == O_assign)
      {
         ARR* t = newArr((ARR*)nullptr, rnd ? g.range(0, 6) : 1, rnd ? g.range(0, 10) : 0, 1.2);
         for(int i = 0; i < t->size(); i++)(*t)[i] = mk(500000 + i);
         *t = a;
         if(!verify("operator=(source)"))
         {
            delete t;
            return;
         }
         delete arr;
         arr = t;
      }
      else if(o == O_copy)
      {
         ARR* c = new ARR(a);
         if(!verify("copy-ctor(source)"))
         {
            delete c;
            return;
         }
         delete arr;
         arr = c;
      }
      else if(o == O_write)
      {
         if(sz == 0) return skip();
         int i = pos(2, sz);
         model[i] = nextVal++;
         a[i] = mk(model[i]);
      }
      fillUnknown();
      verify(opNames[o]);
   }
};

// ================================================================================================ IdList / IsList
struct Pay
{
   int v;
};

template <class ELEM, class LIST, bool DOUBLY>
struct ListUnit : Unit
{
   enum { N = 14 };
   ELEM* pool = nullptr;
   LIST* list = nullptr;
   std::list<int> model;
   bool in[N];
   int O_append, O_prepend, O_insAfterFirst, O_insAfterLast, O_insAfterMid, O_remFirst, O_remLast, O_remMid, O_remNext, O_appendList,
       O_prependList, O_insList, O_remSubHead, O_remSubMid, O_remSubTail, O_remSubAll, O_clear, O_move;

   ListUnit(const char* nm)
   {
      name = nm;
      O_append = op("append(elem)", 30);
      O_prepend = op("prepend(elem)", 20);
      O_insAfterFirst = op("insert(elem,after=first)", 6);
      O_insAfterLast = op("insert(elem,after=last)", 6);
      O_insAfterMid = op("insert(elem,after)", 15);
      O_remFirst = op("remove(first)", 6);
      O_remLast = op("remove(last)", 6);
      O_remMid = op("remove(elem)", 12);
      O_remNext = op("remove_next(after)", 8);
      O_appendList = op("append(list)", 6);
      O_prependList = op("prepend(list)", 6);
      O_insList = op("insert(list,after)", 8);
      O_remSubHead = op("remove(sublist@head)", 4);
      O_remSubMid = op("remove(sublist@middle)", 6);
      O_remSubTail = op("remove(sublist@tail)", 4);
      O_remSubAll = op("remove(sublist=all)", 1);
      O_clear = op("clear", 1);
      O_move = op("move(delta)", 6);
   }
   ~ListUnit()
   {
      delete list;
      free(pool);
   }
   std::vector<int> exOps() const override
   {
      return {O_append, O_prepend, O_insAfterFirst, O_insAfterMid, O_remFirst, O_remLast, O_remMid, O_remNext, O_appendList, O_prependList, O_insList,
              O_remSubHead, O_remSubMid, O_remSubTail, O_clear, O_move};
   }
   void reset() override
   {
      delete list;
      free(pool);
      pool = (ELEM*)malloc(sizeof(ELEM) * N);
      for(int i = 0; i < N; i++)
      {
         new(&pool[i]) ELEM();
         pool[i].v = i;
         in[i] = false;
      }
      list = new LIST();
      model.clear();
   }
   int freeElem()
   {
      std::vector<int> f;
      for(int i = 0; i < N; i++)
         if(!in[i]) f.push_back(i);
      if(f.empty()) return -1;
      return rnd ? f[(size_t)(g.next() % f.size())] : f[0];
   }
   int nthOfModel(int p)
   {
      auto it = model.begin();
      std::advance(it, p);
      return *it;
   }
   bool verify(const std::string& on)
   {
#define VB(cond, what, detail) do { checks++; if(!(cond)) { fail(on, what, detail); return false; } } while(0)
      LIST& l = *list;
      if(model.empty())
      {
         VB(l.first() == nullptr && l.last() == nullptr, "empty-list-has-elements", "first()/last() not null for an empty list");
         VB(l.length() == 0, "length-differs", "length()=" + I(l.length()) + " expected 0");
      }
      else
      {
         VB(l.first() == &pool[model.front()], "first-differs", "first() is not element " + I(model.front()));
         VB(l.last() == &pool[model.back()], "last-differs", "last() is not element " + I(model.back()));
         std::vector<int> got;
         int steps = 0;
         for(ELEM* e = l.first(); e; e = l.next(e))
         {
            VB(e >= pool && e < pool + N, "next-leaves-the-elements", "next() returned a pointer that is no list element (after " + I(steps) + " steps)");
            got.push_back((int)(e - pool));
            VB(++steps <= N, "list-does-not-end", "more than " + I(N) + " elements reached through next()");
         }
         std::vector<int> want(model.begin(), model.end());
         VB(got == want, "order-differs", "forward order " + vs(got) + " expected " + vs(want));
         VB(l.length() == (int)want.size(), "length-differs", "length()=" + I(l.length()) + " expected " + I(want.size()));
         if(DOUBLY && !verifyBackward(on, want)) return false;
      }
      for(int i = 0; i < N; i++)
         VB((l.find(&pool[i]) != 0) == in[i], "find-differs", "find(element " + I(i) + ")=" + I(l.find(&pool[i])) + " but the element is " + (in[i] ? "in" : "not in") + " the list");
      VB(l.isConsistent(), "isConsistent-false", "isConsistent() returned false");
      return true;
   }
   template <class L = LIST>
   bool verifyBackward(const std::string& on, const std::vector<int>& want)
   {
      std::vector<int> got;
      int steps = 0;
      for(ELEM* e = list->last(); e; e = prevOf(e))
      {
         VB(e >= pool && e < pool + N, "prev-leaves-the-elements", "prev() returned a pointer that is no list element (after " + I(steps) + " steps)");
         got.push_back((int)(e - pool));
         VB(++steps <= N, "list-does-not-end-backwards", "more than " + I(N) + " elements reached through prev()");
      }
      std::reverse(got.begin(), got.end());
      VB(got == want, "backward-order-differs", "order through prev() " + vs(got) + " expected " + vs(want));
      return true;
#undef VB
   }
   ELEM* prevOf(ELEM* e)
   {
      return prevImpl(list, e);
   }
   static ELEM* prevImpl(IdList<ELEM>* l, ELEM* e)
   {
      return l->prev(e);
   }
   static ELEM* prevImpl(IsList<ELEM>*, ELEM*)
   {
      return nullptr;
   }
   static std::string vs(const std::vector<int>& v)
   {
      std::string r = "[";
      for(size_t i = 0; i < v.size(); i++) r += (i ? "," : "") + I(v[i]);
      return r + "]";
   }
   void step(int o) override
   {
      LIST& l = *list;
      int n = (int)model.size();
      if(o == O_append || o == O_prepend)
      {
         int e = freeElem();
         if(e < 0) return skip();
         if(o == O_append)
         {
            l.append(&pool[e]);
            model.push_back(e);
         }
         else
         {
            l.prepend(&pool[e]);
            model.push_front(e);
         }
         in[e] = true;
      }
      else if(o == O_insAfterFirst || o == O_insAfterLast || o == O_insAfterMid)
      {
         int e = freeElem();
         if(e < 0 || n == 0) return skip();
         int p = pos(o == O_insAfterFirst ? 0 : o == O_insAfterLast ? 1 : 2, n);
         int after = nthOfModel(p);
         note("{after #" + I(p) + "/" + I(n) + "}");
         l.insert(&pool[e], &pool[after]);
         auto it = model.begin();
         std::advance(it, p + 1);
         model.insert(it, e);
         in[e] = true;
      }
      else if(o == O_remFirst || o == O_remLast || o == O_remMid)
      {
         if(n == 0) return skip();
         int p = pos(o == O_remFirst ? 0 : o == O_remLast ? 1 : 2, n);
         int e = nthOfModel(p);
         note("{#" + I(p) + "/" + I(n) + "}");
         l.remove(&pool[e]);
         model.remove(e);
         in[e] = false;
      }
      else if(o == O_remNext)
      {
         if(n < 2) return skip();
         int p = rnd ? g.range(0, n - 2) : (n - 2) / 2;     // after must have a successor
         int after = nthOfModel(p), e = nthOfModel(p + 1);
         note("{after #" + I(p) + "/" + I(n) + "}");
         l.remove_next(&pool[after]);
         model.remove(e);
         in[e] = false;
      }
      else if(o == O_appendList || o == O_prependList || o == O_insList)
      {
         int cnt = rnd ? g.range(0, 3) : 2;
         if(o == O_insList && n == 0) return skip();
         LIST other;
         std::vector<int> es;
         for(int i = 0; i < cnt; i++)
         {
            int e = freeElem();
            if(e < 0) break;
            in[e] = true;
            es.push_back(e);
            other.append(&pool[e]);
         }
         note("{n=" + I(es.size()) + "}");
         if(o == O_appendList)
         {
            l.append(other);
            model.insert(model.end(), es.begin(), es.end());
         }
         else if(o == O_prependList)
         {
            l.prepend(other);
            model.insert(model.begin(), es.begin(), es.end());
         }
         else
         {
            int p = pos(2, n);
            int after = nthOfModel(p);
            note("{after #" + I(p) + "/" + I(n) + "}");
            l.insert(other, &pool[after]);
            auto it = model.begin();
            std::advance(it, p + 1);
            model.insert(it, es.begin(), es.end());
         }
      }
      else if(o == O_remSubHead || o == O_remSubMid || o == O_remSubTail || o == O_remSubAll)
      {
         if(n == 0) return skip();
         int a, b;     // positions of the first and last element of the sublist
         if(o == O_remSubAll)
         {
            a = 0;
            b = n - 1;
         }
         else if(o == O_remSubHead)
         {
            if(n < 2) return skip();
            a = 0;
            b = rnd ? g.range(0, n - 2) : (n - 2) / 2;
         }
         else if(o == O_remSubTail)
         {
            if(n < 2) return skip();
            b = n - 1;
            a = rnd ? g.range(1, n - 1) : (n >= 3 ? n - 2 : n - 1);
         }
         else
         {
            if(n < 3) return skip();
            a = rnd ? g.range(1, n - 2) : 1;
            b = rnd ? g.range(a, n - 2) : std::min(n - 2, 2);
         }
         note("{#" + I(a) + "..#" + I(b) + "/" + I(n) + "}");
         {
            LIST sub(&pool[nthOfModel(a)], &pool[nthOfModel(b)]);
            l.remove(sub);
         }
         std::vector<int> gone;
         for(int p = a; p <= b; p++) gone.push_back(nthOfModel(p));
         for(int e : gone)
         {
            model.remove(e);
            in[e] = false;
         }
      }
      else if(o == O_clear)
      {
         l.clear();
         model.clear();
         for(int i = 0; i < N; i++) in[i] = false;
      }
      else if(o == O_move)
      {
         // all elements move in memory by the same offset (as after a realloc of the array they live in)
         ELEM* np = (ELEM*)malloc(sizeof(ELEM) * N);
         memcpy((void*)np, (const void*)pool, sizeof(ELEM) * N);
         ptrdiff_t delta = reinterpret_cast<char*>(np) - reinterpret_cast<char*>(pool);
         memset((void*)pool, 0x5a, sizeof(ELEM) * N);
         free(pool);
         pool = np;
         l.move(delta);
      }
      verify(opNames[o]);
   }
};

// ================================================================================================ sorter / stable sum
struct SE
{
   int key;
   int id;
};
struct SECompare
{
   long long calls = 0;
   int operator()(const SE& a, const SE& b)
   {
      calls++;
      return a.key < b.key ? -1 : a.key > b.key ? 1 : 0;
   }
};

struct SortUnit : Unit
{
   int O_quick, O_quickRange, O_part, O_shell, O_stableDouble, O_stableRational;
   SortUnit(const char* nm)
   {
      name = nm;
      O_quick = op("SPxQuicksort", 30);
      O_quickRange = op("SPxQuicksort(start>0)", 10);
      O_part = op("SPxQuicksortPart", 30);
      O_shell = op("SPxShellsort", 10);
      O_stableDouble = op("StableSum<double>", 15);
      O_stableRational = op("StableSum<Rational>", 5);
   }
   std::vector<int> exOps() const override
   {
      return {O_quick, O_quickRange, O_part, O_shell, O_stableDouble, O_stableRational};
   }
   void reset() override {}
   std::vector<SE> mkArr(int n)
   {
      std::vector<SE> v(n);
      int mode = g.range(0, 4);      // few distinct keys, many, sorted, reversed, all equal
      int range = mode == 0 ? 3 : mode == 4 ? 1 : 1000;
      for(int i = 0; i < n; i++)
      {
         v[i].key = g.range(0, range - 1);
         v[i].id = i;
      }
      if(mode == 2) std::sort(v.begin(), v.end(), [](const SE & a, const SE & b)
      {
         return a.key < b.key;
      });
      if(mode == 3) std::sort(v.begin(), v.end(), [](const SE & a, const SE & b)
      {
         return a.key > b.key;
      });
      return v;
   }
   static bool samePerm(const std::vector<SE>& a, const std::vector<SE>& b, int lo, int hi)
   {
      std::vector<std::pair<int, int>> x, y;
      for(int i = 0; i < (int)a.size(); i++)
      {
         if(i < lo || i >= hi)
         {
            if(a[i].key != b[i].key || a[i].id != b[i].id) return false;
         }
         else
         {
            x.push_back({a[i].key, a[i].id});
            y.push_back({b[i].key, b[i].id});
         }
      }
      std::sort(x.begin(), x.end());
      std::sort(y.begin(), y.end());
      return x == y;
   }
   void step(int o) override
   {
      SECompare cmp;
      if(o == O_quick || o == O_quickRange || o == O_shell)
      {
         int n = (o == O_shell) ? g.range(1, 25) : (g.chance(0.3) ? g.range(0, 40) : g.range(0, 600));
         std::vector<SE> v = mkArr(n + 2), orig;
         orig = v;
         int start = (o == O_quick) ? 0 : g.range(0, std::max(0, n - 1));
         if(o == O_shell && start > n - 1) start = n - 1;
         note("{n=" + I(n) + " start=" + I(start) + "}");
         int hi;
         if(o == O_shell)
         {
            SPxShellsort(v.data(), n - 1, cmp, start);      // `end` is the index of the last element
            hi = n;
         }
         else
         {
            SPxQuicksort(v.data(), n, cmp, start);            // `end` is one past the last element
            hi = n;
         }
         CK(samePerm(orig, v, start, hi), "not-a-permutation", "the result is not a permutation of the input range (or touched elements outside it)");
         for(int i = start + 1; i < hi; i++)
            CK(v[i - 1].key <= v[i].key, "not-sorted", "element " + I(i - 1) + " (key " + I(v[i - 1].key) + ") > element " + I(i) + " (key " + I(v[i].key) + "), n=" + I(
                  n) + " start=" + I(start));
      }
      else if(o == O_part)
      {
         int n = g.chance(0.3) ? g.range(0, 40) : g.range(0, 600);
         std::vector<SE> v = mkArr(n + 2), orig;
         orig = v;
         int start = g.chance(0.7) ? 0 : g.range(0, std::max(0, n - 1));
         int size = g.chance(0.2) ? g.range(0, n + 5) : g.range(1, 30);
         note("{n=" + I(n) + " start=" + I(start) + " size=" + I(size) + "}");
         SPxQuicksortPart(v.data(), cmp, start, n, size);
         CK(samePerm(orig, v, start, n), "not-a-permutation", "the result is not a permutation of the input range (or touched elements outside it)");
         int m = std::min(size, std::max(0, n - start));
         for(int i = start + 1; i < start + m; i++)
            CK(v[i - 1].key <= v[i].key, "front-not-sorted", "the first `size` elements are not sorted: position " + I(i) + ", n=" + I(n) + " start=" + I(
                  start) + " size=" + I(size));
         if(m > 0)
         {
            int frontMax = v[start + m - 1].key;
            for(int i = start + m; i < n; i++)
               CK(v[i].key >= frontMax, "front-not-smallest", "element " + I(i) + " (key " + I(v[i].key) + ") is smaller than the last of the `size` front elements (key " + I(
                     frontMax) + "), n=" + I(n) + " start=" + I(start) + " size=" + I(size));
         }
      }
      else if(o == O_stableDouble)
      {
         int n = g.range(0, 200);
         StableSum<double> s;
         Q exact = 0, absum = 0;
         int mode = g.range(0, 2);
         for(int i = 0; i < n; i++)
         {
            double x = (g.unit() - 0.5) * std::ldexp(1.0, mode == 0 ? 0 : g.range(-30, 30));
            if(mode == 2 && i % 2) x = -x * (1 + 1e-9);
            if(g.chance(0.3)) s -= -x;
            else s += x;
            exact += qd(x);
            absum += qabs(qd(x));
         }
         double got = s;
         Q eps = qd(std::ldexp(1.0, -53));
         Q bound = 2 * eps * qabs(exact) + 4 * Q(n + 1) * eps * eps * absum + qd(DBL_MIN);
         Q err = qabs(qd(got) - exact);
         sink().maxi("stablesum.err_over_bound", dq(err / bound));
         CK(err <= bound, "sum-inexact", "compensated sum of " + I(n) + " terms is off by " + ds(dq(err)) + ", bound " + ds(dq(bound)));
      }
      else
      {
         int n = g.range(0, 40);
         StableSum<Rational> s;
         Q exact = 0;
         for(int i = 0; i < n; i++)
         {
            Q x = qfrac(g.range(-50, 50), g.range(1, 9));
            if(g.chance(0.3))
            {
               s -= x;
               exact -= x;
            }
            else
            {
               s += x;
               exact += x;
            }
         }
         Rational got = s;
         CK(got == exact, "sum-differs", "rational sum differs");
      }
   }
};

Unit* makeArrUnit(int which)
{
   switch(which)
   {
   case 0:
      return new ArrUnit<DataArray<DA>, DA, 0>(miscUnitNames[4]);
   case 1:
      return new ArrUnit<Array<AObj>, AObj, 1>(miscUnitNames[5]);
   case 2:
      return new ArrUnit<ClassArray<AObj>, AObj, 2>(miscUnitNames[6]);
   case 3:
      return new ListUnit<IdElement<Pay>, IdList<IdElement<Pay>>, true>(miscUnitNames[7]);
   case 4:
      return new ListUnit<IsElement<Pay>, IsList<IsElement<Pay>>, false>(miscUnitNames[8]);
   default:
      return new SortUnit(miscUnitNames[9]);
   }
}

} // namespace cont
