// harness/cont_sets.cpp -- C19 units for the keyed sets: DataSet, ClassSet, SVSetBase<double|Rational>,
// LPRowSetBase / LPColSetBase <double|Rational>.  Reference models: std::map keyed by DataKey::idx.
#include "cont_common.hpp"

namespace cont
{
using namespace soplex;

const char* const setsUnitNames[] = {"DataSet", "ClassSet", "SVSet.double", "SVSet.Rational", "LPRowSet.double", "LPColSet.double",
                                     "LPRowSet.Rational", "LPColSet.Rational"
                                    };

// ================================================================================================ DataSet / ClassSet
struct DItem
{
   int v;
   int w;
};
inline DItem mkItem(const DItem*, int x)
{
   DItem d;
   d.v = x;
   d.w = ~x;
   return d;
}
struct CItem      // a class object in the sense of ClassSet/ClassArray: user-provided constructors and assignment
{
   int v;
   int w;
   CItem() : v(-7), w(~(-7)) {}
   CItem(const CItem& o) : v(o.v), w(o.w) {}
   CItem& operator=(const CItem& o)
   {
      v = o.v;
      w = o.w;
      return *this;
   }
};
inline CItem mkItem(const CItem*, int x)
{
   CItem d;
   d.v = x;
   d.w = ~x;
   return d;
}

template <class SET, class ITEM, bool IS_CLASS>
struct KeySetUnit : Unit
{
   SET* set = nullptr;
   std::map<int, int> model;     // DataKey::idx -> value
   int nextVal = 1;
   int O_addKey, O_add, O_create, O_addManyKey, O_addMany, O_addSetKey, O_addSet, O_remNum0, O_remNumLast, O_remNumMid, O_remKey,
       O_remPermEven, O_remPermAllButLast, O_remPermSub, O_remKeysPerm, O_remNumsPerm, O_remKeys, O_remNums, O_clear, O_grow, O_shrink,
       O_copy, O_assign, O_modify;

   KeySetUnit(const char* nm)
   {
      name = nm;
      O_addKey = op("add(key,item)", 40);
      O_add = op("add(item)", 25);
      O_create = op("create(key)", 20);
      O_addManyKey = op("add(keys[],items,n)", 15);
      O_addMany = op("add(items,n)", 10);
      O_addSetKey = op("add(keys[],set)", 10);
      O_addSet = op("add(set)", 8);
      O_remNum0 = op("remove(num=first)", 8);
      O_remNumLast = op("remove(num=last)", 8);
      O_remNumMid = op("remove(num)", 12);
      O_remKey = op("remove(key)", 12);
      O_remPermEven = op("remove(perm:even)", 3);
      O_remPermAllButLast = op("remove(perm:all-but-last)", 1);
      O_remPermSub = op("remove(perm)", 8);
      O_remKeysPerm = op("remove(keys,n,perm)", 6);
      O_remNumsPerm = op("remove(nums,n,perm)", 6);
      O_remKeys = op("remove(keys,n)", 5);
      O_remNums = op("remove(nums,n)", 5);
      O_clear = op("clear", 1);
      O_grow = op("reMax(grow)", 8);
      O_shrink = op("reMax(shrink)", 6);
      O_copy = op("copy-ctor", 5);
      O_assign = op("operator=", 5);
      O_modify = op("write(key)", 8);
   }
   ~KeySetUnit()
   {
      delete set;
   }
   std::vector<int> exOps() const override
   {
      return {O_addKey, O_add, O_addManyKey, O_addSetKey, O_remNum0, O_remNumLast, O_remKey, O_remPermEven, O_remPermSub, O_remNumsPerm,
              O_clear, O_grow, O_shrink, O_copy, O_assign};
   }
   void reset() override
   {
      delete set;
      set = new SET(rnd ? g.range(1, 6) : 2);
      model.clear();
      nextVal = 1;
   }
   static bool eq(const ITEM& a, int x)
   {
      return a.v == x && a.w == ~x;
   }
   // ---- full comparison of the observable state with the model
   bool verify(const std::string& on)
   {
#define VB(cond, what, detail) do { checks++; if(!(cond)) { fail(on, what, detail); return false; } } while(0)
      SET& s = *set;
      int n = s.num();
      VB(n == (int)model.size(), "num-differs", "num()=" + I(n) + " model=" + I(model.size()));
      VB(s.size() >= n && s.size() <= s.max(), "size-out-of-range", "size()=" + I(s.size()) + " num=" + I(n) + " max=" + I(s.max()));
      for(int i = 0; i < n; i++)
      {
         DataKey k = s.key(i);
         VB(k.idx >= 0 && k.idx < s.size(), "key-out-of-range", "key(" + I(i) + ").idx=" + I(k.idx) + " size()=" + I(s.size()));
         auto it = model.find(k.idx);
         VB(it != model.end(), "key-not-live", "key(" + I(i) + ").idx=" + I(k.idx) + " is not the key of a live element");
         VB(s.number(k) == i, "number-of-key-differs", "number(key(" + I(i) + "))=" + I(s.number(k)));
         VB(s.has(k), "has(key)-false", "has(key(" + I(i) + ")) is false");
         VB(eq(s[i], it->second), "element-by-number-differs", "set[" + I(i) + "].v=" + I(s[i].v) + " expected " + I(it->second));
         VB(eq(s[k], it->second), "element-by-key-differs", "set[key " + I(k.idx) + "].v=" + I(s[k].v) + " expected " + I(it->second));
         const ITEM* p = &s[i];
         VB(s.number(p) == i, "number-of-pointer-differs", "number(&set[" + I(i) + "])=" + I(s.number(p)));
         VB(s.key(p).idx == k.idx, "key-of-pointer-differs", "key(&set[" + I(i) + "]).idx=" + I(s.key(p).idx));
         VB(s.has(p), "has(pointer)-false", "has(&set[" + I(i) + "]) false");
         VB(s.has(i), "has(number)-false", "has(" + I(i) + ") false");
      }
      VB(!s.has(n) && !s.has(-1), "has(number)-true-out-of-range", "has(num()) or has(-1) true");
      for(int idx = 0; idx < s.size(); idx++)
      {
         if(model.count(idx)) continue;
         DataKey k(0, idx);
         VB(s.number(k) < 0, "removed-key-has-number", "number(removed key " + I(idx) + ")=" + I(s.number(k)));
         VB(!s.has(k), "removed-key-still-present", "has(removed key " + I(idx) + ") true");
      }
      VB(s.isConsistent(), "isConsistent-false", "isConsistent() returned false");
      return true;
#undef VB
   }
   bool ensureRoom(int n)
   {
      if(set->num() + n <= set->max()) return true;
      int nm = set->num() + n + (rnd ? g.range(0, 3) : 1);
      note("{reMax " + I(nm) + "}");
      set->reMax(nm);
      mutations++;
      checks++;
      if(set->max() < nm)
      {
         fail("reMax(auto-grow)", "max-too-small", "max()=" + I(set->max()) + " after reMax(" + I(nm) + ")");
         return false;
      }
      return verify("reMax(auto-grow)");
   }
   bool newKeyOk(const DataKey& k, int val)
   {
      checks++;
      if(k.idx < 0)
      {
         fail("key-not-returned", "returned key idx=" + I(k.idx));
         return false;
      }
      if(model.count(k.idx))
      {
         fail("new-key-collides-with-live-key", "returned key idx=" + I(k.idx) + " already identifies a live element");
         return false;
      }
      model[k.idx] = val;
      return true;
   }
   // keys currently in the set that the model does not know (elements added without key return), in number order
   std::vector<int> unknownKeys()
   {
      std::vector<int> r;
      for(int i = 0; i < set->num(); i++)
         if(!model.count(set->key(i).idx)) r.push_back(set->key(i).idx);
      return r;
   }
   bool adoptUnknown(const std::vector<int>& vals)     // elements added without key: match by value
   {
      std::vector<int> uk = unknownKeys();
      checks++;
      if(uk.size() != vals.size())
      {
         fail("added-count-differs", I(uk.size()) + " new elements found, " + I(vals.size()) + " added");
         return false;
      }
      std::multiset<int> want(vals.begin(), vals.end());
      for(int k : uk)
      {
         const ITEM& it = (*set)[DataKey(0, k)];
         auto w = want.find(it.v);
         checks++;
         if(w == want.end() || it.w != ~it.v)
         {
            fail("added-element-differs", "new element with key " + I(k) + " has value " + I(it.v));
            return false;
         }
         want.erase(w);
         model[k] = it.v;
      }
      return true;
   }
   void fillOther(SET& o, std::vector<int>& vals)
   {
      int cnt = rnd ? g.range(0, 4) : 3;
      DataKey k;
      for(int i = 0; i < cnt; i++)
         o.add(k, mkItem((ITEM*)nullptr, nextVal++));
      if(cnt >= 2) o.remove(rnd ? g.range(0, cnt - 1) : 0);     // leave a hole in the source
      for(int i = 0; i < o.num(); i++) vals.push_back(o[i].v);
   }
   void removeByPerm(std::vector<char>& rem, int variant)      // variant 0: remove(perm) 1: keys+perm 2: nums+perm 3: keys 4: nums
   {
      int n = set->num();
      std::vector<int> perm(n + 1, 12345), oldkeys(n);
      std::vector<DataKey> keys;
      std::vector<int> nums;
      int nrem = 0;
      for(int i = 0; i < n; i++)
      {
         oldkeys[i] = set->key(i).idx;
         if(rem[i])
         {
            keys.push_back(set->key(i));
            nums.push_back(i);
            nrem++;
         }
      }
      if(rnd)
      {
         // order of the keys / numbers handed in is arbitrary
         for(size_t i = keys.size(); i > 1; i--)
         {
            size_t j = (size_t)(g.next() % i);
            std::swap(keys[i - 1], keys[j]);
            std::swap(nums[i - 1], nums[j]);
         }
      }
      note("{" + I(nrem) + " of " + I(n) + "}");
      bool havePerm = true;
      if(variant == 0)
      {
         for(int i = 0; i < n; i++) perm[i] = rem[i] ? -1 : (rnd ? g.range(0, 9) : i);
         set->remove(perm.data());
      }
      else if(variant == 1) set->remove(keys.data(), nrem, perm.data());
      else if(variant == 2) set->remove(nums.data(), nrem, perm.data());
      else if(variant == 3)
      {
         set->remove(keys.data(), nrem);
         havePerm = false;
      }
      else
      {
         set->remove(nums.data(), nrem);
         havePerm = false;
      }
      mutations++;
      for(int i = 0; i < n; i++)
         if(rem[i]) model.erase(oldkeys[i]);
      CK(set->num() == n - nrem, "num-differs", "num()=" + I(set->num()) + " expected " + I(n - nrem));
      if(havePerm)
      {
         CK(perm[n] == 12345, "perm-written-past-num", "perm[num()] was overwritten");
         for(int i = 0; i < n; i++)
         {
            if(rem[i]) CK(perm[i] < 0, "removed-not-marked", "perm[" + I(i) + "]=" + I(perm[i]) + " for a removed element");
            else
            {
               CK(perm[i] >= 0 && perm[i] < set->num(), "perm-out-of-range", "perm[" + I(i) + "]=" + I(perm[i]) + " num()=" + I(set->num()));
               CK(set->key(perm[i]).idx == oldkeys[i], "survivor-moved-wrong",
                  "perm[" + I(i) + "]=" + I(perm[i]) + " but key(" + I(perm[i]) + ").idx=" + I(set->key(perm[i]).idx) + ", element had key " + I(oldkeys[i]));
            }
         }
      }
   }
   void step(int o) override
   {
      SET& s = *set;
      ITEM* T = nullptr;
      if(o == O_addKey)
      {
         if(!ensureRoom(1)) return;
         DataKey k;
         int v = nextVal++;
         set->add(k, mkItem(T, v));
         mutations++;
         if(!newKeyOk(k, v)) return;
      }
      else if(o == O_add)
      {
         if(!ensureRoom(1)) return;
         int v = nextVal++;
         set->add(mkItem(T, v));
         mutations++;
         if(!adoptUnknown({v})) return;
      }
      else if(o == O_create)
      {
         if(!ensureRoom(1)) return;
         DataKey k;
         int v = nextVal++;
         ITEM* p = set->create(k);
         *p = mkItem(T, v);
         mutations++;
         if(!newKeyOk(k, v)) return;
         CK(&(*set)[k] == p, "create-pointer-differs", "create() returned a pointer that is not &set[key]");
      }
      else if(o == O_addManyKey || o == O_addMany)
      {
         int n = rnd ? g.range(0, 5) : 2;
         if(!ensureRoom(n)) return;
         std::vector<ITEM> items;
         std::vector<int> vals;
         std::vector<DataKey> keys(n + 1);
         for(int i = 0; i < n; i++)
         {
            vals.push_back(nextVal++);
            items.push_back(mkItem(T, vals.back()));
         }
         items.push_back(mkItem(T, -1));
         note("{n=" + I(n) + "}");
         if(o == O_addManyKey)
         {
            set->add(keys.data(), items.data(), n);
            for(int i = 0; i < n; i++)
               if(!newKeyOk(keys[i], vals[i])) return;
         }
         else
         {
            set->add(items.data(), n);
            if(!adoptUnknown(vals)) return;
         }
         mutations++;
      }
      else if(o == O_addSetKey || o == O_addSet)
      {
         SET other(6);
         std::vector<int> vals;
         fillOther(other, vals);
         if(!ensureRoom(other.num())) return;
         note("{n=" + I(other.num()) + "}");
         if(o == O_addSetKey)
         {
            std::vector<DataKey> keys(other.num() + 1);
            set->add(keys.data(), other);
            for(int i = 0; i < other.num(); i++)
               if(!newKeyOk(keys[i], other[i].v)) return;
         }
         else
         {
            set->add(other);
            if(!adoptUnknown(vals)) return;
         }
         mutations++;
      }
      else if(o == O_remNum0 || o == O_remNumLast || o == O_remNumMid || o == O_remKey)
      {
         int n = s.num();
         if(n == 0) return skip();
         int i = pos(o == O_remNum0 ? 0 : o == O_remNumLast ? 1 : 2, n);
         int kidx = s.key(i).idx, lastkey = s.key(n - 1).idx;
         note("{" + I(i) + "/" + I(n) + "}");
         if(o == O_remKey) set->remove(s.key(i));
         else set->remove(i);
         mutations++;
         model.erase(kidx);
         CK(s.num() == n - 1, "num-differs", "num()=" + I(s.num()) + " expected " + I(n - 1));
         if(i != n - 1)
            CK(s.key(i).idx == lastkey, "last-not-moved-into-gap", "documented renumbering: last element moves to the removed number; key(" + I(
                  i) + ").idx=" + I(s.key(i).idx) + " expected " + I(lastkey));
      }
      else if(o == O_remPermEven || o == O_remPermAllButLast || o == O_remPermSub || o == O_remKeysPerm || o == O_remNumsPerm
              || o == O_remKeys || o == O_remNums)
      {
         int n = s.num();
         if(n == 0 && o != O_remPermSub) return skip();
         std::vector<char> rem(n, 0);
         if(o == O_remPermEven)
            for(int i = 0; i < n; i += 2) rem[i] = 1;
         else if(o == O_remPermAllButLast)
            for(int i = 0; i + 1 < n; i++) rem[i] = 1;
         else if(rnd)
         {
            double p = g.chance(0.2) ? 0.8 : 0.25;
            for(int i = 0; i < n; i++) rem[i] = g.chance(p);
         }
         else
         {
            // deterministic: first and last (remove(perm)), last only / first only for the others
            if(o == O_remPermSub)
            {
               if(n) rem[0] = rem[n - 1] = 1;
            }
            else if(o == O_remNumsPerm || o == O_remNums) rem[0] = 1;
            else rem[n - 1] = 1;
         }
         int variant = (o == O_remKeysPerm) ? 1 : (o == O_remNumsPerm) ? 2 : (o == O_remKeys) ? 3 : (o == O_remNums) ? 4 : 0;
         removeByPerm(rem, variant);
         if(bad) return;
      }
      else if(o == O_clear)
      {
         set->clear();
         model.clear();
         mutations++;
      }
      else if(o == O_grow || o == O_shrink)
      {
         if(o == O_shrink && IS_CLASS && hazards().classSetShrink) return skip();
         int nm = (o == O_grow) ? s.max() + (rnd ? g.range(1, 9) : 3) : (rnd ? g.range(0, s.max()) : 0);
         uintptr_t before = s.num() ? (uintptr_t)&s[0] : 0;
         note("{" + I(nm) + "}");
         ptrdiff_t d = set->reMax(nm);
         mutations++;
         CK(s.max() >= nm && s.max() >= s.size(), "max-too-small", "max()=" + I(s.max()) + " after reMax(" + I(nm) + "), size()=" + I(s.size()));
         if(nm >= s.size()) CK(s.max() == nm, "max-differs", "max()=" + I(s.max()) + " after reMax(" + I(nm) + ")");
         if(before && s.num() == (int)model.size())
            CK((uintptr_t)&s[0] - before == (uintptr_t)d, "returned-shift-differs", "reMax returned " + I(d) + " but element 0 moved by " + I((
                     long long)((uintptr_t)&s[0] - before)));
      }
      else if(o == O_copy)
      {
         SET* c = new SET(*set);
         // the source must be unchanged, the copy equal (same keys)
         if(!verify("copy-ctor(source)"))
         {
            delete c;
            return;
         }
         delete set;
         set = c;
         mutations++;
      }
      else if(o == O_assign)
      {
         int cap = rnd ? g.range(1, 12) : (nextVal % 2 ? 1 : 5);
         SET* t = new SET(cap);
         int pre = rnd ? g.range(0, cap) : cap / 2;
         DataKey k;
         for(int i = 0; i < pre; i++) t->add(k, mkItem(T, 1000000 + i));
         if(pre >= 2) t->remove(0);
         note("{target max " + I(cap) + " preloaded " + I(t->num()) + "}");
         *t = *set;
         if(!verify("operator=(source)"))
         {
            delete t;
            return;
         }
         delete set;
         set = t;
         mutations++;
      }
      else if(o == O_modify)
      {
         int n = s.num();
         if(n == 0) return skip();
         int i = pos(2, n);
         DataKey k = s.key(i);
         int v = nextVal++;
         s[k] = mkItem(T, v);
         model[k.idx] = v;
      }
      verify(opNames[o]);
   }
};

// SVSetBase::isConsistent() itself is not usable as a monitor: it rejects every set that holds an empty vector behind the
// last nonzero (mem() > &last()) -- a state reached by plain add() calls.  Its components are reliable and are checked one by
// one; the arena conditions are replaced by the containment / disjointness test on the capacity ranges below.
template <class R>
inline bool svsetMonitors(SVSetBase<R>& s, std::string* what, std::string* detail)
{
   typedef typename SVSetBase<R>::DLPSV PS;
   if(!s.set.isConsistent())
   {
      *what = "isConsistent-false(ClassSet)";
      *detail = "ClassSet::isConsistent() of the vector memory returned false";
      return false;
   }
   if(!s.list.isConsistent())
   {
      *what = "isConsistent-false(IdList)";
      *detail = "IdList::isConsistent() of the nonzero-order list returned false";
      return false;
   }
   if(!s.SVSetBase<R>::SVSetBaseArray::isConsistent())
   {
      *what = "isConsistent-false(ClassArray)";
      *detail = "ClassArray::isConsistent() of the nonzero memory returned false";
      return false;
   }
   int cnt = 0;
   for(PS* ps = s.list.first(); ps; ps = s.list.next(ps))
   {
      if(++cnt > s.num())
      {
         *what = "order-list-longer-than-num";
         *detail = "the nonzero-order list has more elements than num()";
         return false;
      }
   }
   if(cnt != s.num())
   {
      *what = "order-list-length-differs";
      *detail = "the nonzero-order list has " + I(cnt) + " elements, num()=" + I(s.num());
      return false;
   }
   const Nonzero<R>* lo = s.SVSetBase<R>::SVSetBaseArray::get_const_ptr();
   std::vector<std::pair<const Nonzero<R>*, int>> spans;
   for(int i = 0; i < s.num(); i++)
   {
      const SVectorBase<R>& v = s[i];
      if(v.max() < v.size() || v.size() < 0)
      {
         *what = "vector-size-above-max";
         *detail = "vector number " + I(i) + " has size " + I(v.size()) + " max " + I(v.max());
         return false;
      }
      if(v.max() > 0) spans.push_back(std::make_pair((const Nonzero<R>*)v.mem(), v.max()));
   }
   std::sort(spans.begin(), spans.end());
   for(size_t i = 0; i < spans.size(); i++)
   {
      if(!(spans[i].first >= lo && spans[i].first + spans[i].second <= lo + s.memSize()))
      {
         *what = "vector-memory-outside-nonzero-memory";
         *detail = "the capacity range of a vector (max()=" + I(spans[i].second) + ") is not inside the used nonzero memory [0," + I(s.memSize()) + "): offset " + I((
                     long long)(spans[i].first - lo));
         return false;
      }
      if(i && spans[i - 1].first + spans[i - 1].second > spans[i].first)
      {
         *what = "vector-memory-overlaps";
         *detail = "the capacity ranges of two vectors overlap in the nonzero memory";
         return false;
      }
   }
   for(int i = 0; i < s.num(); i++)      // only now is it safe to read the nonzeros
   {
      const SVectorBase<R>& v = s[i];
      if(!v.isConsistent())
      {
         *what = "isConsistent-false(SVector)";
         *detail = "SVectorBase::isConsistent() of vector number " + I(i) + " returned false";
         return false;
      }
   }
   return true;
}

// add2() writes through the vector right after its internal xtend(); if the probe found that xtend() of the last vector can
// leave it pointing into freed memory, calls that would take that path are not executed in process (explicit xtend() operations
// still are, and are judged by svsetMonitors before anything is written).
template <class R>
inline bool xtendHazard(SVSetBase<R>& s, SVectorBase<R>& v, int need)
{
   if(!hazards().xtendLastStale) return false;
   if(v.max() >= need) return false;
   if(static_cast<SVectorBase<R>*>(s.list.last()) != &v) return false;
   return s.memSize() + (need - v.max()) > s.memMax();
}

// ================================================================================================ SVSetBase<R>
template <class R, class R2>
struct SVSetUnit : Unit
{
   typedef SVSetBase<R> SET;
   SET* set = nullptr;
   std::map<int, SpModel> model;
   int O_addKey, O_add, O_addArrays, O_addMany, O_addManyKeys, O_addSet, O_addSetKeys, O_create, O_createKey, O_xtend0, O_xtendLast,
       O_xtendMid, O_add2one, O_add2many, O_remKey, O_remNum0, O_remNumLast, O_remNumMid, O_remPtr, O_remPermEven, O_remPermSub,
       O_remKeysPerm, O_remNumsPerm, O_remKeys, O_remNums, O_clear, O_clearMin, O_memRemaxGrow, O_memRemaxFit, O_memPack, O_grow,
       O_shrink, O_copy, O_assign, O_assignCross, O_copyCross, O_vecRemoveNz, O_vecClear, O_vecScale, O_vecSort;
   enum { IDXRANGE = 40 };

   SVSetUnit(const char* nm)
   {
      name = nm;
      O_addKey = op("add(key,svec)", 40);
      O_add = op("add(svec)", 20);
      O_addArrays = op("add(key,vals,idx,n)", 15);
      O_addMany = op("add(svec[],n)", 10);
      O_addManyKeys = op("add(keys[],svec[],n)", 10);
      O_addSet = op("add(svset)", 6);
      O_addSetKeys = op("add(keys[],svset)", 6);
      O_create = op("create(idxmax)", 12);
      O_createKey = op("create(key,idxmax)", 12);
      O_xtend0 = op("xtend(first)", 8);
      O_xtendLast = op("xtend(last)", 8);
      O_xtendMid = op("xtend", 15);
      O_add2one = op("add2(svec,idx,val)", 25);
      O_add2many = op("add2(svec,n,idx[],val[])", 20);
      O_remKey = op("remove(key)", 12);
      O_remNum0 = op("remove(num=first)", 6);
      O_remNumLast = op("remove(num=last)", 6);
      O_remNumMid = op("remove(num)", 10);
      O_remPtr = op("remove(svec*)", 8);
      O_remPermEven = op("remove(perm:even)", 2);
      O_remPermSub = op("remove(perm)", 8);
      O_remKeysPerm = op("remove(keys,n,perm)", 5);
      O_remNumsPerm = op("remove(nums,n,perm)", 5);
      O_remKeys = op("remove(keys,n)", 4);
      O_remNums = op("remove(nums,n)", 4);
      O_clear = op("clear", 1);
      O_clearMin = op("clear(minNewSize)", 1);
      O_memRemaxGrow = op("memRemax(grow)", 8);
      O_memRemaxFit = op("memRemax(fit)", 6);
      O_memPack = op("memPack", 10);
      O_grow = op("reMax(grow)", 8);
      O_shrink = op("reMax(shrink)", 5);
      O_copy = op("copy-ctor", 4);
      O_assign = op("operator=", 4);
      O_assignCross = op("operator=(other-type)", 3);
      O_copyCross = op("copy-ctor(other-type)", 3);
      O_vecRemoveNz = op("svec.remove(n)", 10);
      O_vecClear = op("svec.clear", 4);
      O_vecScale = op("svec*=x", 4);
      O_vecSort = op("svec.sort", 4);
   }
   ~SVSetUnit()
   {
      delete set;
   }
   std::vector<int> exOps() const override
   {
      return {O_addKey, O_addArrays, O_addManyKeys, O_createKey, O_xtend0, O_xtendLast, O_add2one, O_add2many, O_remKey, O_remNum0,
              O_remPermEven, O_remNumsPerm, O_memRemaxFit, O_memPack, O_grow, O_copy, O_assign, O_vecRemoveNz};
   }
   void reset() override
   {
      delete set;
      if(rnd) set = new SET(g.range(1, 4), g.range(1, 8), 1.0 + 0.1 * g.range(1, 10), 1.0 + 0.1 * g.range(1, 10));
      else set = new SET(2, 3);
      model.clear();
   }
   SpModel rndVec(int maxnz = -1)
   {
      SpModel m;
      int nz = rnd ? (g.chance(0.15) ? 0 : g.range(1, 6)) : (int)(g.next() % 4);
      if(maxnz >= 0 && nz > maxnz) nz = maxnz;
      while((int)m.size() < nz) m[g.range(0, IDXRANGE - 1)] = ValGen<R>::val(g);
      return m;
   }
   int freeIndex(const SpModel& m)
   {
      for(;;)
      {
         int i = g.range(0, IDXRANGE - 1);
         if(!m.count(i)) return i;
      }
   }
   bool verify(const std::string& on)
   {
#define VB(cond, what, detail) do { checks++; if(!(cond)) { fail(on, what, detail); return false; } } while(0)
      SET& s = *set;
      int n = s.num();
      VB(n == (int)model.size(), "num-differs", "num()=" + I(n) + " model=" + I(model.size()));
      VB(n <= s.max(), "num-above-max", "num()=" + I(n) + " max()=" + I(s.max()));
      VB(s.memSize() <= s.memMax() && s.memSize() >= 0, "memSize-above-memMax", "memSize()=" + I(s.memSize()) + " memMax()=" + I(s.memMax()));
      {
         // white-box monitors first: they keep the comparison below from reading through stale pointers
         std::string what, detail;
         checks++;
         if(!svsetMonitors(s, &what, &detail))
         {
            fail(on, what, detail);
            return false;
         }
      }
      for(int i = 0; i < n; i++)
      {
         DataKey k = s.key(i);
         auto it = model.find(k.idx);
         VB(it != model.end(), "key-not-live", "key(" + I(i) + ").idx=" + I(k.idx) + " is not the key of a live vector");
         VB(s.number(k) == i, "number-of-key-differs", "number(key(" + I(i) + "))=" + I(s.number(k)));
         VB(s.has(k) && s.has(i), "has-false", "has(key)/has(number) false for number " + I(i));
         const SVectorBase<R>& v = s[i];
         VB(&s[k] == &v, "vector-by-key-differs", "&set[key] != &set[number] for number " + I(i));
         VB(s.number(&v) == i && s.key(&v).idx == k.idx && s.has(&v), "lookup-by-pointer-differs", "number(&set[" + I(i) + "])=" + I(s.number(&v)));
         std::string why;
         VB(spEq(v, it->second, &why), "vector-content-differs", "vector with key " + I(k.idx) + " (number " + I(i) + "): " + why);
      }
      VB(!s.has(n) && !s.has(-1), "has(number)-true-out-of-range", "has(num()) or has(-1) true");
      return true;
#undef VB
   }
   bool newKeyOk(const DataKey& k, const SpModel& m)
   {
      checks++;
      if(k.idx < 0)
      {
         fail("key-not-returned", "returned key idx=" + I(k.idx));
         return false;
      }
      if(model.count(k.idx))
      {
         fail("new-key-collides-with-live-key", "returned key idx=" + I(k.idx) + " already identifies a live vector");
         return false;
      }
      model[k.idx] = m;
      return true;
   }
   bool adoptUnknown(std::vector<SpModel> want)
   {
      std::vector<int> uk;
      for(int i = 0; i < set->num(); i++)
         if(!model.count(set->key(i).idx)) uk.push_back(set->key(i).idx);
      checks++;
      if(uk.size() != want.size())
      {
         fail("added-count-differs", I(uk.size()) + " new vectors found, " + I(want.size()) + " added");
         return false;
      }
      for(int k : uk)
      {
         bool found = false;
         std::string why;
         for(size_t j = 0; j < want.size(); j++)
            if(spEq((*set)[DataKey(0, k)], want[j], &why))
            {
               model[k] = want[j];
               want.erase(want.begin() + j);
               found = true;
               break;
            }
         checks++;
         if(!found)
         {
            fail("added-vector-differs", "new vector with key " + I(k) + " equals none of the added vectors (" + why + ")");
            return false;
         }
      }
      return true;
   }
   void removeMany(std::vector<char>& rem, int variant)
   {
      SET& s = *set;
      int n = s.num();
      std::vector<int> perm(n + 1, 12345), oldkeys(n), nums;
      std::vector<DataKey> keys;
      int nrem = 0;
      for(int i = 0; i < n; i++)
      {
         oldkeys[i] = s.key(i).idx;
         if(rem[i])
         {
            keys.push_back(s.key(i));
            nums.push_back(i);
            nrem++;
         }
      }
      if(rnd)
         for(size_t i = keys.size(); i > 1; i--)
         {
            size_t j = (size_t)(g.next() % i);
            std::swap(keys[i - 1], keys[j]);
            std::swap(nums[i - 1], nums[j]);
         }
      keys.push_back(DataKey());
      nums.push_back(-1);
      note("{" + I(nrem) + " of " + I(n) + "}");
      bool havePerm = true;
      if(variant == 0)
      {
         for(int i = 0; i < n; i++) perm[i] = rem[i] ? -1 : (rnd ? g.range(0, 9) : i);
         s.remove(perm.data());
      }
      else if(variant == 1) s.remove(keys.data(), nrem, perm.data());
      else if(variant == 2) s.remove(nums.data(), nrem, perm.data());
      else if(variant == 3)
      {
         s.remove(keys.data(), nrem);
         havePerm = false;
      }
      else
      {
         s.remove(nums.data(), nrem);
         havePerm = false;
      }
      mutations++;
      for(int i = 0; i < n; i++)
         if(rem[i]) model.erase(oldkeys[i]);
      CK(s.num() == n - nrem, "num-differs", "num()=" + I(s.num()) + " expected " + I(n - nrem));
      if(havePerm)
      {
         CK(perm[n] == 12345, "perm-written-past-num", "perm[num()] was overwritten");
         for(int i = 0; i < n; i++)
         {
            if(rem[i]) CK(perm[i] < 0, "removed-not-marked", "perm[" + I(i) + "]=" + I(perm[i]) + " for a removed vector");
            else
            {
               CK(perm[i] >= 0 && perm[i] < s.num(), "perm-out-of-range", "perm[" + I(i) + "]=" + I(perm[i]) + " num()=" + I(s.num()));
               CK(s.key(perm[i]).idx == oldkeys[i], "survivor-moved-wrong",
                  "perm[" + I(i) + "]=" + I(perm[i]) + " but key(" + I(perm[i]) + ").idx=" + I(s.key(perm[i]).idx) + ", vector had key " + I(oldkeys[i]));
            }
         }
      }
   }
   template <class RR>
   void buildFresh(SVSetBase<RR>& dst, std::vector<SpModel>& order)      // values convertible exactly in both directions
   {
      int cnt = rnd ? g.range(0, 6) : (int)(g.next() % 4);
      for(int c = 0; c < cnt; c++)
      {
         SpModel m;
         int nz = (int)(g.next() % 4);
         while((int)m.size() < nz) m[g.range(0, IDXRANGE - 1)] = ValGen<double>::val(g);
         DSVectorBase<RR> d;
         fillDSV(d, m, rnd ? &g : nullptr);
         dst.add(d);
         order.push_back(m);
      }
      if(cnt >= 2 && g.chance(0.5))
      {
         int r = g.range(0, dst.num() - 1);
         SpModel m;
         for(int j = 0; j < dst[r].size(); j++) m[dst[r].index(j)] = RT<RR>::get(dst[r].value(j));
         for(size_t j = 0; j < order.size(); j++)
            if(order[j] == m)
            {
               order.erase(order.begin() + j);
               break;
            }
         dst.remove(r);
      }
   }
   void step(int o) override
   {
      SET& s = *set;
      if(o == O_addKey || o == O_add)
      {
         SpModel m = rndVec();
         DSVectorBase<R> d;
         fillDSV(d, m, rnd ? &g : nullptr);
         note("{nz=" + I(m.size()) + "}");
         mutations++;
         if(o == O_addKey)
         {
            DataKey k;
            s.add(k, d);
            if(!newKeyOk(k, m)) return;
         }
         else
         {
            s.add(d);
            if(!adoptUnknown({m})) return;
         }
      }
      else if(o == O_addArrays)
      {
         SpModel m = rndVec();
         std::vector<R> vals;
         std::vector<int> idx;
         for(auto& kv : m)
         {
            idx.push_back(kv.first);
            vals.push_back(RT<R>::make(kv.second));
         }
         vals.push_back(RT<R>::make(Q(99)));
         idx.push_back(0);
         DataKey k;
         note("{nz=" + I(m.size()) + "}");
         s.add(k, vals.data(), idx.data(), (int)m.size());
         mutations++;
         if(!newKeyOk(k, m)) return;
      }
      else if(o == O_addMany || o == O_addManyKeys)
      {
         int n = rnd ? g.range(0, 4) : 2;
         if(n == 0 && o == O_addManyKeys && hazards().svsetAddKeys0) n = 1;
         std::vector<SpModel> ms;
         std::vector<DSVectorBase<R>> ds(n + 1);
         std::vector<SVectorBase<R>> svs;
         for(int i = 0; i < n; i++)
         {
            ms.push_back(rndVec());
            fillDSV(ds[i], ms.back(), rnd ? &g : nullptr);
         }
         for(int i = 0; i <= n; i++) svs.push_back(SVectorBase<R>(static_cast<const SVectorBase<R>&>(ds[i])));   // shallow views
         note("{n=" + I(n) + "}");
         mutations++;
         if(o == O_addMany)
         {
            s.add(svs.data(), n);
            if(!adoptUnknown(ms)) return;
         }
         else
         {
            std::vector<DataKey> keys(n + 2);
            s.add(keys.data() + 1, svs.data(), n);
            CK(keys[0].idx == -1 && keys[n + 1].idx == -1, "keys-written-out-of-range", "keys[-1] or keys[n] was written");
            for(int i = 0; i < n; i++)
               if(!newKeyOk(keys[i + 1], ms[i]))
               {
                  // make the remaining (possibly correctly added) vectors known so that the report names the real defect only
                  return;
               }
         }
      }
      else if(o == O_addSet || o == O_addSetKeys)
      {
         SET other(rnd ? g.range(1, 5) : 2, rnd ? g.range(1, 10) : 2);
         int cnt = rnd ? g.range(0, 4) : 3;
         for(int i = 0; i < cnt; i++)
         {
            DSVectorBase<R> d;
            fillDSV(d, rndVec(), nullptr);
            other.add(d);
         }
         if(cnt >= 2) other.remove(rnd ? g.range(0, cnt - 1) : 0);
         std::vector<SpModel> ms;
         for(int i = 0; i < other.num(); i++)
         {
            SpModel m;
            for(int j = 0; j < other[i].size(); j++) m[other[i].index(j)] = RT<R>::get(other[i].value(j));
            ms.push_back(m);
         }
         note("{n=" + I(other.num()) + "}");
         mutations++;
         if(o == O_addSet)
         {
            s.add(other);
            if(!adoptUnknown(ms)) return;
         }
         else
         {
            std::vector<DataKey> keys(other.num() + 1);
            s.add(keys.data(), other);
            for(int i = 0; i < other.num(); i++)
               if(!newKeyOk(keys[i], ms[i])) return;
         }
      }
      else if(o == O_create || o == O_createKey)
      {
         int idxmax = rnd ? g.range(-1, 6) : (int)(g.next() % 3);
         SpModel m = rndVec(idxmax < 0 ? 0 : idxmax);
         note("{idxmax=" + I(idxmax) + " nz=" + I(m.size()) + "}");
         DataKey k;
         SVectorBase<R>* p = (o == O_create) ? s.create(idxmax) : s.create(k, idxmax);
         mutations++;
         CK(p != nullptr && p->size() == 0 && p->max() >= idxmax, "created-vector-wrong", "create(" + I(idxmax) + ") gave size " + I(
               p->size()) + " max " + I(p->max()));
         for(auto& kv : m) p->add(kv.first, RT<R>::make(kv.second));
         if(o == O_create)
         {
            if(!adoptUnknown({m})) return;
         }
         else
         {
            if(!newKeyOk(k, m)) return;
            CK(&s[k] == p, "create-pointer-differs", "create() returned a pointer that is not &set[key]");
         }
      }
      else if(o == O_xtend0 || o == O_xtendLast || o == O_xtendMid)
      {
         int n = s.num();
         if(n == 0) return skip();
         int i = pos(o == O_xtend0 ? 0 : o == O_xtendLast ? 1 : 2, n);
         DataKey k = s.key(i);
         SVectorBase<R>& v = s[k];
         int newmax = v.size() + (rnd ? g.range(0, 6) : 2);
         note("{" + I(i) + "/" + I(n) + " newmax=" + I(newmax) + "}");
         s.xtend(v, newmax);
         mutations++;
         SVectorBase<R>& w = s[k];
         CK(w.max() >= newmax, "max-too-small", "max()=" + I(w.max()) + " after xtend(" + I(newmax) + ")");
         if(!verify(opNames[o] + "[before-fill]")) return;
         // use the space that xtend promised
         SpModel& m = model[k.idx];
         while(w.size() < newmax && (int)m.size() < IDXRANGE - 2)
         {
            int idx = freeIndex(m);
            Q val = ValGen<R>::val(g);
            w.add(idx, RT<R>::make(val));
            m[idx] = val;
         }
      }
      else if(o == O_add2one || o == O_add2many)
      {
         int n = s.num();
         if(n == 0) return skip();
         int i = pos(2, n);
         if(!rnd) i = (int)(g.next() % n);
         DataKey k = s.key(i);
         SpModel& m = model[k.idx];
         int cnt = (o == O_add2one) ? 1 : (rnd ? g.range(0, 4) : 2);
         if((int)m.size() + cnt >= IDXRANGE - 2) return skip();
         std::vector<int> idx;
         std::vector<R> vals;
         SpModel add;
         for(int j = 0; j < cnt; j++)
         {
            int ix;
            do ix = freeIndex(m);
            while(add.count(ix));
            add[ix] = ValGen<R>::val(g);
            idx.push_back(ix);
            vals.push_back(RT<R>::make(add[ix]));
         }
         idx.push_back(0);
         vals.push_back(RT<R>::make(Q(77)));
         note("{" + I(i) + "/" + I(n) + " +" + I(cnt) + "}");
         if(xtendHazard(s, s[k], s[k].size() + cnt)) return skip();
         if(o == O_add2one) s.add2(s[k], idx[0], vals[0]);
         else s.add2(s[k], cnt, idx.data(), vals.data());
         mutations++;
         for(auto& kv : add) m[kv.first] = kv.second;
      }
      else if(o == O_remKey || o == O_remNum0 || o == O_remNumLast || o == O_remNumMid || o == O_remPtr)
      {
         int n = s.num();
         if(n == 0) return skip();
         int i = pos(o == O_remNum0 ? 0 : o == O_remNumLast ? 1 : 2, n);
         int kidx = s.key(i).idx;
         note("{" + I(i) + "/" + I(n) + "}");
         if(o == O_remKey) s.remove(s.key(i));
         else if(o == O_remPtr) s.remove(&s[i]);
         else s.remove(i);
         mutations++;
         model.erase(kidx);
      }
      else if(o == O_remPermEven || o == O_remPermSub || o == O_remKeysPerm || o == O_remNumsPerm || o == O_remKeys || o == O_remNums)
      {
         int n = s.num();
         if(n == 0 && o != O_remPermSub) return skip();
         std::vector<char> rem(n, 0);
         if(o == O_remPermEven)
            for(int i = 0; i < n; i += 2) rem[i] = 1;
         else if(rnd)
         {
            double p = g.chance(0.2) ? 0.8 : 0.25;
            for(int i = 0; i < n; i++) rem[i] = g.chance(p);
         }
         else if(o == O_remPermSub)
         {
            if(n) rem[0] = rem[n - 1] = 1;
         }
         else if(o == O_remNumsPerm || o == O_remNums) rem[0] = 1;
         else rem[n - 1] = 1;
         int variant = (o == O_remKeysPerm) ? 1 : (o == O_remNumsPerm) ? 2 : (o == O_remKeys) ? 3 : (o == O_remNums) ? 4 : 0;
         removeMany(rem, variant);
         if(bad) return;
      }
      else if(o == O_clear || o == O_clearMin)
      {
         if(o == O_clear) s.clear();
         else s.clear(rnd ? g.range(1, 20) : 5);
         model.clear();
         mutations++;
      }
      else if(o == O_memRemaxGrow || o == O_memRemaxFit)
      {
         int nm = (o == O_memRemaxGrow) ? s.memMax() + (rnd ? g.range(1, 12) : 3) : (rnd && g.chance(0.5) ? 0 : s.memSize());
         note("{" + I(nm) + "}");
         s.memRemax(nm);
         mutations++;
         CK(s.memMax() >= nm && s.memMax() >= s.memSize(), "memMax-too-small", "memMax()=" + I(s.memMax()) + " after memRemax(" + I(nm) + ")");
      }
      else if(o == O_memPack)
      {
         s.memPack();
         mutations++;
      }
      else if(o == O_grow || o == O_shrink)
      {
         if(o == O_shrink && hazards().classSetShrink) return skip();
         int nm = (o == O_grow) ? s.max() + (rnd ? g.range(1, 9) : 3) : (rnd ? g.range(0, s.max()) : 0);
         note("{" + I(nm) + "}");
         s.reMax(nm);
         mutations++;
         CK(s.max() >= nm && s.max() >= s.num(), "max-too-small", "max()=" + I(s.max()) + " after reMax(" + I(nm) + ")");
      }
      else if(o == O_copy)
      {
         SET* c = new SET(s);
         if(!verify("copy-ctor(source)"))
         {
            delete c;
            return;
         }
         delete set;
         set = c;
         mutations++;
      }
      else if(o == O_assign)
      {
         SET* t = new SET(rnd ? g.range(1, 6) : 1, rnd ? g.range(1, 30) : 2);
         int pre = rnd ? g.range(0, 4) : (int)(g.next() % 3);
         for(int i = 0; i < pre; i++)
         {
            DSVectorBase<R> d;
            fillDSV(d, rndVec(), nullptr);
            t->add(d);
         }
         if(pre >= 2) t->remove(0);
         note("{target preloaded " + I(t->num()) + "}");
         *t = s;
         if(!verify("operator=(source)"))
         {
            delete t;
            return;
         }
         delete set;
         set = t;
         mutations++;
      }
      else if(o == O_assignCross || o == O_copyCross)
      {
         // a set of the other scalar type (exactly convertible values) replaces the content
         SVSetBase<R2> src(rnd ? g.range(1, 4) : 2, rnd ? g.range(1, 8) : 2);
         std::vector<SpModel> order;
         buildFresh(src, order);
         note("{n=" + I(src.num()) + "}");
         SET* t;
         if(o == O_copyCross) t = new SET(src);
         else
         {
            t = new SET(rnd ? g.range(1, 6) : 1, rnd ? g.range(1, 30) : 2);
            if(rnd && g.chance(0.5))
            {
               DSVectorBase<R> d;
               fillDSV(d, rndVec(), nullptr);
               t->add(d);
            }
            *t = src;
         }
         delete set;
         set = t;
         model.clear();
         mutations++;
         if(!adoptUnknown(order)) return;
      }
      else if(o == O_vecRemoveNz || o == O_vecClear || o == O_vecScale || o == O_vecSort)
      {
         int n = s.num();
         if(n == 0) return skip();
         int i = pos(2, n);
         DataKey k = s.key(i);
         SVectorBase<R>& v = s[k];
         SpModel& m = model[k.idx];
         if(o == O_vecRemoveNz)
         {
            if(v.size() == 0) return skip();
            int j = pos(2, v.size());
            if(!rnd) j = (int)(g.next() % v.size());
            int ix = v.index(j);
            v.remove(j);
            m.erase(ix);
         }
         else if(o == O_vecClear)
         {
            v.clear();
            m.clear();
         }
         else if(o == O_vecScale)
         {
            Q x = qfrac(g.chance(0.5) ? 2 : -1, g.chance(0.5) ? 1 : 2);
            v *= RT<R>::make(x);
            bool big = false;
            for(auto& kv : m)
            {
               kv.second *= x;
               if(qabs(kv.second) > 1000000 || qabs(kv.second) < qfrac(1, 1024)) big = true;
            }
            if(big)      // keep the magnitudes small (exactness of the double unit)
            {
               v.clear();
               m.clear();
            }
         }
         else
         {
            v.sort();
            for(int j = 1; j < v.size(); j++)
               CK(v.index(j - 1) <= v.index(j), "not-sorted", "index(" + I(j - 1) + ")=" + I(v.index(j - 1)) + " > index(" + I(j) + ")=" + I(v.index(j)));
         }
         mutations++;
      }
      verify(opNames[o]);
   }
};

// ================================================================================================ LPRowSet / LPColSet
struct LPEntry
{
   Q a, b, c;      // row: lhs, rhs, obj    col: lower, upper, (max)obj
   SpModel vec;
};

template <class R> struct RowTr
{
   typedef LPRowSetBase<R> Set;
   static const R& a(const Set& s, int i)
   {
      return s.lhs(i);
   }
   static const R& b(const Set& s, int i)
   {
      return s.rhs(i);
   }
   static const R& c(const Set& s, int i)
   {
      return s.obj(i);
   }
   static const R& a(const Set& s, const DataKey& k)
   {
      return s.lhs(k);
   }
   static const R& b(const Set& s, const DataKey& k)
   {
      return s.rhs(k);
   }
   static const R& c(const Set& s, const DataKey& k)
   {
      return s.obj(k);
   }
   static R& aw(Set& s, int i)
   {
      return s.lhs_w(i);
   }
   static R& bw(Set& s, const DataKey& k)
   {
      return s.rhs_w(k);
   }
   static int sideDim(const Set& s)
   {
      return s.lhs().dim() == s.rhs().dim() && s.lhs().dim() == s.obj().dim() ? s.lhs().dim() : -1;
   }
   static const SVectorBase<R>& vec(const Set& s, int i)
   {
      return s.rowVector(i);
   }
   static const SVectorBase<R>& vec(const Set& s, const DataKey& k)
   {
      return s.rowVector(k);
   }
   static SVectorBase<R>& vecw(Set& s, const DataKey& k)
   {
      return s.rowVector_w(k);
   }
   static void addParts(Set& s, DataKey& k, const R& a, const R& b, const R& c, const SVectorBase<R>& v)
   {
      s.add(k, a, v, b, c);
   }
   static void addPartsNoKey(Set& s, const R& a, const R& b, const R& c, const SVectorBase<R>& v)
   {
      s.add(a, v, b, c);
   }
   static void addObj(Set& s, DataKey& k, const R& a, const R& b, const R& c, const SVectorBase<R>& v)
   {
      LPRowBase<R> row(a, v, b, c);
      s.add(k, row);
   }
   static void addObjNoKey(Set& s, const R& a, const R& b, const R& c, const SVectorBase<R>& v)
   {
      LPRowBase<R> row(a, v, b, c);
      s.add(row);
   }
   static void addArrays(Set& s, DataKey& k, const R* a, const R* b, const R* c, const R* vals, const int* idx, int n)
   {
      s.add(k, a, vals, idx, n, b, c);
   }
   static SVectorBase<R>& create(Set& s, DataKey& k, int nnz, const R& a, const R& b, const R& c)
   {
      return s.create(k, nnz, a, b, c);
   }
};
template <class R> struct ColTr
{
   typedef LPColSetBase<R> Set;
   static const R& a(const Set& s, int i)
   {
      return s.lower(i);
   }
   static const R& b(const Set& s, int i)
   {
      return s.upper(i);
   }
   static const R& c(const Set& s, int i)
   {
      return s.maxObj(i);
   }
   static const R& a(const Set& s, const DataKey& k)
   {
      return s.lower(k);
   }
   static const R& b(const Set& s, const DataKey& k)
   {
      return s.upper(k);
   }
   static const R& c(const Set& s, const DataKey& k)
   {
      return s.maxObj(k);
   }
   static R& aw(Set& s, int i)
   {
      return s.lower_w(i);
   }
   static R& bw(Set& s, const DataKey& k)
   {
      return s.upper_w(k);
   }
   static int sideDim(const Set& s)
   {
      return s.lower().dim() == s.upper().dim() && s.lower().dim() == s.maxObj().dim() ? s.lower().dim() : -1;
   }
   static const SVectorBase<R>& vec(const Set& s, int i)
   {
      return s.colVector(i);
   }
   static const SVectorBase<R>& vec(const Set& s, const DataKey& k)
   {
      return s.colVector(k);
   }
   static SVectorBase<R>& vecw(Set& s, const DataKey& k)
   {
      return s.colVector_w(k);
   }
   static void addParts(Set& s, DataKey& k, const R& a, const R& b, const R& c, const SVectorBase<R>& v)
   {
      s.add(k, c, a, v, b);
   }
   static void addPartsNoKey(Set& s, const R& a, const R& b, const R& c, const SVectorBase<R>& v)
   {
      s.add(c, a, v, b);
   }
   static void addObj(Set& s, DataKey& k, const R& a, const R& b, const R& c, const SVectorBase<R>& v)
   {
      LPColBase<R> col(c, v, b, a);
      s.add(k, col);
   }
   static void addObjNoKey(Set& s, const R& a, const R& b, const R& c, const SVectorBase<R>& v)
   {
      LPColBase<R> col(c, v, b, a);
      s.add(col);
   }
   static void addArrays(Set& s, DataKey& k, const R* a, const R* b, const R* c, const R* vals, const int* idx, int n)
   {
      s.add(k, c, a, vals, idx, n, b);
   }
   static SVectorBase<R>& create(Set& s, DataKey& k, int nnz, const R& a, const R& b, const R& c)
   {
      return s.create(k, nnz, c, a, b);
   }
};

template <class TR, class R>
struct LPSetUnit : Unit
{
   typedef typename TR::Set SET;
   SET* set = nullptr;
   std::map<int, LPEntry> model;
   int O_addObj, O_addObjNoKey, O_addParts, O_addPartsNoKey, O_addArrays, O_addSet, O_addSetKeys, O_create, O_xtendNum, O_xtendKey,
       O_add2key, O_add2num, O_remNum0, O_remNumLast, O_remNumMid, O_remKey, O_remPermEven, O_remPermSub, O_remNums, O_remNumsPerm,
       O_clear, O_grow, O_shrink, O_memRemax, O_memPack, O_copy, O_assign, O_setSide;
   enum { IDXRANGE = 30 };

   LPSetUnit(const char* nm)
   {
      name = nm;
      O_addObj = op("add(key,LPRow/LPCol)", 25);
      O_addObjNoKey = op("add(LPRow/LPCol)", 10);
      O_addParts = op("add(key,sides,svec)", 25);
      O_addPartsNoKey = op("add(sides,svec)", 10);
      O_addArrays = op("add(key,arrays)", 15);
      O_addSet = op("add(set)", 6);
      O_addSetKeys = op("add(keys[],set)", 6);
      O_create = op("create(key,nnz,sides)", 12);
      O_xtendNum = op("xtend(num)", 8);
      O_xtendKey = op("xtend(key)", 8);
      O_add2key = op("add2(key,n,idx,val)", 12);
      O_add2num = op("add2(num,n,idx,val)", 12);
      O_remNum0 = op("remove(num=first)", 6);
      O_remNumLast = op("remove(num=last)", 6);
      O_remNumMid = op("remove(num)", 10);
      O_remKey = op("remove(key)", 10);
      O_remPermEven = op("remove(perm:even)", 2);
      O_remPermSub = op("remove(perm)", 8);
      O_remNums = op("remove(nums,n)", 6);
      O_remNumsPerm = op("remove(nums,n,perm)", 6);
      O_clear = op("clear", 1);
      O_grow = op("reMax(grow)", 6);
      O_shrink = op("reMax(shrink)", 4);
      O_memRemax = op("memRemax", 6);
      O_memPack = op("memPack", 8);
      O_copy = op("copy-ctor", 4);
      O_assign = op("operator=", 4);
      O_setSide = op("write-side", 8);
   }
   ~LPSetUnit()
   {
      delete set;
   }
   std::vector<int> exOps() const override
   {
      return {O_addObj, O_addParts, O_addArrays, O_addSetKeys, O_create, O_xtendKey, O_add2num, O_remNum0, O_remKey, O_remPermEven,
              O_remNumsPerm, O_remNums, O_memPack, O_grow, O_copy, O_assign};
   }
   void reset() override
   {
      delete set;
      set = rnd ? new SET(g.range(1, 4), g.range(1, 8)) : new SET(2, 3);
      model.clear();
   }
   LPEntry rndEntry(int maxnz = -1)
   {
      LPEntry e;
      e.a = ValGen<R>::val(g);
      e.b = ValGen<R>::val(g);
      e.c = g.chance(0.2) ? Q(0) : ValGen<R>::val(g);
      int nz = rnd ? (g.chance(0.15) ? 0 : g.range(1, 5)) : (int)(g.next() % 3);
      if(maxnz >= 0 && nz > maxnz) nz = maxnz;
      while((int)e.vec.size() < nz) e.vec[g.range(0, IDXRANGE - 1)] = ValGen<R>::val(g);
      return e;
   }
   static bool entryEq(const LPEntry& x, const LPEntry& y)
   {
      return x.a == y.a && x.b == y.b && x.c == y.c && x.vec == y.vec;
   }
   LPEntry readEntry(const SET& s, int i)
   {
      LPEntry e;
      e.a = RT<R>::get(TR::a(s, i));
      e.b = RT<R>::get(TR::b(s, i));
      e.c = RT<R>::get(TR::c(s, i));
      const SVectorBase<R>& v = TR::vec(s, i);
      for(int j = 0; j < v.size(); j++)
         if(v.value(j) != 0) e.vec[v.index(j)] = RT<R>::get(v.value(j));
      return e;
   }
   static std::string es(const LPEntry& e)
   {
      std::string r = "[" + qs(e.a) + "," + qs(e.b) + "," + qs(e.c) + " {";
      for(auto& kv : e.vec) r += I(kv.first) + ":" + qs(kv.second) + " ";
      return r + "}]";
   }
   bool verify(const std::string& on)
   {
#define VB(cond, what, detail) do { checks++; if(!(cond)) { fail(on, what, detail); return false; } } while(0)
      SET& s = *set;
      int n = s.num();
      VB(n == (int)model.size(), "num-differs", "num()=" + I(n) + " model=" + I(model.size()));
      VB(n <= s.max(), "num-above-max", "num()=" + I(n) + " max()=" + I(s.max()));
      VB(TR::sideDim(s) == n, "side-vector-dimension-differs", "dimension of the side vectors is " + I(TR::sideDim(s)) + ", num()=" + I(n));
      VB(s.memSize() <= s.memMax(), "memSize-above-memMax", "memSize()=" + I(s.memSize()) + " memMax()=" + I(s.memMax()));
      {
         std::string what, detail;
         checks++;
         if(!svsetMonitors(static_cast<SVSetBase<R>&>(s), &what, &detail))
         {
            fail(on, what, detail);
            return false;
         }
      }
      for(int i = 0; i < n; i++)
      {
         DataKey k = s.key(i);
         auto it = model.find(k.idx);
         VB(it != model.end(), "key-not-live", "key(" + I(i) + ").idx=" + I(k.idx) + " is not the key of a live entry");
         VB(s.number(k) == i, "number-of-key-differs", "number(key(" + I(i) + "))=" + I(s.number(k)));
         VB(s.has(k), "has(key)-false", "has(key(" + I(i) + ")) false");
         const LPEntry& e = it->second;
         std::string why;
         VB(spEq(TR::vec(s, i), e.vec, &why), "vector-content-differs", "entry with key " + I(k.idx) + " (number " + I(i) + "): " + why);
         VB(&TR::vec(s, i) == &TR::vec(s, k), "vector-by-key-differs", "vector(key) and vector(number) differ for number " + I(i));
         VB(RT<R>::get(TR::a(s, i)) == e.a && RT<R>::get(TR::b(s, i)) == e.b && RT<R>::get(TR::c(s, i)) == e.c, "sides-differ",
            "entry with key " + I(k.idx) + " (number " + I(i) + ") is " + es(readEntry(s, i)) + " expected " + es(e));
         VB(RT<R>::get(TR::a(s, k)) == e.a && RT<R>::get(TR::b(s, k)) == e.b && RT<R>::get(TR::c(s, k)) == e.c, "sides-by-key-differ",
            "sides read by key " + I(k.idx) + " differ from the values stored");
      }
      // white-box secondary monitor: the scaling-exponent array is indexed by number in remove()/add(set)
      VB(s.scaleExp.size() >= n, "scaleExp-shorter-than-num", "scaleExp.size()=" + I(s.scaleExp.size()) + " < num()=" + I(
            n) + " (remove(i) reads and writes scaleExp[i], scaleExp[num()])");
      return true;
#undef VB
   }
   bool newKeyOk(const DataKey& k, const LPEntry& e)
   {
      checks++;
      if(k.idx < 0)
      {
         fail("key-not-returned", "returned key idx=" + I(k.idx));
         return false;
      }
      if(model.count(k.idx))
      {
         fail("new-key-collides-with-live-key", "returned key idx=" + I(k.idx) + " already identifies a live entry");
         return false;
      }
      model[k.idx] = e;
      return true;
   }
   bool adoptUnknown(std::vector<LPEntry> want)
   {
      std::vector<int> uk;
      for(int i = 0; i < set->num(); i++)
         if(!model.count(set->key(i).idx)) uk.push_back(i);
      checks++;
      if(uk.size() != want.size())
      {
         fail("added-count-differs", I(uk.size()) + " new entries found, " + I(want.size()) + " added");
         return false;
      }
      if(TR::sideDim(*set) != set->num())
      {
         fail("side-vector-dimension-differs", "dimension of the side vectors is " + I(TR::sideDim(*set)) + ", num()=" + I(set->num()));
         return false;
      }
      for(int i : uk)
      {
         LPEntry got = readEntry(*set, i);
         bool found = false;
         for(size_t j = 0; j < want.size(); j++)
            if(entryEq(got, want[j]))
            {
               model[set->key(i).idx] = want[j];
               want.erase(want.begin() + j);
               found = true;
               break;
            }
         checks++;
         if(!found)
         {
            fail("added-entry-differs", "new entry number " + I(i) + " is " + es(got) + ", which was not added");
            return false;
         }
      }
      return true;
   }
   int freeIndex(const SpModel& m)
   {
      for(;;)
      {
         int i = g.range(0, IDXRANGE - 1);
         if(!m.count(i)) return i;
      }
   }
   void step(int o) override
   {
      SET& s = *set;
      if(o == O_addObj || o == O_addObjNoKey || o == O_addParts || o == O_addPartsNoKey || o == O_addArrays)
      {
         LPEntry e = rndEntry();
         DSVectorBase<R> d;
         fillDSV(d, e.vec, rnd ? &g : nullptr);
         R a = RT<R>::make(e.a), b = RT<R>::make(e.b), c = RT<R>::make(e.c);
         DataKey k;
         note("{nz=" + I(e.vec.size()) + "}");
         mutations++;
         if(o == O_addObj) TR::addObj(s, k, a, b, c, d);
         else if(o == O_addParts) TR::addParts(s, k, a, b, c, d);
         else if(o == O_addObjNoKey) TR::addObjNoKey(s, a, b, c, d);
         else if(o == O_addPartsNoKey) TR::addPartsNoKey(s, a, b, c, d);
         else
         {
            std::vector<R> vals;
            std::vector<int> idx;
            for(int j = 0; j < d.size(); j++)
            {
               vals.push_back(d.value(j));
               idx.push_back(d.index(j));
            }
            vals.push_back(RT<R>::make(Q(55)));
            idx.push_back(0);
            TR::addArrays(s, k, &a, &b, &c, vals.data(), idx.data(), d.size());
         }
         if(o == O_addObjNoKey || o == O_addPartsNoKey)
         {
            if(!adoptUnknown({e})) return;
         }
         else if(!newKeyOk(k, e)) return;
      }
      else if(o == O_addSet || o == O_addSetKeys)
      {
         SET other(rnd ? g.range(1, 5) : 2, rnd ? g.range(1, 10) : 2);
         int cnt = rnd ? g.range(0, 4) : 3;
         DataKey k;
         for(int i = 0; i < cnt; i++)
         {
            LPEntry e = rndEntry();
            DSVectorBase<R> d;
            fillDSV(d, e.vec, nullptr);
            TR::addParts(other, k, RT<R>::make(e.a), RT<R>::make(e.b), RT<R>::make(e.c), d);
         }
         if(cnt >= 2) other.remove(rnd ? g.range(0, cnt - 1) : 0);
         std::vector<LPEntry> es_;
         for(int i = 0; i < other.num(); i++) es_.push_back(readEntry(other, i));
         note("{n=" + I(other.num()) + "}");
         mutations++;
         if(o == O_addSet)
         {
            s.add(other);
            if(!adoptUnknown(es_)) return;
         }
         else
         {
            std::vector<DataKey> keys(other.num() + 1);
            s.add(keys.data(), other);
            for(int i = 0; i < other.num(); i++)
               if(!newKeyOk(keys[i], es_[i])) return;
         }
      }
      else if(o == O_create)
      {
         int nnz = rnd ? g.range(0, 5) : (int)(g.next() % 3);
         LPEntry e = rndEntry(nnz);
         DataKey k;
         note("{nnz=" + I(nnz) + "}");
         SVectorBase<R>& v = TR::create(s, k, nnz, RT<R>::make(e.a), RT<R>::make(e.b), RT<R>::make(e.c));
         mutations++;
         CK(v.size() == 0 && v.max() >= nnz, "created-vector-wrong", "create(nnz=" + I(nnz) + ") gave size " + I(v.size()) + " max " + I(v.max()));
         for(auto& kv : e.vec) v.add(kv.first, RT<R>::make(kv.second));
         if(!newKeyOk(k, e)) return;
      }
      else if(o == O_xtendNum || o == O_xtendKey)
      {
         int n = s.num();
         if(n == 0) return skip();
         int i = pos(2, n);
         if(!rnd) i = (int)(g.next() % n);
         DataKey k = s.key(i);
         int newmax = TR::vec(s, k).size() + (rnd ? g.range(0, 5) : 2);
         note("{" + I(i) + "/" + I(n) + " newmax=" + I(newmax) + "}");
         if(o == O_xtendNum) s.xtend(i, newmax);
         else s.xtend(k, newmax);
         mutations++;
         SVectorBase<R>& w = TR::vecw(s, k);
         CK(w.max() >= newmax, "max-too-small", "max()=" + I(w.max()) + " after xtend(" + I(newmax) + ")");
         if(!verify(opNames[o] + "[before-fill]")) return;
         SpModel& m = model[k.idx].vec;
         while(w.size() < newmax && (int)m.size() < IDXRANGE - 2)
         {
            int idx = freeIndex(m);
            Q val = ValGen<R>::val(g);
            w.add(idx, RT<R>::make(val));
            m[idx] = val;
         }
      }
      else if(o == O_add2key || o == O_add2num)
      {
         int n = s.num();
         if(n == 0) return skip();
         int i = pos(2, n);
         if(!rnd) i = (int)(g.next() % n);
         DataKey k = s.key(i);
         SpModel& m = model[k.idx].vec;
         int cnt = rnd ? g.range(0, 4) : 2;
         if((int)m.size() + cnt >= IDXRANGE - 2) return skip();
         std::vector<int> idx;
         std::vector<R> vals;
         SpModel add;
         for(int j = 0; j < cnt; j++)
         {
            int ix;
            do ix = freeIndex(m);
            while(add.count(ix));
            add[ix] = ValGen<R>::val(g);
            idx.push_back(ix);
            vals.push_back(RT<R>::make(add[ix]));
         }
         idx.push_back(0);
         vals.push_back(RT<R>::make(Q(77)));
         note("{" + I(i) + "/" + I(n) + " +" + I(cnt) + "}");
         if(xtendHazard(static_cast<SVSetBase<R>&>(s), TR::vecw(s, k), TR::vec(s, k).size() + cnt)) return skip();
         if(o == O_add2key) s.add2(k, cnt, idx.data(), vals.data());
         else s.add2(i, cnt, idx.data(), vals.data());
         mutations++;
         for(auto& kv : add) m[kv.first] = kv.second;
      }
      else if(o == O_remNum0 || o == O_remNumLast || o == O_remNumMid || o == O_remKey)
      {
         int n = s.num();
         if(n == 0) return skip();
         int i = pos(o == O_remNum0 ? 0 : o == O_remNumLast ? 1 : 2, n);
         int kidx = s.key(i).idx;
         note("{" + I(i) + "/" + I(n) + "}");
         if(o == O_remKey) s.remove(s.key(i));
         else s.remove(i);
         mutations++;
         model.erase(kidx);
      }
      else if(o == O_remPermEven || o == O_remPermSub || o == O_remNums || o == O_remNumsPerm)
      {
         int n = s.num();
         if(n == 0 && o != O_remPermSub) return skip();
         std::vector<char> rem(n, 0);
         if(o == O_remPermEven)
            for(int i = 0; i < n; i += 2) rem[i] = 1;
         else if(rnd)
         {
            double p = g.chance(0.2) ? 0.8 : 0.25;
            for(int i = 0; i < n; i++) rem[i] = g.chance(p);
         }
         else if(o == O_remPermSub)
         {
            if(n) rem[0] = rem[n - 1] = 1;
         }
         else rem[0] = 1;
         std::vector<int> perm(n + 1, 12345), oldkeys(n), nums;
         int nrem = 0;
         for(int i = 0; i < n; i++)
         {
            oldkeys[i] = s.key(i).idx;
            if(rem[i])
            {
               nums.push_back(i);
               nrem++;
            }
         }
         if(rnd) g.shuffle(nums);
         nums.push_back(-1);
         note("{" + I(nrem) + " of " + I(n) + "}");
         bool havePerm = true;
         if(o == O_remPermEven || o == O_remPermSub)
         {
            for(int i = 0; i < n; i++) perm[i] = rem[i] ? -1 : (rnd ? g.range(0, 9) : i);
            s.remove(perm.data());
         }
         else if(o == O_remNumsPerm) s.remove(nums.data(), nrem, perm.data());
         else
         {
            s.remove(nums.data(), nrem);
            havePerm = false;
         }
         mutations++;
         for(int i = 0; i < n; i++)
            if(rem[i]) model.erase(oldkeys[i]);
         CK(s.num() == n - nrem, "num-differs", "num()=" + I(s.num()) + " expected " + I(n - nrem));
         if(havePerm)
         {
            CK(perm[n] == 12345, "perm-written-past-num", "perm[num()] was overwritten");
            for(int i = 0; i < n; i++)
            {
               if(rem[i]) CK(perm[i] < 0, "removed-not-marked", "perm[" + I(i) + "]=" + I(perm[i]) + " for a removed entry");
               else
               {
                  CK(perm[i] >= 0 && perm[i] < s.num(), "perm-out-of-range", "perm[" + I(i) + "]=" + I(perm[i]) + " num()=" + I(s.num()));
                  CK(s.key(perm[i]).idx == oldkeys[i], "survivor-moved-wrong",
                     "perm[" + I(i) + "]=" + I(perm[i]) + " but key(" + I(perm[i]) + ").idx=" + I(s.key(perm[i]).idx) + ", entry had key " + I(oldkeys[i]));
               }
            }
         }
      }
      else if(o == O_clear)
      {
         s.clear();
         model.clear();
         mutations++;
      }
      else if(o == O_grow || o == O_shrink)
      {
         if(o == O_shrink && hazards().classSetShrink) return skip();
         int nm = (o == O_grow) ? s.max() + (rnd ? g.range(1, 9) : 3) : (rnd ? g.range(0, s.max()) : 0);
         note("{" + I(nm) + "}");
         s.reMax(nm);
         mutations++;
         CK(s.max() >= nm && s.max() >= s.num(), "max-too-small", "max()=" + I(s.max()) + " after reMax(" + I(nm) + ")");
      }
      else if(o == O_memRemax)
      {
         int nm = rnd ? (g.chance(0.5) ? s.memMax() + g.range(1, 12) : g.range(0, s.memMax())) : s.memSize();
         note("{" + I(nm) + "}");
         s.memRemax(nm);
         mutations++;
         CK(s.memMax() >= nm && s.memMax() >= s.memSize(), "memMax-too-small", "memMax()=" + I(s.memMax()) + " after memRemax(" + I(nm) + ")");
      }
      else if(o == O_memPack)
      {
         s.memPack();
         mutations++;
      }
      else if(o == O_copy)
      {
         SET* c = new SET(s);
         if(!verify("copy-ctor(source)"))
         {
            delete c;
            return;
         }
         delete set;
         set = c;
         mutations++;
      }
      else if(o == O_assign)
      {
         SET* t = new SET(rnd ? g.range(1, 6) : 1, rnd ? g.range(1, 30) : 2);
         int pre = rnd ? g.range(0, 4) : (int)(g.next() % 3);
         DataKey k;
         for(int i = 0; i < pre; i++)
         {
            LPEntry e = rndEntry();
            DSVectorBase<R> d;
            fillDSV(d, e.vec, nullptr);
            TR::addParts(*t, k, RT<R>::make(e.a), RT<R>::make(e.b), RT<R>::make(e.c), d);
         }
         if(pre >= 2) t->remove(0);
         note("{target preloaded " + I(t->num()) + "}");
         *t = s;
         if(!verify("operator=(source)"))
         {
            delete t;
            return;
         }
         delete set;
         set = t;
         mutations++;
      }
      else if(o == O_setSide)
      {
         int n = s.num();
         if(n == 0) return skip();
         int i = pos(2, n);
         DataKey k = s.key(i);
         Q x = ValGen<R>::val(g), y = ValGen<R>::val(g);
         TR::aw(s, i) = RT<R>::make(x);
         TR::bw(s, k) = RT<R>::make(y);
         model[k.idx].a = x;
         model[k.idx].b = y;
      }
      verify(opNames[o]);
   }
};

Unit* makeSetsUnit(int which)
{
   switch(which)
   {
   case 0:
      return new KeySetUnit<DataSet<DItem>, DItem, false>(setsUnitNames[0]);
   case 1:
      return new KeySetUnit<ClassSet<CItem>, CItem, true>(setsUnitNames[1]);
   case 2:
      return new SVSetUnit<double, Rational>(setsUnitNames[2]);
   case 3:
      return new SVSetUnit<Rational, double>(setsUnitNames[3]);
   case 4:
      return new LPSetUnit<RowTr<double>, double>(setsUnitNames[4]);
   case 5:
      return new LPSetUnit<ColTr<double>, double>(setsUnitNames[5]);
   case 6:
      return new LPSetUnit<RowTr<Rational>, Rational>(setsUnitNames[6]);
   default:
      return new LPSetUnit<ColTr<Rational>, Rational>(setsUnitNames[7]);
   }
}

} // namespace cont
