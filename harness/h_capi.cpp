// harness/h_capi.cpp -- C20: the C interface (src/soplex_interface.{h,cpp}) does exactly what the wrapped C++ calls do.
// Every SoPlex_* function is driven on a handle H and the corresponding C++ call on a mirror object M, call by call,
// over random valid histories.  See h_capi_ops.inc for the per-function contracts that were derived from the header.
#include "sxinc.hpp"
#include "base.hpp"
extern "C" {
#include "soplex_interface.h"
}
#include <dlfcn.h>
#include <malloc.h>
#include <signal.h>
#include <unistd.h>
#include <sys/stat.h>
#include <new>

#if defined(__SANITIZE_ADDRESS__)
#define VL_ASAN 1
extern "C" {
   size_t __sanitizer_get_allocated_size(const volatile void* p);
   int __sanitizer_get_ownership(const volatile void* p);
   int __sanitizer_install_malloc_and_free_hooks(void (*malloc_hook)(const volatile void*, size_t), void (*free_hook)(const volatile void*));
   size_t __asan_get_alloc_stack(void* addr, void** trace, size_t size, int* thread_id);
   int __lsan_do_recoverable_leak_check();
   void __lsan_ignore_object(const void* p);
}
#else
#define VL_ASAN 0
#endif

using namespace vl;
using namespace soplex;

static Cli cli;
static bool verbose = false;

// ------------------------------------------------------------------------------------------------ function table
#define C20_FUNCS(X) \
   X(create) X(free) X(readInstanceFile) X(readBasisFile) X(readSettingsFile) X(clearLPReal) X(numRows) X(numCols) \
   X(setRational) X(setBoolParam) X(setIntParam) X(setRealParam) X(getIntParam) X(addColReal) X(removeColReal) \
   X(addColRational) X(addRowReal) X(removeRowReal) X(addRowRational) X(getPrimalReal) X(getPrimalRationalString) \
   X(getDualReal) X(getRedCostReal) X(optimize) X(getStatus) X(getSolvingTime) X(getNumIterations) X(changeObjReal) \
   X(changeObjRational) X(changeLhsReal) X(changeRowLhsReal) X(changeLhsRational) X(changeRhsReal) X(changeRowRhsReal) \
   X(changeRhsRational) X(changeRangeReal) X(changeRowRangeReal) X(writeFileReal) X(objValueReal) \
   X(objValueRationalString) X(changeBoundsReal) X(changeVarBoundsReal) X(changeVarBoundsRational) X(changeLowerReal) \
   X(changeVarLowerReal) X(getLowerReal) X(getObjReal) X(changeUpperReal) X(changeVarUpperReal) X(getUpperReal) \
   X(basisRowStatus) X(basisColStatus) X(getRowVectorReal) X(getRowVectorRational) X(getRowBoundsReal) \
   X(getRowBoundsRational)
enum Fn
{
#define X(n) F_##n,
   C20_FUNCS(X)
#undef X
   F_COUNT
};
static const char* const FN[F_COUNT + 1] =
{
#define X(n) "SoPlex_" #n,
   C20_FUNCS(X)
#undef X
   "?"
};

// ------------------------------------------------------------------------------------------------ culprit attribution
static const char* volatile g_curfn = nullptr;     // C function currently executing (nullptr: harness / mirror code)
static const char* volatile g_lastfn = "(none)";
static volatile int g_track = -1;                  // Fn id while inside a C call (allocation tracking)

static void emitCulprit(const char* kind)
{
   char buf[256];
   const char* f = g_curfn;
   int n = snprintf(buf, sizeof buf, "{\"ev\":\"note\",\"kind\":\"%s\",\"detail\":\"%s%s\"}\n", kind, f ? f : "outside-C-call; last C call: ",
                    f ? "" : (const char*)g_lastfn);
   if(n > 0)
   {
      ssize_t w = write(1, buf, (size_t)n);
      (void)w;
      w = write(2, buf, (size_t)n);
      (void)w;
   }
}
#if VL_ASAN
extern "C" void __asan_on_error()
{
   fflush(stdout);
   emitCulprit("asan-in-call");
}
#else
static void onSignal(int sig)
{
   emitCulprit("signal-in-call");
   signal(sig, SIG_DFL);
   raise(sig);
}
#endif

// ------------------------------------------------------------------------------------------------ allocation tracking
// ASan flavour: malloc/free hooks record every block allocated inside a C call; blocks that survive the destruction of
// the handle are leak candidates, confirmed by LeakSanitizer (pointers are stored masked so that the table does not
// make them reachable).  Other flavours: operator new[] is replaced by a plain malloc that remembers the blocks
// allocated inside the current C call (kind + requested size of returned strings).
struct NaRec
{
   void* p;
   size_t n;
};
static NaRec g_na[256];
static unsigned g_na_n = 0;
#if VL_ASAN
static const size_t LT_SIZE = 1u << 17;
static const uintptr_t LT_MASK = (uintptr_t)0x5a5a5a5a5a5a5a5aULL;
struct LtEnt
{
   uintptr_t key;   // masked pointer; 0 empty, 1 tombstone
   int fn;
   unsigned size;
};
static LtEnt g_lt[LT_SIZE];
static size_t g_lt_used = 0, g_lt_live = 0;
static bool g_lt_overflow = false;
static inline size_t ltHash(uintptr_t p)
{
   return (size_t)((p >> 4) * 0x9E3779B97F4A7C15ULL >> 40) & (LT_SIZE - 1);
}
static void hookMalloc(const volatile void* ptr, size_t size)
{
   int f = g_track;
   if(f < 0 || ptr == nullptr) return;
   if(g_lt_used > LT_SIZE / 2)
   {
      g_lt_overflow = true;
      return;
   }
   uintptr_t key = (uintptr_t)ptr ^ LT_MASK;
   size_t h = ltHash((uintptr_t)ptr);
   while(g_lt[h].key > 1) h = (h + 1) & (LT_SIZE - 1);
   if(g_lt[h].key == 0) g_lt_used++;
   g_lt[h].key = key;
   g_lt[h].fn = f;
   g_lt[h].size = (unsigned)size;
   g_lt_live++;
}
static void hookFree(const volatile void* ptr)
{
   if(g_lt_live == 0 || ptr == nullptr) return;
   uintptr_t key = (uintptr_t)ptr ^ LT_MASK;
   size_t h = ltHash((uintptr_t)ptr);
   while(g_lt[h].key != 0)
   {
      if(g_lt[h].key == key)
      {
         g_lt[h].key = 1;
         g_lt_live--;
         return;
      }
      h = (h + 1) & (LT_SIZE - 1);
   }
}
static void ltReset()
{
   if(g_lt_used > 0) memset(g_lt, 0, sizeof g_lt);
   g_lt_used = g_lt_live = 0;
   g_lt_overflow = false;
}
#else
void* operator new[](size_t n)
{
   void* p = malloc(n ? n : 1);
   if(!p) throw std::bad_alloc();
   if(g_track >= 0)
   {
      g_na[g_na_n % 256].p = p;
      g_na[g_na_n % 256].n = n;
      g_na_n++;
   }
   return p;
}
void operator delete[](void* p) noexcept
{
   free(p);
}
void operator delete[](void* p, size_t) noexcept
{
   free(p);
}
#endif

// kind of heap block: 0 unknown, 1 malloc family, 2 operator new[], 3 operator new
struct BlockInfo
{
   size_t size = 0;
   int kind = 0;
};
static BlockInfo blockInfo(const void* p)
{
   BlockInfo b;
#if VL_ASAN
   if(!__sanitizer_get_ownership(p)) return b;
   b.size = __sanitizer_get_allocated_size(p);
   void* tr[6];
   int tid = 0;
   size_t nf = __asan_get_alloc_stack((void*)p, tr, 6, &tid);
   for(size_t i = 0; i < nf && i < 3 && b.kind == 0; i++)
   {
      Dl_info di;
      if(dladdr(tr[i], &di) && di.dli_sname)
      {
         const char* s = di.dli_sname;
         if(strstr(s, "_Zna")) b.kind = 2;
         else if(strstr(s, "_Znw")) b.kind = 3;
         else if(strstr(s, "malloc") || strstr(s, "calloc") || strstr(s, "realloc") || strstr(s, "strdup")) b.kind = 1;
      }
   }
#else
   unsigned lo = g_na_n > 256 ? g_na_n - 256 : 0;
   for(unsigned i = g_na_n; i > lo; i--) if(g_na[(i - 1) % 256].p == p)
      {
         b.kind = 2;
         b.size = g_na[(i - 1) % 256].n;
         return b;
      }
   b.kind = 1;
   b.size = malloc_usable_size((void*)p);
#endif
   return b;
}

// ------------------------------------------------------------------------------------------------ exact-length arrays
static const int PADN = 4;
static bool padOutputs(Rng& g)
{
#if VL_ASAN
   return g.chance(0.5);    // exact block: ASan red zone right behind the contract length; padded: canaries
#else
   (void)g;
   return true;             // no red zones in this flavour: always canaries
#endif
}
// input array: heap block of exactly n elements
template <class T> struct InArr
{
   T* p;
   int n;
   explicit InArr(const std::vector<T>& v) : n((int)v.size())
   {
      p = (T*)malloc(sizeof(T) * (size_t)n);
      if(n > 0) memcpy(p, v.data(), sizeof(T) * (size_t)n);
   }
   ~InArr()
   {
      free(p);
   }
   bool unchanged(const std::vector<T>& v) const
   {
      return n == 0 || memcmp(p, v.data(), sizeof(T) * (size_t)n) == 0;
   }
};
// output array of contract length n, filled with a canary; pad > 0: canary elements before and after inside one block
template <class T> struct OutArr
{
   T* base;
   T* p;
   int n, pad;
   T can;
   OutArr(int n_, bool padded, T can_) : n(n_), pad(padded ? PADN : 0), can(can_)
   {
      base = (T*)malloc(sizeof(T) * (size_t)(n + 2 * pad));
      for(int i = 0; i < n + 2 * pad; i++) memcpy(&base[i], &can, sizeof(T));
      p = base + pad;
   }
   ~OutArr()
   {
      free(base);
   }
   bool padsIntact() const
   {
      for(int i = 0; i < pad; i++) if(memcmp(&base[i], &can, sizeof(T)) != 0 || memcmp(&base[pad + n + i], &can, sizeof(T)) != 0) return false;
      return true;
   }
   bool touched(int i) const
   {
      return memcmp(&p[i], &can, sizeof(T)) != 0;
   }
};
static double canD()
{
   uint64_t u = 0x7ff8c0dec0dec0deULL;
   double d;
   memcpy(&d, &u, 8);
   return d;
}
static const long CAN_L = 0x5AC0DE5AC0DE5AC0L;
static const int CAN_I = 0x5AC0DE5A;
static char* heapStr(const std::string& s)      // exactly strlen+1 bytes
{
   char* p = (char*)malloc(s.size() + 1);
   memcpy(p, s.c_str(), s.size() + 1);
   return p;
}

static Q mkQ(long n, long d)      // the exact rational n/d, built with the GMP C API only
{
   Q q;
   mpz_set_si(mpq_numref(q.backend().data()), n);
   mpz_set_si(mpq_denref(q.backend().data()), d);
   mpq_canonicalize(q.backend().data());
   return q;
}
static bool fitsLong(const Q& q, long& num, long& den)
{
   if(!mpz_fits_slong_p(mpq_numref(q.backend().data())) || !mpz_fits_slong_p(mpq_denref(q.backend().data()))) return false;
   num = mpz_get_si(mpq_numref(q.backend().data()));
   den = mpz_get_si(mpq_denref(q.backend().data()));
   return true;
}

// ------------------------------------------------------------------------------------------------ twin comparison
// first difference between the C++-observable states of two solver objects ("" if none).  Real values bitwise,
// rational values exactly, sparse vectors as index->value maps.
static std::string svKeyReal(const SVectorBase<double>& v)
{
   std::map<int, uint64_t> m;
   bool dup = false;
   for(int k = 0; k < v.size(); k++)
   {
      if(m.count(v.index(k))) dup = true;
      m[v.index(k)] = dbits(v.value(k));
   }
   std::string s = dup ? "DUP " : "";
   for(auto& kv : m) s += std::to_string(kv.first) + ":" + std::to_string(kv.second) + " ";
   return s;
}
static std::string svKeyRat(const SVectorBase<Rational>& v)
{
   std::map<int, std::string> m;
   bool dup = false;
   for(int k = 0; k < v.size(); k++)
   {
      if(m.count(v.index(k))) dup = true;
      m[v.index(k)] = v.value(k).str();
   }
   std::string s = dup ? "DUP " : "";
   for(auto& kv : m) s += std::to_string(kv.first) + ":" + kv.second + " ";
   return s;
}
static std::string vecKeyReal(const VectorBase<double>& v)
{
   std::string s;
   for(int i = 0; i < v.dim(); i++) s += ds(v[i]) + "/" + std::to_string(dbits(v[i])) + " ";
   return s;
}
static std::string vecKeyRat(const VectorBase<Rational>& v)
{
   std::string s;
   for(int i = 0; i < v.dim(); i++) s += v[i].str() + " ";
   return s;
}

static std::string diffSoPlex(SoPlex& a, SoPlex& b)
{
#define DIFF_I(what, x, y) do { auto vx = (x); auto vy = (y); if(!(vx == vy)) { std::ostringstream o; o << what << ": handle " << vx << " mirror " << vy; return o.str(); } } while(0)
#define DIFF_D(what, x, y) do { double vx = (x); double vy = (y); if(!sameBits(vx, vy)) return std::string(what) + ": handle " + ds(vx) + " mirror " + ds(vy); } while(0)
#define DIFF_S(what, x, y) do { std::string vx = (x); std::string vy = (y); if(vx != vy) return std::string(what) + ": handle [" + vx.substr(0, 300) + "] mirror [" + vy.substr(0, 300) + "]"; } while(0)
   DIFF_I("numRows", a.numRows(), b.numRows());
   DIFF_I("numCols", a.numCols(), b.numCols());
   DIFF_I("numNonzeros", a.numNonzeros(), b.numNonzeros());
   int m = a.numRows(), n = a.numCols();
   for(int i = 0; i < m; i++)
   {
      std::string r = "row " + std::to_string(i) + " ";
      DIFF_D(r + "lhsReal", a.lhsReal(i), b.lhsReal(i));
      DIFF_D(r + "rhsReal", a.rhsReal(i), b.rhsReal(i));
      DIFF_I(r + "rowTypeReal", (int)a.rowTypeReal(i), (int)b.rowTypeReal(i));
      DSVectorBase<double> ra, rb;
      a.getRowVectorReal(i, ra);
      b.getRowVectorReal(i, rb);
      DIFF_S(r + "getRowVectorReal", svKeyReal(ra), svKeyReal(rb));
   }
   for(int j = 0; j < n; j++)
   {
      std::string c = "col " + std::to_string(j) + " ";
      DIFF_D(c + "lowerReal", a.lowerReal(j), b.lowerReal(j));
      DIFF_D(c + "upperReal", a.upperReal(j), b.upperReal(j));
      DIFF_D(c + "objReal", a.objReal(j), b.objReal(j));
      DIFF_D(c + "maxObjReal", a.maxObjReal(j), b.maxObjReal(j));
      DSVectorBase<double> ca, cb;
      a.getColVectorReal(j, ca);
      b.getColVectorReal(j, cb);
      DIFF_S(c + "getColVectorReal", svKeyReal(ca), svKeyReal(cb));
   }
   DIFF_I("rational LP present", a._rationalLP != nullptr, b._rationalLP != nullptr);
   if(a._rationalLP != nullptr)
   {
      DIFF_I("numRowsRational", a.numRowsRational(), b.numRowsRational());
      DIFF_I("numColsRational", a.numColsRational(), b.numColsRational());
      DIFF_I("numNonzerosRational", a.numNonzerosRational(), b.numNonzerosRational());
      int mr = a.numRowsRational(), nr = a.numColsRational();
      for(int i = 0; i < mr; i++)
      {
         std::string r = "row " + std::to_string(i) + " ";
         DIFF_S(r + "lhsRational", a.lhsRational(i).str(), b.lhsRational(i).str());
         DIFF_S(r + "rhsRational", a.rhsRational(i).str(), b.rhsRational(i).str());
         DIFF_I(r + "rowTypeRational", (int)a.rowTypeRational(i), (int)b.rowTypeRational(i));
         DIFF_S(r + "rowVectorRational", svKeyRat(a.rowVectorRational(i)), svKeyRat(b.rowVectorRational(i)));
      }
      for(int j = 0; j < nr; j++)
      {
         std::string c = "col " + std::to_string(j) + " ";
         DIFF_S(c + "lowerRational", a.lowerRational(j).str(), b.lowerRational(j).str());
         DIFF_S(c + "upperRational", a.upperRational(j).str(), b.upperRational(j).str());
         DIFF_S(c + "objRational", a.objRational(j).str(), b.objRational(j).str());
         DIFF_S(c + "colVectorRational", svKeyRat(a.colVectorRational(j)), svKeyRat(b.colVectorRational(j)));
      }
   }
   for(int p = 0; p < SoPlex::BOOLPARAM_COUNT; p++)
      DIFF_I("boolParam " + SoPlex::Settings::boolParam.name[p], a.boolParam((SoPlex::BoolParam)p), b.boolParam((SoPlex::BoolParam)p));
   for(int p = 0; p < SoPlex::INTPARAM_COUNT; p++)
      DIFF_I("intParam " + SoPlex::Settings::intParam.name[p], a.intParam((SoPlex::IntParam)p), b.intParam((SoPlex::IntParam)p));
   for(int p = 0; p < SoPlex::REALPARAM_COUNT; p++)
      DIFF_D("realParam " + SoPlex::Settings::realParam.name[p], a.realParam((SoPlex::RealParam)p), b.realParam((SoPlex::RealParam)p));
   DIFF_I("randomSeed", a.randomSeed(), b.randomSeed());
   DIFF_S("getScalerName", a.getScalerName(), b.getScalerName());
   DIFF_S("getSimplifierName", a.getSimplifierName(), b.getSimplifierName());
   DIFF_S("getPricerName", a.getPricerName(), b.getPricerName());
   DIFF_S("getRatiotesterName", a.getRatiotesterName(), b.getRatiotesterName());
   DIFF_S("getStarterName", a.getStarterName(), b.getStarterName());
   DIFF_I("status", (int)a.status(), (int)b.status());
   DIFF_I("hasBasis", a.hasBasis(), b.hasBasis());
   DIFF_I("hasSol", a.hasSol(), b.hasSol());
   DIFF_I("hasPrimalRay", a.hasPrimalRay(), b.hasPrimalRay());
   DIFF_I("hasDualFarkas", a.hasDualFarkas(), b.hasDualFarkas());
   DIFF_I("isPrimalFeasible", a.isPrimalFeasible(), b.isPrimalFeasible());
   DIFF_I("isDualFeasible", a.isDualFeasible(), b.isDualFeasible());
   DIFF_I("numIterations", a.numIterations(), b.numIterations());
   DIFF_D("objValueReal", a.objValueReal(), b.objValueReal());
   for(int i = 0; i < m; i++) DIFF_I("basisRowStatus " + std::to_string(i), (int)a.basisRowStatus(i), (int)b.basisRowStatus(i));
   for(int j = 0; j < n; j++) DIFF_I("basisColStatus " + std::to_string(j), (int)a.basisColStatus(j), (int)b.basisColStatus(j));
   if(a.hasSol())
   {
      VectorBase<double> xa(n), xb(n), sa(m), sb(m), ya(m), yb(m), da(n), db(n);
      DIFF_I("getPrimal ok", a.getPrimal(xa), b.getPrimal(xb));
      DIFF_S("getPrimal", vecKeyReal(xa), vecKeyReal(xb));
      DIFF_I("getSlacksReal ok", a.getSlacksReal(sa), b.getSlacksReal(sb));
      DIFF_S("getSlacksReal", vecKeyReal(sa), vecKeyReal(sb));
      DIFF_I("getDual ok", a.getDual(ya), b.getDual(yb));
      DIFF_S("getDual", vecKeyReal(ya), vecKeyReal(yb));
      DIFF_I("getRedCost ok", a.getRedCost(da), b.getRedCost(db));
      DIFF_S("getRedCost", vecKeyReal(da), vecKeyReal(db));
      if(a._rationalLP != nullptr)
      {
         int mr = a.numRowsRational(), nr = a.numColsRational();
         DIFF_S("objValueRational", a.objValueRational().str(), b.objValueRational().str());
         VectorBase<Rational> qa(nr), qb(nr), za(mr), zb(mr);
         DIFF_I("getPrimalRational ok", a.getPrimalRational(qa), b.getPrimalRational(qb));
         DIFF_S("getPrimalRational", vecKeyRat(qa), vecKeyRat(qb));
         DIFF_I("getDualRational ok", a.getDualRational(za), b.getDualRational(zb));
         DIFF_S("getDualRational", vecKeyRat(za), vecKeyRat(zb));
      }
   }
   return "";
#undef DIFF_I
#undef DIFF_D
#undef DIFF_S
}

//@@OPS@@
