// harness/h_capi.cpp -- C20: the C interface (src/soplex_interface.{h,cpp}) does exactly what the wrapped C++ calls do.
// Every SoPlex_* function is driven on a handle H and the corresponding C++ call on a mirror object M, call by call,
// over random valid histories (<= 40 calls).  After every call all C++ accessors of *(SoPlex*)H and of M are compared
// (diffSoPlex: reals bitwise, rationals exactly); every value handed back through the C interface is compared with the
// wrapped C++ getter on M; arrays are heap blocks of exactly the contract length (ASan red zone) or canary-padded.
//
// Contracts used (from the header comments, the wrapped C++ calls and tests/c_interface/main.c):
//  * addRow/ColReal|Rational(entries, size, nnonzeros, ...): `size` dense entries are read (indices 0..size-1; indices beyond
//    the current dimension create columns/rows, as the C test does on an empty LP); nnonzeros is a capacity hint >= the
//    number of non-zeros; denominators are read only for non-zero numerators but are always valid (non-zero).
//  * change{Obj,Lhs,Rhs,Range,Bounds,Lower,Upper}Real / change{Obj,Lhs,Rhs}Rational(vec, dim): dim = numCols / numRows exactly
//    (the wrapped C++ calls require a vector of that dimension).
//  * getPrimalReal/getDualReal/getRedCostReal(arr, dim): dim = length of arr, >= numCols/numRows (C++: getXxxReal(R*, dim));
//    shorter dim: the C++ call refuses and nothing may be written.
//  * getLowerReal/getUpperReal/getObjReal(arr, dim): dim = numCols (the wrapped getXxxReal(VectorBase&) asserts exactly
//    that dimension on a scaled LP); oracle = that vector getter.
//  * getRowVectorReal/Rational(i, &nnz, indices, coefs...): arrays of >= numCols elements; the first *nnz carry the row.
//  * getPrimalRationalString(dim): dim = numCols (C test); the string is the str() of each entry followed by one blank.
//  * returned char*: NUL-terminated inside its allocation, equal to the C++ value, to be released with free() (header).
// Only valid calls: lower <= upper, lhs <= rhs (also for the exact images in auto sync mode), indices in range, rational
// functions only with a rational LP (sync mode auto), parameter codes/values inside the C++ ranges.
#include "sxinc.hpp"
#include "base.hpp"
extern "C" {
#include "soplex_interface.h"
}
#include <dlfcn.h>
#include <malloc.h>
#include <signal.h>
#include <unistd.h>
#include <sys/stat.h>
#include <sys/wait.h>
#include <fcntl.h>
#include <cerrno>
#include <new>
#include <cstdarg>

#if defined(__SANITIZE_ADDRESS__)
#define VL_ASAN 1
extern "C" {
   size_t __sanitizer_get_allocated_size(const volatile void* p);
   int __sanitizer_get_ownership(const volatile void* p);
   int __sanitizer_install_malloc_and_free_hooks(void (*malloc_hook)(const volatile void*, size_t), void (*free_hook)(const volatile void*));
   size_t __asan_get_alloc_stack(void* addr, void** trace, size_t size, int* thread_id);
   int __lsan_do_recoverable_leak_check();
   void __lsan_ignore_object(const void* p);
   void __sanitizer_set_report_path(const char* path);
}
#else
#define VL_ASAN 0
#endif

using namespace vl;
using namespace soplex;

static Cli cli;
static bool verbose = false;

// ------------------------------------------------------------------------------------------------ function table
#define C20_FUNCS(X) \
   X(create) X(free) X(readInstanceFile) X(readBasisFile) X(readSettingsFile) X(clearLPReal) X(numRows) X(numCols) \
   X(setRational) X(setBoolParam) X(setIntParam) X(setRealParam) X(getIntParam) X(addColReal) X(removeColReal) \
   X(addColRational) X(addRowReal) X(removeRowReal) X(addRowRational) X(getPrimalReal) X(getPrimalRationalString) \
   X(getDualReal) X(getRedCostReal) X(optimize) X(getStatus) X(getSolvingTime) X(getNumIterations) X(changeObjReal) \
   X(changeObjRational) X(changeLhsReal) X(changeRowLhsReal) X(changeLhsRational) X(changeRhsReal) X(changeRowRhsReal) \
   X(changeRhsRational) X(changeRangeReal) X(changeRowRangeReal) X(writeFileReal) X(objValueReal) \
   X(objValueRationalString) X(changeBoundsReal) X(changeVarBoundsReal) X(changeVarBoundsRational) X(changeLowerReal) \
   X(changeVarLowerReal) X(getLowerReal) X(getObjReal) X(changeUpperReal) X(changeVarUpperReal) X(getUpperReal) \
   X(basisRowStatus) X(basisColStatus) X(getRowVectorReal) X(getRowVectorRational) X(getRowBoundsReal) \
   X(getRowBoundsRational)
enum Fn
{
#define X(n) F_##n,
   C20_FUNCS(X)
#undef X
   F_COUNT
};
static const char* const FN[F_COUNT + 1] =
{
#define X(n) "SoPlex_" #n,
   C20_FUNCS(X)
#undef X
   "?"
};

// ------------------------------------------------------------------------------------------------ culprit attribution
static const char* volatile g_curfn = nullptr;     // C function currently executing (nullptr: harness / mirror code)
static const char* volatile g_lastfn = "(none)";
static volatile int g_track = -1;                  // Fn id while inside a C call (allocation tracking)

static void emitCulprit(const char* kind)
{
   char buf[256];
   const char* f = g_curfn;
   int n = snprintf(buf, sizeof buf, "{\"ev\":\"note\",\"kind\":\"%s\",\"detail\":\"%s%s\"}\n", kind, f ? f : "outside-C-call; last C call: ",
                    f ? "" : (const char*)g_lastfn);
   if(n > 0)
   {
      ssize_t w = write(1, buf, (size_t)n);
      (void)w;
      w = write(2, buf, (size_t)n);
      (void)w;
   }
}
#if VL_ASAN
extern "C" void __asan_on_error()
{
   fflush(stdout);
   emitCulprit("asan-in-call");
}
#else
static volatile long long g_case = -1;
static void onSignal(int sig)
{
   emitCulprit("signal-in-call");
   const char* f = g_curfn;
   if(f)
   {
      char buf[320];
      int n = snprintf(buf, sizeof buf, "{\"ev\":\"viol\",\"case\":%lld,\"key\":\"C20:%s:crash-in-call\",\"detail\":\"signal %d raised inside the C call\"}\n", (long long)g_case, f, sig);
      if(n > 0)
      {
         ssize_t w = write(1, buf, (size_t)n);
         (void)w;
      }
   }
   signal(sig, SIG_DFL);
   raise(sig);
}
#endif

// ------------------------------------------------------------------------------------------------ allocation tracking
// ASan flavour: malloc/free hooks record every block allocated inside a C call; blocks that survive the destruction of
// the handle are leak candidates, confirmed by LeakSanitizer (pointers are stored masked so that the table does not
// make them reachable).  Other flavours: operator new[] is replaced by a plain malloc that remembers the blocks
// allocated inside the current C call (kind + requested size of returned strings).
struct NaRec
{
   void* p;
   size_t n;
};
static NaRec g_na[256];
static unsigned g_na_n = 0;
#if VL_ASAN
static const size_t LT_SIZE = 1u << 17;
static const uintptr_t LT_MASK = (uintptr_t)0x5a5a5a5a5a5a5a5aULL;
struct LtEnt
{
   uintptr_t key;   // masked pointer; 0 empty, 1 tombstone
   int fn;
   unsigned size;
};
static LtEnt g_lt[LT_SIZE];
static size_t g_lt_used = 0, g_lt_live = 0;
static bool g_lt_overflow = false;
static inline size_t ltHash(uintptr_t p);
static inline size_t ltHash(uintptr_t p)
{
   return (size_t)((p >> 4) * 0x9E3779B97F4A7C15ULL >> 40) & (LT_SIZE - 1);
}
static volatile bool g_in_case = false;
static void ltCompact()
{
   static LtEnt tmp[LT_SIZE / 4];
   size_t n = 0;
   for(size_t i = 0; i < LT_SIZE; i++) if(g_lt[i].key > 1)
      {
         if(n >= LT_SIZE / 4)
         {
            g_lt_overflow = true;
            return;
         }
         tmp[n++] = g_lt[i];
      }
   memset(g_lt, 0, sizeof g_lt);
   g_lt_used = 0;
   for(size_t k = 0; k < n; k++)
   {
      size_t h = ltHash(tmp[k].key ^ LT_MASK);
      while(g_lt[h].key != 0) h = (h + 1) & (LT_SIZE - 1);
      g_lt[h] = tmp[k];
      g_lt_used++;
   }
   memset(tmp, 0, n * sizeof(LtEnt));
}
static void hookMalloc(const volatile void* ptr, size_t size)
{
   int f = g_track;
   if(ptr == nullptr || g_lt_overflow) return;
   if(f < 0)
   {
      if(!g_in_case) return;
      f = 2 * (int)F_COUNT;       // harness code of the current case (file preparation through the mirror, comparisons)
   }
   if(g_lt_used > LT_SIZE / 2)
   {
      ltCompact();
      if(g_lt_overflow || g_lt_used > LT_SIZE / 2)
      {
         g_lt_overflow = true;
         return;
      }
   }
   uintptr_t key = (uintptr_t)ptr ^ LT_MASK;
   size_t h = ltHash((uintptr_t)ptr);
   while(g_lt[h].key > 1) h = (h + 1) & (LT_SIZE - 1);
   if(g_lt[h].key == 0) g_lt_used++;
   g_lt[h].key = key;
   g_lt[h].fn = f;
   g_lt[h].size = (unsigned)size;
   g_lt_live++;
}
static void hookFree(const volatile void* ptr)
{
   if(g_lt_live == 0 || ptr == nullptr) return;
   uintptr_t key = (uintptr_t)ptr ^ LT_MASK;
   size_t h = ltHash((uintptr_t)ptr);
   while(g_lt[h].key != 0)
   {
      if(g_lt[h].key == key)
      {
         g_lt[h].key = 1;
         g_lt_live--;
         return;
      }
      h = (h + 1) & (LT_SIZE - 1);
   }
}
static void ltReset()
{
   if(g_lt_used > 0) memset(g_lt, 0, sizeof g_lt);
   g_lt_used = g_lt_live = 0;
   g_lt_overflow = false;
}
#else
void* operator new[](size_t n)
{
   void* p = malloc(n ? n : 1);
   if(!p) throw std::bad_alloc();
   if(g_track >= 0 && g_track < (int)F_COUNT)
   {
      g_na[g_na_n % 256].p = p;
      g_na[g_na_n % 256].n = n;
      g_na_n++;
   }
   return p;
}
void operator delete[](void* p) noexcept
{
   free(p);
}
void operator delete[](void* p, size_t) noexcept
{
   free(p);
}
#endif

// kind of heap block: 0 unknown, 1 malloc family, 2 operator new[], 3 operator new
struct BlockInfo
{
   size_t size = 0;
   int kind = 0;
};
static BlockInfo blockInfo(const void* p)
{
   BlockInfo b;
#if VL_ASAN
   if(!__sanitizer_get_ownership(p)) return b;
   b.size = __sanitizer_get_allocated_size(p);
   void* tr[6];
   int tid = 0;
   size_t nf = __asan_get_alloc_stack((void*)p, tr, 6, &tid);
   for(size_t i = 0; i < nf && i < 3 && b.kind == 0; i++)
   {
      Dl_info di;
      if(dladdr(tr[i], &di) && di.dli_sname)
      {
         const char* s = di.dli_sname;
         if(strstr(s, "_Zna")) b.kind = 2;
         else if(strstr(s, "_Znw")) b.kind = 3;
         else if(strstr(s, "malloc") || strstr(s, "calloc") || strstr(s, "realloc") || strstr(s, "strdup")) b.kind = 1;
      }
   }
#else
   unsigned lo = g_na_n > 256 ? g_na_n - 256 : 0;
   for(unsigned i = g_na_n; i > lo; i--) if(g_na[(i - 1) % 256].p == p)
      {
         b.kind = 2;
         b.size = g_na[(i - 1) % 256].n;
         return b;
      }
   b.kind = 1;
   b.size = malloc_usable_size((void*)p);
#endif
   return b;
}

// ------------------------------------------------------------------------------------------------ exact-length arrays
static const int PADN = 4;
static int padOutputs(Rng& g)     // number of canary elements on each side of an output array (0: exact block)
{
   bool padded = g.chance(0.5);        // drawn in every flavour: case k is the same history everywhere
#if VL_ASAN
   return padded ? PADN : 0;           // exact block: ASan red zone right behind the contract length; padded: canaries
#else
   (void)padded;
   return PADN;                        // no red zones in this flavour: always canaries
#endif
}
// input array: heap block of exactly n elements
template <class T> struct InArr
{
   T* p;
   int n;
   explicit InArr(const std::vector<T>& v) : n((int)v.size())
   {
      p = (T*)malloc(sizeof(T) * (size_t)n);
      if(n > 0) memcpy(p, v.data(), sizeof(T) * (size_t)n);
   }
   ~InArr()
   {
      free(p);
   }
   bool unchanged(const std::vector<T>& v) const
   {
      return n == 0 || memcmp(p, v.data(), sizeof(T) * (size_t)n) == 0;
   }
};
// output array of contract length n, filled with a canary; pad > 0: canary elements before and after inside one block
template <class T> struct OutArr
{
   T* base;
   T* p;
   int n, pad;
   T can;
   OutArr(int n_, int pad_, T can_) : n(n_), pad(pad_), can(can_)
   {
      base = (T*)malloc(sizeof(T) * (size_t)(n + 2 * pad));
      for(int i = 0; i < n + 2 * pad; i++) memcpy(&base[i], &can, sizeof(T));
      p = base + pad;
   }
   ~OutArr()
   {
      free(base);
   }
   bool padsIntact() const
   {
      for(int i = 0; i < pad; i++) if(memcmp(&base[i], &can, sizeof(T)) != 0 || memcmp(&base[pad + n + i], &can, sizeof(T)) != 0) return false;
      return true;
   }
   bool touched(int i) const
   {
      return memcmp(&p[i], &can, sizeof(T)) != 0;
   }
};
static double canD()
{
   uint64_t u = 0x7ff8c0dec0dec0deULL;
   double d;
   memcpy(&d, &u, 8);
   return d;
}
static const long CAN_L = 0x5AC0DE5AC0DE5AC0L;
static const int CAN_I = 0x5AC0DE5A;
static char* heapStr(const std::string& s)      // exactly strlen+1 bytes
{
   char* p = (char*)malloc(s.size() + 1);
   memcpy(p, s.c_str(), s.size() + 1);
   return p;
}

static Q mkQ(long n, long d)      // the exact rational n/d, built with the GMP C API only
{
   Q q;
   mpz_set_si(mpq_numref(q.backend().data()), n);
   mpz_set_si(mpq_denref(q.backend().data()), d);
   mpq_canonicalize(q.backend().data());
   return q;
}
static bool fitsLong(const Q& q, long& num, long& den)
{
   if(!mpz_fits_slong_p(mpq_numref(q.backend().data())) || !mpz_fits_slong_p(mpq_denref(q.backend().data()))) return false;
   num = mpz_get_si(mpq_numref(q.backend().data()));
   den = mpz_get_si(mpq_denref(q.backend().data()));
   return true;
}

// ------------------------------------------------------------------------------------------------ twin comparison
// first difference between the C++-observable states of two solver objects ("" if none).  Real values bitwise,
// rational values exactly, sparse vectors as index->value maps.
static std::string svKeyReal(const SVectorBase<double>& v)
{
   std::map<int, uint64_t> m;
   bool dup = false;
   for(int k = 0; k < v.size(); k++)
   {
      if(m.count(v.index(k))) dup = true;
      m[v.index(k)] = dbits(v.value(k));
   }
   std::string s = dup ? "DUP " : "";
   for(auto& kv : m) s += std::to_string(kv.first) + ":" + std::to_string(kv.second) + " ";
   return s;
}
static std::string svKeyRat(const SVectorBase<Rational>& v)
{
   std::map<int, std::string> m;
   bool dup = false;
   for(int k = 0; k < v.size(); k++)
   {
      if(m.count(v.index(k))) dup = true;
      m[v.index(k)] = v.value(k).str();
   }
   std::string s = dup ? "DUP " : "";
   for(auto& kv : m) s += std::to_string(kv.first) + ":" + kv.second + " ";
   return s;
}
static std::string vecKeyReal(const VectorBase<double>& v)
{
   std::string s;
   for(int i = 0; i < v.dim(); i++) s += ds(v[i]) + "/" + std::to_string(dbits(v[i])) + " ";
   return s;
}
static std::string vecKeyRat(const VectorBase<Rational>& v)
{
   std::string s;
   for(int i = 0; i < v.dim(); i++) s += v[i].str() + " ";
   return s;
}

// raw solution getters (the calls the C interface wraps) into generously sized buffers; key of everything they hand back
static std::string rawGetterKey(SoPlex& s)
{
   int n = s.numCols(), m = s.numRows();
   int cap = std::max(std::max(n, m), std::max(s._solReal._primal.dim(), std::max(s._solReal._dual.dim(), s._solReal._redCost.dim()))) + 8;
   std::vector<double> buf((size_t)cap);
   std::string k;
   for(int which = 0; which < 3; which++)
   {
      for(auto& v : buf) v = canD();
      bool ok = which == 0 ? s.getPrimalReal(buf.data(), n) : which == 1 ? s.getDualReal(buf.data(), m) : s.getRedCostReal(buf.data(), n);
      k += ok ? "T" : "F";
      int len = which == 1 ? m : n;
      for(int i = 0; i < len; i++) k += std::to_string(dbits(buf[(size_t)i])) + ",";
      k += ";";
   }
   return k;
}
// digest of what a solve leaves behind (used to recognise solves that the C++ library itself does not reproduce)
static uint64_t solveDigest(SoPlex& s)
{
   std::string k = std::to_string((int)s.status()) + "|" + std::to_string(s.hasSol()) + std::to_string(s.hasBasis()) + std::to_string(s.hasPrimalRay()) +
                   std::to_string(s.hasDualFarkas()) + std::to_string(s.isPrimalFeasible()) + std::to_string(s.isDualFeasible()) + "|" + std::to_string(
                      s.numIterations()) + "|" + std::to_string(dbits(s.objValueReal())) + "|" + rawGetterKey(s);
   for(int i = 0; i < s.numRows(); i++) k += std::to_string((int)s.basisRowStatus(i));
   for(int j = 0; j < s.numCols(); j++) k += std::to_string((int)s.basisColStatus(j));
   if(s._rationalLP != nullptr && s.hasSol())
   {
      k += "|" + s.objValueRational().str() + "|";
      VectorBase<Rational> q(s.numColsRational()), z(s.numRowsRational());
      k += s.getPrimalRational(q) ? "T" : "F";
      k += vecKeyRat(q);
      k += s.getDualRational(z) ? "T" : "F";
      k += vecKeyRat(z);
   }
   return fnv(k);
}

static std::string diffSoPlex(SoPlex& a, SoPlex& b)
{
#define DIFF_I(what, x, y) do { auto vx = (x); auto vy = (y); if(!(vx == vy)) { std::ostringstream o; o << what << ": handle " << vx << " mirror " << vy; return o.str(); } } while(0)
#define DIFF_D(what, x, y) do { double vx = (x); double vy = (y); if(!sameBits(vx, vy)) return std::string(what) + ": handle " + ds(vx) + " mirror " + ds(vy); } while(0)
#define DIFF_S(what, x, y) do { std::string vx = (x); std::string vy = (y); if(vx != vy) return std::string(what) + ": handle [" + vx.substr(0, 300) + "] mirror [" + vy.substr(0, 300) + "]"; } while(0)
   DIFF_I("numRows", a.numRows(), b.numRows());
   DIFF_I("numCols", a.numCols(), b.numCols());
   DIFF_I("numNonzeros", a.numNonzeros(), b.numNonzeros());
   int m = a.numRows(), n = a.numCols();
   for(int i = 0; i < m; i++)
   {
      std::string r = "row " + std::to_string(i) + " ";
      DIFF_D(r + "lhsReal", a.lhsReal(i), b.lhsReal(i));
      DIFF_D(r + "rhsReal", a.rhsReal(i), b.rhsReal(i));
      DIFF_I(r + "rowTypeReal", (int)a.rowTypeReal(i), (int)b.rowTypeReal(i));
      DSVectorBase<double> ra, rb;
      a.getRowVectorReal(i, ra);
      b.getRowVectorReal(i, rb);
      DIFF_S(r + "getRowVectorReal", svKeyReal(ra), svKeyReal(rb));
   }
   for(int j = 0; j < n; j++)
   {
      std::string c = "col " + std::to_string(j) + " ";
      DIFF_D(c + "lowerReal", a.lowerReal(j), b.lowerReal(j));
      DIFF_D(c + "upperReal", a.upperReal(j), b.upperReal(j));
      DIFF_D(c + "objReal", a.objReal(j), b.objReal(j));
      DIFF_D(c + "maxObjReal", a.maxObjReal(j), b.maxObjReal(j));
      DSVectorBase<double> ca, cb;
      a.getColVectorReal(j, ca);
      b.getColVectorReal(j, cb);
      DIFF_S(c + "getColVectorReal", svKeyReal(ca), svKeyReal(cb));
   }
   DIFF_I("rational LP present", a._rationalLP != nullptr, b._rationalLP != nullptr);
   if(a._rationalLP != nullptr)
   {
      DIFF_I("numRowsRational", a.numRowsRational(), b.numRowsRational());
      DIFF_I("numColsRational", a.numColsRational(), b.numColsRational());
      DIFF_I("numNonzerosRational", a.numNonzerosRational(), b.numNonzerosRational());
      int mr = a.numRowsRational(), nr = a.numColsRational();
      for(int i = 0; i < mr; i++)
      {
         std::string r = "row " + std::to_string(i) + " ";
         DIFF_S(r + "lhsRational", a.lhsRational(i).str(), b.lhsRational(i).str());
         DIFF_S(r + "rhsRational", a.rhsRational(i).str(), b.rhsRational(i).str());
         DIFF_I(r + "rowTypeRational", (int)a.rowTypeRational(i), (int)b.rowTypeRational(i));
         DIFF_S(r + "rowVectorRational", svKeyRat(a.rowVectorRational(i)), svKeyRat(b.rowVectorRational(i)));
      }
      for(int j = 0; j < nr; j++)
      {
         std::string c = "col " + std::to_string(j) + " ";
         DIFF_S(c + "lowerRational", a.lowerRational(j).str(), b.lowerRational(j).str());
         DIFF_S(c + "upperRational", a.upperRational(j).str(), b.upperRational(j).str());
         DIFF_S(c + "objRational", a.objRational(j).str(), b.objRational(j).str());
         DIFF_S(c + "colVectorRational", svKeyRat(a.colVectorRational(j)), svKeyRat(b.colVectorRational(j)));
      }
   }
   for(int p = 0; p < SoPlex::BOOLPARAM_COUNT; p++)
      DIFF_I("boolParam " + SoPlex::Settings::boolParam.name[p], a.boolParam((SoPlex::BoolParam)p), b.boolParam((SoPlex::BoolParam)p));
   for(int p = 0; p < SoPlex::INTPARAM_COUNT; p++)
      DIFF_I("intParam " + SoPlex::Settings::intParam.name[p], a.intParam((SoPlex::IntParam)p), b.intParam((SoPlex::IntParam)p));
   for(int p = 0; p < SoPlex::REALPARAM_COUNT; p++)
      DIFF_D("realParam " + SoPlex::Settings::realParam.name[p], a.realParam((SoPlex::RealParam)p), b.realParam((SoPlex::RealParam)p));
   DIFF_I("randomSeed", a.randomSeed(), b.randomSeed());
   DIFF_S("getScalerName", a.getScalerName(), b.getScalerName());
   DIFF_S("getSimplifierName", a.getSimplifierName(), b.getSimplifierName());
   DIFF_S("getPricerName", a.getPricerName(), b.getPricerName());
   DIFF_S("getRatiotesterName", a.getRatiotesterName(), b.getRatiotesterName());
   DIFF_S("getStarterName", a.getStarterName(), b.getStarterName());
   DIFF_I("status", (int)a.status(), (int)b.status());
   DIFF_I("hasBasis", a.hasBasis(), b.hasBasis());
   DIFF_I("hasSol", a.hasSol(), b.hasSol());
   DIFF_I("hasPrimalRay", a.hasPrimalRay(), b.hasPrimalRay());
   DIFF_I("hasDualFarkas", a.hasDualFarkas(), b.hasDualFarkas());
   DIFF_I("isPrimalFeasible", a.isPrimalFeasible(), b.isPrimalFeasible());
   DIFF_I("isDualFeasible", a.isDualFeasible(), b.isDualFeasible());
   DIFF_I("numIterations", a.numIterations(), b.numIterations());
   DIFF_D("objValueReal", a.objValueReal(), b.objValueReal());
   for(int i = 0; i < m; i++) DIFF_I("basisRowStatus " + std::to_string(i), (int)a.basisRowStatus(i), (int)b.basisRowStatus(i));
   for(int j = 0; j < n; j++) DIFF_I("basisColStatus " + std::to_string(j), (int)a.basisColStatus(j), (int)b.basisColStatus(j));
   DIFF_S("getPrimalReal/getDualReal/getRedCostReal(array)", rawGetterKey(a), rawGetterKey(b));
   if(a.hasSol())
   {
      VectorBase<double> xa(n), xb(n), sa(m), sb(m), ya(m), yb(m), da(n), db(n);
      DIFF_I("getPrimal ok", a.getPrimal(xa), b.getPrimal(xb));
      DIFF_I("getPrimal dim", xa.dim(), xb.dim());
      xa.reDim(std::min(n, xa.dim()));
      xb.reDim(std::min(n, xb.dim()));
      DIFF_S("getPrimal", vecKeyReal(xa), vecKeyReal(xb));
      DIFF_I("getSlacksReal ok", a.getSlacksReal(sa), b.getSlacksReal(sb));
      sa.reDim(std::min(m, sa.dim()));
      sb.reDim(std::min(m, sb.dim()));
      DIFF_S("getSlacksReal", vecKeyReal(sa), vecKeyReal(sb));
      DIFF_I("getDual ok", a.getDual(ya), b.getDual(yb));
      ya.reDim(std::min(m, ya.dim()));
      yb.reDim(std::min(m, yb.dim()));
      DIFF_S("getDual", vecKeyReal(ya), vecKeyReal(yb));
      DIFF_I("getRedCost ok", a.getRedCost(da), b.getRedCost(db));
      da.reDim(std::min(n, da.dim()));
      db.reDim(std::min(n, db.dim()));
      DIFF_S("getRedCost", vecKeyReal(da), vecKeyReal(db));
      if(a._rationalLP != nullptr)
      {
         int mr = a.numRowsRational(), nr = a.numColsRational();
         DIFF_S("objValueRational", a.objValueRational().str(), b.objValueRational().str());
         VectorBase<Rational> qa(nr), qb(nr), za(mr), zb(mr);
         DIFF_I("getPrimalRational ok", a.getPrimalRational(qa), b.getPrimalRational(qb));
         DIFF_S("getPrimalRational", vecKeyRat(qa), vecKeyRat(qb));
         DIFF_I("getDualRational ok", a.getDualRational(za), b.getDualRational(zb));
         DIFF_S("getDualRational", vecKeyRat(za), vecKeyRat(zb));
      }
   }
   return "";
#undef DIFF_I
#undef DIFF_D
#undef DIFF_S
}

// ------------------------------------------------------------------------------------------------ case context
struct Ctx
{
   Rng& g;
   long long k;
   void* H = nullptr;
   SoPlex* M = nullptr;
   int ncalls = 0;
   int maxCalls = 40;
   uint64_t seqhash = 1469598103934665603ULL;
   std::string seq;            // function names so far (replay payload)
   bool dead = false;          // twin states diverged (or handle gone): stop the history
   bool inconsistent = false;  // history ended because the C++ library left both objects internally inconsistent
   int focus = -1;             // risky function enabled in this case only (-1: none)
   bool ctest = false;         // replay of the C test program
   int nfile = 0;
   std::vector<std::string> files;
   std::string lastInstFile, lastBasisFile, lastSetFile;
   explicit Ctx(Rng& g_, long long k_) : g(g_), k(k_) {}
   SoPlex& h()
   {
      return *(SoPlex*)H;
   }
   std::string newFile(const char* ext)
   {
      std::string p = cli.tmpdir + "/c20_" + std::to_string((long)getpid()) + "_" + std::to_string(k) + "_" + std::to_string(nfile++) + ext;
      files.push_back(p);
      return p;
   }
   bool room() const
   {
      return !dead && ncalls < maxCalls;
   }
};

static void vlog(const char* fmt, ...)
{
   if(!verbose) return;
   va_list ap;
   va_start(ap, fmt);
   vfprintf(stderr, fmt, ap);
   va_end(ap);
   fputc('\n', stderr);
}

// A worker that dies loses the counters it has not reported yet, so a partial summary is written before anything that
// is known to be able to kill the process (the driver adds up all summary records of a run).
static void flushSummary()
{
   Sink& S = sink();
   if(S.counters.empty() && S.distinct.empty()) return;
   S.flushSummary();
}
static bool isRisky(Fn f);

// scope of one C call
struct Call
{
   Call(Ctx& c, Fn f)
   {
      c.ncalls++;
      c.seqhash = fnv(FN[f], c.seqhash);
      if(c.seq.size() < 1500) c.seq += std::string(c.seq.empty() ? "" : " ") + (FN[f] + 7);
      sink().count(std::string("calls.") + FN[f]);
      sink().count("calls.total");
      if(verbose) fprintf(stderr, "  C call #%d %s\n", c.ncalls, FN[f]);
      if(isRisky(f)) flushSummary();
      g_na_n = 0;
      g_lastfn = FN[f];
      g_curfn = FN[f];
      g_track = (int)f;
   }
   ~Call()
   {
      g_track = F_COUNT + g_track;      // mirror phase of the same function (until post())
      g_curfn = nullptr;
   }
};

static void viol(Ctx& c, Fn f, const std::string& what, const std::string& detail)
{
   sink().viol(std::string("C20:") + FN[f] + ":" + what, detail + " | calls so far: " + c.seq, Json().str("sequence", c.seq).num("ncalls", c.ncalls).done());
   sink().count("viol." + what);
}
static void viol(Ctx& c, const std::string& site, const std::string& what, const std::string& detail)
{
   sink().viol("C20:" + site + ":" + what, detail + " | calls so far: " + c.seq, Json().str("sequence", c.seq).num("ncalls", c.ncalls).done());
   sink().count("viol." + what);
}

static std::string internalInconsistency(SoPlex& s)
{
   if(s._rationalLP != nullptr && s.intParam(SoPlex::SYNCMODE) == SoPlex::SYNCMODE_AUTO)
   {
      if(s.numRows() != s.numRowsRational() || s.numCols() != s.numColsRational())
         return "real LP " + std::to_string(s.numRows()) + "x" + std::to_string(s.numCols()) + " vs rational LP " + std::to_string(s.numRowsRational()) + "x" + std::to_string(
                   s.numColsRational());
      if(s._colTypes.size() != s.numColsRational() || s._rowTypes.size() != s.numRowsRational())
         return "type arrays " + std::to_string(s._rowTypes.size()) + "/" + std::to_string(s._colTypes.size()) + " vs rational LP " + std::to_string(s.numRowsRational()) + "x" +
                std::to_string(s.numColsRational());
   }
   return "";
}
// after every call: all C++ accessors of *(SoPlex*)H and of M agree
static void post(Ctx& c, Fn f)
{
   g_track = -1;
   if(c.dead || c.H == nullptr) return;
   // Guard: a real LP flagged as scaled without a scaler object (left behind by exact solves with a scaler, a defect of
   // the C++ library itself) makes the unscaling C++ accessors undefined; such a history ends here without a verdict.
   if((c.M->_realLP->isScaled() && (c.M->_realLP->lp_scaler == nullptr || c.M->_scaler == nullptr))
         || (c.h()._realLP->isScaled() && (c.h()._realLP->lp_scaler == nullptr || c.h()._scaler == nullptr)))
   {
      sink().count("guard.scaled_without_scaler");
      c.dead = true;
      return;
   }
   // Guard: exact solves that end infeasible / unbounded can leave the C++ object with a real LP, rational LP and type
   // arrays of different dimensions (again in pure C++; the exact-solve properties judge that).  Later calls on such an
   // object read uninitialised memory, so the history ends here without a verdict on the twin comparison.
   {
      std::string ia = internalInconsistency(*c.M), ib = internalInconsistency(c.h());
      if(!ia.empty() && !ib.empty())
      {
         sink().count("guard.cpp_object_inconsistent");
         vlog("    inconsistent: %s", ia.c_str());
         c.dead = true;
         c.inconsistent = true;
         return;
      }
   }
   sink().count("oracle.twin_compared");
   if(verbose) fprintf(stderr, "    state: %dx%d rational %s colTypes %d rowTypes %d status %d scaled %d\n", c.M->numRows(), c.M->numCols(),
                          c.M->_rationalLP ? (std::to_string(c.M->numRowsRational()) + "x" + std::to_string(c.M->numColsRational())).c_str() : "-",
                          c.M->_colTypes.size(), c.M->_rowTypes.size(), (int)c.M->status(), (int)c.M->_realLP->isScaled());
   std::string d = diffSoPlex(c.h(), *c.M);
   if(!d.empty())
   {
      viol(c, f, "mirror-mismatch", "after " + std::string(FN[f]) + " the handle and the C++ mirror differ in " + d);
      c.dead = true;
   }
}

// ------------------------------------------------------------------------------------------------ value generators
static const int MAXDIM = 7;
static double pickFinite(Rng& g)
{
   static const std::vector<double> v = {1, -1, 2, -2, 3, 0.5, -0.5, 0.25, 1.5, 10, -7, 0.1, -0.3, 1e-3, 100, 1234.5, 4, -4, 6, 0.75};
   return g.pick(v);
}
static double pickBoundVal(Rng& g)
{
   if(g.chance(0.06)) return g.chance(0.5) ? 1e21 : -1e21;     // the C test's "infty = 10e+20" (a finite number for SoPlex)
   if(g.chance(0.25)) return 0.0;
   return pickFinite(g);
}
static void pickRangeD(Rng& g, double inf, double& lo, double& hi)
{
   double a = pickBoundVal(g), b = pickBoundVal(g);
   lo = std::min(a, b);
   hi = std::max(a, b);
   int t = g.range(0, 9);
   if(t == 0) lo = hi;                 // fixed / equation
   else if(t <= 2) lo = -inf;
   else if(t <= 4) hi = inf;
   else if(t == 5)
   {
      lo = -inf;
      hi = inf;
   }
}
static std::vector<double> pickDense(Rng& g, int len, int& nz)
{
   std::vector<double> e((size_t)len, 0.0);
   int t = g.range(0, 9);
   double dens = t == 0 ? 0.0 : t == 1 ? 1.0 : 0.55;
   nz = 0;
   for(int i = 0; i < len; i++) if(g.chance(dens))
      {
         e[(size_t)i] = pickFinite(g);
         nz++;
      }
   if(g.chance(0.05) && len > 0 && e[0] == 0.0) e[0] = -0.0;     // negative zero is a zero
   return e;
}
struct LPair
{
   long n, d;
};
static const long BIG62 = 4611686018427387904L;   // 2^62
static long pickNum(Rng& g, bool allowZero)
{
   int t = g.range(0, 19);
   long v;
   if(t == 0) v = BIG62 - g.range(1, 1000);
   else if(t == 1) v = -(BIG62 - g.range(1, 1000));
   else if(t == 2) v = BIG62 + g.range(0, 1000);
   else if(t == 3) v = 1000000L * (g.chance(0.5) ? 1 : -1);
   else v = g.range(-12, 12);
   if(v == 0 && !allowZero) v = g.chance(0.5) ? 1 : -1;
   return v;
}
static long pickDen(Rng& g)
{
   int t = g.range(0, 19);
   if(t < 8) return 1;
   if(t == 8) return BIG62 - g.range(1, 1000);
   if(t == 9) return BIG62 + 1 + 2 * g.range(0, 500);
   if(t == 10) return -g.range(1, 9);            // a negative denominator is still a well-defined pair
   return g.range(2, 12);
}
static LPair pickPair(Rng& g, bool allowZero = true)
{
   LPair p;
   p.n = pickNum(g, allowZero);
   p.d = pickDen(g);
   return p;
}
static void pickRangeQ(Rng& g, LPair& lo, LPair& hi)
{
   lo = pickPair(g);
   hi = pickPair(g);
   if(g.chance(0.15)) hi = lo;
   if(mkQ(lo.n, lo.d) > mkQ(hi.n, hi.d)) std::swap(lo, hi);
}
// contract length of a dense vector argument over `cur` existing rows/columns: usually cur; sometimes a prefix;
// sometimes longer (entries beyond cur create new rows/columns, as the C test program does on an empty LP)
static int pickDenseLen(Rng& g, int cur, bool mayGrow)
{
   int t = g.range(0, 9);
   if(cur == 0 && mayGrow && t <= 7) return g.range(1, 3);      // first rows/columns of an empty LP, as in the C test
   if(t == 0 && cur > 0) return g.range(0, cur - 1);
   if(t <= 2 && cur < MAXDIM && mayGrow) return g.range(cur + 1, std::min(MAXDIM, cur + 2));
   return cur;
}
// dimension argument of an output vector over `cur` elements: exact or larger than needed
static int pickOutDim(Rng& g, int cur)
{
   return g.chance(0.6) ? cur : cur + g.range(1, 3);
}
// ------------------------------------------------------------------------------------------------ operations
// Each op performs one C call on H, the corresponding C++ call on M, checks the values handed back, and returns true;
// false if its precondition does not hold in the current state (nothing was called).
static bool ratLP(Ctx& c)
{
   return c.M->_rationalLP != nullptr && c.M->intParam(SoPlex::SYNCMODE) != SoPlex::SYNCMODE_ONLYREAL;
}
static bool autoSync(Ctx& c)
{
   return c.M->_rationalLP != nullptr && c.M->intParam(SoPlex::SYNCMODE) == SoPlex::SYNCMODE_AUTO;
}
// Entries beyond the current dimension create rows/columns.  On a persistently scaled LP SPxLPBase::doAddRow/doAddCol read
// the scaling exponent of the not yet existing column/row (uninitialised memory: twin objects diverge even in pure C++),
// so histories grow the LP implicitly only while it is unscaled.
static bool mayGrow(Ctx& c)
{
   return !c.M->_realLP->isScaled();
}
static double INF(Ctx& c)
{
   return c.M->realParam(SoPlex::INFTY);
}

static void opCreate(Ctx& c)
{
   {
      Call _(c, F_create);
      c.H = SoPlex_create();
   }
   c.M = new SoPlex();
   if(c.H == nullptr)
   {
      viol(c, F_create, "null-handle", "SoPlex_create returned NULL");
      c.dead = true;
      return;
   }
   post(c, F_create);
}
static void opFree(Ctx& c)
{
   if(c.H != nullptr)
   {
      Call _(c, F_free);
      SoPlex_free(c.H);
   }
   c.H = nullptr;
   delete c.M;
   c.M = nullptr;
   g_track = -1;
}

// ---- parameters.  Codes are the C++ enumerators; values: the default / current value for every code (always valid),
// other values only from a list that keeps the solver inside the region where twin objects behave identically and
// known solver crashes (ETA update, least-squares scaler, decomposition simplex) are not triggered.
static bool opSetIntParam(Ctx& c, int code = -1, int value = 0)
{
   Rng& g = c.g;
   if(code < 0)
   {
      static const std::vector<std::pair<int, std::vector<int>>> safe =
      {
         {SoPlex::OBJSENSE, {-1, 1}}, {SoPlex::REPRESENTATION, {0, 1, 2}}, {SoPlex::ALGORITHM, {0, 1}}, {SoPlex::FACTOR_UPDATE_MAX, {0, 5, 20}},
         {SoPlex::ITERLIMIT, {0, 3, 50, 1000}}, {SoPlex::REFLIMIT, {-1, 0, 5}}, {SoPlex::STALLREFLIMIT, {-1, 3}}, {SoPlex::DISPLAYFREQ, {1, 200}},
         {SoPlex::SIMPLIFIER, {0, 1, 3}}, {SoPlex::SCALER, {0, 1, 2, 3, 4, 6}}, {SoPlex::STARTER, {0, 1, 3}}, {SoPlex::PRICER, {0, 1, 2, 3, 4, 5}},
         {SoPlex::RATIOTESTER, {0, 1, 2, 3}}, {SoPlex::SYNCMODE, {0, 1, 1}}, {SoPlex::READMODE, {0, 1}}, {SoPlex::SOLVEMODE, {0, 1, 2}},
         {SoPlex::CHECKMODE, {0, 1, 2}}, {SoPlex::TIMER, {0, 1, 2}}, {SoPlex::HYPER_PRICING, {0, 1, 2}}, {SoPlex::RATFAC_MINSTALLS, {0, 2}},
         {SoPlex::SOLUTION_POLISHING, {0, 1, 2}}, {SoPlex::STATTIMER, {0, 1, 2}},
      };
      if(g.chance(0.3))
      {
         code = g.range(0, SoPlex::INTPARAM_COUNT - 1);
         value = g.chance(0.5) ? SoPlex::Settings::intParam.defaultValue[code] : c.M->intParam((SoPlex::IntParam)code);
         if(code == SoPlex::VERBOSITY) value = 0;
      }
      else
      {
         auto& e = g.pick(safe);
         code = e.first;
         value = g.pick(e.second);
      }
   }
   // switching the scaler while the real LP is (persistently) scaled leaves a scaled LP without scaler object behind: the
   // unscaling accessors of the C++ class then dereference a null scaler -> the scaler is only changed on an unscaled LP
   if(code == SoPlex::SCALER && c.M->_realLP->isScaled() && value != c.M->intParam(SoPlex::SCALER)) return false;
   vlog("  setIntParam(%s=%d)", SoPlex::Settings::intParam.name[code].c_str(), value);
   {
      Call _(c, F_setIntParam);
      SoPlex_setIntParam(c.H, code, value);
   }
   c.M->setIntParam((SoPlex::IntParam)code, value);
   sink().seen("intparam_codes", (uint64_t)code);
   post(c, F_setIntParam);
   return true;
}
static bool opSetBoolParam(Ctx& c, int fcode = -1, int fvalue = 0)
{
   Rng& g = c.g;
   static const std::vector<int> toggle = {SoPlex::EQTRANS, SoPlex::TESTDUALINF, SoPlex::RATFAC, SoPlex::ACCEPTCYCLING, SoPlex::RATREC,
                                           SoPlex::POWERSCALING, SoPlex::RATFACJUMP, SoPlex::ROWBOUNDFLIPS, SoPlex::PERSISTENTSCALING,
                                           SoPlex::FULLPERTURBATION, SoPlex::ENSURERAY, SoPlex::FORCEBASIC, SoPlex::SIMPLIFIER_SINGLETONCOLS,
                                           SoPlex::SIMPLIFIER_DUALFIX, SoPlex::SIMPLIFIER_DOMINATEDCOLS
                                          };
   int code, value;
   if(fcode >= 0)
   {
      code = fcode;
      value = fvalue;
   }
   else if(g.chance(0.35))
   {
      code = g.range(0, SoPlex::BOOLPARAM_COUNT - 1);
      value = g.chance(0.5) ? (int)SoPlex::Settings::boolParam.defaultValue[code] : (int)c.M->boolParam((SoPlex::BoolParam)code);
   }
   else
   {
      code = g.pick(toggle);
      value = g.range(0, 1);
   }
   vlog("  setBoolParam(%s=%d)", SoPlex::Settings::boolParam.name[code].c_str(), value);
   {
      Call _(c, F_setBoolParam);
      SoPlex_setBoolParam(c.H, code, value);
   }
   c.M->setBoolParam((SoPlex::BoolParam)code, value != 0);
   sink().seen("boolparam_codes", (uint64_t)code);
   post(c, F_setBoolParam);
   return true;
}
static bool opSetRealParam(Ctx& c)
{
   Rng& g = c.g;
   static const std::vector<std::pair<int, std::vector<double>>> safe =
   {
      {SoPlex::FEASTOL, {1e-6, 1e-9, 1e-4, 1e-7}}, {SoPlex::OPTTOL, {1e-6, 1e-9, 1e-4, 1e-7}}, {SoPlex::TIMELIMIT, {1e6, 3600.0}},
      {SoPlex::OBJLIMIT_LOWER, {-1e50, -5.0}}, {SoPlex::OBJLIMIT_UPPER, {1e50, 5.0}}, {SoPlex::OBJ_OFFSET, {0.0, 3.0, -2.5}},
      {SoPlex::MIN_MARKOWITZ, {0.01, 0.1, 0.5}}, {SoPlex::FPFEASTOL, {1e-9, 1e-6}}, {SoPlex::FPOPTTOL, {1e-9, 1e-6}},
      {SoPlex::SPARSITY_THRESHOLD, {0.0, 0.6, 1.0}}, {SoPlex::REPRESENTATION_SWITCH, {0.5, 1.2, 5.0}}, {SoPlex::LIFTMINVAL, {0.000976562, 0.01}},
      {SoPlex::LIFTMAXVAL, {1024.0, 100.0}},
   };
   int code;
   double value;
   if(g.chance(0.4))
   {
      code = g.range(0, SoPlex::REALPARAM_COUNT - 1);
      value = g.chance(0.5) ? SoPlex::Settings::realParam.defaultValue[code] : c.M->realParam((SoPlex::RealParam)code);
      if(code == SoPlex::INFTY) value = c.M->realParam(SoPlex::INFTY);
   }
   else
   {
      auto& e = g.pick(safe);
      code = e.first;
      value = g.pick(e.second);
   }
   vlog("  setRealParam(%s=%g)", SoPlex::Settings::realParam.name[code].c_str(), value);
   {
      Call _(c, F_setRealParam);
      SoPlex_setRealParam(c.H, code, value);
   }
   c.M->setRealParam((SoPlex::RealParam)code, value);
   sink().seen("realparam_codes", (uint64_t)code);
   post(c, F_setRealParam);
   return true;
}
static bool opGetIntParam(Ctx& c)
{
   int code = c.g.range(0, SoPlex::INTPARAM_COUNT - 1);
   int v;
   {
      Call _(c, F_getIntParam);
      v = SoPlex_getIntParam(c.H, code);
   }
   int w = c.M->intParam((SoPlex::IntParam)code);
   if(v != w) viol(c, F_getIntParam, "return-mismatch", "SoPlex_getIntParam(" + SoPlex::Settings::intParam.name[code] + ") = " + std::to_string(v) + ", C++ intParam = " + std::to_string(w));
   post(c, F_getIntParam);
   return true;
}
static bool opSetRational(Ctx& c)
{
   {
      Call _(c, F_setRational);
      SoPlex_setRational(c.H);
   }
   // the documented effect ("enables rational solving mode"), spelt out with the C++ enumerators
   c.M->setIntParam(SoPlex::READMODE, SoPlex::READMODE_RATIONAL);
   c.M->setIntParam(SoPlex::SOLVEMODE, SoPlex::SOLVEMODE_RATIONAL);
   c.M->setIntParam(SoPlex::CHECKMODE, SoPlex::CHECKMODE_RATIONAL);
   c.M->setIntParam(SoPlex::SYNCMODE, SoPlex::SYNCMODE_AUTO);
   c.M->setRealParam(SoPlex::FEASTOL, 0.0);
   c.M->setRealParam(SoPlex::OPTTOL, 0.0);
   post(c, F_setRational);
   return true;
}
static bool opNumRowsCols(Ctx& c, bool rows)
{
   int v;
   if(rows)
   {
      Call _(c, F_numRows);
      v = SoPlex_numRows(c.H);
   }
   else
   {
      Call _(c, F_numCols);
      v = SoPlex_numCols(c.H);
   }
   int w = rows ? c.M->numRows() : c.M->numCols();
   Fn f = rows ? F_numRows : F_numCols;
   if(v != w) viol(c, f, "return-mismatch", std::string(FN[f]) + " = " + std::to_string(v) + ", C++ = " + std::to_string(w));
   post(c, f);
   return true;
}

// ---- real LP construction
// contract (header + C test): `rowentries` is a dense array of `rowsize` coefficients for columns 0..rowsize-1 (exactly
// rowsize elements are readable); `nnonzeros` is the number of non-zeros among them (capacity hint: the true count or
// larger); entries beyond the current number of columns create columns, as in the C test (row added to an empty LP).
static int pickNnz(Rng& g, int nz)
{
   return g.chance(0.7) ? nz : nz + g.range(1, 4);
}
static bool opAddRowReal(Ctx& c)
{
   Rng& g = c.g;
   if(c.M->numRows() >= MAXDIM) return false;
   int len = pickDenseLen(g, c.M->numCols(), mayGrow(c)), nz;
   std::vector<double> e = pickDense(g, len, nz);
   int nnz = pickNnz(g, nz);
   double lo, hi;
   pickRangeD(g, INF(c), lo, hi);
   InArr<double> a(e);
   vlog("  addRowReal(len=%d nnz=%d [%g,%g])", len, nnz, lo, hi);
   {
      Call _(c, F_addRowReal);
      SoPlex_addRowReal(c.H, a.p, len, nnz, lo, hi);
   }
   if(!a.unchanged(e)) viol(c, F_addRowReal, "input-modified", "the input array was modified");
   DSVectorBase<double> row(nz + 1);
   for(int i = 0; i < len; i++) if(e[(size_t)i] != 0.0) row.add(i, e[(size_t)i]);
   c.M->addRowReal(LPRowBase<double>(lo, row, hi));
   if(nz == 0) sink().count("args.zero_nonzeros");
   if(nnz > nz) sink().count("args.nnonzeros_larger_than_needed");
   post(c, F_addRowReal);
   return true;
}
static bool opAddColReal(Ctx& c)
{
   Rng& g = c.g;
   if(c.M->numCols() >= MAXDIM) return false;
   int len = pickDenseLen(g, c.M->numRows(), mayGrow(c)), nz;
   std::vector<double> e = pickDense(g, len, nz);
   int nnz = pickNnz(g, nz);
   double lo, hi, obj = g.chance(0.2) ? 0.0 : pickFinite(g);
   pickRangeD(g, INF(c), lo, hi);
   InArr<double> a(e);
   vlog("  addColReal(len=%d nnz=%d obj=%g [%g,%g])", len, nnz, obj, lo, hi);
   {
      Call _(c, F_addColReal);
      SoPlex_addColReal(c.H, a.p, len, nnz, obj, lo, hi);
   }
   if(!a.unchanged(e)) viol(c, F_addColReal, "input-modified", "the input array was modified");
   DSVectorBase<double> col(nz + 1);
   for(int i = 0; i < len; i++) if(e[(size_t)i] != 0.0) col.add(i, e[(size_t)i]);
   c.M->addColReal(LPColBase<double>(obj, col, hi, lo));
   if(nz == 0) sink().count("args.zero_nonzeros");
   if(nnz > nz) sink().count("args.nnonzeros_larger_than_needed");
   post(c, F_addColReal);
   return true;
}
static bool opRemoveRowReal(Ctx& c)
{
   int m = c.M->numRows();
   if(m == 0) return false;
   int i = c.g.range(0, m - 1);
   {
      Call _(c, F_removeRowReal);
      SoPlex_removeRowReal(c.H, i);
   }
   c.M->removeRowReal(i);
   post(c, F_removeRowReal);
   return true;
}
static bool opRemoveColReal(Ctx& c)
{
   int n = c.M->numCols();
   if(n == 0) return false;
   int j = c.g.range(0, n - 1);
   {
      Call _(c, F_removeColReal);
      SoPlex_removeColReal(c.H, j);
   }
   c.M->removeColReal(j);
   post(c, F_removeColReal);
   return true;
}
static bool opClearLPReal(Ctx& c)
{
   {
      Call _(c, F_clearLPReal);
      SoPlex_clearLPReal(c.H);
   }
   c.M->clearLPReal();
   post(c, F_clearLPReal);
   return true;
}

// ---- real vector changes: the C++ calls require a vector of exactly numCols / numRows entries, so dim is exact
static VectorBase<double> toVec(const std::vector<double>& v)
{
   VectorBase<double> r((int)v.size());
   for(size_t i = 0; i < v.size(); i++) r[(int)i] = v[i];
   return r;
}
enum VecKind { VK_OBJ, VK_LHS, VK_RHS, VK_RANGE, VK_BOUNDS, VK_LOWER, VK_UPPER };
static bool opChangeVecReal(Ctx& c, VecKind kind)
{
   Rng& g = c.g;
   bool rowwise = kind == VK_LHS || kind == VK_RHS || kind == VK_RANGE;
   int dim = rowwise ? c.M->numRows() : c.M->numCols();
   double inf = INF(c);
   std::vector<double> a((size_t)dim), b((size_t)dim);
   for(int i = 0; i < dim; i++)
   {
      double lo, hi;
      pickRangeD(g, inf, lo, hi);
      switch(kind)
      {
      case VK_OBJ:
         a[(size_t)i] = g.chance(0.2) ? 0.0 : pickFinite(g);
         break;
      case VK_LHS:     // must stay <= current rhs
         a[(size_t)i] = std::min(lo, c.M->rhsReal(i));
         break;
      case VK_RHS:
         a[(size_t)i] = std::max(hi, c.M->lhsReal(i));
         break;
      case VK_LOWER:
         a[(size_t)i] = std::min(lo, c.M->upperReal(i));
         break;
      case VK_UPPER:
         a[(size_t)i] = std::max(hi, c.M->lowerReal(i));
         break;
      default:
         a[(size_t)i] = lo;
         b[(size_t)i] = hi;
      }
   }
   if(autoSync(c))      // the exact images of the new values must keep lhs <= rhs / lower <= upper in the rational LP too
      for(int i = 0; i < dim; i++)
      {
         if(kind == VK_LHS && Rational(a[(size_t)i]) > c.M->rhsRational(i)) return false;
         if(kind == VK_RHS && Rational(a[(size_t)i]) < c.M->lhsRational(i)) return false;
         if(kind == VK_LOWER && Rational(a[(size_t)i]) > c.M->upperRational(i)) return false;
         if(kind == VK_UPPER && Rational(a[(size_t)i]) < c.M->lowerRational(i)) return false;
      }
   InArr<double> pa(a), pb(b);
   Fn f;
   switch(kind)
   {
   case VK_OBJ:
      f = F_changeObjReal;
      {
         Call _(c, f);
         SoPlex_changeObjReal(c.H, pa.p, dim);
      }
      c.M->changeObjReal(toVec(a));
      break;
   case VK_LHS:
      f = F_changeLhsReal;
      {
         Call _(c, f);
         SoPlex_changeLhsReal(c.H, pa.p, dim);
      }
      c.M->changeLhsReal(toVec(a));
      break;
   case VK_RHS:
      f = F_changeRhsReal;
      {
         Call _(c, f);
         SoPlex_changeRhsReal(c.H, pa.p, dim);
      }
      c.M->changeRhsReal(toVec(a));
      break;
   case VK_RANGE:
      f = F_changeRangeReal;
      {
         Call _(c, f);
         SoPlex_changeRangeReal(c.H, pa.p, pb.p, dim);
      }
      c.M->changeRangeReal(toVec(a), toVec(b));
      break;
   case VK_BOUNDS:
      f = F_changeBoundsReal;
      {
         Call _(c, f);
         SoPlex_changeBoundsReal(c.H, pa.p, pb.p, dim);
      }
      c.M->changeBoundsReal(toVec(a), toVec(b));
      break;
   case VK_LOWER:
      f = F_changeLowerReal;
      {
         Call _(c, f);
         SoPlex_changeLowerReal(c.H, pa.p, dim);
      }
      c.M->changeLowerReal(toVec(a));
      break;
   default:
      f = F_changeUpperReal;
      {
         Call _(c, f);
         SoPlex_changeUpperReal(c.H, pa.p, dim);
      }
      c.M->changeUpperReal(toVec(a));
      break;
   }
   if(!pa.unchanged(a) || ((kind == VK_RANGE || kind == VK_BOUNDS) && !pb.unchanged(b))) viol(c, f, "input-modified", "an input array was modified");
   if(dim == 0) sink().count("args.dim_zero");
   post(c, f);
   return true;
}
enum OneKind { OK_ROWLHS, OK_ROWRHS, OK_ROWRANGE, OK_VARBOUNDS, OK_VARLOWER, OK_VARUPPER };
static bool opChangeOneReal(Ctx& c, OneKind kind)
{
   Rng& g = c.g;
   bool rowwise = kind == OK_ROWLHS || kind == OK_ROWRHS || kind == OK_ROWRANGE;
   int dim = rowwise ? c.M->numRows() : c.M->numCols();
   if(dim == 0) return false;
   int i = g.range(0, dim - 1);
   double lo, hi;
   pickRangeD(g, INF(c), lo, hi);
   if(autoSync(c))
   {
      if(kind == OK_ROWLHS && Rational(std::min(lo, c.M->rhsReal(i))) > c.M->rhsRational(i)) return false;
      if(kind == OK_ROWRHS && Rational(std::max(hi, c.M->lhsReal(i))) < c.M->lhsRational(i)) return false;
      if(kind == OK_VARLOWER && Rational(std::min(lo, c.M->upperReal(i))) > c.M->upperRational(i)) return false;
      if(kind == OK_VARUPPER && Rational(std::max(hi, c.M->lowerReal(i))) < c.M->lowerRational(i)) return false;
   }
   Fn f;
   switch(kind)
   {
   case OK_ROWLHS:
      f = F_changeRowLhsReal;
      lo = std::min(lo, c.M->rhsReal(i));
      {
         Call _(c, f);
         SoPlex_changeRowLhsReal(c.H, i, lo);
      }
      c.M->changeLhsReal(i, lo);
      break;
   case OK_ROWRHS:
      f = F_changeRowRhsReal;
      hi = std::max(hi, c.M->lhsReal(i));
      {
         Call _(c, f);
         SoPlex_changeRowRhsReal(c.H, i, hi);
      }
      c.M->changeRhsReal(i, hi);
      break;
   case OK_ROWRANGE:
      f = F_changeRowRangeReal;
      {
         Call _(c, f);
         SoPlex_changeRowRangeReal(c.H, i, lo, hi);
      }
      c.M->changeRangeReal(i, lo, hi);
      break;
   case OK_VARBOUNDS:
      f = F_changeVarBoundsReal;
      {
         Call _(c, f);
         SoPlex_changeVarBoundsReal(c.H, i, lo, hi);
      }
      c.M->changeBoundsReal(i, lo, hi);
      break;
   case OK_VARLOWER:
      f = F_changeVarLowerReal;
      lo = std::min(lo, c.M->upperReal(i));
      {
         Call _(c, f);
         SoPlex_changeVarLowerReal(c.H, i, lo);
      }
      c.M->changeLowerReal(i, lo);
      break;
   default:
      f = F_changeVarUpperReal;
      hi = std::max(hi, c.M->lowerReal(i));
      {
         Call _(c, f);
         SoPlex_changeVarUpperReal(c.H, i, hi);
      }
      c.M->changeUpperReal(i, hi);
      break;
   }
   vlog("  %s(%d, %g, %g)", FN[f], i, lo, hi);
   post(c, f);
   return true;
}
// ---- rational LP construction / changes (only with a rational LP, i.e. sync mode auto or manual)
static std::string pairStr(const LPair& p)
{
   return std::to_string(p.n) + "/" + std::to_string(p.d);
}
static void pickDensePairs(Rng& g, int len, std::vector<long>& nums, std::vector<long>& dens, int& nz)
{
   nums.assign((size_t)len, 0);
   dens.assign((size_t)len, 1);
   int t = g.range(0, 9);
   double dens_ = t == 0 ? 0.0 : t == 1 ? 1.0 : 0.55;
   nz = 0;
   for(int i = 0; i < len; i++)
   {
      dens[(size_t)i] = pickDen(g);
      if(g.chance(dens_))
      {
         nums[(size_t)i] = pickNum(g, false);
         nz++;
      }
   }
}
static void countPairs(const std::vector<long>& nums, const std::vector<long>& dens)
{
   for(size_t i = 0; i < nums.size(); i++)
   {
      if(nums[i] < 0) sink().count("args.negative_numerator");
      if(dens[i] == 1 && nums[i] != 0) sink().count("args.denominator_one");
      if(nums[i] > BIG62 / 2 || nums[i] < -BIG62 / 2 || dens[i] > BIG62 / 2) sink().count("args.near_2^62");
      if(dens[i] < 0) sink().count("args.negative_denominator");
   }
}
static bool opAddRowRational(Ctx& c)
{
   Rng& g = c.g;
   if(!ratLP(c) || c.M->numRowsRational() >= MAXDIM || c.M->numRows() >= MAXDIM) return false;
   int len = pickDenseLen(g, c.M->numColsRational(), mayGrow(c)), nz;
   std::vector<long> nums, dens;
   pickDensePairs(g, len, nums, dens, nz);
   int nnz = pickNnz(g, nz);
   LPair lo, hi;
   pickRangeQ(g, lo, hi);
   InArr<long> pn(nums), pd(dens);
   vlog("  addRowRational(len=%d nnz=%d [%s,%s])", len, nnz, pairStr(lo).c_str(), pairStr(hi).c_str());
   {
      Call _(c, F_addRowRational);
      SoPlex_addRowRational(c.H, pn.p, pd.p, len, nnz, lo.n, lo.d, hi.n, hi.d);
   }
   if(!pn.unchanged(nums) || !pd.unchanged(dens)) viol(c, F_addRowRational, "input-modified", "an input array was modified");
   DSVectorBase<Rational> row(nz + 1);
   for(int i = 0; i < len; i++) if(nums[(size_t)i] != 0) row.add(i, mkQ(nums[(size_t)i], dens[(size_t)i]));
   c.M->addRowRational(LPRowBase<Rational>(mkQ(lo.n, lo.d), row, mkQ(hi.n, hi.d)));
   countPairs(nums, dens);
   countPairs({lo.n, hi.n}, {lo.d, hi.d});
   if(nz == 0) sink().count("args.zero_nonzeros");
   post(c, F_addRowRational);
   return true;
}
static bool opAddColRational(Ctx& c)
{
   Rng& g = c.g;
   if(!ratLP(c) || c.M->numColsRational() >= MAXDIM || c.M->numCols() >= MAXDIM) return false;
   int len = pickDenseLen(g, c.M->numRowsRational(), mayGrow(c)), nz;
   std::vector<long> nums, dens;
   pickDensePairs(g, len, nums, dens, nz);
   int nnz = pickNnz(g, nz);
   LPair lo, hi, obj = pickPair(g);
   pickRangeQ(g, lo, hi);
   InArr<long> pn(nums), pd(dens);
   vlog("  addColRational(len=%d nnz=%d obj=%s [%s,%s])", len, nnz, pairStr(obj).c_str(), pairStr(lo).c_str(), pairStr(hi).c_str());
   {
      Call _(c, F_addColRational);
      SoPlex_addColRational(c.H, pn.p, pd.p, len, nnz, obj.n, obj.d, lo.n, lo.d, hi.n, hi.d);
   }
   if(!pn.unchanged(nums) || !pd.unchanged(dens)) viol(c, F_addColRational, "input-modified", "an input array was modified");
   DSVectorBase<Rational> col(nz + 1);
   for(int i = 0; i < len; i++) if(nums[(size_t)i] != 0) col.add(i, mkQ(nums[(size_t)i], dens[(size_t)i]));
   c.M->addColRational(LPColBase<Rational>(mkQ(obj.n, obj.d), col, mkQ(hi.n, hi.d), mkQ(lo.n, lo.d)));
   countPairs(nums, dens);
   countPairs({lo.n, hi.n, obj.n}, {lo.d, hi.d, obj.d});
   if(nz == 0) sink().count("args.zero_nonzeros");
   post(c, F_addColRational);
   return true;
}
static VectorBase<Rational> toVecQ(const std::vector<long>& n, const std::vector<long>& d)
{
   VectorBase<Rational> r((int)n.size());
   for(size_t i = 0; i < n.size(); i++) r[(int)i] = mkQ(n[i], d[i]);
   return r;
}
// kind 0: objective, 1: lhs, 2: rhs
static bool opChangeVecRational(Ctx& c, int kind)
{
   Rng& g = c.g;
   if(!ratLP(c)) return false;
   int dim = kind == 0 ? c.M->numColsRational() : c.M->numRowsRational();
   std::vector<long> nums((size_t)dim), dens((size_t)dim);
   for(int i = 0; i < dim; i++)
   {
      LPair p = pickPair(g);
      if(kind == 1 && mkQ(p.n, p.d) > c.M->rhsRational(i))
      {
         long a, b;      // keep lhs <= rhs: reuse the current rhs if it is expressible, else a very small value
         if(fitsLong(c.M->rhsRational(i), a, b)) p = LPair{a, b};
         else p = LPair{-(BIG62 - 1), 1};
      }
      if(kind == 2 && mkQ(p.n, p.d) < c.M->lhsRational(i))
      {
         long a, b;
         if(fitsLong(c.M->lhsRational(i), a, b)) p = LPair{a, b};
         else p = LPair{BIG62 - 1, 1};
      }
      nums[(size_t)i] = p.n;
      dens[(size_t)i] = p.d;
   }
   for(int i = 0; i < dim; i++)
   {
      if(kind == 1 && mkQ(nums[(size_t)i], dens[(size_t)i]) > c.M->rhsRational(i)) return false;
      if(kind == 2 && mkQ(nums[(size_t)i], dens[(size_t)i]) < c.M->lhsRational(i)) return false;
   }
   InArr<long> pn(nums), pd(dens);
   Fn f = kind == 0 ? F_changeObjRational : kind == 1 ? F_changeLhsRational : F_changeRhsRational;
   {
      Call _(c, f);
      if(kind == 0) SoPlex_changeObjRational(c.H, pn.p, pd.p, dim);
      else if(kind == 1) SoPlex_changeLhsRational(c.H, pn.p, pd.p, dim);
      else SoPlex_changeRhsRational(c.H, pn.p, pd.p, dim);
   }
   if(!pn.unchanged(nums) || !pd.unchanged(dens)) viol(c, f, "input-modified", "an input array was modified");
   if(kind == 0) c.M->changeObjRational(toVecQ(nums, dens));
   else if(kind == 1) c.M->changeLhsRational(toVecQ(nums, dens));
   else c.M->changeRhsRational(toVecQ(nums, dens));
   countPairs(nums, dens);
   if(dim == 0) sink().count("args.dim_zero");
   post(c, f);
   return true;
}
static bool opChangeVarBoundsRational(Ctx& c)
{
   if(!ratLP(c) || c.M->numColsRational() == 0) return false;
   int j = c.g.range(0, c.M->numColsRational() - 1);
   LPair lo, hi;
   pickRangeQ(c.g, lo, hi);
   vlog("  changeVarBoundsRational(%d, %s, %s)", j, pairStr(lo).c_str(), pairStr(hi).c_str());
   {
      Call _(c, F_changeVarBoundsRational);
      SoPlex_changeVarBoundsRational(c.H, j, lo.n, lo.d, hi.n, hi.d);
   }
   c.M->changeBoundsRational(j, mkQ(lo.n, lo.d), mkQ(hi.n, hi.d));
   countPairs({lo.n, hi.n}, {lo.d, hi.d});
   post(c, F_changeVarBoundsRational);
   return true;
}

// ---- solve and scalar getters
static bool rationalSolveSelected(Ctx& c)
{
   int sm = c.M->intParam(SoPlex::SOLVEMODE);
   return !(sm == SoPlex::SOLVEMODE_REAL || (sm == SoPlex::SOLVEMODE_AUTO && c.M->realParam(SoPlex::FEASTOL) >= 1e-9
            && c.M->realParam(SoPlex::OPTTOL) >= 1e-9));
}
static bool opSolVecReal(Ctx& c, Fn f);
// The mirror's solve is first tried in a forked child.  returns 1: the C++ solve completes with status OPTIMAL, 0: completes
// with another status, -1: dies; digest: what the solve left behind in the child
static int probeOptimize(Ctx& c, uint64_t& digest)
{
   fflush(stdout);
   fflush(stderr);
   int fd[2];
   if(pipe(fd) != 0) return 1;
   pid_t pid = fork();
   if(pid < 0)
   {
      close(fd[0]);
      close(fd[1]);
      return 1;
   }
   if(pid == 0)
   {
      close(fd[0]);
      int nul = open("/dev/null", O_WRONLY);
      if(nul >= 0)
      {
         dup2(nul, 1);
         dup2(nul, 2);
      }
      alarm(60);
      int st = (int)c.M->optimize();
      uint64_t d = solveDigest(*c.M);
      ssize_t w = write(fd[1], &st, sizeof st);
      w = write(fd[1], &d, sizeof d);
      (void)w;
      _exit(0);
   }
   close(fd[1]);
   unsigned char buf[12];
   size_t got = 0;
   while(got < sizeof buf)
   {
      ssize_t r = read(fd[0], buf + got, sizeof buf - got);
      if(r < 0 && errno == EINTR) continue;
      if(r <= 0) break;
      got += (size_t)r;
   }
   close(fd[0]);
   int status = 0;
   while(waitpid(pid, &status, 0) < 0 && errno == EINTR) {}
   sink().count("probe.optimize");
   if(!WIFEXITED(status) || WEXITSTATUS(status) != 0 || got != sizeof buf) return -1;
   int st;
   memcpy(&st, buf, 4);
   memcpy(&digest, buf + 4, 8);
   return st == (int)SPxSolverBase<double>::OPTIMAL ? 1 : 0;
}
static bool opOptimize(Ctx& c)
{
   // manual sync mode: an exact solve requires synchronised LPs and the C interface has no sync call -> real solves only
   if(c.M->intParam(SoPlex::SYNCMODE) == SoPlex::SYNCMODE_MANUAL && rationalSolveSelected(c)) return false;
   // Exact solves of this tree read beyond internal arrays on some small LPs (found by ASan in SoPlexBase::_lowerFinite <-
   // _computeBoundsViolation / _transformUnbounded); without ASan such a solve silently depends on heap garbage and twin
   // objects diverge.  Exact solves are therefore performed only in the ASan flavour, where the probe below vets the C++
   // run, (and in the replay of the C test program); focus histories do without them in every flavour.
   if(rationalSolveSelected(c) && !c.ctest)
   {
      if(c.focus >= 0) return false;
#if !VL_ASAN
      sink().count("guard.exact_solve_skipped_without_asan");
      return false;
#endif
   }
   // a second exact solve right after an exact solve that ended INFEASIBLE crashes inside the C++ library
   // (_untransformFeasibility removes a column that is not there): such a re-solve is left to the exact-solve properties
   if(rationalSolveSelected(c) && (int)c.M->status() == (int)SPxSolverBase<double>::INFEASIBLE)
   {
      sink().count("guard.resolve_after_infeasible_exact_solve_skipped");
      return false;
   }
   // exact solves are run with the scaler off (see the guard in post())
   if(rationalSolveSelected(c) && c.M->intParam(SoPlex::SCALER) != SoPlex::SCALER_OFF)
   {
      if(!opSetIntParam(c, SoPlex::SCALER, SoPlex::SCALER_OFF)) return false;
      if(c.dead) return true;
   }
   // Precision boosting changes the process-wide default precision of the multiprecision type, so the second of two twin
   // objects solves differently from the first (reproducible in pure C++): exact solves run without it.
   if(rationalSolveSelected(c) && c.M->boolParam(SoPlex::PRECISION_BOOSTING))
   {
      opSetBoolParam(c, SoPlex::PRECISION_BOOSTING, 0);
      if(c.dead) return true;
   }
   // The exact solver of the C++ library has memory errors of its own on some of these small LPs.  C20 judges the wrapper
   // where the wrapped C++ call itself completes: the mirror's solve is first tried in a forked child; if the child dies
   // the solve is not part of this history.
   uint64_t probeDigest = 0;
   int probe = probeOptimize(c, probeDigest);
   if(probe < 0)
   {
      sink().count(rationalSolveSelected(c) ? "guard.cpp_optimize_dies_in_probe.rational" : "guard.cpp_optimize_dies_in_probe.real");
      c.dead = true;
      return true;
   }
   // Exact solves that do not end OPTIMAL (feasibility / unboundedness refinement) leave the C++ object with inconsistent
   // dimensions and results that depend on uninitialised memory (twin objects diverge in pure C++).  They are outside the
   // region in which C20 can be judged: the history performs exact solves only where the probe reports OPTIMAL.
   if(probe == 0 && rationalSolveSelected(c))
   {
      sink().count("guard.exact_solve_not_optimal_skipped");
      return false;
   }
   int st;
   {
      Call _(c, F_optimize);
      st = SoPlex_optimize(c.H);
   }
   int sm = (int)c.M->optimize();
   // Is the C++ solve itself reproducible here?  The mirror has now solved twice from the same state: once in the forked
   // child (before the handle's solve) and once here (after it).  If the two C++ runs disagree (order effects through
   // process-wide state, uninitialised memory in the exact solver) the twin comparison says nothing about the wrapper.
   if(solveDigest(*c.M) != probeDigest)
   {
      sink().count(rationalSolveSelected(c) ? "guard.cpp_solve_not_reproducible.rational" : "guard.cpp_solve_not_reproducible.real");
      g_track = -1;
      c.dead = true;
      return true;
   }
   int sh = (int)c.h().status();
   sink().count(std::string("status.") + std::to_string(st));
   sink().count(rationalSolveSelected(c) ? "solves.rational" : "solves.real");
   if(c.M->numIterations() > 0) sink().count("solves.with_iterations");
   vlog("  optimize -> %d (mirror %d) iters %d", st, sm, c.M->numIterations());
   if(st != sh) viol(c, F_optimize, "status-code", "SoPlex_optimize returned " + std::to_string(st) + " but status() of the same object is the enumerator " + std::to_string(sh));
   else if(st != sm) viol(c, F_optimize, "return-mismatch", "SoPlex_optimize returned " + std::to_string(st) + ", C++ optimize() on the mirror " + std::to_string(sm));
   post(c, F_optimize);
   if(c.inconsistent && c.M->hasSol())
   {
      // optimize -> get the solution is the most ordinary use of the interface: it is still performed once
      c.dead = false;
      int t = c.g.range(0, 2);
      opSolVecReal(c, t == 0 ? F_getPrimalReal : t == 1 ? F_getDualReal : F_getRedCostReal);
      c.dead = true;
   }
   return true;
}
static bool opScalarGetter(Ctx& c, Fn f)
{
   switch(f)
   {
   case F_getStatus:
   {
      int v;
      {
         Call _(c, f);
         v = SoPlex_getStatus(c.H);
      }
      int w = (int)c.M->status(), x = (int)c.h().status();
      if(v != x || v != w) viol(c, f, "status-code", "SoPlex_getStatus = " + std::to_string(v) + ", C++ status() enumerator " + std::to_string(x) + " (mirror " + std::to_string(w) + ")");
      break;
   }
   case F_getSolvingTime:
   {
      double v;
      {
         Call _(c, f);
         v = SoPlex_getSolvingTime(c.H);
      }
      double x = c.h().solveTime();      // timers differ between objects: compare with the same object's accessor
      if(!sameBits(v, x)) viol(c, f, "return-mismatch", "SoPlex_getSolvingTime = " + ds(v) + ", solveTime() of the same object = " + ds(x));
      break;
   }
   case F_getNumIterations:
   {
      int v;
      {
         Call _(c, f);
         v = SoPlex_getNumIterations(c.H);
      }
      int w = c.M->numIterations();
      if(v != w) viol(c, f, "return-mismatch", "SoPlex_getNumIterations = " + std::to_string(v) + ", C++ numIterations() = " + std::to_string(w));
      break;
   }
   case F_objValueReal:
   {
      double v;
      {
         Call _(c, f);
         v = SoPlex_objValueReal(c.H);
      }
      double w = c.M->objValueReal();
      if(!sameBits(v, w)) viol(c, f, "return-mismatch", "SoPlex_objValueReal = " + ds(v) + ", C++ objValueReal() = " + ds(w));
      break;
   }
   default:
      return false;
   }
   post(c, f);
   return true;
}
static bool opBasisStatus(Ctx& c, bool row)
{
   int dim = row ? c.M->numRows() : c.M->numCols();
   if(dim == 0) return false;
   int i = c.g.range(0, dim - 1), v;
   Fn f = row ? F_basisRowStatus : F_basisColStatus;
   {
      Call _(c, f);
      v = row ? SoPlex_basisRowStatus(c.H, i) : SoPlex_basisColStatus(c.H, i);
   }
   int w = row ? (int)c.M->basisRowStatus(i) : (int)c.M->basisColStatus(i);
   sink().count(std::string("basisstatus.") + std::to_string(v));
   // documented codes are the VarStatus enumerators
   static_assert((int)SPxSolverBase<double>::ON_UPPER == 0 && (int)SPxSolverBase<double>::ON_LOWER == 1 && (int)SPxSolverBase<double>::FIXED == 2
                 && (int)SPxSolverBase<double>::ZERO == 3 && (int)SPxSolverBase<double>::BASIC == 4 && (int)SPxSolverBase<double>::UNDEFINED == 5, "VarStatus codes");
   if(v != w) viol(c, f, "status-code", std::string(FN[f]) + "(" + std::to_string(i) + ") = " + std::to_string(v) + ", C++ enumerator " + std::to_string(w));
   post(c, f);
   return true;
}
// ---- array getters
// getPrimalReal / getDualReal / getRedCostReal forward to C++ getXxxReal(R*, dim): dim is the length of the array; the
// C++ call writes numCols/numRows entries if a solution exists and dim is large enough, otherwise nothing.
static bool opSolVecReal(Ctx& c, Fn f)
{
   Rng& g = c.g;
   int cur = f == F_getDualReal ? c.M->numRows() : c.M->numCols();
   int dim = pickOutDim(g, cur);
   if(cur > 0 && g.chance(0.05)) dim = cur - 1;        // too short: the C++ call refuses and must not write
   int pad = padOutputs(g);
   // the C++ getters copy their whole internal solution vector; if that is longer than dim (seen after infeasible exact
   // solves) the overrun is observed with canaries instead of letting the red zone kill the rest of the history
   int internal = f == F_getPrimalReal ? c.M->_solReal._primal.dim() : f == F_getDualReal ? c.M->_solReal._dual.dim() : c.M->_solReal._redCost.dim();
   internal = std::max(internal, f == F_getPrimalReal ? c.h()._solReal._primal.dim() : f == F_getDualReal ? c.h()._solReal._dual.dim() : c.h()._solReal._redCost.dim());
   int padM = PADN;
   if(c.M->hasSol() && dim >= cur && internal > dim)
   {
      pad = padM = std::max(PADN, internal - dim + 1);
      sink().count("getter.internal_vector_longer_than_dim");
   }
   OutArr<double> a(dim, pad, canD()), b(dim, padM, canD());
   bool ok;
   {
      Call _(c, f);
      if(f == F_getPrimalReal) SoPlex_getPrimalReal(c.H, a.p, dim);
      else if(f == F_getDualReal) SoPlex_getDualReal(c.H, a.p, dim);
      else SoPlex_getRedCostReal(c.H, a.p, dim);
   }
   if(f == F_getPrimalReal) ok = c.M->getPrimalReal(b.p, dim);
   else if(f == F_getDualReal) ok = c.M->getDualReal(b.p, dim);
   else ok = c.M->getRedCostReal(b.p, dim);
   sink().count(ok ? "getter.solution_available" : "getter.no_solution");
   if(dim > cur) sink().count("args.dim_larger_than_needed");
   if(!a.padsIntact()) viol(c, f, "writes-beyond-dim", std::string(FN[f]) + " wrote outside the " + std::to_string(dim) + " elements of its array (numRows/numCols = " +
                               std::to_string(cur) + (b.padsIntact() ? ")" : "); the wrapped C++ call does the same on the mirror"));
   // with a solution: entries 0..numCols/numRows-1 carry the values (the rest of a longer array is unspecified);
   // without: nothing may be written
   for(int i = 0; i < (ok ? std::min(dim, cur) : dim); i++) if(!sameBits(a.p[i], b.p[i]))
      {
         viol(c, f, "value-mismatch", "element " + std::to_string(i) + " of " + std::to_string(dim) + ": C array " + ds(a.p[i]) + ", C++ getter " + ds(b.p[i]) +
              (ok ? "" : " (C++ call returned false: nothing may be written)"));
         break;
      }
   post(c, f);
   return true;
}
// getLowerReal / getUpperReal / getObjReal(array, dim) wrap the C++ getXxxReal(VectorBase&) with a vector of dim entries.
// On a scaled LP that C++ call requires (asserts) a vector of exactly numCols entries, so dim = numCols is the only
// valid value.  The oracle is the wrapped vector getter itself (on scaled LPs it differs from lowerReal(j) for infinite
// bounds, which is the C++ library's business, not the wrapper's).
static bool opColVecGetter(Ctx& c, Fn f)
{
   Rng& g = c.g;
   int n = c.M->numCols();
   int dim = n;
   int pad = padOutputs(g);
   OutArr<double> a(dim, pad, canD());
   VectorBase<double> want(n);
   if(f == F_getLowerReal) c.M->getLowerReal(want);
   else if(f == F_getUpperReal) c.M->getUpperReal(want);
   else c.M->getObjReal(want);
   {
      Call _(c, f);
      if(f == F_getLowerReal) SoPlex_getLowerReal(c.H, a.p, dim);
      else if(f == F_getUpperReal) SoPlex_getUpperReal(c.H, a.p, dim);
      else SoPlex_getObjReal(c.H, a.p, dim);
   }
   if(c.M->_realLP->isScaled()) sink().count("getter.on_scaled_lp");
   if(!a.padsIntact()) viol(c, f, "writes-beyond-dim", std::string(FN[f]) + " wrote outside the " + std::to_string(dim) + " elements of its array");
   for(int j = 0; j < n; j++)
   {
      double w = want[j];
      if(!sameBits(a.p[j], w))
      {
         viol(c, f, "value-mismatch", "element " + std::to_string(j) + ": C array " + ds(a.p[j]) + ", C++ getter " + ds(w));
         break;
      }
   }
   post(c, f);
   return true;
}
// getRowVectorReal(i, &nnz, indices, coefs): the caller cannot know the number of non-zeros in advance; the only safe
// length is numCols (sometimes larger here).  The first *nnz elements carry the entries.
static bool opGetRowVectorReal(Ctx& c)
{
   Rng& g = c.g;
   int m = c.M->numRows(), n = c.M->numCols();
   if(m == 0) return false;
   int i = g.range(0, m - 1), L = pickOutDim(g, n);
   int pad = padOutputs(g);
   OutArr<long> idx(L, pad, CAN_L);
   OutArr<double> coef(L, pad, canD());
   OutArr<int> nnz(1, pad, CAN_I);
   {
      Call _(c, F_getRowVectorReal);
      SoPlex_getRowVectorReal(c.H, i, nnz.p, idx.p, coef.p);
   }
   DSVectorBase<double> row;
   c.M->getRowVectorReal(i, row);
   Fn f = F_getRowVectorReal;
   if(!idx.padsIntact() || !coef.padsIntact() || !nnz.padsIntact()) viol(c, f, "writes-beyond-dim", "wrote outside arrays of numCols+" + std::to_string(L - n) + " elements");
   if(nnz.p[0] != row.size()) viol(c, f, "value-mismatch", "*nnonzeros = " + std::to_string(nnz.p[0]) + ", C++ row has " + std::to_string(row.size()));
   else
   {
      std::map<long, uint64_t> x, y;
      for(int k = 0; k < row.size(); k++)
      {
         x[idx.p[k]] = dbits(coef.p[k]);
         y[row.index(k)] = dbits(row.value(k));
      }
      if(x != y) viol(c, f, "value-mismatch", "entries of row " + std::to_string(i) + " differ from C++ getRowVectorReal");
   }
   if(row.size() == 0) sink().count("getter.empty_row");
   post(c, f);
   return true;
}
static bool opGetRowBoundsReal(Ctx& c)
{
   int m = c.M->numRows();
   if(m == 0) return false;
   int i = c.g.range(0, m - 1);
   int pad = padOutputs(c.g);
   OutArr<double> lb(1, pad, canD()), ub(1, pad, canD());
   {
      Call _(c, F_getRowBoundsReal);
      SoPlex_getRowBoundsReal(c.H, i, lb.p, ub.p);
   }
   Fn f = F_getRowBoundsReal;
   if(!lb.padsIntact() || !ub.padsIntact()) viol(c, f, "writes-beyond-dim", "wrote outside the single output values");
   if(!sameBits(lb.p[0], c.M->lhsReal(i)) || !sameBits(ub.p[0], c.M->rhsReal(i)))
      viol(c, f, "value-mismatch", "row " + std::to_string(i) + ": C [" + ds(lb.p[0]) + "," + ds(ub.p[0]) + "], C++ [" + ds(c.M->lhsReal(i)) + "," + ds(c.M->rhsReal(i)) + "]");
   post(c, f);
   return true;
}
// rational row getters hand back long numerator/denominator pairs: comparable only where the C++ value fits into longs
static bool pairEquals(long num, long den, const Rational& q, bool& representable)
{
   long a, b;
   representable = fitsLong(q, a, b);
   if(!representable) return true;
   return num == a && den == b;
}
static bool opGetRowBoundsRational(Ctx& c)
{
   if(!ratLP(c) || c.M->numRowsRational() == 0) return false;
   int i = c.g.range(0, c.M->numRowsRational() - 1);
   int pad = padOutputs(c.g);
   OutArr<long> ln(1, pad, CAN_L), ld(1, pad, CAN_L), un(1, pad, CAN_L), ud(1, pad, CAN_L);
   {
      Call _(c, F_getRowBoundsRational);
      SoPlex_getRowBoundsRational(c.H, i, ln.p, ld.p, un.p, ud.p);
   }
   Fn f = F_getRowBoundsRational;
   if(!ln.padsIntact() || !ld.padsIntact() || !un.padsIntact() || !ud.padsIntact()) viol(c, f, "writes-beyond-dim", "wrote outside the single output values");
   bool r1, r2;
   bool e1 = pairEquals(ln.p[0], ld.p[0], c.M->lhsRational(i), r1), e2 = pairEquals(un.p[0], ud.p[0], c.M->rhsRational(i), r2);
   sink().count(r1 && r2 ? "getter.rational_pair_checked" : "getter.rational_pair_unrepresentable");
   if(!e1 || !e2) viol(c, f, "value-mismatch", "row " + std::to_string(i) + ": C [" + std::to_string(ln.p[0]) + "/" + std::to_string(ld.p[0]) + "," + std::to_string(un.p[0]) + "/" +
                          std::to_string(ud.p[0]) + "], C++ [" + c.M->lhsRational(i).str() + "," + c.M->rhsRational(i).str() + "]");
   post(c, f);
   return true;
}
static bool opGetRowVectorRational(Ctx& c)
{
   Rng& g = c.g;
   if(!ratLP(c) || c.M->numRowsRational() == 0) return false;
   int i = g.range(0, c.M->numRowsRational() - 1), n = c.M->numColsRational(), L = pickOutDim(g, n);
   int pad = padOutputs(g);
   OutArr<long> idx(L, pad, CAN_L), cn(L, pad, CAN_L), cd(L, pad, CAN_L);
   OutArr<int> nnz(1, pad, CAN_I);
   if(c.M->rowVectorRational(i).size() == 0) sink().count("getter.empty_row");
   else sink().count("getter.nonempty_rational_row");
   {
      Call _(c, F_getRowVectorRational);
      SoPlex_getRowVectorRational(c.H, i, nnz.p, idx.p, cn.p, cd.p);
   }
   Fn f = F_getRowVectorRational;
   const SVectorBase<Rational>& row = c.M->rowVectorRational(i);
   if(!idx.padsIntact() || !cn.padsIntact() || !cd.padsIntact() || !nnz.padsIntact()) viol(c, f, "writes-beyond-dim", "wrote outside arrays of numCols+" + std::to_string(L - n) + " elements");
   if(nnz.p[0] != row.size()) viol(c, f, "value-mismatch", "*nnonzeros = " + std::to_string(nnz.p[0]) + ", C++ row has " + std::to_string(row.size()));
   else
   {
      std::map<long, std::string> x, y;
      bool allrep = true;
      for(int k = 0; k < row.size(); k++)
      {
         long a, b;
         if(!fitsLong(row.value(k), a, b))
         {
            allrep = false;
            break;
         }
         y[row.index(k)] = std::to_string(a) + "/" + std::to_string(b);
         x[idx.p[k]] = std::to_string(cn.p[k]) + "/" + std::to_string(cd.p[k]);
      }
      sink().count(allrep ? "getter.rational_pair_checked" : "getter.rational_pair_unrepresentable");
      if(allrep && x != y) viol(c, f, "value-mismatch", "entries of rational row " + std::to_string(i) + " differ from C++ rowVectorRational");
   }
   post(c, f);
   return true;
}

// ---- returned strings: NUL-terminated inside their allocation, equal to the C++ value, releasable with free()
static void checkString(Ctx& c, Fn f, char* p, const std::string& expect, bool releaseAsDocumented)
{
   if(p == nullptr)
   {
      viol(c, f, "null-string", "returned NULL");
      return;
   }
   BlockInfo bi = blockInfo(p);
   sink().count("string.checked");
   sink().count("string.alloc_kind." + std::to_string(bi.kind));
   const char* z = bi.size > 0 ? (const char*)memchr(p, 0, bi.size) : nullptr;
   if(bi.size == 0) sink().count("string.block_size_unknown");
   else if(z == nullptr)
      viol(c, f, "unterminated", "returned block of " + std::to_string(bi.size) + " byte(s) contains no NUL; bytes [" + jesc(std::string(p, std::min<size_t>(bi.size, 40))) +
           "], C++ value [" + expect + "]");
   else if(std::string(p) != expect) viol(c, f, "string-mismatch", "returned [" + std::string(p).substr(0, 200) + "], C++ value [" + expect.substr(0, 200) + "]");
   // release.  The header says "the caller needs to ensure the char array is freed"; a C caller has only free().
   if(bi.kind == 2 || bi.kind == 3)
   {
      viol(c, f, "free-mismatch", std::string("the returned array is allocated with operator new") + (bi.kind == 2 ? "[]" : "") +
           "; the header tells the C caller to free it, and free() on it is an allocator mismatch");
      if(releaseAsDocumented && VL_ASAN)
      {
         flushSummary();
         free(p);
      }
      if(releaseAsDocumented && VL_ASAN) {}           // let AddressSanitizer have the last word (dedicated cases only)
      else if(bi.kind == 2) delete[] p;
      else delete p;
   }
   else if(bi.kind == 1) free(p);
   else
   {
      sink().count("string.release_skipped");
#if VL_ASAN
      __lsan_ignore_object(p);
#endif
   }
}
static bool opObjValueRationalString(Ctx& c, bool documentedFree = false)
{
   char* p;
   {
      Call _(c, F_objValueRationalString);
      p = SoPlex_objValueRationalString(c.H);
   }
   std::string expect = c.M->objValueRational().str();
   checkString(c, F_objValueRationalString, p, expect, documentedFree);
   post(c, F_objValueRationalString);
   return true;
}
// getPrimalRationalString(dim): the header gives no meaning for dim; the C test passes numCols, which is the only value
// for which the wrapper's own loop stays inside the vector the C++ getter returns -> dim = numCols.
static bool opGetPrimalRationalString(Ctx& c, bool documentedFree = false)
{
   int dim = c.M->numCols();
   if(c.M->_rationalLP != nullptr && c.M->numColsRational() != dim) return false;
   char* p;
   {
      Call _(c, F_getPrimalRationalString);
      p = SoPlex_getPrimalRationalString(c.H, dim);
   }
   VectorBase<Rational> v(dim);
   bool ok = c.M->getPrimalRational(v);
   sink().count(ok ? "getter.solution_available" : "getter.no_solution");
   std::string expect;
   for(int i = 0; i < dim; i++) expect += v[i].str() + " ";
   checkString(c, F_getPrimalRationalString, p, expect, documentedFree);
   post(c, F_getPrimalRationalString);
   return true;
}
// ---- files
// The file functions of the C++ class can throw (e.g. strict_fstream::Exception for a file that cannot be opened, an
// SPxInternalCodeException from the LP writer).  That is the C++ call's own behaviour (properties C12-C14), so here only
// the equality is judged: the C function must throw exactly when the wrapped C++ call throws.  Returns true if the
// history can go on (nobody threw).
template <class FH, class FM> static bool callBoth(Ctx& c, Fn f, FH callH, FM callM)
{
   bool th = false, tm = false;
   std::string wh, wm;
   {
      Call _(c, f);
      try
      {
         callH();
      }
      catch(const SPxException& e)
      {
         th = true;
         wh = e.what();
      }
      catch(const std::exception& e)
      {
         th = true;
         wh = e.what();
      }
   }
   try
   {
      callM();
   }
   catch(const SPxException& e)
   {
      tm = true;
      wm = e.what();
   }
   catch(const std::exception& e)
   {
      tm = true;
      wm = e.what();
   }
   g_track = -1;
   if(th != tm) viol(c, f, "exception-mismatch", std::string(FN[f]) + (th ? " threw [" + wh + "] but the C++ call did not" : " returned but the C++ call threw [" + wm + "]"));
   if(th || tm)
   {
      sink().count(std::string("exception.") + FN[f]);
      vlog("  exception: %s", (th ? wh : wm).c_str());
      c.dead = true;      // both objects are in whatever state the exception left them: end of this history
      return false;
   }
   return true;
}
static std::string slurp(const std::string& p, bool& ok)
{
   std::ifstream f(p, std::ios::binary);
   ok = (bool)f;
   std::ostringstream o;
   o << f.rdbuf();
   return o.str();
}
static bool opWriteFileReal(Ctx& c)
{
   const char* ext = c.g.chance(0.5) ? ".lp" : ".mps";
   std::string fh = c.newFile(ext), fm = c.newFile(ext);
   char* name = heapStr(fh);
   bool cont = callBoth(c, F_writeFileReal, [&]() { SoPlex_writeFileReal(c.H, name); }, [&]() { c.M->writeFile(fm.c_str()); });
   free(name);
   if(!cont) return true;
   bool ok1, ok2;
   std::string a = slurp(fh, ok1), b = slurp(fm, ok2);
   if(ok1 != ok2 || a != b) viol(c, F_writeFileReal, "file-mismatch", "file written through the C interface differs from the file written by C++ writeFile (" +
                                    std::to_string(a.size()) + " vs " + std::to_string(b.size()) + " bytes)");
   else if(ok1)
   {
      c.lastInstFile = fh;
      sink().count("files.written_equal");
   }
   post(c, F_writeFileReal);
   return true;
}
static std::string randomLPText(Rng& g)
{
   int n = g.range(1, 4), m = g.range(0, 3);
   std::ostringstream o;
   o << (g.chance(0.5) ? "Minimize\n obj:" : "Maximize\n obj:");
   for(int j = 0; j < n; j++) o << " + " << g.range(0, 5) << " x" << j;
   o << "\nSubject To\n";
   for(int i = 0; i < m; i++)
   {
      o << " c" << i << ":";
      for(int j = 0; j < n; j++) if(g.chance(0.7)) o << (g.chance(0.5) ? " + " : " - ") << g.range(1, 9) << (g.chance(0.3) ? ".5" : "") << " x" << j;
      o << " + 1 x0 " << (g.chance(0.5) ? "<= " : ">= ") << g.range(-5, 20) << "\n";
   }
   o << "Bounds\n";
   for(int j = 0; j < n; j++) if(g.chance(0.6)) o << " " << g.range(-3, 0) << " <= x" << j << " <= " << g.range(1, 8) << "\n";
   o << "End\n";
   return o.str();
}
static bool opReadInstanceFile(Ctx& c)
{
   Rng& g = c.g;
   std::string path;
   int t = g.range(0, 19);
   if(t == 0) path = cli.tmpdir + "/c20_does_not_exist.lp";
   else if(t <= 9 && !c.lastInstFile.empty()) path = c.lastInstFile;
   else
   {
      path = c.newFile(".lp");
      std::ofstream f(path);
      f << randomLPText(g);
   }
   char* name = heapStr(path);
   int r = -1;
   bool w = false;
   bool cont = callBoth(c, F_readInstanceFile, [&]() { r = SoPlex_readInstanceFile(c.H, name); }, [&]() { w = c.M->readFile(name); });
   free(name);
   if(!cont) return true;
   sink().count(std::string("ret.readInstanceFile.") + std::to_string(r));
   if(r != (int)w) viol(c, F_readInstanceFile, "return-mismatch", "SoPlex_readInstanceFile = " + std::to_string(r) + ", C++ readFile = " + std::to_string((int)w));
   post(c, F_readInstanceFile);
   return true;
}
static bool opReadBasisFile(Ctx& c)
{
   Rng& g = c.g;
   std::string path;
   if(c.M->hasBasis() && g.chance(0.8))
   {
      path = c.newFile(".bas");
      c.M->writeBasisFile(path.c_str());
   }
   else if(!c.lastBasisFile.empty() && g.chance(0.7)) path = c.lastBasisFile;
   else if(g.chance(0.08)) path = cli.tmpdir + "/c20_does_not_exist.bas";
   else return false;
   c.lastBasisFile = path;
   char* name = heapStr(path);
   int r = -1;
   bool w = false;
   bool cont = callBoth(c, F_readBasisFile, [&]() { r = SoPlex_readBasisFile(c.H, name); }, [&]() { w = c.M->readBasisFile(name); });
   free(name);
   if(!cont) return true;
   sink().count(std::string("ret.readBasisFile.") + std::to_string(r));
   if(r != (int)w) viol(c, F_readBasisFile, "return-mismatch", "SoPlex_readBasisFile = " + std::to_string(r) + ", C++ readBasisFile = " + std::to_string((int)w));
   post(c, F_readBasisFile);
   return true;
}
static bool opReadSettingsFile(Ctx& c)
{
   Rng& g = c.g;
   std::string path;
   int t = g.range(0, 19);
   if(t == 0) path = cli.tmpdir + "/c20_does_not_exist.set";
   else if(t <= 12)
   {
      path = c.newFile(".set");
      c.M->saveSettingsFile(path.c_str(), g.chance(0.5));
   }
   else
   {
      path = c.newFile(".set");
      std::ofstream f(path);
      f << "# written by h_capi\nint:iterlimit = " << g.range(5, 900) << "\nbool:lifting = " << (g.chance(0.5) ? "true" : "false") << "\nreal:feastol = 1e-"
        << g.range(5, 8) << "\nint:pricer = " << g.range(0, 5) << "\n";
   }
   char* name = heapStr(path);
   int r = -1;
   bool w = false;
   bool cont = callBoth(c, F_readSettingsFile, [&]() { r = SoPlex_readSettingsFile(c.H, name); }, [&]() { w = c.M->loadSettingsFile(name); });
   free(name);
   if(!cont) return true;
   sink().count(std::string("ret.readSettingsFile.") + std::to_string(r));
   if(r != (int)w) viol(c, F_readSettingsFile, "return-mismatch", "SoPlex_readSettingsFile = " + std::to_string(r) + ", C++ loadSettingsFile = " + std::to_string((int)w));
   post(c, F_readSettingsFile);
   return true;
}

// ------------------------------------------------------------------------------------------------ histories
// functions whose defects (if any) abort the process: exercised only in their own short "focus" cases, so that the
// histories of all other functions stay alive
static const std::vector<Fn>& riskyFns()
{
   static const std::vector<Fn> r = {F_getRowVectorRational};
   return r;
}
static bool isRisky(Fn f)
{
   for(Fn r : riskyFns()) if(r == f) return true;
   return false;
}
struct OpEnt
{
   Fn f;
   double w;
   std::function<bool(Ctx&)> run;
};
static const std::vector<OpEnt>& opTable()
{
   static const std::vector<OpEnt> t =
   {
      {F_setIntParam, 2.0, [](Ctx & c) { return opSetIntParam(c); }},
      {F_setBoolParam, 1.0, [](Ctx & c) { return opSetBoolParam(c); }},
      {F_setRealParam, 1.0, opSetRealParam},
      {F_getIntParam, 1.0, opGetIntParam},
      {F_setRational, 0.4, opSetRational},
      {F_numRows, 1.0, [](Ctx & c) { return opNumRowsCols(c, true); }},
      {F_numCols, 1.0, [](Ctx & c) { return opNumRowsCols(c, false); }},
      {F_addRowReal, 2.5, opAddRowReal},
      {F_addColReal, 2.5, opAddColReal},
      {F_removeRowReal, 0.8, opRemoveRowReal},
      {F_removeColReal, 0.8, opRemoveColReal},
      {F_clearLPReal, 0.3, opClearLPReal},
      {F_changeObjReal, 1.0, [](Ctx & c) { return opChangeVecReal(c, VK_OBJ); }},
      {F_changeLhsReal, 1.0, [](Ctx & c) { return opChangeVecReal(c, VK_LHS); }},
      {F_changeRhsReal, 1.0, [](Ctx & c) { return opChangeVecReal(c, VK_RHS); }},
      {F_changeRangeReal, 1.0, [](Ctx & c) { return opChangeVecReal(c, VK_RANGE); }},
      {F_changeBoundsReal, 1.0, [](Ctx & c) { return opChangeVecReal(c, VK_BOUNDS); }},
      {F_changeLowerReal, 1.0, [](Ctx & c) { return opChangeVecReal(c, VK_LOWER); }},
      {F_changeUpperReal, 1.0, [](Ctx & c) { return opChangeVecReal(c, VK_UPPER); }},
      {F_changeRowLhsReal, 1.0, [](Ctx & c) { return opChangeOneReal(c, OK_ROWLHS); }},
      {F_changeRowRhsReal, 1.0, [](Ctx & c) { return opChangeOneReal(c, OK_ROWRHS); }},
      {F_changeRowRangeReal, 1.0, [](Ctx & c) { return opChangeOneReal(c, OK_ROWRANGE); }},
      {F_changeVarBoundsReal, 1.0, [](Ctx & c) { return opChangeOneReal(c, OK_VARBOUNDS); }},
      {F_changeVarLowerReal, 1.0, [](Ctx & c) { return opChangeOneReal(c, OK_VARLOWER); }},
      {F_changeVarUpperReal, 1.0, [](Ctx & c) { return opChangeOneReal(c, OK_VARUPPER); }},
      {F_addRowRational, 2.5, opAddRowRational},
      {F_addColRational, 2.5, opAddColRational},
      {F_changeObjRational, 1.5, [](Ctx & c) { return opChangeVecRational(c, 0); }},
      {F_changeLhsRational, 1.5, [](Ctx & c) { return opChangeVecRational(c, 1); }},
      {F_changeRhsRational, 1.5, [](Ctx & c) { return opChangeVecRational(c, 2); }},
      {F_changeVarBoundsRational, 1.5, opChangeVarBoundsRational},
      {F_optimize, 4.0, opOptimize},
      {F_getStatus, 1.0, [](Ctx & c) { return opScalarGetter(c, F_getStatus); }},
      {F_getSolvingTime, 1.0, [](Ctx & c) { return opScalarGetter(c, F_getSolvingTime); }},
      {F_getNumIterations, 1.0, [](Ctx & c) { return opScalarGetter(c, F_getNumIterations); }},
      {F_objValueReal, 1.0, [](Ctx & c) { return opScalarGetter(c, F_objValueReal); }},
      {F_basisRowStatus, 1.0, [](Ctx & c) { return opBasisStatus(c, true); }},
      {F_basisColStatus, 1.0, [](Ctx & c) { return opBasisStatus(c, false); }},
      {F_getPrimalReal, 1.2, [](Ctx & c) { return opSolVecReal(c, F_getPrimalReal); }},
      {F_getDualReal, 1.2, [](Ctx & c) { return opSolVecReal(c, F_getDualReal); }},
      {F_getRedCostReal, 1.2, [](Ctx & c) { return opSolVecReal(c, F_getRedCostReal); }},
      {F_getLowerReal, 1.0, [](Ctx & c) { return opColVecGetter(c, F_getLowerReal); }},
      {F_getUpperReal, 1.0, [](Ctx & c) { return opColVecGetter(c, F_getUpperReal); }},
      {F_getObjReal, 1.0, [](Ctx & c) { return opColVecGetter(c, F_getObjReal); }},
      {F_getRowVectorReal, 1.2, opGetRowVectorReal},
      {F_getRowBoundsReal, 1.0, opGetRowBoundsReal},
      {F_getRowBoundsRational, 1.5, opGetRowBoundsRational},
      {F_getRowVectorRational, 3.0, opGetRowVectorRational},
      {F_objValueRationalString, 1.0, [](Ctx & c) { return opObjValueRationalString(c); }},
      {F_getPrimalRationalString, 1.0, [](Ctx & c) { return opGetPrimalRationalString(c); }},
      {F_writeFileReal, 0.7, opWriteFileReal},
      {F_readInstanceFile, 0.7, opReadInstanceFile},
      {F_readBasisFile, 0.7, opReadBasisFile},
      {F_readSettingsFile, 0.6, opReadSettingsFile},
   };
   return t;
}

static void randomStep(Ctx& c)
{
   const auto& T = opTable();
   int n = c.M->numCols(), m = c.M->numRows();
   for(int attempt = 0; attempt < 30; attempt++)
   {
      double tot = 0;
      std::vector<double> w(T.size());
      for(size_t i = 0; i < T.size(); i++)
      {
         double x = T[i].w;
         Fn f = T[i].f;
         if(isRisky(f)) x = (c.focus == (int)f) ? (m > 0 ? 30.0 : 0.0) : 0.0;
         bool adds = f == F_addRowReal || f == F_addColReal || f == F_addRowRational || f == F_addColRational;
         if(adds && (n < 2 || m < 2)) x *= 4.0;         // build something first
         if(f == F_optimize && (n == 0 || m == 0)) x *= 0.15;
         bool solGetter = f == F_getPrimalReal || f == F_getDualReal || f == F_getRedCostReal || f == F_objValueReal || f == F_objValueRationalString
                          || f == F_getPrimalRationalString || f == F_basisRowStatus || f == F_basisColStatus || f == F_getNumIterations || f == F_getSolvingTime;
         if(solGetter) x *= c.M->hasSol() ? 3.0 : 0.4;
         w[i] = x;
         tot += x;
      }
      double r = c.g.unit() * tot;
      size_t pick = 0;
      for(size_t i = 0; i < T.size(); i++)
      {
         if(r < w[i])
         {
            pick = i;
            break;
         }
         r -= w[i];
         pick = i;
      }
      if(T[pick].run(c)) return;
   }
}

// Leak audit (ASan flavour).  Blocks allocated inside C calls / the mirror's C++ calls that survive the destruction of both
// objects are candidates; LeakSanitizer decides and attributes: its report is captured and each direct leak is assigned
// to the first SoPlex source frame below the allocator.  A leak whose first SoPlex frame is a wrapper in
// soplex_interface.cpp is the wrapper's own; leaks allocated deeper in the C++ library happen equally in the wrapped C++
// call and are only counted.
static void leakAudit(Ctx& c)
{
#if VL_ASAN
   sink().count("leak.audits");
   if(g_lt_overflow) sink().count("leak.table_overflow");
   if(g_lt_live == 0) return;
   sink().count("leak.audits_with_survivors");
   std::string base = cli.tmpdir + "/c20_lsan_" + std::to_string((long)getpid());
   std::string rpt = base + "." + std::to_string((long)getpid());
   unlink(rpt.c_str());
   fflush(stderr);
   __sanitizer_set_report_path(base.c_str());
   int leaks = __lsan_do_recoverable_leak_check();      // the table holds masked pointers only: it keeps nothing alive
   __sanitizer_set_report_path("stderr");
   if(leaks)
   {
      bool ok;
      std::string txt = slurp(rpt, ok);
      if(verbose) fprintf(stderr, "%s\n", txt.c_str());
      std::istringstream in(txt);
      std::string line, kind;
      bool open = false;
      std::map<std::string, std::string> wrapperLeaks;     // function -> first description
      while(std::getline(in, line))
      {
         if(line.find("leak of ") != std::string::npos && line.find("allocated from:") != std::string::npos)
         {
            kind = line.find("Direct") != std::string::npos ? "direct" : "indirect";
            open = true;
            continue;
         }
         if(!open || line.find("    #") == std::string::npos) continue;
         bool sx = line.find("/src/soplex") != std::string::npos;
         if(!sx) continue;
         open = false;      // first SoPlex frame of this leak decides
         size_t p = line.find(" in ");
         std::string fn = p == std::string::npos ? "?" : line.substr(p + 4);
         fn = fn.substr(0, fn.find_first_of(" ("));
         if(line.find("soplex_interface.cpp") != std::string::npos && fn.rfind("SoPlex_", 0) == 0)
         {
            if(kind == "direct" && !wrapperLeaks.count(fn)) wrapperLeaks[fn] = line.substr(line.find(" in ") + 4);
         }
         else
         {
            sink().count("leak.in_cpp_library." + kind);
            size_t q = line.rfind('/');
            std::string site = q == std::string::npos ? fn : line.substr(q + 1);      // file:line of the first SoPlex frame
            sink().seen("leak_sites_in_cpp_library", fnv(site));
            static std::set<std::string> noted;
            if(c.k < 48 && kind == "direct" && noted.insert(site).second && noted.size() <= 3)
               sink().note("leak-in-cpp-library", "LeakSanitizer: direct leak allocated at " + site + " (happens equally in the wrapped C++ call; not judged by C20)");
         }
      }
      for(auto& kv : wrapperLeaks)
      {
         int f = -1;
         for(int i = 0; i < F_COUNT; i++) if(kv.first == FN[i]) f = i;
         if(f >= 0) viol(c, (Fn)f, "leak", "LeakSanitizer: memory allocated directly in the wrapper is never released: " + kv.second);
         else viol(c, kv.first, "leak", "LeakSanitizer: memory allocated directly in the wrapper is never released: " + kv.second);
      }
   }
   else sink().count("leak.survivors_reachable");
   unlink(rpt.c_str());
   for(size_t i = 0; i < LT_SIZE; i++) if(g_lt[i].key > 1) __lsan_ignore_object((const void*)(g_lt[i].key ^ LT_MASK));
#else
   (void)c;
#endif
}

static void finishCase(Ctx& c)
{
   opFree(c);
   for(auto& f : c.files) unlink(f.c_str());
#if VL_ASAN
   g_in_case = false;
#endif
   leakAudit(c);
   sink().seen("nontrivial", c.seqhash);
   sink().seen("history_lengths", (uint64_t)c.ncalls);
}

static void startHistory(Ctx& c)
{
#if VL_ASAN
   ltReset();
   g_in_case = true;
#endif
   opCreate(c);
   if(c.dead) return;
   opSetIntParam(c, SoPlex::VERBOSITY, 0);
   opSetIntParam(c, SoPlex::ITERLIMIT, 2000);
}

// general history: mode prologue, then random valid calls
static void caseGeneral(Ctx& c, const std::string& mode)
{
   Rng& g = c.g;
   startHistory(c);
   if(c.dead) return;
   if(mode == "rational") opSetRational(c);
   else if(mode == "auto") opSetIntParam(c, SoPlex::SYNCMODE, SoPlex::SYNCMODE_AUTO);
   else if(mode == "manual") opSetIntParam(c, SoPlex::SYNCMODE, SoPlex::SYNCMODE_MANUAL);
   if(g.chance(0.5)) opSetIntParam(c, SoPlex::OBJSENSE, g.chance(0.5) ? -1 : 1);
   while(c.room() && c.ncalls < c.maxCalls - 1) randomStep(c);
}

// the C test program (tests/c_interface/main.c), call by call, with the values it asserts; returned strings are
// released with free() as the header documents
static void caseCTest(Ctx& c, int part)
{
   c.ctest = true;
   startHistory(c);
   if(c.dead) return;
   auto expectD = [&](const char* what, double got, double want)
   {
      if(got != want) viol(c, "ctest", what, std::string("the C test program expects ") + ds(want) + ", got " + ds(got));
   };
   double infty = 10e+20;
   if(part == 0 || part == 1)
   {
      opSetIntParam(c, 0, -1);
      if(part == 0)
      {
         std::vector<double> e1 = {-1.0}, e2 = {1.0}, lhs = {-10.0};
         InArr<double> a1(e1), a2(e2), al(lhs);
         {
            Call _(c, F_addColReal);
            SoPlex_addColReal(c.H, a1.p, 1, 1, 1.0, 0.0, infty);
         }
         DSVectorBase<double> c1(2), c2(2);
         c1.add(0, -1.0);
         c2.add(0, 1.0);
         c.M->addColReal(LPColBase<double>(1.0, c1, infty, 0.0));
         post(c, F_addColReal);
         {
            Call _(c, F_addColReal);
            SoPlex_addColReal(c.H, a2.p, 1, 1, 1.0, -infty, infty);
         }
         c.M->addColReal(LPColBase<double>(1.0, c2, infty, -infty));
         post(c, F_addColReal);
         opNumRowsCols(c, true);
         opNumRowsCols(c, false);
         {
            Call _(c, F_changeLhsReal);
            SoPlex_changeLhsReal(c.H, al.p, 1);
         }
         c.M->changeLhsReal(toVec(lhs));
         post(c, F_changeLhsReal);
      }
      else
      {
         std::vector<double> r1 = {-1.0, 1.0}, lb = {0.0, -infty}, ub = {infty, infty}, obj = {1.0, 1.0};
         InArr<double> ar(r1), alb(lb), aub(ub), ao(obj);
         {
            Call _(c, F_addRowReal);
            SoPlex_addRowReal(c.H, ar.p, 2, 2, -10.0, infty);
         }
         DSVectorBase<double> row(3);
         row.add(0, -1.0);
         row.add(1, 1.0);
         c.M->addRowReal(LPRowBase<double>(-10.0, row, infty));
         post(c, F_addRowReal);
         {
            Call _(c, F_changeBoundsReal);
            SoPlex_changeBoundsReal(c.H, alb.p, aub.p, 2);
         }
         c.M->changeBoundsReal(toVec(lb), toVec(ub));
         post(c, F_changeBoundsReal);
         {
            Call _(c, F_changeObjReal);
            SoPlex_changeObjReal(c.H, ao.p, 2);
         }
         c.M->changeObjReal(toVec(obj));
         post(c, F_changeObjReal);
      }
      if(c.dead) return;
      opOptimize(c);
      if(c.dead) return;
      expectD("status", (double)(int)c.h().status(), 1.0);
      OutArr<double> pr(2, padOutputs(c.g), canD());
      {
         Call _(c, F_getPrimalReal);
         SoPlex_getPrimalReal(c.H, pr.p, 2);
      }
      post(c, F_getPrimalReal);
      expectD("primal0", pr.p[0], 0.0);
      expectD("primal1", pr.p[1], -10.0);
      double ov;
      {
         Call _(c, F_objValueReal);
         ov = SoPlex_objValueReal(c.H);
      }
      expectD("objective", ov, -10.0);
      post(c, F_objValueReal);
   }
   else
   {
      long infl = 1000000;
      opSetRational(c);
      opSetIntParam(c, 0, -1);
      std::string wantPrimal, wantObj;
      if(part == 2)
      {
         std::vector<long> rn = {-1, 1}, rd = {1, 1}, on = {1, 1}, od = {1, 1};
         InArr<long> arn(rn), ard(rd), aon(on), aod(od);
         {
            Call _(c, F_addRowRational);
            SoPlex_addRowRational(c.H, arn.p, ard.p, 2, 2, 1, 5, infl, 1);
         }
         DSVectorBase<Rational> row(3);
         row.add(0, mkQ(-1, 1));
         row.add(1, mkQ(1, 1));
         c.M->addRowRational(LPRowBase<Rational>(mkQ(1, 5), row, mkQ(infl, 1)));
         post(c, F_addRowRational);
         {
            Call _(c, F_changeObjRational);
            SoPlex_changeObjRational(c.H, aon.p, aod.p, 2);
         }
         c.M->changeObjRational(toVecQ(on, od));
         post(c, F_changeObjRational);
         wantPrimal = "0 1/5 ";
         wantObj = "1/5";
      }
      else
      {
         std::vector<long> n1 = {-1}, d1 = {1}, n2 = {1}, d2 = {1}, ln = {-1}, ld = {5};
         InArr<long> an1(n1), ad1(d1), an2(n2), ad2(d2), aln(ln), ald(ld);
         {
            Call _(c, F_addColRational);
            SoPlex_addColRational(c.H, an1.p, ad1.p, 1, 1, 1, 5, 0, 1, infl, 1);
         }
         DSVectorBase<Rational> c1(2), c2(2);
         c1.add(0, mkQ(-1, 1));
         c2.add(0, mkQ(1, 1));
         c.M->addColRational(LPColBase<Rational>(mkQ(1, 5), c1, mkQ(infl, 1), mkQ(0, 1)));
         post(c, F_addColRational);
         {
            Call _(c, F_addColRational);
            SoPlex_addColRational(c.H, an2.p, ad2.p, 1, 1, 1, 5, -infl, 1, infl, 1);
         }
         c.M->addColRational(LPColBase<Rational>(mkQ(1, 5), c2, mkQ(infl, 1), mkQ(-infl, 1)));
         post(c, F_addColRational);
         {
            Call _(c, F_changeLhsRational);
            SoPlex_changeLhsRational(c.H, aln.p, ald.p, 1);
         }
         c.M->changeLhsRational(toVecQ(ln, ld));
         post(c, F_changeLhsRational);
         wantPrimal = "0 -1/5 ";
         wantObj = "-1/25";
      }
      if(c.dead) return;
      opOptimize(c);
      if(c.dead) return;
      expectD("status", (double)(int)c.h().status(), 1.0);
      VectorBase<Rational> v(2);
      c.M->getPrimalRational(v);
      std::string mp = v[0].str() + " " + v[1].str() + " ";
      if(mp != wantPrimal) viol(c, "ctest", "primal-string", "the C test program expects [" + wantPrimal + "], C++ gives [" + mp + "]");
      if(c.M->objValueRational().str() != wantObj) viol(c, "ctest", "objective-string", "the C test program expects [" + wantObj + "], C++ gives [" + c.M->objValueRational().str() + "]");
      bool first = c.g.chance(0.5);
      if(first) opGetPrimalRationalString(c, true);
      else opObjValueRationalString(c, true);
      if(first) opObjValueRationalString(c, true);
      else opGetPrimalRationalString(c, true);
   }
}

static void runCase(long long k, Rng& g)
{
   Sink& S = sink();
   Ctx c(g, k);
#if !VL_ASAN
   g_case = k;
#endif
   // 1 case in 64 is a focus history for a crash-prone function, 1 in 32 replays the C test program (half of them
   // release the returned strings with free(), which AddressSanitizer answers with an abort on the unchanged tree)
   int sel = (int)(k % 64);
   std::string desc;
   if(sel == 7 || sel == 39)
   {
      int part = (int)((k / 32) % 4);
      desc = "ctest part " + std::to_string(part);
      S.begin(k, desc);
      S.count("cases");
      S.count("cases.ctest");
      caseCTest(c, part);
   }
   else
   {
      static const std::vector<std::string> modes = {"real", "real", "auto", "auto", "rational", "rational", "auto", "real"};
      std::string mode = modes[(size_t)((k / 64 + k) % (long long)modes.size())];
      if(sel == 5)
      {
         const auto& R = riskyFns();
         c.focus = (int)R[(size_t)((k / 64) % (long long)R.size())];
         c.maxCalls = g.range(8, 16);
         mode = g.chance(0.5) ? "auto" : "rational";
         desc = std::string("focus ") + FN[c.focus] + " mode=" + mode;
         S.count("cases.focus");
      }
      else
      {
         c.maxCalls = g.range(12, 40);
         desc = "general mode=" + mode;
         S.count("cases.general");
      }
      S.begin(k, desc);
      S.count("cases");
      S.count("mode." + mode);
      caseGeneral(c, mode);
   }
   finishCase(c);
   if(k < 6) S.sample(Json().str("case", desc).num("calls", c.ncalls).str("sequence", c.seq.substr(0, 400)).done());
   S.end(k);
}

// one untracked pass through the main code paths so that lazily initialised library state is not mistaken for a leak
static void warmUp()
{
   Rng g(1, 2, 3);
   for(int part = 0; part < 4; part++)
   {
      SoPlex s;
      s.setIntParam(SoPlex::VERBOSITY, 0);
      if(part >= 2) s.setIntParam(SoPlex::SYNCMODE, SoPlex::SYNCMODE_AUTO);
      if(part == 3)
      {
         s.setIntParam(SoPlex::SOLVEMODE, SoPlex::SOLVEMODE_RATIONAL);
         s.setRealParam(SoPlex::FEASTOL, 0.0);
         s.setRealParam(SoPlex::OPTTOL, 0.0);
      }
      DSVectorBase<double> r(3);
      r.add(0, 1.0);
      r.add(1, 2.0);
      s.addRowReal(LPRowBase<double>(-1.0, r, 4.0));
      s.optimize();
      (void)s.objValueRational().str();
   }
}

int main(int argc, char** argv)
{
   cli.parse(argc, argv);
   verbose = cli.extra.count("verbose") > 0;
   Sink& S = sink();
   S.prop = cli.prop;
   S.leakEvery = 0;      // this harness runs its own per-call leak audit (leakAudit) with attribution to the C function
   if(cli.prop != "C20")
   {
      fprintf(stderr, "h_capi: unknown property %s\n", cli.prop.c_str());
      return 2;
   }
   warmUp();
#if VL_ASAN
   __sanitizer_install_malloc_and_free_hooks(hookMalloc, hookFree);
#else
   signal(SIGSEGV, onSignal);
   signal(SIGABRT, onSignal);
   signal(SIGFPE, onSignal);
   signal(SIGBUS, onSignal);
#endif
   for(long long k = cli.from; k < cli.to; k++)
   {
      Rng g(fnv(cli.prop), cli.seed, (uint64_t)k);
      runCase(k, g);
   }
   S.finish();
   return 0;
}
