// harness/h_io12.cpp -- C12: LP/MPS files round-trip to an equivalent LP; numeric literals are read exactly; the dual
// writer produces an LP with the primal optimum.  Sub-workloads (--sub):
//   rt       model -> SoPlex (real API / rational API) -> writeFile / writeFileRational (.lp/.mps, names, writeZeroObjective,
//            integer markers, after a persistent-scaled solve) -> fresh SoPlex readFile -> structural comparison after the
//            documented normalisations + independent comparison of the certified optimum (refSolve)
//   dual     writeDualFileReal -> readFile -> refSolve optimum == primal optimum
//   lit      case k = block k of the EXHAUSTIVE enumeration of the literal grammar (length <= --maxlen): every literal
//            through soplex::ratFromString; all (or a hash-sample, --fsample) through LP and MPS files in both read modes
//   litrand  random longer literals (up to 40 digits, exponents up to +-400) through the same monitors
#include "io_c12.hpp"
#include "solvecommon.hpp"
#include <cfloat>

using namespace vl;
using namespace soplex;

static Cli cli;
static bool verbose = false;

// every key is reported at most three times per worker process (the driver aggregates by key; known findings such as the
// MI-bound marker occur in a large fraction of the MPS routes and would otherwise dominate the event stream)
static void reportViol(const std::string& key, const std::string& detail, const std::string& replay)
{
   static std::map<std::string, int> seen;
   Sink& S = sink();
   S.count("viol.events_total");
   if(++seen[key] > 3)
   {
      S.count("viol.repeats_not_emitted");
      return;
   }
   S.viol(key, detail, replay);
}

static std::string tmpPath(long long k, const std::string& tag, const std::string& ext)
{
   return cli.tmpdir + "/c12_" + std::to_string((long long)getpid()) + "_" + std::to_string(k) + "_" + tag + "." + ext;
}

// ================================================================================================ round trip
struct Route
{
   std::string fmt = "lp";
   bool rational = false, names = false, wzo = false, ints = false;
   int scaled = 0;      // 0: as loaded; 1: after a persistent-scaled solve, unscale=true; 2: same, unscale=false (sanity only)
   int loadMode = 0;
   std::string opts() const
   {
      std::string s = "{";
      auto add = [&](const char* n)
      {
         if(s.size() > 1) s += ",";
         s += n;
      };
      if(names) add("names");
      if(wzo) add("wzo");
      if(ints) add("intvars");
      if(scaled == 1) add("scaled");
      if(scaled == 2) add("scaled-nounscale");
      return s + "}";
   }
   std::string api() const
   {
      return rational ? "rational" : "real";
   }
   std::string cell() const
   {
      return fmt + "." + api() + "." + (names ? "usernames" : "defaultnames") + ".wzo" + (wzo ? "1" : "0");
   }
   std::string ext() const
   {
      return fmt;
   }
};

struct RouteRes
{
   std::string what, detail, file;
   std::vector<std::pair<std::string, std::string>> all;    // every distinct failure bucket (what, detail)
   NormStats ns;
   bool exactEqual = true, scaledActive = false, optimumChecked = false, tolCompared = false;
   double maxRel = 0;
};

static bool hasFreeRow(const LPModel& M)
{
   for(int i = 0; i < M.m; i++) if(isNInf(M.lhs[i]) && isPInf(M.rhs[i])) return true;
   return false;
}

static const char* refName(RefStatus s)
{
   return s == REF_OPTIMAL ? "optimal" : s == REF_INFEASIBLE ? "infeasible" : s == REF_UNBOUNDED ? "unbounded" : "unknown";
}

static void attachNames(NamedLP& R, const NameSet& rn, const NameSet& cn, const DIdxSet& iv, std::string& what, std::string& detail)
{
   if(rn.num() != R.M.m || cn.num() != R.M.n)
   {
      what = "namecount";
      detail = "reader returned " + std::to_string(rn.num()) + " row names / " + std::to_string(cn.num()) + " column names for a " + std::to_string(
                  R.M.m) + "x" + std::to_string(R.M.n) + " LP";
      return;
   }
   R.rn.resize(R.M.m);
   R.cn.resize(R.M.n);
   for(int i = 0; i < R.M.m; i++) R.rn[i] = rn[i];
   for(int j = 0; j < R.M.n; j++) R.cn[j] = cn[j];
   R.isInt.assign(R.M.n, 0);
   for(int q = 0; q < iv.size(); q++) if(iv.index(q) >= 0 && iv.index(q) < R.M.n) R.isInt[iv.index(q)] = 1;
}

// one write/read round trip of model M (names / integer markers taken from `user` when the route asks for them)
static RouteRes runRoute(const LPModel& M, const NamedLP& user, const Route& r, const RefResult& truthM, const std::string& path, bool count)
{
   Sink& S = sink();
   RouteRes res;
   NamedLP in;
   in.M = M;
   if(r.names)
   {
      in.rn = user.rn;
      in.cn = user.cn;
   }
   else defaultNames(in);
   in.isInt = r.ints ? user.isInt : std::vector<char>(M.n, 0);
   bool mps = r.fmt == "mps";
   // the real MPS writer prints "%-8.8s" column name directly followed by the row name: an 8-character column name is glued
   // to it (known finding); every failure of such a route is attributed to that cell
   bool col8 = false;
   if(mps && !r.rational) for(int j = 0; j < M.n; j++) if(in.cn[j].size() >= 8) col8 = true;
   auto fail = [&](const std::string & w0, const std::string & d)
   {
      std::string w = w0 + (col8 ? ":colname8" : "");
      if(res.what.empty())
      {
         res.what = w;
         res.detail = d;
      }
      for(auto& p : res.all) if(p.first == w) return;
      res.all.push_back(std::make_pair(w, d));
   };
   {
      SoPlex s1;
      quiet(s1);
      if(r.rational)
      {
         s1.setIntParam(SoPlex::SYNCMODE, SoPlex::SYNCMODE_AUTO, true);
         loadRational(s1, M, r.loadMode & 1);
      }
      else loadReal(s1, M, r.loadMode);
      NameSet rns(32), cns(32);
      DIdxSet iv;
      if(r.names) fillNameSets(in, rns, cns);
      if(r.ints) for(int j = 0; j < M.n; j++) if(in.isInt[j]) iv.addIdx(j);
      if(r.scaled)
      {
         s1.setIntParam(SoPlex::ITERLIMIT, 3000, true);
         s1.optimize();
         res.scaledActive = s1._realLP->isScaled();
      }
      bool ok = false;
      std::string thrown;
      try
      {
         if(r.rational) ok = s1.writeFileRational(path.c_str(), r.names ? &rns : nullptr, r.names ? &cns : nullptr, r.ints ? &iv : nullptr, r.wzo);
         else ok = s1.writeFile(path.c_str(), r.names ? &rns : nullptr, r.names ? &cns : nullptr, r.ints ? &iv : nullptr, r.scaled != 2, r.wzo);
      }
      catch(const SPxException& e)
      {
         thrown = "SPxException: " + e.what();
      }
      catch(const std::exception& e)
      {
         thrown = std::string("std::exception: ") + e.what();
      }
      catch(...)
      {
         thrown = "unknown exception";
      }
      if(!thrown.empty())
      {
         fail(std::string("write-throws") + (hasFreeRow(M) ? ":free-row" : ""), (r.rational ? "writeFileRational" : "writeFile") + std::string(" threw ") + thrown);
         if(count) S.count("rt.write_throws");
      }
      else if(!ok) fail("write-failed", "writer returned false");
   }
   res.file = slurp(path);
   if(!res.what.empty()) return res;
   NamedLP R;
   {
      SoPlex s2;
      quiet(s2);
      if(r.rational)
      {
         s2.setIntParam(SoPlex::SYNCMODE, SoPlex::SYNCMODE_AUTO, true);
         s2.setIntParam(SoPlex::READMODE, SoPlex::READMODE_RATIONAL, true);
      }
      NameSet rn2(32), cn2(32);
      DIdxSet iv2;
      bool ok = false;
      std::string thrown;
      try
      {
         ok = s2.readFile(path.c_str(), &rn2, &cn2, &iv2);
      }
      catch(const SPxException& e)
      {
         thrown = "SPxException: " + e.what();
      }
      catch(const std::exception& e)
      {
         thrown = std::string("std::exception: ") + e.what();
      }
      catch(...)
      {
         thrown = "unknown exception";
      }
      if(!thrown.empty()) fail("read-throws", "readFile threw " + thrown);
      else if(!ok) fail("read-failed", "readFile returned false on the file SoPlex has just written");
      if(!res.what.empty()) return res;
      R.M = r.rational ? readBackRational(s2) : readBackReal(s2);
      std::string w, dt;
      attachNames(R, rn2, cn2, iv2, w, dt);
      if(!w.empty())
      {
         fail(w, dt);
         return res;
      }
   }
   NamedLP E = expectedAfterRoundTrip(in, r.fmt, r.wzo, res.ns, mps && !r.rational);
   if(r.scaled == 2)
   {
      // sanity only: the file holds the scaled LP (same shape and pattern, entries differ by the scale factors)
      // (real MPS: an objective-only column whose coefficient is zero to the printed 15 decimals may or may not survive, see
      // expectedAfterRoundTrip; such columns are allowed to be missing here as well)
      int ambiguousCols = 0;
      std::set<std::string> ambiguousNames;
      if(mps && !r.rational)
         for(int j = 0; j < E.M.n; j++)
         {
            bool entries = false;
            for(int i = 0; i < E.M.m && !entries; i++) if(E.M.A[i][j] != 0) entries = true;
            if(!entries && E.M.obj[j] != 0 && qabs(E.M.obj[j]) < Q(2) / Q(1000000000000000LL))
            {
               ambiguousCols++;
               ambiguousNames.insert(E.cn[j]);
            }
         }
      if(E.M.m != R.M.m || R.M.n > E.M.n || R.M.n < E.M.n - ambiguousCols)
      {
         fail("unscale-false:shape", "scaled file has shape " + std::to_string(R.M.m) + "x" + std::to_string(R.M.n) + ", LP has " + std::to_string(
                 E.M.m) + "x" + std::to_string(E.M.n));
         return res;
      }
      std::map<std::string, int> ci, ri;
      for(int j = 0; j < R.M.n; j++) ci[R.cn[j]] = j;
      for(int i = 0; i < R.M.m; i++) ri[R.rn[i]] = i;
      bool differs = false, pat = true;
      for(int i = 0; i < E.M.m && pat; i++) for(int j = 0; j < E.M.n; j++)
         {
            if(ri.count(E.rn[i]) && !ci.count(E.cn[j]) && ambiguousNames.count(E.cn[j])) continue;
            if(!ri.count(E.rn[i]) || !ci.count(E.cn[j]))
            {
               pat = false;
               break;
            }
            const Q& a = E.M.A[i][j], &b = R.M.A[ri[E.rn[i]]][ci[E.cn[j]]];
            // (real MPS prints 15 decimals: a scaled entry below 5e-16 is legitimately written as 0.000000000000000 and read
            // back as zero, whatever the unscaled entry is; only an entry appearing from nowhere is checked there)
            if(a == 0 && b != 0) pat = false;
            if(a != 0 && b == 0 && !mps) pat = false;
            if(a != b) differs = true;
         }
      if(!pat) fail("unscale-false:pattern", "file written with unscale=false does not have the nonzero pattern / names of the LP");
      if(count) S.count(differs ? "rt.unscale_false.file_differs_by_scale_factors" : "rt.unscale_false.file_identical");
      return res;
   }
   bool tol = !r.rational && mps;
   Diff d = compareNamed(E, R, tol, &res.maxRel);
   res.exactEqual = d.exactEqual;
   res.tolCompared = tol && !d.exactEqual;
   for(auto& p : d.all) fail(p.first, p.second);
   if(!d.numbersOk) return res;
   // independent decision: same certified status / optimum (the file carries no offset; MPS holds min of -c for max)
   if(!tol || d.exactEqual)
   {
      RefResult rr = refSolve(R.M);
      if(!truthM.certified || !rr.certified)
      {
         if(count) S.count("rt.optimum_inconclusive");
      }
      else
      {
         res.optimumChecked = true;
         if(count) S.count(std::string("rt.truth.") + refName(truthM.status));
         if(rr.status != truthM.status) fail("status", std::string("LP is ") + refName(truthM.status) + ", the LP read back is " + refName(rr.status));
         else if(rr.status == REF_OPTIMAL)
         {
            Q want = truthM.objval - M.offset;
            if(mps && M.sense > 0) want = -want;
            if(rr.objval != want) fail("optimum", "certified optimum of the LP (without offset, MPS sign rule applied) is " + qs(want) + ", of the LP read back " + qs(
                                             rr.objval));
         }
      }
   }
   return res;
}

static std::string routeReplay(const LPModel& M, const Route& r, const Route& minimal, const RouteRes& res)
{
   Json j;
   j.raw("lp", M.toJson()).str("route", r.cell() + " " + r.opts()).str("minimal_options", minimal.opts()).str("file", res.file).num("loadMode", r.loadMode);
   return j.done();
}

static void caseRoundTrip(long long k, Rng& g)
{
   Sink& S = sink();
   static const std::vector<std::string> fams = {"planted-opt", "arbitrary", "presolve-rich", "degenerate", "planted-opt", "arbitrary",
                                                 "planted-infeasible", "planted-unbounded", "badly-scaled", "presolve-rich"
                                                };
   std::string fam = fams[(size_t)(k % (long long)fams.size())];
   int mx = g.chance(0.15) ? 10 : 6;
   Instance I = genFamily(g, fam, mx, mx);
   LPModel B = I.M;
   std::string tags;
   injectStructures(B, g, tags);
   S.begin(k, "rt " + fam + " " + std::to_string(B.m) + "x" + std::to_string(B.n) + " " + tags);
   S.count("cases");
   S.count("rt.family." + fam);
   int routeNo = 0;
   uint64_t caseHash = 0;
   for(int api = 0; api < 2; api++)
   {
      LPModel A = B;
      bool ugly = g.chance(0.65);
      if(ugly)
      {
         if(api == 0) uglifyReal(A, g);
         else uglifyRational(A, g);
      }
      if(api == 0 && !allExactDoubles(A))
      {
         S.count("rt.gen_inexact_skipped");
         continue;
      }
      int scaledFmt = g.range(0, 1), scaledKind = g.chance(0.7) ? 1 : 2;
      for(int f = 0; f < 3; f++)
      {
         // f = 0: lp, 1: mps, 2 (real only): after a persistent-scaled solve
         if(f == 2 && api == 1) continue;
         Route r;
         r.fmt = (f == 0 || (f == 2 && scaledFmt == 0)) ? "lp" : "mps";
         r.rational = api == 1;
         r.names = g.chance(0.5);
         r.wzo = g.chance(0.5);
         r.ints = g.chance(0.25);
         r.scaled = f == 2 ? scaledKind : 0;
         r.loadMode = g.range(0, 2);
         LPModel M = A;
         // the MPS writers cannot write free rows (known finding): keep a few; none after a scaled solve, where the exception
         // additionally leaks the unscaled copy made by writeFile
         if(r.fmt == "mps" && hasFreeRow(M) && (r.scaled || !g.chance(0.12))) dropFreeRows(M, g);
         NamedLP user;
         user.M = M;
         // the real MPS writer glues an 8-character column name to the following row name (known finding): keep a few
         userNames(user, g, (!r.rational && r.fmt == "mps" && !g.chance(0.1)) ? 7 : 8);
         for(int j = 0; j < M.n; j++) user.isInt[j] = g.chance(0.4);
         RefResult truthM = refSolve(M);
         std::string path = tmpPath(k, std::to_string(routeNo++), r.ext());
         RouteRes res = runRoute(M, user, r, truthM, path, true);
         S.count("rt.routes");
         S.count("rt.cell." + r.cell());
         if(r.ints) S.count("rt.with_intvars");
         if(r.scaled)
         {
            S.count(std::string("rt.scaled.") + (r.scaled == 1 ? "unscale_true" : "unscale_false"));
            if(res.scaledActive) S.count("rt.scaled.isScaled_true");
         }
         if(ugly) S.count(std::string("rt.ugly_numbers.") + r.api());
         S.count("norm.ranged_rows_split", res.ns.rangedSplit);
         S.count("norm.dropped_columns", res.ns.droppedCols);
         S.count("norm.mps_max_negated", res.ns.negatedMax);
         S.count("norm.free_rows_written", res.ns.freeRows);
         S.count("norm.empty_rows_written", res.ns.emptyRows);
         if(res.optimumChecked) S.count("rt.optimum_checked");
         if(res.tolCompared)
         {
            S.count("rt.mps_real_compared_to_15_decimals");
            S.maxi("rt.mps_real.err/thr", res.maxRel);
         }
         else if(res.what.empty() && r.scaled != 2) S.count("rt.exactly_equal");
         caseHash ^= M.signature() * 31 + fnv(r.cell() + r.opts());
         S.seen("routecell", fnv(r.cell() + r.opts()));
         if(verbose) fprintf(stderr, "--- route %s %s -> [%s] %s\n%s\n", r.cell().c_str(), r.opts().c_str(), res.what.c_str(), res.detail.c_str(), res.file.c_str());
         for(auto& fl : res.all)
         {
            // minimise the option set so that the key names the root-cause cell
            const std::string what = fl.first;
            Route mr = r;
            auto stillFails = [&](const Route & t)
            {
               std::string mp = tmpPath(k, "min", t.ext());
               RouteRes rr = runRoute(M, user, t, truthM, mp, false);
               std::remove(mp.c_str());
               for(auto& p : rr.all) if(p.first == what) return true;
               return false;
            };
            if(mr.scaled == 1)
            {
               Route t = mr;
               t.scaled = 0;
               if(stillFails(t)) mr = t;
            }
            if(mr.names)
            {
               Route t = mr;
               t.names = false;
               if(stillFails(t)) mr = t;
            }
            if(mr.wzo)
            {
               Route t = mr;
               t.wzo = false;
               if(stillFails(t)) mr = t;
            }
            if(mr.ints)
            {
               Route t = mr;
               t.ints = false;
               if(stillFails(t)) mr = t;
            }
            reportViol("C12:roundtrip:" + r.fmt + ":" + r.api() + ":" + what + ":" + mr.opts(),
                   fl.second + " | route " + r.cell() + " " + r.opts() + ", family " + fam + " [" + tags + "]", routeReplay(M, r, mr, res));
         }
         if(!verbose) std::remove(path.c_str());
         if(k < 3 && routeNo == 1) S.sample(Json().str("sub", "rt").str("family", fam).num("m", M.m).num("n", M.n).str("route", r.cell() + r.opts()).done());
      }
   }
   S.seen("nontrivial", caseHash);
   S.end(k);
}

// ================================================================================================ dual writer
static void caseDual(long long k, Rng& g)
{
   Sink& S = sink();
   std::string fam = (k % 4 == 3) ? "degenerate" : "planted-opt";
   Instance I = genFamily(g, fam, 7, 7);
   LPModel M = I.M;
   std::string fmt = (k % 3 == 0) ? "mps" : "lp";
   bool ugly = fmt == "lp" && g.chance(0.35);
   bool modified = false;
   if(ugly)
   {
      uglifyReal(M, g);
      modified = true;
   }
   if(fmt == "mps" && hasFreeRow(M) && !g.chance(0.1))
   {
      dropFreeRows(M, g);
      modified = true;
   }
   bool solveFirst = g.chance(0.2);
   bool wzo = g.chance(0.5);
   S.begin(k, "dual " + fam + " " + fmt + " " + std::to_string(M.m) + "x" + std::to_string(M.n) + (ugly ? " ugly" : "") + (solveFirst ? " scaled" : ""));
   S.count("cases");
   if(!allExactDoubles(M))
   {
      S.count("dual.gen_inexact_skipped");
      S.end(k);
      return;
   }
   Q primalOpt;
   bool have = false;
   if(!modified)
   {
      ensureTruth(I);
      if(I.T.known && I.T.status == REF_OPTIMAL)
      {
         primalOpt = I.T.objval;
         have = true;
         S.count("dual.truth_planted");
      }
   }
   if(!have)
   {
      RefResult t = refSolve(M);
      if(t.certified && t.status == REF_OPTIMAL)
      {
         primalOpt = t.objval;
         have = true;
         S.count("dual.truth_refsolve");
      }
   }
   if(!have)
   {
      S.count("dual.no_finite_optimum_skipped");
      S.end(k);
      return;
   }
   std::string path = tmpPath(k, "dual", fmt);
   std::string what, detail;
   {
      SoPlex s1;
      quiet(s1);
      loadReal(s1, M, g.range(0, 2));
      if(solveFirst)
      {
         s1.setIntParam(SoPlex::ITERLIMIT, 3000, true);
         s1.optimize();
         if(s1._realLP->isScaled()) S.count("dual.written_from_scaled_lp");
      }
      // the MPS branch dereferences the (unset) tolerances of the temporary dual LP in the pinned tree (SIGSEGV): isolate it
      auto doWrite = [&]() -> std::string
      {
         try
         {
            return s1.writeDualFileReal(path.c_str(), nullptr, nullptr, nullptr, wzo) ? "ok" : "Fwriter returned false";
         }
         catch(const SPxException& e)
         {
            return "T" + e.what();
         }
         catch(const std::exception& e)
         {
            return std::string("T") + e.what();
         }
      };
      std::string wr;
      if(fmt == "mps")
      {
         S.count("dual.write_isolated_in_child");
         ChildOut c = runInChild(doWrite);
         wr = c.normal ? c.out : "C" + (c.sig ? std::string("killed by signal ") + std::to_string(c.sig) + " (" + strsignal(c.sig) + ")" : std::string("child exited abnormally"));
      }
      else wr = doWrite();
      if(wr != "ok")
      {
         what = wr[0] == 'T' ? "write-throws" : wr[0] == 'C' ? "write-crash" : "write-failed";
         detail = "writeDualFileReal: " + wr.substr(1);
      }
   }
   std::string file = slurp(path);
   LPModel D;
   if(what.empty())
   {
      SoPlex s2;
      quiet(s2);
      bool ok = false;
      NameSet rn2(32), cn2(32);      // (readLPF leaks its internal NameSets when none are passed: reported separately, not part of C12)
      try
      {
         ok = s2.readFile(path.c_str(), &rn2, &cn2);
      }
      catch(...)
      {
         what = "read-throws";
      }
      if(what.empty() && !ok) what = "read-failed";
      if(what.empty()) D = readBackReal(s2);
   }
   if(what.empty())
   {
      S.count("dual.files_read." + fmt);
      RefResult rd = refSolve(D);
      Q want = primalOpt - M.offset;
      bool dualIsMax = M.sense < 0;
      if(fmt == "mps" && dualIsMax) want = -want;      // documented: MPS writer inverts the objective of a maximisation problem
      if(!rd.certified) S.count("dual.refsolve_inconclusive");
      else
      {
         S.count("dual.optimum_checked");
         S.seen("nontrivial", M.signature() ^ fnv(fmt + (wzo ? "w" : "") + (solveFirst ? "s" : "")));
         if(rd.status != REF_OPTIMAL)
         {
            what = "status";
            detail = std::string("primal has the certified finite optimum ") + qs(primalOpt) + ", the dual LP read back is " + refName(rd.status);
         }
         else if(rd.objval != want)
         {
            what = "optimum";
            detail = "primal optimum (without offset" + std::string(fmt == "mps" && dualIsMax ? ", negated per MPS rule" : "") + ") " + qs(want) + ", optimum of the dual LP read back " + qs(
                        rd.objval);
         }
      }
   }
   if(verbose) fprintf(stderr, "--- dual [%s] %s\nprimal:\n%s\nfile:\n%s\n", what.c_str(), detail.c_str(), M.toLPText().c_str(), file.c_str());
   if(!what.empty())
   {
      std::string cell = std::string("{primal-") + (M.sense < 0 ? "min" : "max") + (solveFirst ? ",scaled" : "") + (hasFreeRow(M) ? ",free-row" : "") + "}";
      bool valueLevel = what == "status" || what == "optimum";
      reportViol("C12:dual:" + fmt + ":" + what + (valueLevel ? ":" + cell : std::string()), detail + " | family " + fam + (ugly ? " (non-integer doubles)" : ""),
             Json().raw("lp", M.toJson()).str("lp_text", M.toLPText()).str("file", file).boolean("wzo", wzo).boolean("solveFirst", solveFirst).done());
   }
   if(!verbose) std::remove(path.c_str());
   if(k < 2) S.sample(Json().str("sub", "dual").str("family", fam).str("fmt", fmt).num("m", M.m).num("n", M.n).done());
   S.end(k);
}

// ================================================================================================ literals
static std::string clip(const std::string& s, size_t n = 160)
{
   return s.size() > n ? s.substr(0, n - 3) + "..." : s;
}

// "=": exact, "!<got>": other value, "T<what>": exception
static std::string rfsOnce(const std::string& lit, const Q& q)
{
   try
   {
      Rational r = ratFromString(lit.c_str());
      if(r == q) return "=";
      return "!" + clip(r.str());
   }
   catch(const std::exception& e)
   {
      return std::string("T") + e.what();
   }
   catch(...)
   {
      return "T(non-std exception)";
   }
}

static std::string litFileText(const std::string& lit, bool mps)
{
   char b[1024];
   if(!mps)
   {
      snprintf(b, sizeof b, "Minimize\n obj: %s x + 1 y\nSubject To\n c1: %s x + 1 y >= %s\nBounds\n %s <= x\n -inf <= y <= %s\nEnd\n", lit.c_str(), lit.c_str(),
               lit.c_str(), lit.c_str(), lit.c_str());
      return b;
   }
   // fixed-format columns: 2-3 indicator, 5-12 name, 15-22 name, 25-36 number, 40-47 name, 50-61 number
   std::string o = "NAME          LIT\nROWS\n N  obj\n G  c1\nCOLUMNS\n";
   snprintf(b, sizeof b, "    %-8s  %-8s  %12s   %-8s  %12s\n", "x", "obj", lit.c_str(), "c1", lit.c_str());
   o += b;
   snprintf(b, sizeof b, "    %-8s  %-8s  %12s   %-8s  %12s\n", "y", "obj", "1", "c1", "1");
   o += b;
   o += "RHS\n";
   snprintf(b, sizeof b, "    %-8s  %-8s  %12s\n", "RHS", "c1", lit.c_str());
   o += b;
   o += "BOUNDS\n";
   snprintf(b, sizeof b, " LO %-8s  %-8s  %12s\n", "BND", "x", lit.c_str());
   o += b;
   snprintf(b, sizeof b, " MI %-8s  %-8s\n", "BND", "y");
   o += b;
   snprintf(b, sizeof b, " UP %-8s  %-8s  %12s\n", "BND", "y", lit.c_str());
   o += b;
   o += "ENDATA\n";
   return o;
}

// reads the literal at five positions of a file; "=", "!<positions>|<values>", "R" (readFile false), "T..." (exception)
static std::string fileOnce(const std::string& lit, const Q& q, bool mps, bool rational, const std::string& path)
{
   {
      FILE* f = fopen(path.c_str(), "wb");
      if(!f) return "Xcannot write temp file";
      std::string t = litFileText(lit, mps);
      fwrite(t.data(), 1, t.size(), f);
      fclose(f);
   }
   std::string out;
   try
   {
      SoPlex s;
      quiet(s);
      if(rational)
      {
         s.setIntParam(SoPlex::SYNCMODE, SoPlex::SYNCMODE_AUTO, true);
         s.setIntParam(SoPlex::READMODE, SoPlex::READMODE_RATIONAL, true);
      }
      NameSet rn(8), cn(8);
      bool ok = s.readFile(path.c_str(), &rn, &cn);
      if(!ok) out = "R";
      else
      {
         int m = rational ? s.numRowsRational() : s.numRows(), n = rational ? s.numColsRational() : s.numCols();
         if(m != 1 || n != 2 || cn.num() != 2 || std::string(cn[0]) != "x" || std::string(cn[1]) != "y") out = "!shape|" + std::to_string(m) + "x" + std::to_string(n);
         else if(rational)
         {
            std::string bad, vals;
            auto chk = [&](const char* pos, const Q & got)
            {
               if(got == q) return;
               bad += std::string(bad.empty() ? "" : "+") + pos;
               vals += std::string(" ") + pos + "=" + clip(got.str(), 80);
            };
            chk("obj", s.objRational(0));
            Q a = 0;
            const SVectorRational& rv = s.rowVectorRational(0);
            for(int t = 0; t < rv.size(); t++) if(rv.index(t) == 0) a += rv.value(t);
            chk("coef", a);
            chk("rhs", s.lhsRational(0));
            chk("lo", s.lowerRational(0));
            chk("up", s.upperRational(1));
            out = bad.empty() ? "=" : "!" + bad + "|" + vals;
         }
         else
         {
            double d = roundNearest(q);
            std::string bad, vals;
            auto chk = [&](const char* pos, double got)
            {
               if(got == d) return;
               bad += std::string(bad.empty() ? "" : "+") + pos;
               vals += std::string(" ") + pos + "=" + ds(got);
            };
            chk("obj", s.objReal(0));
            double a = 0;
            DSVectorReal rv;
            s.getRowVectorReal(0, rv);
            for(int t = 0; t < rv.size(); t++) if(rv.index(t) == 0) a += rv.value(t);
            chk("coef", a);
            chk("rhs", s.lhsReal(0));
            chk("lo", s.lowerReal(0));
            chk("up", s.upperReal(1));
            out = bad.empty() ? "=" : "!" + bad + "|" + vals + " (correctly rounded: " + ds(d) + ")";
         }
      }
   }
   catch(const SPxException& e)
   {
      out = "T" + e.what();
   }
   catch(const std::exception& e)
   {
      out = std::string("T") + e.what();
   }
   catch(...)
   {
      out = "T(non-std exception)";
   }
   if(!verbose) std::remove(path.c_str());
   return out;
}

// the five monitors of one literal.  viaFiles: also embed in LP/MPS files
static void checkLiteral(long long k, const std::string& lit, bool viaFiles, const std::string& pfx)
{
   Sink& S = sink();
   Q q;
   LitInfo L;
   if(!parseLiteral(lit, q, L))
   {
      S.count(pfx + (L.denZero ? ".skipped.zero_denominator" : ".skipped.not_in_grammar"));
      return;
   }
   S.count(pfx + ".literals");
   S.count(pfx + ".class." + L.cls);
   S.seen("nontrivial", fnv(lit));
   bool risky = L.cls == "huge-exponent";      // pow(10, e) = inf => GMP raises SIGFPE in the pinned tree: isolate in a child process
   auto run = [&](const std::function<std::string()>& fn, bool rationalRoute) -> std::string
   {
      if(!risky || !rationalRoute) return fn();
      S.count(pfx + ".file_route_isolated_in_child");
      ChildOut c = runInChild(fn);
      if(c.normal) return c.out;
      return "C" + (c.sig ? std::string("killed by signal ") + std::to_string(c.sig) + " (" + strsignal(c.sig) + ")" : std::string("child exited abnormally"));
   };
   auto report = [&](const std::string & route, const std::string & r)
   {
      // r[0]: '=' ok, '!' wrong value, 'T' exception, 'C' crash, 'R' rejected
      if(r.empty() || r[0] == '=') return;
      if(r[0] == 'X')
      {
         S.count(pfx + ".harness_io_problem");
         return;
      }
      std::string key = "C12:literal:" + route + ":" + L.cls, det;
      std::string exp = clip(qs(q));
      if(r[0] == '!')
      {
         size_t bar = r.find('|');
         if(bar != std::string::npos)
         {
            key += ":" + r.substr(1, bar - 1);
            det = "read as" + r.substr(bar + 1);
         }
         else det = "result " + r.substr(1);
      }
      else if(r[0] == 'T')
      {
         key += ":throws";
         det = "exception: " + r.substr(1);
      }
      else if(r[0] == 'C')
      {
         key += ":crash";
         det = r.substr(1);
      }
      else if(r[0] == 'R')
      {
         key += ":rejected";
         det = "readFile returned false";
      }
      S.count(pfx + ".bad." + route + "." + L.cls);
      if(verbose) fprintf(stderr, "literal '%s' via %s: %s (exact value %s)\n", lit.c_str(), route.c_str(), det.c_str(), exp.c_str());
      reportViol(key, "literal '" + lit + "' via " + route + ": " + det + "; it denotes " + exp, Json().str("literal", lit).str("route", route).str("expected", exp).str("observed",
             clip(r, 400)).done());
   };
   // (i) ratFromString
   S.count(pfx + ".ratFromString.checked");
   if(risky)
   {
      S.count(pfx + ".ratFromString.guarded_against_sigfpe");
      report("ratFromString", runCatchingFPE([&]() { return rfsOnce(lit, q); }));
   }
   else report("ratFromString", rfsOnce(lit, q));
   if(!viaFiles) return;
   // (ii) files
   for(int mps = 0; mps < 2; mps++) for(int rational = 1; rational >= 0; rational--)
      {
         std::string route = std::string(mps ? "mps" : "lp") + (rational ? "-rational" : "-real");
         if(!rational)
         {
            if(L.fraction)
            {
               S.count(pfx + "." + route + ".skipped.fraction_not_in_format");   // p/q is only defined for the rational readers
               continue;
            }
            if(qabs(q) > qd(DBL_MAX))
            {
               S.count(pfx + "." + route + ".skipped.beyond_double_range");
               continue;
            }
            // oracle cross-check: glibc strtod (correctly rounded) must agree with roundNearest of the exact value
            if(strtod(lit.c_str(), nullptr) != roundNearest(q))
            {
               S.count(pfx + ".oracle_disagreement_skipped");
               continue;
            }
         }
         S.count(pfx + "." + route + ".checked");
         std::string path = tmpPath(k, "lit", mps ? "mps" : "lp");
         report(route, run([&]() { return fileOnce(lit, q, mps != 0, rational != 0, path); }, rational != 0));
      }
}

static void caseLitBlock(long long k)
{
   Sink& S = sink();
   static int maxlen = cli.extra.count("maxlen") ? atoi(cli.extra["maxlen"].c_str()) : 7;
   static int block = cli.extra.count("block") ? atoi(cli.extra["block"].c_str()) : 250;
   static unsigned fsample = cli.extra.count("fsample") ? (unsigned)atoi(cli.extra["fsample"].c_str()) : 1;
   static std::vector<std::string> lits;
   if(lits.empty())
   {
      lits = enumerateLiterals(maxlen);
      if((long long)lits.size() != countLiterals(maxlen))
      {
         fprintf(stderr, "h_io12: literal enumeration has %zu strings, closed form says %lld\n", lits.size(), countLiterals(maxlen));
         exit(2);
      }
   }
   long long a = k * block, b = std::min<long long>((long long)lits.size(), a + block);
   if(a >= (long long)lits.size())
   {
      S.begin(k, "lit block beyond the end of the enumeration");
      S.count("lit.blocks_beyond_end");
      S.end(k);
      return;
   }
   S.begin(k, "lit block " + std::to_string(k) + " ['" + lits[(size_t)a] + "' .. '" + lits[(size_t)b - 1] + "'] maxlen " + std::to_string(maxlen));
   S.count("cases");
   for(long long i = a; i < b; i++)
   {
      const std::string& lit = lits[(size_t)i];
      S.count("lit.enumerated");
      uint64_t h = fnv(lit) ^ (cli.seed * 0x9E3779B97F4A7C15ULL);
      bool viaFiles = fsample <= 1 || lit.size() <= 4 || h % fsample == 0;
      // literals with an exponent > 308 kill the rational readers (SIGFPE, known finding) and need a forked child each:
      // in sampled mode only every 6th of the sampled ones goes through files
      if(viaFiles && fsample > 1 && lit.size() > 4 && (h / fsample) % 6 != 0)
      {
         Q q;
         LitInfo L;
         if(parseLiteral(lit, q, L) && L.cls == "huge-exponent")
         {
            viaFiles = false;
            S.count("lit.huge_exponent_file_route_sampled_out");
         }
      }
      if(viaFiles) S.count("lit.through_files");
      checkLiteral(k, lit, viaFiles, "lit");
   }
   if(k == 0) S.sample(Json().str("sub", "lit").num("maxlen", maxlen).num("enumeration_size", (long long)lits.size()).num("block", block).num("file_sample_1_in",
                          fsample).done());
   S.end(k);
}

static void caseLitRandom(long long k, Rng& g)
{
   Sink& S = sink();
   S.begin(k, "litrand block " + std::to_string(k));
   S.count("cases");
   auto digits = [&](int lo, int hi)
   {
      int n = g.range(lo, hi);
      std::string s;
      for(int i = 0; i < n; i++) s += (char)('0' + g.range(0, 9));
      return s;
   };
   for(int t = 0; t < 25; t++)
   {
      std::string lit = g.chance(0.5) ? "" : (g.chance(0.5) ? "+" : "-");
      int form = g.range(0, 9);
      if(form == 0) lit += digits(1, 40) + "/" + digits(1, 40);
      else
      {
         std::string ip = g.chance(0.85) ? digits(1, g.chance(0.3) ? 40 : 8) : "";
         std::string fp = (ip.empty() || g.chance(0.6)) ? digits(1, g.chance(0.3) ? 40 : 8) : "";
         lit += ip + (fp.empty() ? "" : "." + fp);
         if(g.chance(0.6))
         {
            int e = g.chance(0.2) ? g.range(0, 400) : g.range(0, 30);
            lit += (g.chance(0.5) ? "e" : "E") + std::string(g.chance(0.4) ? "-" : g.chance(0.5) ? "+" : "") + std::to_string(e);
         }
      }
      if(lit.size() > 100) continue;
      S.count("litrand.generated");
      checkLiteral(k, lit, true, "litrand");
   }
   S.end(k);
}

// ================================================================================================ self tests of the C12 oracles
static void selfTestC12()
{
   auto die = [](const char* what)
   {
      fprintf(stderr, "ORACLE-SELFTEST-FAILED (C12): %s\n", what);
      exit(2);
   };
   Q q;
   LitInfo L;
   if(!parseLiteral("1e-1", q, L) || q != Q(1) / Q(10) || L.cls != "neg-exponent") die("1e-1");
   if(!parseLiteral("12.5e-1", q, L) || q != Q(5) / Q(4)) die("12.5e-1");
   if(!parseLiteral("-0.0", q, L) || q != 0 || L.cls != "neg-zero") die("-0.0");
   if(!parseLiteral("5/10", q, L) || q != Q(1) / Q(2) || L.cls != "fraction") die("5/10");
   if(!parseLiteral("-.5E+1", q, L) || q != Q(-5)) die("-.5E+1");
   if(!parseLiteral("1e23", q, L) || q != Q(pow10z(23)) || L.cls != "large-exponent") die("1e23");
   if(!parseLiteral("019", q, L) || q != Q(19) || L.cls != "integer") die("019");
   if(!parseLiteral("+0.15", q, L) || q != Q(3) / Q(20) || L.cls != "decimal") die("+0.15");
   if(parseLiteral("5.", q, L) || parseLiteral("1/0", q, L) || parseLiteral(".", q, L) || parseLiteral("e5", q, L) || parseLiteral("1e", q, L) || parseLiteral("1/", q, L)
         || parseLiteral("", q, L) || parseLiteral("+", q, L) || parseLiteral("1.5/2", q, L)) die("strings outside the grammar accepted");
   if(countLiterals(3) != 216 || (long long)enumerateLiterals(4).size() != countLiterals(4)) die("enumeration size");
   // expected-model construction on a hand-made LP: ranged row split in LP format, dropped column, MPS negation
   NamedLP in;
   LPModel& M = in.M;
   M.m = 1;
   M.n = 2;
   M.A = {{1, 0}};
   M.lhs = {1};
   M.rhs = {3};
   M.lo = {0, 0};
   M.up = {PINF(), 5};
   M.obj = {2, 0};
   M.sense = 1;
   defaultNames(in);
   NormStats ns;
   NamedLP E = expectedAfterRoundTrip(in, "lp", false, ns);
   if(E.M.m != 2 || E.M.n != 1 || E.rn[0] != "C0_1" || E.rn[1] != "C0_2" || E.M.lhs[0] != 1 || !isPInf(E.M.rhs[0]) || E.M.rhs[1] != 3 || E.M.sense != 1) die("LP normalisation");
   NamedLP F = expectedAfterRoundTrip(in, "mps", true, ns);
   if(F.M.m != 1 || F.M.n != 2 || F.M.sense != -1 || F.M.obj[0] != -2) die("MPS normalisation");
   NamedLP R = F;
   if(!compareNamed(F, R, false).what.empty()) die("compare equal");
   R.M.up[1] = 6;
   if(compareNamed(F, R, false).what != "upper:B") die("compare detects bound");
   R = F;
   R.M.A[0][0] = Q(1) + Q(1) / Q(pow10z(17));
   if(compareNamed(F, R, false).what.empty() || !compareNamed(F, R, true).what.empty()) die("tolerance mode");
   ChildOut c = runInChild([]() { return std::string("ok"); });
   if(!c.normal || c.out != "ok") die("runInChild");
   ChildOut c2 = runInChild([]() -> std::string { raise(SIGFPE); return "no"; });
   if(c2.normal || c2.sig != SIGFPE) die("runInChild does not see a SIGFPE death");
}

int main(int argc, char** argv)
{
   cli.parse(argc, argv);
   verbose = cli.extra.count("verbose") > 0;
   Sink& S = sink();
   S.prop = cli.prop;
   if(cli.prop != "C12")
   {
      fprintf(stderr, "h_io12: unknown property %s\n", cli.prop.c_str());
      return 2;
   }
   selfTestOracles();
   selfTestC12();
   std::string sub = cli.sub.empty() ? "rt" : cli.sub;
   for(long long k = cli.from; k < cli.to; k++)
   {
      Rng g(fnv(cli.prop + ":" + sub), cli.seed, (uint64_t)k);
      if(sub == "rt") caseRoundTrip(k, g);
      else if(sub == "dual") caseDual(k, g);
      else if(sub == "lit") caseLitBlock(k);
      else if(sub == "litrand") caseLitRandom(k, g);
      else
      {
         fprintf(stderr, "h_io12: unknown sub-workload %s\n", sub.c_str());
         return 2;
      }
   }
   S.finish();
   return 0;
}
