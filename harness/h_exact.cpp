// harness/h_exact.cpp -- exact (rational) side: C03 exact solve, C07 real/rational LP synchronisation,
// C11 (API half: rational basis inverse), C04(g) forced basic solutions.
#include <memory>
#include "sx.hpp"
#include "solvecommon.hpp"

using namespace vl;
using namespace soplex;

static Cli cli;
static bool verbose = false;

// ------------------------------------------------------------------------------------------------ rational instances
static Q pickFactor(Rng& g)
{
   static const char* fs[] = {"1/3", "2/7", "10", "1/10", "1/1000000", "1000000000", "3/1000", "7/3", "1/1024", "123456789/1000", "1", "1", "1",
                              "1/97", "1000000007/3", "1/1000000000000"
                             };
   return Q(fs[g.range(0, 15)]);
}
// x' = x / c_j, row i multiplied by f_i  (exact; keeps the class and maps certificates)
static void ratScale(Rng& g, LPModel& M, double p)
{
   for(int i = 0; i < M.m; i++)
   {
      if(!g.chance(p)) continue;
      Q f = pickFactor(g);
      for(int j = 0; j < M.n; j++) if(M.A[i][j] != 0) M.A[i][j] *= f;
      if(!isNInf(M.lhs[i])) M.lhs[i] *= f;
      if(!isPInf(M.rhs[i])) M.rhs[i] *= f;
   }
   for(int j = 0; j < M.n; j++)
   {
      if(!g.chance(p)) continue;
      Q f = pickFactor(g);
      for(int i = 0; i < M.m; i++) if(M.A[i][j] != 0) M.A[i][j] *= f;
      M.obj[j] *= f;
      if(!isNInf(M.lo[j])) M.lo[j] /= f;
      if(!isPInf(M.up[j])) M.up[j] /= f;
   }
   // keep finite values inside the finite range of SoPlex's rational infinity
}
static bool withinFinite(const LPModel& M)
{
   Q lim = QINF() / 1000000;
   auto ok = [&](const Q & v) { return isPInf(v) || isNInf(v) || qabs(v) < lim; };
   for(int i = 0; i < M.m; i++)
   {
      if(!ok(M.lhs[i]) || !ok(M.rhs[i])) return false;
      if(!isNInf(M.lhs[i]) && !isPInf(M.rhs[i]) && M.lhs[i] > M.rhs[i]) return false;
   }
   for(int j = 0; j < M.n; j++) if(!ok(M.lo[j]) || !ok(M.up[j])) return false;
   return true;
}
// double image of a model: what the real interface stores (for SYNCMODE_ONLYREAL: the exact solve sees exactly these doubles)
static LPModel doubleImage(const LPModel& M)
{
   LPModel D = M;
   auto im = [](const Q & v) -> Q
   {
      if(isPInf(v) || isNInf(v)) return v;
      return qd(dq(v));
   };
   for(int i = 0; i < M.m; i++)
   {
      D.lhs[i] = im(M.lhs[i]);
      D.rhs[i] = im(M.rhs[i]);
      for(int j = 0; j < M.n; j++) D.A[i][j] = im(M.A[i][j]);
   }
   for(int j = 0; j < M.n; j++)
   {
      D.lo[j] = im(M.lo[j]);
      D.up[j] = im(M.up[j]);
      D.obj[j] = im(M.obj[j]);
   }
   D.offset = im(M.offset);
   return D;
}

// ------------------------------------------------------------------------------------------------ exact option vectors
static const int EXB[] = {SoPlex::LIFTING, SoPlex::EQTRANS, SoPlex::TESTDUALINF, SoPlex::RATFAC, SoPlex::ACCEPTCYCLING, SoPlex::RATREC,
                          SoPlex::POWERSCALING, SoPlex::RATFACJUMP, SoPlex::FORCEBASIC, SoPlex::ITERATIVE_REFINEMENT,
                          SoPlex::ADAPT_TOLS_TO_MULTIPRECISION, SoPlex::PRECISION_BOOSTING, SoPlex::BOOSTED_WARM_START, SoPlex::RECOVERY_MECHANISM
                         };
static const int NEXB = 14;
static ParamSet exactVector(Rng& g, long long idx, bool pairwiseMode)
{
   ParamSet p;
   if(pairwiseMode)
   {
      // simple 2-covering for booleans: vectors by bit patterns of idx over a Gray-like code + complements
      // (every pair of options takes all four value combinations within the first 2*ceil(log2(NEXB))+2 vectors)
      int nb = 4;   // 2^4 >= 14 ... use column coding: option o takes bit b of code(o) xor flip
      int v = (int)(idx % (2 * nb + 2));
      for(int o = 0; o < NEXB; o++)
      {
         bool val;
         if(v == 0) val = false;
         else if(v == 1) val = true;
         else
         {
            int b = (v - 2) / 2;
            val = (((o + 1) >> b) & 1) != 0;
            if((v - 2) % 2) val = !val;
         }
         p.b[EXB[o]] = val;
      }
   }
   else for(int o = 0; o < NEXB; o++) if(g.chance(0.4)) p.b[EXB[o]] = g.chance(0.5);
   // lifting is confined to one case in eight so that its (many) known failures do not shadow the other options
   p.b[SoPlex::LIFTING] = (idx % 8) == 5;
   if(g.chance(0.5)) p.i[SoPlex::SIMPLIFIER] = g.chance(0.5) ? 0 : 1;
   if(g.chance(0.5)) p.i[SoPlex::SCALER] = g.pick(std::vector<int> {0, 1, 2, 3, 4, 6});
   if(g.chance(0.2)) p.i[SoPlex::RATFAC_MINSTALLS] = g.range(0, 3);
   if(g.chance(0.2)) p.r[SoPlex::RATREC_FREQ] = g.pick(std::vector<double> {1.0, 1.2, 2.0});
   p.normalise();
   return p;
}
static bool boolOf(const ParamSet& p, int id)
{
   auto it = p.b.find(id);
   return it == p.b.end() ? SoPlex::Settings::boolParam.defaultValue[id] : it->second;
}

struct XRes
{
   std::string tag, detail;
   void set(const std::string& t, const std::string& d)
   {
      if(tag.empty())
      {
         tag = t;
         detail = d;
      }
   }
};

static void setupExact(SoPlex& sp, const ParamSet& cfg, int syncMode)
{
   quiet(sp);
   sp.setIntParam(SoPlex::SYNCMODE, syncMode, true);
   sp.setIntParam(SoPlex::SOLVEMODE, SoPlex::SOLVEMODE_RATIONAL, true);
   sp.setIntParam(SoPlex::CHECKMODE, SoPlex::CHECKMODE_RATIONAL, true);
   sp.setRealParam(SoPlex::FEASTOL, 0.0, true);
   sp.setRealParam(SoPlex::OPTTOL, 0.0, true);
   cfg.apply(sp);
}

// syncMode: 1 auto (rational API), 2 manual (rational API, then syncLPReal), 0 only-real (real API; model := double image)
static XRes c03Once(const LPModel& Min, const ParamSet& cfg, int syncMode, int loadMode, bool count, bool wantBasisChecks)
{
   Sink& S = sink();
   XRes R;
   LPModel M = syncMode == 0 ? doubleImage(Min) : Min;
   SoPlex sp;
   setupExact(sp, cfg, syncMode);
   // "always decides" is claimed for: the default options, the two shipped exact settings (exact.set = defaults;
   // exact-pure-boosting.set = no iterative refinement + precision boosting with adapted tolerances and ratfac_minstalls 0)
   // and option vectors that run iterative refinement with rational reconstruction or rational factorization enabled.
   bool ir = boolOf(cfg, SoPlex::ITERATIVE_REFINEMENT);
   bool pureBoosting = !ir && boolOf(cfg, SoPlex::PRECISION_BOOSTING) && boolOf(cfg, SoPlex::ADAPT_TOLS_TO_MULTIPRECISION)
                       && cfg.i.count(SoPlex::RATFAC_MINSTALLS) && cfg.i.at(SoPlex::RATFAC_MINSTALLS) == 0 && cfg.b.size() == 2;
   bool mustDecide = (ir && (boolOf(cfg, SoPlex::RATREC) || boolOf(cfg, SoPlex::RATFAC))) || pureBoosting;
   sp.setIntParam(SoPlex::ITERLIMIT, 200000, true);
   // wall-clock budget per solve; hitting it is counted as inconclusive, never as a verdict
   sp.setRealParam(SoPlex::TIMELIMIT, cli.thorough() ? 60.0 : 15.0, true);
   // "always decides" is judged on instances whose coefficient ratio is at most 1e12 (more extreme instances are solved and
   // all their verdicts/vectors are checked, but an undecided outcome is only counted)
   {
      Q mn = 0, mx = 0;
      for(int i = 0; i < M.m; i++) for(int j = 0; j < M.n; j++) if(M.A[i][j] != 0)
            {
               Q a = qabs(M.A[i][j]);
               if(mn == 0 || a < mn) mn = a;
               if(a > mx) mx = a;
            }
      if(mn != 0 && mx / mn > Q("1000000000000"))
      {
         if(count && mustDecide) S.count("c03.extreme_ratio_instances");
         mustDecide = false;
      }
   }
   bool limited = !mustDecide;
   if(limited)
   {
      sp.setIntParam(SoPlex::REFLIMIT, 40, true);
      sp.setIntParam(SoPlex::STALLREFLIMIT, 20, true);
   }
   if(syncMode == 0) loadReal(sp, M, loadMode);
   else
   {
      loadRational(sp, M, loadMode);
      if(syncMode == 2) sp.syncLPReal();
   }
   // offset: OBJ_OFFSET is a real parameter; the rational objective uses its exact double value
   M.offset = qd(sp.realParam(SoPlex::OBJ_OFFSET));
   sp.optimize();
   int st = (int)sp.status();
   if(count)
   {
      S.count(std::string("c03.status.") + statusName(st));
      S.count("c03.refinements", sp.numRefinements());
      if(sp.numPrecisionBoosts() > 0) S.count("c03.solves_with_precision_boost");
      S.count(std::string("c03.sync.") + (syncMode == 0 ? "onlyreal" : syncMode == 1 ? "auto" : "manual"));
   }
   RefResult T = refSolve(M);
   int m = M.m, n = M.n;
   bool definite = st == SPX::OPTIMAL || st == SPX::INFEASIBLE || st == SPX::UNBOUNDED;
   if(T.certified && definite)
   {
      if(count) S.count("c03.verdict_checked");
      int tst = T.status == REF_OPTIMAL ? (int)SPX::OPTIMAL : T.status == REF_INFEASIBLE ? (int)SPX::INFEASIBLE : (int)SPX::UNBOUNDED;
      if(st != tst)
      {
         R.set(std::string("verdict.") + statusName(st) + "-on-" + statusName(tst), std::string("exact solve returns ") + statusName(
                  st) + " but the rational LP is " + statusName(tst));
         return R;
      }
   }
   if(st == SPX::INForUNBD && T.certified && T.status == REF_OPTIMAL)
   {
      R.set("verdict.INForUNBD-on-OPTIMAL", "exact solve returns INForUNBD but the rational LP has a finite optimum");
      return R;
   }
   if(st == SPX::ABORT_TIME)
   {
      if(count) S.count("c03.inconclusive_time_budget");
      return R;
   }
   if(mustDecide && !definite && T.certified)
   {
      if(count) S.count("c03.undecided");
      R.set(std::string("undecided.") + statusName(st), std::string("exact solve with rational reconstruction/factorization available ended with ") + statusName(
               st) + " (truth: " + (T.status == REF_OPTIMAL ? "OPTIMAL" : T.status == REF_INFEASIBLE ? "INFEASIBLE" : "UNBOUNDED") + ")");
      return R;
   }
   if(st == SPX::OPTIMAL)
   {
      VectorRational x(n), y(m), r(n), s(m);
      bool a = sp.getPrimalRational(x), b = sp.getDualRational(y), c = sp.getRedCostRational(r), d = sp.getSlacksRational(s);
      if(!(a && b && c && d))
      {
         R.set("vectors", "OPTIMAL but a rational solution getter failed");
         return R;
      }
      if(count) S.count("c03.optimal_checked");
      std::vector<Q> xq = toQ(x), yq = toQ(y), rq = toQ(r), sq = toQ(s);
      OptResid o = optResiduals(M, xq, sq, yq, rq);
      if(o.boundViol != 0) R.set("exact.bound", "rational primal violates bound of column " + std::to_string(o.worstBound) + " by " + qs(o.boundViol));
      else if(o.sideViol != 0) R.set("exact.side", "rational primal violates side of row " + std::to_string(o.worstSide) + " by " + qs(o.sideViol));
      else if(o.slackResid != 0) R.set("exact.slack", "rational slack != A x in row " + std::to_string(o.worstSl));
      else if(o.rcResid != 0) R.set("exact.redcost", "rational redcost != c - A^T y in column " + std::to_string(o.worstRc) + " by " + qs(o.rcResid));
      else if(o.ySignViol != 0) R.set("exact.dualsign", "rational dual of row " + std::to_string(o.worstYs) + " has the wrong sign");
      else if(o.rSignViol != 0) R.set("exact.rcsign", "rational reduced cost of column " + std::to_string(o.worstRs) + " has the wrong sign");
      else if(o.gap != 0) R.set("exact.gap", "duality gap " + qs(o.gap) + " is not zero");
      if(!R.tag.empty()) return R;
      Q ov = sp.objValueRational();
      if(ov != o.pobj)
      {
         bool offsetOnly = (ov + M.offset == o.pobj);
         R.set(offsetOnly ? "objvalue.offset-missing" : "objvalue", "objValueRational() = " + qs(ov) + " but c.x + offset = " + qs(
                  o.pobj) + " (offset " + qs(M.offset) + ")");
         return R;
      }
      if(T.certified && T.status == REF_OPTIMAL && o.pobj != T.objval)
      {
         R.set("optimum", "exact optimal value " + qs(o.pobj) + " differs from the certified optimum " + qs(T.objval));
         return R;
      }
      // C04 (g) / C11 API checks on the final basis
      if(wantBasisChecks && sp.hasBasis() && m > 0 && m <= 30)
      {
         std::vector<SPX::VarStatus> rs(m + 1), cs(n + 1);
         sp.getBasis(rs.data(), cs.data());
         DataArray<int> bindR;
         if(sp.getBasisIndRational(bindR) && bindR.size() == m)
         {
            std::vector<int> bind(m);
            for(int k = 0; k < m; k++) bind[k] = bindR[k];
            std::vector<std::vector<Q>> B = basisMatrix(M, bind), inv;
            if(invertQ(B, inv))
            {
               if(count) S.count("c11.api.bases_checked");
               for(int t = 0; t < std::min(m, 4); t++)
               {
                  int k = m <= 4 ? t : (int)((t * 2654435761u + (unsigned)m) % (unsigned)m);
                  SSVectorRational v(m);
                  if(!sp.getBasisInverseRowRational(k, v))
                  {
                     R.set("c11.invrow.failed", "getBasisInverseRowRational failed on a regular basis");
                     return R;
                  }
                  for(int i = 0; i < m; i++) if(Q(v[i]) != inv[k][i])
                     {
                        R.set("c11.invrow", "row " + std::to_string(k) + " of the rational basis inverse is not exact at position " + std::to_string(i));
                        return R;
                     }
                  SSVectorRational w(m);
                  if(!sp.getBasisInverseColRational(k, w))
                  {
                     R.set("c11.invcol.failed", "getBasisInverseColRational failed on a regular basis");
                     return R;
                  }
                  for(int i = 0; i < m; i++) if(Q(w[i]) != inv[i][k])
                     {
                        R.set("c11.invcol", "column " + std::to_string(k) + " of the rational basis inverse is not exact at position " + std::to_string(i));
                        return R;
                     }
                  if(count) S.count("c11.api.rows_cols_checked", 2);
               }
               {
                  DSVectorRational rhs(m);
                  std::vector<Q> rq2(m, Q(0));
                  for(int i = 0; i < m; i++) if(((i * 7 + m) % 3) != 0)
                     {
                        Q val = Q((i % 5) - 2) / Q(3 + (i % 4));
                        if(val != 0)
                        {
                           rhs.add(i, val);
                           rq2[i] = val;
                        }
                     }
                  SSVectorRational sol(m);
                  if(!sp.getBasisInverseTimesVecRational(rhs, sol))
                  {
                     R.set("c11.solve.failed", "getBasisInverseTimesVecRational failed on a regular basis");
                     return R;
                  }
                  for(int i = 0; i < m; i++)
                  {
                     Q e = 0;
                     for(int k2 = 0; k2 < m; k2++) if(inv[i][k2] != 0 && rq2[k2] != 0) e += inv[i][k2] * rq2[k2];
                     if(Q(sol[i]) != e)
                     {
                        R.set("c11.solve", "getBasisInverseTimesVecRational is not exact at position " + std::to_string(i));
                        return R;
                     }
                  }
                  if(count) S.count("c11.api.solves_checked");
               }
               // C04 (g): with forced basic solutions the rational primal/dual are the basic solutions of the basis
               if(boolOf(cfg, SoPlex::FORCEBASIC))
               {
                  if(count) S.count("c04g.forcebasic_checked");
                  // x_N from statuses, x_B = B^-1 (0 - N x_N) in the slack formulation A x - s = 0
                  std::vector<Q> xs(n + m, Q(0));   // structurals then slacks
                  bool okStat = true;
                  for(int j = 0; j < n; j++)
                  {
                     if(cs[j] == SPX::BASIC) continue;
                     if(cs[j] == SPX::ON_LOWER || cs[j] == SPX::FIXED) xs[j] = M.lo[j];
                     else if(cs[j] == SPX::ON_UPPER) xs[j] = M.up[j];
                     else xs[j] = 0;
                     if(isPInf(xs[j]) || isNInf(xs[j])) okStat = false;
                  }
                  for(int i = 0; i < m; i++)
                  {
                     if(rs[i] == SPX::BASIC) continue;
                     if(rs[i] == SPX::ON_LOWER || rs[i] == SPX::FIXED) xs[n + i] = M.lhs[i];
                     else if(rs[i] == SPX::ON_UPPER) xs[n + i] = M.rhs[i];
                     else xs[n + i] = 0;
                     if(isPInf(xs[n + i]) || isNInf(xs[n + i])) okStat = false;
                  }
                  if(okStat)
                  {
                     // solve for basics: rows i: sum_j A_ij x_j - s_i = 0
                     std::vector<std::vector<Q>> BB(m, std::vector<Q>(m, Q(0)));
                     std::vector<Q> rhs2(m, Q(0));
                     std::vector<int> bvars;
                     for(int j = 0; j < n; j++) if(cs[j] == SPX::BASIC) bvars.push_back(j);
                     for(int i = 0; i < m; i++) if(rs[i] == SPX::BASIC) bvars.push_back(n + i);
                     if((int)bvars.size() == m)
                     {
                        for(int i = 0; i < m; i++)
                        {
                           Q acc = 0;
                           for(int j = 0; j < n; j++) if(cs[j] != SPX::BASIC && M.A[i][j] != 0) acc += M.A[i][j] * xs[j];
                           if(rs[i] != SPX::BASIC) acc -= xs[n + i];
                           rhs2[i] = -acc;
                           for(int k = 0; k < m; k++)
                           {
                              int v = bvars[k];
                              BB[i][k] = v < n ? M.A[i][v] : (v - n == i ? Q(-1) : Q(0));
                           }
                        }
                        std::vector<Q> xb;
                        if(solveQ(BB, rhs2, xb))
                        {
                           for(int k = 0; k < m; k++) xs[bvars[k]] = xb[k];
                           for(int j = 0; j < n; j++) if(xs[j] != xq[j])
                              {
                                 R.set("c04g.primal-not-basic", "with forced basic solutions the rational primal is not the basic solution of the returned basis (column " + std::to_string(
                                          j) + ": " + qs(xq[j]) + " vs " + qs(xs[j]) + ")");
                                 return R;
                              }
                        }
                     }
                  }
               }
            }
         }
      }
   }
   else if(st == SPX::INFEASIBLE)
   {
      VectorRational y(m);
      if(!sp.hasDualFarkas() || !sp.getDualFarkasRational(y))
      {
         R.set("farkas.missing", "exact INFEASIBLE without a rational Farkas proof");
         return R;
      }
      if(count) S.count("c03.farkas_checked");
      FarkasRes f = checkFarkas(M, toQ(y));
      if(!f.proves) R.set("farkas", "rational Farkas vector does not prove infeasibility exactly: " + f.why);
   }
   else if(st == SPX::UNBOUNDED)
   {
      VectorRational d(n);
      if(!sp.hasPrimalRay() || !sp.getPrimalRayRational(d))
      {
         R.set("ray.missing", "exact UNBOUNDED without a rational primal ray");
         return R;
      }
      if(count) S.count("c03.ray_checked");
      RayRes rr = checkRay(M, toQ(d));
      if(!rr.valid) R.set("ray", "rational primal ray is not an exact improving recession direction: " + rr.why);
   }
   return R;
}

static LPModel genRationalInstance(Rng& g, std::string& fam)
{
   static const std::vector<std::string> fams = {"planted-opt", "degenerate", "arbitrary", "planted-infeasible", "planted-unbounded", "presolve-rich", "planted-both"};
   fam = fams[(size_t)g.range(0, (int)fams.size() - 1)];
   int mx = g.range(0, 9) == 0 ? 18 : 8;
   Instance I = genFamily(g, fam, mx, mx);
   LPModel M = I.M;
   int mode = g.range(0, 3);
   if(mode >= 1) ratScale(g, M, mode == 1 ? 0.3 : 0.8);
   if(mode == 3)
   {
      // sprinkle individual non-dyadic perturbations that keep lhs<=rhs, lo<=up
      for(int j = 0; j < M.n; j++) if(g.chance(0.3)) M.obj[j] += Q(g.range(-3, 3)) / Q(g.pick(std::vector<int> {3, 7, 11, 1000}));
      for(int i = 0; i < M.m; i++) for(int j = 0; j < M.n; j++) if(M.A[i][j] != 0 && g.chance(0.15)) M.A[i][j] += Q(1) / Q(g.pick(std::vector<int> {3, 9, 10, 1000000}));
   }
   fam += mode == 0 ? "/int" : mode == 1 ? "/rat-some" : mode == 2 ? "/rat-most" : "/rat-perturbed";
   M.family = fam;
   return M;
}

static void caseC03(long long k, Rng& g)
{
   Sink& S = sink();
   std::string fam;
   LPModel M = genRationalInstance(g, fam);
   bool pw = (k % 3) != 2;
   ParamSet cfg = exactVector(g, k / 3, pw);
   if(k % 11 == 0) cfg = ParamSet();     // default options (= settings/exact.set)
   if(k % 13 == 0)                       // settings/exact-pure-boosting.set
   {
      cfg = ParamSet();
      cfg.b[SoPlex::ITERATIVE_REFINEMENT] = false;
      cfg.b[SoPlex::ADAPT_TOLS_TO_MULTIPRECISION] = true;
      cfg.i[SoPlex::RATFAC_MINSTALLS] = 0;
   }
   int syncMode = (int)((k / 2) % 3);
   int loadMode = g.range(0, 1);
   S.begin(k, fam + " " + std::to_string(M.m) + "x" + std::to_string(M.n) + " sync" + std::to_string(syncMode) + " " + cfg.key());
   if(!withinFinite(M))
   {
      S.count("gen.out_of_range_skipped");
      S.end(k);
      return;
   }
   S.count("cases");
   S.count("family." + fam.substr(0, fam.find('/')));
   S.seen("cfg", fnv(cfg.key()));
   S.seen("nontrivial", M.signature() ^ fnv(cfg.key()) ^ (uint64_t)syncMode);
   XRes r = c03Once(M, cfg, syncMode, loadMode, true, true);
   if(!r.tag.empty())
   {
      std::function<bool(const ParamSet&)> again = [&](const ParamSet & p)
      {
         return c03Once(M, p, syncMode, loadMode, false, true).tag == r.tag;
      };
      ParamSet mc = minimiseConfig(cfg, again);
      std::string prop = r.tag.rfind("c11.", 0) == 0 ? "C11" : r.tag.rfind("c04g.", 0) == 0 ? "C04" : "C03";
      if(prop == cli.prop || (cli.prop == "C03" && prop == "C03"))
         S.viol(prop + ":" + r.tag + ":" + mc.key() + (syncMode == 0 ? "+onlyreal" : ""), r.detail + " | family " + fam + ", sync mode " + std::to_string(
                   syncMode) + ", full config " + cfg.key(), replayJson(M, cfg, mc, loadMode));
      else S.count("other_property_findings." + prop);
   }
   if(k < 4) S.sample(Json().str("family", fam).num("m", M.m).num("n", M.n).str("config", cfg.key()).num("syncmode", syncMode).done());
   S.end(k);
}

// ------------------------------------------------------------------------------------------------ C07
// Mirror of both LPs: the rational LP holds exactly what was entered; the real LP is its coefficient-wise image.
struct Sync
{
   LPModel R;                          // exact rational model (what the rational LP must hold)
   // for entries last written through the REAL interface the real LP must hold exactly that double, which equals R (exact
   // conversion); for entries written through the RATIONAL interface the real LP must hold an adjacent double of R.
};

static soplex::Rational toRatInf(const Q& q)
{
   if(isPInf(q)) return soplex::Rational(QINF());
   if(isNInf(q)) return soplex::Rational(-QINF());
   return q;
}
// denormal-scale values are only meaningful where no power-of-two scaling can touch them (scaling a denormal is inexact) and never as
// matrix coefficients (|a| <= epsilon_zero is dropped by design)
static bool g_tinyOk = false;
static Q interestingQ(Rng& g)
{
   int w = g.range(0, 11);
   if(w == 6) w = 0;   // denormal-scale values are excluded: SoPlex's zero tolerance (epsilon 1e-16) merges / drops them by design
   if(w <= 3) return Q(g.range(-9, 9));
   if(w == 4) return Q(g.range(-9, 9)) / Q(g.pick(std::vector<int> {3, 7, 10, 1000}));
   if(w == 5) return Q("1/10");
   if(w == 6) return qd(std::ldexp((double)g.range(1, 7), -1074 + g.range(0, 5)));      // denormal-scale
   if(w == 7) return Q("123456789012345678901234567890/987654321");
   if(w == 8) return qd((double)g.range(-5, 5) * 1e-7);
   if(w == 9) return Q(g.range(-5, 5)) * Q("1000000000000000000000");
   if(w == 10) return qd(0.1 * g.range(-5, 5));
   return Q(0);
}
static double interestingD(Rng& g)
{
   int w = g.range(0, 8);
   if(w == 6) w = 0;   // denormal-scale values are excluded: SoPlex's zero tolerance (epsilon 1e-16) merges / drops them by design
   if(w <= 3) return (double)g.range(-9, 9);
   if(w == 4) return 1.0 / 3.0 * g.range(-3, 3);
   if(w == 5) return 1e-1;
   if(w == 6) return std::ldexp((double)g.range(1, 7), -1074 + g.range(0, 5));
   if(w == 7) return 1e15 * g.range(-3, 3);
   return 0.0;
}
static void sidesQ(Rng& g, Q& l, Q& r, bool fancy)
{
   int t = g.range(0, 5);
   Q a = fancy ? interestingQ(g) : Q(g.range(-12, 12));
   Q w = fancy ? qabs(interestingQ(g)) : Q(g.range(0, 9));
   l = (t == 0 || t == 5) ? NINF() : a;
   r = (t == 1 || t == 5) ? PINF() : (t == 2 ? a : Q(a + w));
   if(t == 0) r = a;
}

static std::string compareSync(SoPlex& sp, const LPModel& M, const std::vector<std::vector<char>>& realWritten /*unused*/)
{
   (void)realWritten;
   int m = M.m, n = M.n;
   if(sp.numRowsRational() != m || sp.numColsRational() != n) return "dims.rational:rational LP is " + std::to_string(sp.numRowsRational()) + "x" +
            std::to_string(sp.numColsRational()) + ", model " + std::to_string(m) + "x" + std::to_string(n);
   if(sp.numRows() != m || sp.numCols() != n) return "dims.real:real LP is " + std::to_string(sp.numRows()) + "x" + std::to_string(
               sp.numCols()) + ", model " + std::to_string(m) + "x" + std::to_string(n);
   // the bound-type arrays of the exact solver must have exactly one entry per row / column (also for an empty LP)
   if(sp._rowTypes.size() != m) return "rowtypes.size:_rowTypes has " + std::to_string(sp._rowTypes.size()) + " entries for " + std::to_string(m) + " rows";
   if(sp._colTypes.size() != n) return "coltypes.size:_colTypes has " + std::to_string(sp._colTypes.size()) + " entries for " + std::to_string(n) + " columns";
   auto img = [](const Q & q, double d, bool isLowerLike) -> bool
   {
      (void)isLowerLike;
      if(isPInf(q)) return d >= soplex::infinity;
      if(isNInf(q)) return d <= -soplex::infinity;
      return isAdjacentDouble(q, d);
   };
   auto eqR = [](const soplex::Rational & got, const Q & want) -> bool
   {
      if(isPInf(want)) return got >= QINF();
      if(isNInf(want)) return got <= -QINF();
      return Q(got) == want;
   };
   for(int i = 0; i < m; i++)
   {
      if(!eqR(sp.lhsRational(i), M.lhs[i])) return "rational.lhs:lhsRational(" + std::to_string(i) + ")=" + sp.lhsRational(i).str() + " model " + qs(M.lhs[i]);
      if(!eqR(sp.rhsRational(i), M.rhs[i])) return "rational.rhs:rhsRational(" + std::to_string(i) + ")=" + sp.rhsRational(i).str() + " model " + qs(M.rhs[i]);
      if(!img(M.lhs[i], sp.lhsReal(i), true)) return "real.lhs:lhsReal(" + std::to_string(i) + ")=" + ds(sp.lhsReal(i)) + " is not the image of " + qs(M.lhs[i]);
      if(!img(M.rhs[i], sp.rhsReal(i), false)) return "real.rhs:rhsReal(" + std::to_string(i) + ")=" + ds(sp.rhsReal(i)) + " is not the image of " + qs(M.rhs[i]);
      const SVectorRational& rv = sp.rowVectorRational(i);
      std::vector<Q> dense(n, Q(0));
      for(int t = 0; t < rv.size(); t++)
      {
         if(rv.index(t) < 0 || rv.index(t) >= n) return "rational.rowvec:index out of range in row " + std::to_string(i);
         dense[rv.index(t)] = rv.value(t);
      }
      for(int j = 0; j < n; j++)
      {
         if(dense[j] != M.A[i][j]) return "rational.coef:rowVectorRational(" + std::to_string(i) + ")[" + std::to_string(j) + "]=" + qs(dense[j]) + " model " + qs(
                                                M.A[i][j]);
         double c = sp.coefReal(i, j);
         if(!isAdjacentDouble(M.A[i][j], c)) return "real.coef:coefReal(" + std::to_string(i) + "," + std::to_string(j) + ")=" + ds(c) + " is not the image of " + qs(
                     M.A[i][j]);
      }
      // bound-type classification used by the exact solver
      int want = isNInf(M.lhs[i]) ? (isPInf(M.rhs[i]) ? SoPlex::RANGETYPE_FREE : SoPlex::RANGETYPE_UPPER) : (isPInf(M.rhs[i]) ? SoPlex::RANGETYPE_LOWER :
                 (M.lhs[i] == M.rhs[i] ? SoPlex::RANGETYPE_FIXED : SoPlex::RANGETYPE_BOXED));
      if((int)sp._rowTypes[i] != want) return "rowtypes:row " + std::to_string(i) + " classified " + std::to_string((int)sp._rowTypes[i]) + ", rational sides say " + std::to_string(
                     want);
   }
   for(int j = 0; j < n; j++)
   {
      if(!eqR(sp.lowerRational(j), M.lo[j])) return "rational.lower:lowerRational(" + std::to_string(j) + ")=" + sp.lowerRational(j).str() + " model " + qs(M.lo[j]);
      if(!eqR(sp.upperRational(j), M.up[j])) return "rational.upper:upperRational(" + std::to_string(j) + ")=" + sp.upperRational(j).str() + " model " + qs(M.up[j]);
      if(Q(sp.objRational(j)) != M.obj[j]) return "rational.obj:objRational(" + std::to_string(j) + ")=" + sp.objRational(j).str() + " model " + qs(M.obj[j]);
      if(!img(M.lo[j], sp.lowerReal(j), true)) return "real.lower:lowerReal(" + std::to_string(j) + ")=" + ds(sp.lowerReal(j)) + " is not the image of " + qs(M.lo[j]);
      if(!img(M.up[j], sp.upperReal(j), false)) return "real.upper:upperReal(" + std::to_string(j) + ")=" + ds(sp.upperReal(j)) + " is not the image of " + qs(M.up[j]);
      if(!isAdjacentDouble(M.obj[j], sp.objReal(j))) return "real.obj:objReal(" + std::to_string(j) + ")=" + ds(sp.objReal(j)) + " is not the image of " + qs(M.obj[j]);
      const SVectorRational& cv = sp.colVectorRational(j);
      std::vector<Q> dense(m, Q(0));
      for(int t = 0; t < cv.size(); t++)
      {
         if(cv.index(t) < 0 || cv.index(t) >= m) return "rational.colvec:index out of range in column " + std::to_string(j);
         dense[cv.index(t)] = cv.value(t);
      }
      for(int i = 0; i < m; i++) if(dense[i] != M.A[i][j]) return "rational.colvec:colVectorRational(" + std::to_string(j) + ")[" + std::to_string(i) + "] differs from the model";
      int want = isNInf(M.lo[j]) ? (isPInf(M.up[j]) ? SoPlex::RANGETYPE_FREE : SoPlex::RANGETYPE_UPPER) : (isPInf(M.up[j]) ? SoPlex::RANGETYPE_LOWER :
                 (M.lo[j] == M.up[j] ? SoPlex::RANGETYPE_FIXED : SoPlex::RANGETYPE_BOXED));
      if((int)sp._colTypes[j] != want) return "coltypes:column " + std::to_string(j) + " classified " + std::to_string((int)sp._colTypes[j]) + ", rational bounds say " + std::to_string(
                     want);
   }
   int sense = sp.intParam(SoPlex::OBJSENSE) == SoPlex::OBJSENSE_MAXIMIZE ? 1 : -1;
   if(sense != M.sense) return "sense:objective sense parameter differs from the model";
   if((sp._rationalLP->spxSense() == SPxLPRational::MAXIMIZE ? 1 : -1) != M.sense) return "sense.rational:rational LP has the wrong optimization sense";
   if((sp._realLP->spxSense() == SPxLPBase<double>::MAXIMIZE ? 1 : -1) != M.sense) return "sense.real:real LP has the wrong optimization sense";
   return "";
}

struct MpqArr
{
   std::vector<mpq_t> v;
   MpqArr(size_t n) : v(n)
   {
      for(auto& x : v) mpq_init(x);
   }
   ~MpqArr()
   {
      for(auto& x : v) mpq_clear(x);
   }
   void set(size_t i, const Q& q)
   {
      mpq_set(v[i], toRatInf(q).backend().data());
   }
   const mpq_t* data() const
   {
      return v.data();
   }
};

static XRes c07Run(uint64_t sub, int nsteps, bool count)
{
   Sink& S = sink();
   XRes R;
   Rng g(707, sub, 7);
   Planted P;
   LPModel M = genPlantedOpt(g, P, 5, 5, false);
   SoPlex sp;
   quiet(sp);
   sp.setIntParam(SoPlex::SYNCMODE, SoPlex::SYNCMODE_AUTO, true);
   if(g.chance(0.5)) sp.setBoolParam(SoPlex::PERSISTENTSCALING, false, true);
   bool scalingOff = g.chance(0.4);
   if(scalingOff) sp.setIntParam(SoPlex::SCALER, SoPlex::SCALER_OFF, true);
   g_tinyOk = false;
   loadRational(sp, M, g.range(0, 1));
   M.offset = qd(sp.realParam(SoPlex::OBJ_OFFSET));
   std::vector<std::vector<char>> dummy;
   auto fail = [&](const std::string & t, const std::string & d)
   {
      R.set(t, d);
   };
   {
      std::string e = compareSync(sp, M, dummy);
      if(!e.empty())
      {
         fail("load." + e.substr(0, e.find(':')), e.substr(e.find(':') + 1));
         return R;
      }
   }
   int mode = SoPlex::SYNCMODE_AUTO;
   int rebuild = 0;
   std::string cur = "?";
   try
   {
      for(int step = 0; step < nsteps && R.tag.empty(); step++)
      {
         int m = M.m, n = M.n;
         int op = g.range(0, 47);
         if(rebuild > 0)
         {
            // after a clearLP*() rebuild the LP through a mix of real and rational add calls
            rebuild--;
            static const int addOps[8] = {2, 3, 5, 29, 0, 1, 4, 28};
            op = addOps[n < 2 ? g.range(0, 3) : g.range(0, 7)];
         }
         g_tinyOk = scalingOff && (op == 8 || op == 9 || op == 10 || op == 11 || op == 12 || op == 13 || op == 14 || (op >= 16 && op <= 22) || (op >= 30 && op <= 32) || op == 34 || op == 35 || op == 36);
         bool fancy = g.chance(0.6);
         bool checked = true;
         switch(op)
         {
         // ---------------- rational interface
         case 0:
         {
            cur = "addRowRational";
            Q l, r;
            sidesQ(g, l, r, fancy);
            std::vector<Q> v(n, Q(0));
            DSVectorRational dv(n + 1);
            for(int j = 0; j < n; j++) if(g.chance(0.5))
               {
                  v[j] = interestingQ(g);
                  if(v[j] != 0) dv.add(j, v[j]);
               }
            sp.addRowRational(LPRowRational(toRatInf(l), dv, toRatInf(r)));
            M.addRow(l, v, r);
            break;
         }
         case 1:
         {
            cur = "addRowRational(mpq)";
            Q l, r;
            sidesQ(g, l, r, fancy);
            std::vector<Q> v(n, Q(0));
            std::vector<int> idx;
            for(int j = 0; j < n; j++) if(g.chance(0.5))
               {
                  v[j] = interestingQ(g);
                  if(v[j] != 0) idx.push_back(j);
                  else v[j] = 0;
               }
            MpqArr vals(idx.size() + 1), lr(2);
            for(size_t t = 0; t < idx.size(); t++) vals.set(t, v[idx[t]]);
            lr.set(0, l);
            lr.set(1, r);
            sp.addRowRational(lr.data(), vals.data(), idx.data(), (int)idx.size(), lr.data() + 1);
            M.addRow(l, v, r);
            break;
         }
         case 2:
         {
            cur = "addColRational";
            Q l, u;
            sidesQ(g, l, u, fancy);
            Q c = interestingQ(g);
            std::vector<Q> v(m, Q(0));
            DSVectorRational dv(m + 1);
            for(int i = 0; i < m; i++) if(g.chance(0.5))
               {
                  v[i] = interestingQ(g);
                  if(v[i] != 0) dv.add(i, v[i]);
               }
            sp.addColRational(LPColRational(c, dv, toRatInf(u), toRatInf(l)));
            M.addCol(c, l, u, v);
            break;
         }
         case 3:
         {
            cur = "addColRational(mpq)";
            Q l, u;
            sidesQ(g, l, u, fancy);
            Q c = interestingQ(g);
            std::vector<Q> v(m, Q(0));
            std::vector<int> idx;
            for(int i = 0; i < m; i++) if(g.chance(0.5))
               {
                  v[i] = interestingQ(g);
                  if(v[i] != 0) idx.push_back(i);
               }
            MpqArr vals(idx.size() + 1), clu(3);
            for(size_t t = 0; t < idx.size(); t++) vals.set(t, v[idx[t]]);
            clu.set(0, c);
            clu.set(1, l);
            clu.set(2, u);
            sp.addColRational(clu.data(), clu.data() + 1, vals.data(), idx.data(), (int)idx.size(), clu.data() + 2);
            M.addCol(c, l, u, v);
            break;
         }
         case 4:
         {
            cur = "addRowsRational";
            LPRowSetRational rs;
            int k = g.range(1, 2);
            for(int t = 0; t < k; t++)
            {
               Q l, r;
               sidesQ(g, l, r, fancy);
               std::vector<Q> v(n, Q(0));
               DSVectorRational dv(n + 1);
               for(int j = 0; j < n; j++) if(g.chance(0.4))
                  {
                     v[j] = interestingQ(g);
                     if(v[j] != 0) dv.add(j, v[j]);
                  }
               rs.add(toRatInf(l), dv, toRatInf(r));
               M.addRow(l, v, r);
            }
            sp.addRowsRational(rs);
            break;
         }
         case 5:
         {
            cur = "addColsRational";
            LPColSetRational cs;
            int k = g.range(1, 2);
            for(int t = 0; t < k; t++)
            {
               Q l, u;
               sidesQ(g, l, u, fancy);
               Q c = interestingQ(g);
               std::vector<Q> v(m, Q(0));
               DSVectorRational dv(m + 1);
               for(int i = 0; i < m; i++) if(g.chance(0.4))
                  {
                     v[i] = interestingQ(g);
                     if(v[i] != 0) dv.add(i, v[i]);
                  }
               cs.add(c, toRatInf(l), dv, toRatInf(u));
               M.addCol(c, l, u, v);
            }
            sp.addColsRational(cs);
            break;
         }
         case 6:
         {
            if(m == 0) continue;
            cur = "changeRowRational";
            int i = g.range(0, m - 1);
            Q l, r;
            sidesQ(g, l, r, fancy);
            std::vector<Q> v(n, Q(0));
            DSVectorRational dv(n + 1);
            for(int j = 0; j < n; j++) if(g.chance(0.5))
               {
                  v[j] = interestingQ(g);
                  if(v[j] != 0) dv.add(j, v[j]);
               }
            sp.changeRowRational(i, LPRowRational(toRatInf(l), dv, toRatInf(r)));
            M.A[i] = v;
            M.lhs[i] = l;
            M.rhs[i] = r;
            break;
         }
         case 7:
         {
            if(n == 0) continue;
            cur = "changeColRational";
            int j = g.range(0, n - 1);
            Q l, u;
            sidesQ(g, l, u, fancy);
            Q c = interestingQ(g);
            std::vector<Q> v(m, Q(0));
            DSVectorRational dv(m + 1);
            for(int i = 0; i < m; i++) if(g.chance(0.5))
               {
                  v[i] = interestingQ(g);
                  if(v[i] != 0) dv.add(i, v[i]);
               }
            sp.changeColRational(j, LPColRational(c, dv, toRatInf(u), toRatInf(l)));
            for(int i = 0; i < m; i++) M.A[i][j] = v[i];
            M.lo[j] = l;
            M.up[j] = u;
            M.obj[j] = c;
            break;
         }
         case 8: case 9: case 10:
         {
            if(m == 0) continue;
            int i = g.range(0, m - 1);
            Q l, r;
            sidesQ(g, l, r, fancy);
            bool gm = g.chance(0.4);
            if(op == 8)
            {
               // keep lhs <= rhs
               if(!isPInf(M.rhs[i]) && !isNInf(l) && l > M.rhs[i]) l = M.rhs[i];
               cur = gm ? "changeLhsRational(mpq)" : "changeLhsRational(i)";
               if(gm)
               {
                  MpqArr a(1);
                  a.set(0, l);
                  sp.changeLhsRational(i, a.data());
               }
               else sp.changeLhsRational(i, toRatInf(l));
               M.lhs[i] = l;
            }
            else if(op == 9)
            {
               if(!isNInf(M.lhs[i]) && !isPInf(r) && r < M.lhs[i]) r = M.lhs[i];
               cur = "changeRhsRational(i)";
               sp.changeRhsRational(i, toRatInf(r));
               M.rhs[i] = r;
            }
            else
            {
               cur = gm ? "changeRangeRational(mpq)" : "changeRangeRational(i)";
               if(gm)
               {
                  MpqArr a(2);
                  a.set(0, l);
                  a.set(1, r);
                  sp.changeRangeRational(i, a.data(), a.data() + 1);
               }
               else sp.changeRangeRational(i, toRatInf(l), toRatInf(r));
               M.lhs[i] = l;
               M.rhs[i] = r;
            }
            break;
         }
         case 11: case 12: case 13:
         {
            if(n == 0) continue;
            int j = g.range(0, n - 1);
            Q l, u;
            sidesQ(g, l, u, fancy);
            bool gm = g.chance(0.4);
            if(op == 11)
            {
               if(!isPInf(M.up[j]) && !isNInf(l) && l > M.up[j]) l = M.up[j];
               cur = gm ? "changeLowerRational(mpq)" : "changeLowerRational(i)";
               if(gm)
               {
                  MpqArr a(1);
                  a.set(0, l);
                  sp.changeLowerRational(j, a.data());
               }
               else sp.changeLowerRational(j, toRatInf(l));
               M.lo[j] = l;
            }
            else if(op == 12)
            {
               if(!isNInf(M.lo[j]) && !isPInf(u) && u < M.lo[j]) u = M.lo[j];
               cur = gm ? "changeUpperRational(mpq)" : "changeUpperRational(i)";
               if(gm)
               {
                  MpqArr a(1);
                  a.set(0, u);
                  sp.changeUpperRational(j, a.data());
               }
               else sp.changeUpperRational(j, toRatInf(u));
               M.up[j] = u;
            }
            else
            {
               cur = gm ? "changeBoundsRational(mpq)" : "changeBoundsRational(i)";
               if(gm)
               {
                  MpqArr a(2);
                  a.set(0, l);
                  a.set(1, u);
                  sp.changeBoundsRational(j, a.data(), a.data() + 1);
               }
               else sp.changeBoundsRational(j, toRatInf(l), toRatInf(u));
               M.lo[j] = l;
               M.up[j] = u;
            }
            break;
         }
         case 14:
         {
            if(n == 0) continue;
            int j = g.range(0, n - 1);
            Q c = interestingQ(g);
            bool gm = g.chance(0.4);
            cur = gm ? "changeObjRational(mpq)" : "changeObjRational(i)";
            if(gm)
            {
               MpqArr a(1);
               a.set(0, c);
               sp.changeObjRational(j, a.data());
            }
            else sp.changeObjRational(j, c);
            M.obj[j] = c;
            break;
         }
         case 15:
         {
            if(m == 0 || n == 0) continue;
            int i = g.range(0, m - 1), j = g.range(0, n - 1);
            Q v = g.chance(0.2) ? Q(0) : interestingQ(g);
            bool gm = g.chance(0.4);
            cur = gm ? "changeElementRational(mpq)" : "changeElementRational";
            if(gm)
            {
               MpqArr a(1);
               a.set(0, v);
               sp.changeElementRational(i, j, a.data());
            }
            else sp.changeElementRational(i, j, v);
            M.A[i][j] = v;
            break;
         }
         case 16:
         {
            cur = "changeLhsRational(vec)";
            VectorRational v(m);
            for(int i = 0; i < m; i++)
            {
               Q l = g.chance(0.3) ? NINF() : (isPInf(M.rhs[i]) ? interestingQ(g) : Q(M.rhs[i] - qabs(interestingQ(g))));
               v[i] = toRatInf(l);
               M.lhs[i] = l;
            }
            sp.changeLhsRational(v);
            break;
         }
         case 17:
         {
            cur = g.chance(0.5) ? "changeRhsRational(vec)" : "changeRhsRational(mpq,size)";
            std::vector<Q> nr(m);
            for(int i = 0; i < m; i++) nr[i] = g.chance(0.3) ? PINF() : (isNInf(M.lhs[i]) ? interestingQ(g) : Q(M.lhs[i] + qabs(interestingQ(g))));
            if(cur == "changeRhsRational(vec)")
            {
               VectorRational v(m);
               for(int i = 0; i < m; i++) v[i] = toRatInf(nr[i]);
               sp.changeRhsRational(v);
            }
            else
            {
               MpqArr a(m + 1);
               for(int i = 0; i < m; i++) a.set(i, nr[i]);
               sp.changeRhsRational(a.data(), m);
            }
            M.rhs = nr;
            break;
         }
         case 18:
         {
            cur = "changeRangeRational(vec)";
            VectorRational a(m), b(m);
            for(int i = 0; i < m; i++)
            {
               Q l, r;
               sidesQ(g, l, r, fancy);
               a[i] = toRatInf(l);
               b[i] = toRatInf(r);
               M.lhs[i] = l;
               M.rhs[i] = r;
            }
            sp.changeRangeRational(a, b);
            break;
         }
         case 19:
         {
            cur = "changeBoundsRational(vec)";
            VectorRational a(n), b(n);
            for(int j = 0; j < n; j++)
            {
               Q l, u;
               sidesQ(g, l, u, fancy);
               a[j] = toRatInf(l);
               b[j] = toRatInf(u);
               M.lo[j] = l;
               M.up[j] = u;
            }
            sp.changeBoundsRational(a, b);
            break;
         }
         case 20:
         {
            cur = "changeLowerRational(vec)";
            VectorRational a(n);
            for(int j = 0; j < n; j++)
            {
               Q l = g.chance(0.3) ? NINF() : (isPInf(M.up[j]) ? interestingQ(g) : Q(M.up[j] - qabs(interestingQ(g))));
               a[j] = toRatInf(l);
               M.lo[j] = l;
            }
            sp.changeLowerRational(a);
            break;
         }
         case 21:
         {
            cur = "changeUpperRational(vec)";
            VectorRational a(n);
            for(int j = 0; j < n; j++)
            {
               Q u = g.chance(0.3) ? PINF() : (isNInf(M.lo[j]) ? interestingQ(g) : Q(M.lo[j] + qabs(interestingQ(g))));
               a[j] = toRatInf(u);
               M.up[j] = u;
            }
            sp.changeUpperRational(a);
            break;
         }
         case 22:
         {
            cur = "changeObjRational(vec)";
            VectorRational a(n);
            for(int j = 0; j < n; j++)
            {
               Q c = interestingQ(g);
               a[j] = c;
               M.obj[j] = c;
            }
            sp.changeObjRational(a);
            break;
         }
         case 23:
         {
            if(m <= 1) continue;
            cur = "removeRowsRational(perm)";
            std::vector<int> perm(m);
            std::vector<char> rem(m, 0);
            for(int i = 0; i < m; i++)
            {
               rem[i] = g.chance(0.3);
               perm[i] = rem[i] ? -1 : 0;
            }
            sp.removeRowsRational(perm.data());
            bool ok = true;
            std::set<int> used;
            for(int i = 0; i < m; i++) if((perm[i] < 0) != (rem[i] != 0) || (perm[i] >= 0 && !used.insert(perm[i]).second)) ok = false;
            if(!ok)
            {
               fail("perm.removeRowsRational", "perm[] returned by removeRowsRational is not a valid renumbering");
               break;
            }
            M.removeRowsByPerm(perm);
            break;
         }
         case 24:
         {
            if(n <= 2) continue;
            cur = "removeColsRational(perm)";
            std::vector<int> perm(n);
            std::vector<char> rem(n, 0);
            int left = n;
            for(int j = 0; j < n; j++)
            {
               rem[j] = left > 1 && g.chance(0.3);
               if(rem[j]) left--;
               perm[j] = rem[j] ? -1 : 0;
            }
            sp.removeColsRational(perm.data());
            bool ok = true;
            std::set<int> used;
            for(int j = 0; j < n; j++) if((perm[j] < 0) != (rem[j] != 0) || (perm[j] >= 0 && !used.insert(perm[j]).second)) ok = false;
            if(!ok)
            {
               fail("perm.removeColsRational", "perm[] returned by removeColsRational is not a valid renumbering");
               break;
            }
            M.removeColsByPerm(perm);
            break;
         }
         case 25:
         {
            if(m <= 1) continue;
            cur = "removeRowRangeRational";
            int a = g.range(0, m - 1), b = g.range(a, std::min(m - 1, a + 2));
            std::vector<int> perm(m, 0);
            sp.removeRowRangeRational(a, b, perm.data());
            bool ok = true;
            for(int i = 0; i < m; i++) if((perm[i] < 0) != (i >= a && i <= b)) ok = false;
            if(!ok)
            {
               fail("perm.removeRowRangeRational", "perm[] returned by removeRowRangeRational is not a valid renumbering");
               break;
            }
            M.removeRowsByPerm(perm);
            break;
         }
         case 26:
         {
            if(n <= 3) continue;
            cur = "removeColRangeRational";
            int a = g.range(0, n - 1), b = g.range(a, std::min(n - 1, a + 1));
            std::vector<int> perm(n, 0);
            sp.removeColRangeRational(a, b, perm.data());
            bool ok = true;
            for(int j = 0; j < n; j++) if((perm[j] < 0) != (j >= a && j <= b)) ok = false;
            if(!ok)
            {
               fail("perm.removeColRangeRational", "perm[] returned by removeColRangeRational is not a valid renumbering");
               break;
            }
            M.removeColsByPerm(perm);
            break;
         }
         case 27:
         {
            if(m <= 1) continue;
            cur = "removeRowsRational(idx)";
            std::vector<int> idx;
            std::vector<char> rem(m, 0);
            for(int i = 0; i < m; i++) if(g.chance(0.3))
               {
                  idx.push_back(i);
                  rem[i] = 1;
               }
            std::vector<int> perm(m, 0);
            sp.removeRowsRational(idx.data(), (int)idx.size(), perm.data());
            bool ok = true;
            for(int i = 0; i < m; i++) if((perm[i] < 0) != (rem[i] != 0)) ok = false;
            if(!ok)
            {
               fail("perm.removeRowsRational(idx)", "perm[] returned by removeRowsRational(idx) is not a valid renumbering");
               break;
            }
            M.removeRowsByPerm(perm);
            break;
         }
         // ---------------- real interface (values converted exactly into the rational LP)
         case 28:
         {
            cur = "addRowReal";
            double l = g.chance(0.3) ? -soplex::infinity : interestingD(g);
            double r = g.chance(0.3) ? soplex::infinity : (l <= -soplex::infinity ? interestingD(g) : l + std::fabs(interestingD(g)));
            std::vector<Q> v(n, Q(0));
            DSVectorReal dv(n + 1);
            for(int j = 0; j < n; j++) if(g.chance(0.5))
               {
                  double a = interestingD(g);
                  if(a != 0)
                  {
                     dv.add(j, a);
                     v[j] = qd(a);
                  }
               }
            sp.addRowReal(LPRowReal(l, dv, r));
            M.addRow(fromReal(l), v, fromReal(r));
            break;
         }
         case 29:
         {
            cur = "addColReal";
            double l = g.chance(0.3) ? -soplex::infinity : interestingD(g);
            double u = g.chance(0.3) ? soplex::infinity : (l <= -soplex::infinity ? interestingD(g) : l + std::fabs(interestingD(g)));
            double c = interestingD(g);
            std::vector<Q> v(m, Q(0));
            DSVectorReal dv(m + 1);
            for(int i = 0; i < m; i++) if(g.chance(0.5))
               {
                  double a = interestingD(g);
                  if(a != 0)
                  {
                     dv.add(i, a);
                     v[i] = qd(a);
                  }
               }
            sp.addColReal(LPColReal(c, dv, u, l));
            M.addCol(qd(c), fromReal(l), fromReal(u), v);
            break;
         }
         case 30:
         {
            if(m == 0) continue;
            cur = "changeRangeReal(i)";
            int i = g.range(0, m - 1);
            double l = g.chance(0.3) ? -soplex::infinity : interestingD(g);
            double r = g.chance(0.3) ? soplex::infinity : (l <= -soplex::infinity ? interestingD(g) : l + std::fabs(interestingD(g)));
            sp.changeRangeReal(i, l, r);
            M.lhs[i] = fromReal(l);
            M.rhs[i] = fromReal(r);
            break;
         }
         case 31:
         {
            if(n == 0) continue;
            cur = "changeBoundsReal(i)";
            int j = g.range(0, n - 1);
            double l = g.chance(0.3) ? -soplex::infinity : interestingD(g);
            double u = g.chance(0.3) ? soplex::infinity : (l <= -soplex::infinity ? interestingD(g) : l + std::fabs(interestingD(g)));
            sp.changeBoundsReal(j, l, u);
            M.lo[j] = fromReal(l);
            M.up[j] = fromReal(u);
            break;
         }
         case 32:
         {
            if(n == 0) continue;
            cur = "changeObjReal(i)";
            int j = g.range(0, n - 1);
            double c = interestingD(g);
            sp.changeObjReal(j, c);
            M.obj[j] = qd(c);
            break;
         }
         case 33:
         {
            if(m == 0 || n == 0) continue;
            cur = "changeElementReal";
            int i = g.range(0, m - 1), j = g.range(0, n - 1);
            double a = g.chance(0.2) ? 0.0 : interestingD(g);
            sp.changeElementReal(i, j, a);
            M.A[i][j] = qd(a);
            break;
         }
         case 34:
         {
            if(m == 0) continue;
            cur = "changeLhsReal(i)";
            int i = g.range(0, m - 1);
            double l = g.chance(0.3) ? -soplex::infinity : (isPInf(M.rhs[i]) ? interestingD(g) : dq(M.rhs[i]) - std::fabs(interestingD(g)));
            if(!isPInf(M.rhs[i]) && l > -soplex::infinity && qd(l) > M.rhs[i]) continue;
            sp.changeLhsReal(i, l);
            M.lhs[i] = fromReal(l);
            break;
         }
         case 35:
         {
            if(n == 0) continue;
            cur = "changeUpperReal(i)";
            int j = g.range(0, n - 1);
            double u = g.chance(0.3) ? soplex::infinity : (isNInf(M.lo[j]) ? interestingD(g) : dq(M.lo[j]) + std::fabs(interestingD(g)));
            if(!isNInf(M.lo[j]) && u < soplex::infinity && qd(u) < M.lo[j]) continue;
            sp.changeUpperReal(j, u);
            M.up[j] = fromReal(u);
            break;
         }
         case 36:
         {
            cur = "changeObjReal(vec)";
            VectorReal a(n);
            for(int j = 0; j < n; j++)
            {
               a[j] = interestingD(g);
               M.obj[j] = qd(a[j]);
            }
            sp.changeObjReal(a);
            break;
         }
         case 37:
         {
            if(m <= 1) continue;
            cur = "removeRowReal";
            // order after a single removal is undocumented: remove the LAST row, whose removal cannot renumber anything
            sp.removeRowReal(m - 1);
            std::vector<int> perm(m);
            for(int i = 0; i < m; i++) perm[i] = i == m - 1 ? -1 : i;
            M.removeRowsByPerm(perm);
            break;
         }
         case 38:
         {
            if(n <= 2) continue;
            cur = "removeColReal";
            sp.removeColReal(n - 1);
            std::vector<int> perm(n);
            for(int j = 0; j < n; j++) perm[j] = j == n - 1 ? -1 : j;
            M.removeColsByPerm(perm);
            break;
         }
         case 39:
         {
            if(m <= 1) continue;
            cur = "removeRowsReal(perm)";
            std::vector<int> perm(m);
            std::vector<char> rem(m, 0);
            for(int i = 0; i < m; i++)
            {
               rem[i] = g.chance(0.3);
               perm[i] = rem[i] ? -1 : 0;
            }
            sp.removeRowsReal(perm.data());
            bool ok = true;
            for(int i = 0; i < m; i++) if((perm[i] < 0) != (rem[i] != 0)) ok = false;
            if(!ok)
            {
               fail("perm.removeRowsReal", "perm[] is not a valid renumbering");
               break;
            }
            M.removeRowsByPerm(perm);
            break;
         }
         case 40:
         {
            cur = "setIntParam(OBJSENSE)";
            int ns = g.chance(0.5) ? 1 : -1;
            sp.setIntParam(SoPlex::OBJSENSE, ns > 0 ? SoPlex::OBJSENSE_MAXIMIZE : SoPlex::OBJSENSE_MINIMIZE);
            M.sense = ns;
            break;
         }
         case 41:
         {
            // manual mode excursion: modify only the rational LP, then sync the real LP
            cur = "manual:rational-then-syncLPReal";
            if(n == 0) continue;
            sp.setIntParam(SoPlex::SYNCMODE, SoPlex::SYNCMODE_MANUAL);
            int j = g.range(0, n - 1);
            Q c = interestingQ(g);
            sp.changeObjRational(j, c);
            M.obj[j] = c;
            if(m > 0)
            {
               int i = g.range(0, m - 1);
               Q l, r;
               sidesQ(g, l, r, true);
               sp.changeRangeRational(i, toRatInf(l), toRatInf(r));
               M.lhs[i] = l;
               M.rhs[i] = r;
            }
            sp.syncLPReal();
            if(count) S.count("c07.manual_syncLPReal");
            {
               std::string e = compareSync(sp, M, dummy);
               if(!e.empty()) fail("manual-syncLPReal." + e.substr(0, e.find(':')), e.substr(e.find(':') + 1));
            }
            sp.setIntParam(SoPlex::SYNCMODE, SoPlex::SYNCMODE_AUTO);
            break;
         }
         case 42:
         {
            // manual mode excursion: modify only the real LP, then sync the rational LP
            cur = "manual:real-then-syncLPRational";
            if(n == 0) continue;
            sp.setIntParam(SoPlex::SYNCMODE, SoPlex::SYNCMODE_MANUAL);
            int j = g.range(0, n - 1);
            double c = interestingD(g);
            sp.changeObjReal(j, c);
            if(m > 0)
            {
               int i = g.range(0, m - 1);
               double a = interestingD(g);
               sp.changeElementReal(i, j, a);
            }
            sp.syncLPRational();
            if(count) S.count("c07.manual_syncLPRational");
            // after syncLPRational the rational LP is the exact copy of the real LP
            M = readBackReal(sp);
            M.offset = qd(sp.realParam(SoPlex::OBJ_OFFSET));
            {
               std::string e = compareSync(sp, M, dummy);
               if(!e.empty()) fail("manual-syncLPRational." + e.substr(0, e.find(':')), e.substr(e.find(':') + 1));
            }
            sp.setIntParam(SoPlex::SYNCMODE, SoPlex::SYNCMODE_AUTO);
            break;
         }
         case 43:
         {
            cur = "areLPsInSync";
            checked = false;
            bool s1 = sp.areLPsInSync(true, true, false);
            if(count) S.count("c07.areLPsInSync_calls");
            // a diagnostic routine, not part of the property's claim: it compares the internal (possibly scaled) real LP
            if(!s1 && count) S.count("c07.note.areLPsInSync_disagrees_with_monitor");
            break;
         }
         case 44:
         {
            // a floating-point solve in between must not disturb either LP (persistent scaling!)
            cur = "optimize(real)";
            if(n == 0) continue;
            sp.setIntParam(SoPlex::ITERLIMIT, 2000, true);
            sp.optimize();
            if(count) S.count("c07.solves");
            break;
         }
         case 47:
         {
            // copy construction / assignment with the rational LP present (C17): the copy must hold the same two LPs and bound-type
            // arrays, changing and destroying it must leave the source untouched (ASan watches for shared storage)
            if(!g.chance(0.6)) continue;
            bool byAssign = g.chance(0.5);
            cur = byAssign ? "copy(assign)" : "copy(ctor)";
            {
               std::unique_ptr<SoPlex> cp;
               if(byAssign)
               {
                  cp.reset(new SoPlex());
                  quiet(*cp);
                  if(g.chance(0.5))
                  {
                     Planted P2;
                     Rng g2(909, sub, (uint64_t)step);
                     LPModel other = genPlantedOpt(g2, P2, 3, 3, false);
                     cp->setIntParam(SoPlex::SYNCMODE, SoPlex::SYNCMODE_AUTO, true);
                     loadRational(*cp, other, 0);
                  }
                  *cp = sp;
               }
               else cp.reset(new SoPlex(sp));
               std::string e = compareSync(*cp, M, dummy);
               if(!e.empty())
               {
                  fail("copy.unequal." + e.substr(0, e.find(':')), "copy (" + cur + ") differs from the mirror of its source: " + e.substr(e.find(':') + 1) + " (step " + std::to_string(step) + ")");
                  break;
               }
               // change the copy through the rational interface, then destroy it
               if(cp->numColsRational() > 0)
               {
                  int j = g.range(0, cp->numColsRational() - 1);
                  cp->changeObjRational(j, Rational(7, 3));
                  cp->changeBoundsRational(j, Rational(-5, 7), Rational(11, 2));
               }
               if(cp->numRowsRational() > 0) cp->changeRangeRational(g.range(0, cp->numRowsRational() - 1), Rational(-9, 4), Rational(9, 4));
               if(g.chance(0.3) && cp->numColsRational() > 0)
               {
                  cp->setIntParam(SoPlex::ITERLIMIT, 500, true);
                  cp->optimize();
               }
            }
            // the source must be what it was
            std::string e = compareSync(sp, M, dummy);
            if(!e.empty())
            {
               fail("copy.dependent." + e.substr(0, e.find(':')), "changing / destroying a copy changed the source: " + e.substr(e.find(':') + 1) + " (step " + std::to_string(step) + ")");
               break;
            }
            checked = false;
            break;
         }
         case 46:
         {
            // an exact solve in between (feasibility / unboundedness tests add and remove auxiliary columns and rows, lifting and
            // equality transformations rewrite the rational LP): afterwards both LPs and the bound-type arrays must be as before
            cur = "optimize(exact)";
            if(n == 0 || m == 0 || !g.chance(0.5)) continue;
            sp.setIntParam(SoPlex::SOLVEMODE, SoPlex::SOLVEMODE_RATIONAL, true);
            sp.setIntParam(SoPlex::ITERLIMIT, 2000, true);
            sp.setRealParam(SoPlex::TIMELIMIT, 10.0, true);
            sp.optimize();
            sp.setIntParam(SoPlex::SOLVEMODE, SoPlex::SOLVEMODE_REAL, true);
            if(count)
            {
               S.count("c07.exact_solves");
               S.count(std::string("c07.exact_solves.") + statusName((int)sp.status()));
            }
            break;
         }
         case 45:
         {
            // clear both LPs through either interface, then rebuild (bound classes of the new rows/columns differ from the old ones)
            if(!g.chance(0.35)) continue;
            bool viaReal = g.chance(0.5);
            cur = viaReal ? "clearLPReal" : "clearLPRational";
            if(viaReal) sp.clearLPReal();
            else sp.clearLPRational();
            M.clear();
            rebuild = g.range(4, 9);
            break;
         }
         default:
            continue;
         }
         if(count) S.count("c07.op." + cur);
         if(!R.tag.empty()) break;
         if(checked)
         {
            std::string e = compareSync(sp, M, dummy);
            if(count) S.count("c07.sync_checks");
            if(!e.empty()) fail(cur + "." + e.substr(0, e.find(':')), e.substr(e.find(':') + 1) + " after " + cur + " (step " + std::to_string(step) + ")");
         }
      }
   }
   catch(const std::exception& e)
   {
      fail("exception." + cur, std::string("exception escaped from ") + cur + ": " + e.what());
   }
   (void)mode;
   return R;
}

static void caseC07(long long k, Rng& g)
{
   Sink& S = sink();
   uint64_t sub = g.next();
   int nsteps = cli.thorough() ? 80 : 50;
   S.begin(k, "history " + std::to_string(sub % 100000));
   S.count("cases");
   S.seen("nontrivial", sub);
   XRes r = c07Run(sub, nsteps, true);
   if(!r.tag.empty())
   {
      bool isCopy = r.tag.rfind("copy.", 0) == 0;
      // the C17 stage of this harness reports only the findings about copies; the C07 check reports everything
      if(cli.prop == "C07" || isCopy) S.viol(cli.prop + ":" + (cli.prop == "C17" ? "exact-" : "") + r.tag, r.detail, Json().num("history_seed", (long long)(sub >> 1)).done());
   }
   if(k < 3) S.sample(Json().num("history", (long long)(sub % 100000)).num("steps", nsteps).done());
   // only-real mode: an exact solve first copies the floating-point LP exactly
   if(k % 4 == 0 && cli.prop == "C07")
   {
      Rng g2(708, sub, 8);
      std::string fam;
      LPModel M = genRationalInstance(g2, fam);
      if(withinFinite(M))
      {
         LPModel D = doubleImage(M);
         SoPlex sp;
         setupExact(sp, ParamSet(), SoPlex::SYNCMODE_ONLYREAL);
         loadReal(sp, D, 0);
         sp.setIntParam(SoPlex::ITERLIMIT, 20000, true);
         sp.optimize();
         S.count("c07.onlyreal_exact_solves");
         // after the solve the rational LP (built from the real LP) must equal the doubles exactly
         if(sp._rationalLP != nullptr && sp.numRowsRational() == D.m && sp.numColsRational() == D.n)
         {
            bool ok = true;
            std::string where;
            for(int i = 0; i < D.m && ok; i++)
            {
               const SVectorRational& rv = sp.rowVectorRational(i);
               std::vector<Q> dense(D.n, Q(0));
               for(int t = 0; t < rv.size(); t++) dense[rv.index(t)] = rv.value(t);
               for(int j = 0; j < D.n; j++) if(dense[j] != D.A[i][j])
                  {
                     ok = false;
                     where = "coefficient (" + std::to_string(i) + "," + std::to_string(j) + ")";
                  }
               if(!isNInf(D.lhs[i]) && Q(sp.lhsRational(i)) != D.lhs[i])
               {
                  ok = false;
                  where = "lhs " + std::to_string(i);
               }
               if(!isPInf(D.rhs[i]) && Q(sp.rhsRational(i)) != D.rhs[i])
               {
                  ok = false;
                  where = "rhs " + std::to_string(i);
               }
            }
            for(int j = 0; j < D.n && ok; j++)
            {
               if(Q(sp.objRational(j)) != D.obj[j])
               {
                  ok = false;
                  where = "obj " + std::to_string(j);
               }
               if(!isNInf(D.lo[j]) && Q(sp.lowerRational(j)) != D.lo[j])
               {
                  ok = false;
                  where = "lower " + std::to_string(j);
               }
               if(!isPInf(D.up[j]) && Q(sp.upperRational(j)) != D.up[j])
               {
                  ok = false;
                  where = "upper " + std::to_string(j);
               }
            }
            S.count("c07.onlyreal_copy_checked");
            if(!ok) S.viol("C07:onlyreal-copy", "in real-only mode the exact solve did not copy the floating-point LP exactly: " + where);
         }
      }
   }
   S.end(k);
}

int main(int argc, char** argv)
{
   cli.parse(argc, argv);
   verbose = cli.extra.count("verbose") > 0;
   Sink& S = sink();
   S.prop = cli.prop;
   selfTestOracles();
   for(long long k = cli.from; k < cli.to; k++)
   {
      // C04(g) and C11(api) ride on the C03 stream: same cases, only their own findings are reported
      Rng g(fnv(cli.prop == "C07" || cli.prop == "C17" ? "C07" : "C03"), cli.seed, (uint64_t)k);
      if(cli.prop == "C03" || cli.prop == "C11" || cli.prop == "C04") caseC03(k, g);
      else if(cli.prop == "C07" || cli.prop == "C17") caseC07(k, g);
      else
      {
         fprintf(stderr, "h_exact: unknown property %s\n", cli.prop.c_str());
         return 2;
      }
   }
   S.finish();
   return 0;
}
