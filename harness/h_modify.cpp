// harness/h_modify.cpp -- C06 (modify in place == build from scratch) and C09 (scaling is invisible).
#include "sx.hpp"
#include "solvecommon.hpp"

using namespace vl;
using namespace soplex;

static Cli cli;
static bool verbose = false;

static double rnd(const Q& q)
{
   return toReal(q);
}
// bitwise equality, except that any two values beyond the infinity threshold with the same sign are the same "infinite"
static bool sameVal(double got, double want)
{
   if(want >= soplex::infinity) return got >= soplex::infinity;
   if(want <= -soplex::infinity) return got <= -soplex::infinity;
   return sameBits(got, want);
}

// ------------------------------------------------------------------------------------------------ mirror comparison
// every accessor of the real interface against the model, bit for bit
static std::string compareAccessors(SoPlex& sp, const LPModel& M)
{
   int m = sp.numRows(), n = sp.numCols();
   if(m != M.m || n != M.n) return "dims:numRows/numCols " + std::to_string(m) + "x" + std::to_string(n) + " model " + std::to_string(
                                         M.m) + "x" + std::to_string(M.n);
   if(sp.numRowsReal() != m || sp.numColsReal() != n) return "dims:numRowsReal/numColsReal disagree with numRows/numCols";
   if(sp.numNonzeros() != M.nnz()) return "nnz:numNonzeros " + std::to_string(sp.numNonzeros()) + " model " + std::to_string(M.nnz());
   int sense = sp.intParam(SoPlex::OBJSENSE) == SoPlex::OBJSENSE_MAXIMIZE ? 1 : -1;
   if(sense != M.sense) return "sense:objective sense differs";
   VectorReal lhsv(m), rhsv(m), lov(n), upv(n), objv(n);
   sp.getLhsReal(lhsv);
   sp.getRhsReal(rhsv);
   sp.getLowerReal(lov);
   sp.getUpperReal(upv);
   sp.getObjReal(objv);
   for(int i = 0; i < m; i++)
   {
      double l = rnd(M.lhs[i]), r = rnd(M.rhs[i]);
      if(!sameVal(sp.lhsReal(i), l)) return "lhs:lhsReal(" + std::to_string(i) + ")=" + ds(sp.lhsReal(i)) + " model " + ds(l);
      if(!sameVal(lhsv[i], l)) return "lhsvec:getLhsReal()[" + std::to_string(i) + "]=" + ds(lhsv[i]) + " model " + ds(l);
      if(!sameVal(sp.rhsReal(i), r)) return "rhs:rhsReal(" + std::to_string(i) + ")=" + ds(sp.rhsReal(i)) + " model " + ds(r);
      if(!sameVal(rhsv[i], r)) return "rhsvec:getRhsReal()[" + std::to_string(i) + "]=" + ds(rhsv[i]) + " model " + ds(r);
      // row type
      LPRowBase<double>::Type want = (l > -soplex::infinity && r < soplex::infinity) ? (l == r ? LPRowBase<double>::EQUAL : LPRowBase<double>::RANGE)
                                     : (l > -soplex::infinity ? LPRowBase<double>::GREATER_EQUAL : LPRowBase<double>::LESS_EQUAL);
      if(!(l <= -soplex::infinity && r >= soplex::infinity) && sp.rowTypeReal(i) != want) return "rowtype:rowTypeReal(" + std::to_string(i) + ") wrong";
      DSVectorReal row;
      sp.getRowVectorReal(i, row);
      std::vector<double> dense(n, 0.0);
      std::set<int> seen;
      for(int t = 0; t < row.size(); t++)
      {
         int j = row.index(t);
         if(j < 0 || j >= n || !seen.insert(j).second) return "rowvec:bad/duplicate index in row " + std::to_string(i);
         dense[j] = row.value(t);
      }
      for(int j = 0; j < n; j++)
      {
         double a = dq(M.A[i][j]);
         if(!sameBits(dense[j] + 0.0, a + 0.0) && !(dense[j] == 0.0 && a == 0.0)) return "rowvec:getRowVectorReal(" + std::to_string(i) + ")[" + std::to_string(
                        j) + "]=" + ds(dense[j]) + " model " + ds(a);
         double c = sp.coefReal(i, j);
         if(!(c == a)) return "coef:coefReal(" + std::to_string(i) + "," + std::to_string(j) + ")=" + ds(c) + " model " + ds(a);
      }
   }
   for(int j = 0; j < n; j++)
   {
      double l = rnd(M.lo[j]), u = rnd(M.up[j]), c = dq(M.obj[j]);
      if(!sameVal(sp.lowerReal(j), l)) return "lower:lowerReal(" + std::to_string(j) + ")=" + ds(sp.lowerReal(j)) + " model " + ds(l);
      if(!sameVal(lov[j], l)) return "lowervec:getLowerReal()[" + std::to_string(j) + "]=" + ds(lov[j]) + " model " + ds(l);
      if(!sameVal(sp.upperReal(j), u)) return "upper:upperReal(" + std::to_string(j) + ")=" + ds(sp.upperReal(j)) + " model " + ds(u);
      if(!sameVal(upv[j], u)) return "uppervec:getUpperReal()[" + std::to_string(j) + "]=" + ds(upv[j]) + " model " + ds(u);
      if(!(sp.objReal(j) == c)) return "obj:objReal(" + std::to_string(j) + ")=" + ds(sp.objReal(j)) + " model " + ds(c);
      if(!(objv[j] == c)) return "objvec:getObjReal()[" + std::to_string(j) + "]=" + ds(objv[j]) + " model " + ds(c);
      double mo = sp.maxObjReal(j);
      if(!(mo == (M.sense > 0 ? c : -c))) return "maxobj:maxObjReal(" + std::to_string(j) + ")=" + ds(mo) + " but objReal=" + ds(sp.objReal(j)) + " and sense=" + std::to_string(M.sense);
      DSVectorReal col;
      sp.getColVectorReal(j, col);
      std::vector<double> dense(m, 0.0);
      std::set<int> seen;
      for(int t = 0; t < col.size(); t++)
      {
         int i = col.index(t);
         if(i < 0 || i >= m || !seen.insert(i).second) return "colvec:bad/duplicate index in column " + std::to_string(j);
         dense[i] = col.value(t);
      }
      for(int i = 0; i < m; i++) if(!(dense[i] == dq(M.A[i][j]))) return "colvec:getColVectorReal(" + std::to_string(j) + ")[" + std::to_string(
                     i) + "]=" + ds(dense[i]) + " model " + ds(dq(M.A[i][j]));
   }
   return "";
}

// ------------------------------------------------------------------------------------------------ operations
struct OpCtx
{
   Rng& g;
   SoPlex& sp;
   LPModel& M;
   std::string name;      // name of the entry point used
   bool modifies = true;
   std::string err;       // violation detected while applying (perm contract etc.)
};

static Q smallInt(Rng& g, int lo, int hi)
{
   return Q(g.range(lo, hi));
}
// C09's user-level histories keep all changed sides/bounds finite: relaxing a side of a nonbasic row to infinity runs into a
// warm-start defect of the simplex core (recorded under C06), which is not what C09 is about
static bool g_finiteOnly = false;
static void randomSides(Rng& g, Q& l, Q& r)
{
   int t = g.range(0, 5);
   if(g_finiteOnly) t = g.range(2, 4);
   int a = g.range(-12, 12), w = g.range(0, 9);
   l = (t == 0 || t == 5) ? NINF() : Q(a);
   r = (t == 1 || t == 5) ? PINF() : (t == 2 ? Q(a) : Q(a + w));
   if(t == 0) r = Q(a);
}
static void randomBounds(Rng& g, Q& l, Q& u)
{
   int t = g.range(0, 5);
   if(g_finiteOnly) t = g.range(2, 4);
   int a = g.range(-6, 6), w = g.range(0, 7);
   l = (t == 0 || t == 5) ? NINF() : Q(a);
   u = (t == 1 || t == 5) ? PINF() : (t == 2 ? Q(a) : Q(a + w));
   if(t == 0) u = Q(a);
}
static std::vector<Q> randomSparse(Rng& g, int len, double dens)
{
   std::vector<Q> v(len, Q(0));
   for(int k = 0; k < len; k++) if(g.chance(dens)) v[k] = smallNonzero(g, 9);
   return v;
}
static DSVectorReal toDS(const std::vector<Q>& v)
{
   DSVectorReal d((int)v.size() + 1);
   for(size_t k = 0; k < v.size(); k++) if(v[k] != 0) d.add((int)k, dq(v[k]));
   return d;
}
static bool validPerm(const std::vector<int>& perm, const std::vector<char>& removed, std::string& why)
{
   int n = (int)perm.size(), surv = 0;
   std::set<int> used;
   for(int i = 0; i < n; i++)
   {
      if(removed[i])
      {
         if(perm[i] >= 0)
         {
            why = "removed entry " + std::to_string(i) + " has perm >= 0";
            return false;
         }
      }
      else
      {
         surv++;
         if(perm[i] < 0 || !used.insert(perm[i]).second)
         {
            why = "survivor " + std::to_string(i) + " has invalid/duplicate new index " + std::to_string(perm[i]);
            return false;
         }
      }
   }
   for(int p : used) if(p >= surv)
      {
         why = "new index " + std::to_string(p) + " out of range";
         return false;
      }
   return true;
}
// for removeRowReal(i)/removeColReal(j): the documentation leaves the new numbering open; require that SoPlex's LP is the
// model's LP with that row removed up to a permutation of rows (and unchanged columns), and adopt SoPlex's order
static std::string adoptAfterSingleRemoval(SoPlex& sp, LPModel& M, bool row, int idx)
{
   LPModel want = M;
   if(row)
   {
      std::vector<int> perm(M.m);
      int c = 0;
      for(int i = 0; i < M.m; i++) perm[i] = i == idx ? -1 : c++;
      want.removeRowsByPerm(perm);
   }
   else
   {
      std::vector<int> perm(M.n);
      int c = 0;
      for(int j = 0; j < M.n; j++) perm[j] = j == idx ? -1 : c++;
      want.removeColsByPerm(perm);
   }
   LPModel got = readBackReal(sp);
   if(got.m != want.m || got.n != want.n) return "dims after single removal";
   auto rowKey = [](const LPModel & L, int i)
   {
      std::string s = qs(L.lhs[i]) + "|" + qs(L.rhs[i]) + "|";
      for(int j = 0; j < L.n; j++) s += qs(L.A[i][j]) + ",";
      return s;
   };
   auto colKey = [](const LPModel & L, int j)
   {
      std::string s = qs(L.lo[j]) + "|" + qs(L.up[j]) + "|" + qs(L.obj[j]) + "|";
      for(int i = 0; i < L.m; i++) s += qs(L.A[i][j]) + ",";
      return s;
   };
   if(row)
   {
      // columns keep their order; rows may be permuted.  Compare as multisets of rows.
      std::multiset<std::string> a, b;
      for(int i = 0; i < want.m; i++)
      {
         a.insert(rowKey(want, i));
         b.insert(rowKey(got, i));
      }
      if(a != b) return "surviving rows are not the model's surviving rows";
      for(int j = 0; j < want.n; j++) if(want.lo[j] != got.lo[j] || want.up[j] != got.up[j] || want.obj[j] != got.obj[j]) return "column data changed by a row removal";
   }
   else
   {
      std::multiset<std::string> a, b;
      for(int j = 0; j < want.n; j++)
      {
         a.insert(colKey(want, j));
         b.insert(colKey(got, j));
      }
      if(a != b) return "surviving columns are not the model's surviving columns";
      for(int i = 0; i < want.m; i++) if(want.lhs[i] != got.lhs[i] || want.rhs[i] != got.rhs[i]) return "row sides changed by a column removal";
   }
   got.sense = M.sense;
   got.offset = M.offset;
   got.family = M.family;
   M = got;
   return "";
}

static const int NOPS = 31;
static void applyOp(OpCtx& c, int op)
{
   Rng& g = c.g;
   SoPlex& sp = c.sp;
   LPModel& M = c.M;
   int m = M.m, n = M.n;
   switch(op)
   {
   case 0:
   {
      c.name = "addRowReal";
      Q l, r;
      randomSides(g, l, r);
      std::vector<Q> v = randomSparse(g, n, 0.5);
      sp.addRowReal(LPRowReal(rnd(l), toDS(v), rnd(r)));
      M.addRow(l, v, r);
      break;
   }
   case 1:
   {
      c.name = "addRowsReal";
      int k = g.range(0, 3);
      LPRowSetReal rs;
      for(int t = 0; t < k; t++)
      {
         Q l, r;
         randomSides(g, l, r);
         std::vector<Q> v = randomSparse(g, n, 0.4);
         rs.add(rnd(l), toDS(v), rnd(r));
         M.addRow(l, v, r);
      }
      sp.addRowsReal(rs);
      break;
   }
   case 2:
   {
      c.name = "addColReal";
      Q l, u;
      randomBounds(g, l, u);
      Q cst = smallInt(g, -9, 9);
      std::vector<Q> v = randomSparse(g, m, 0.5);
      sp.addColReal(LPColReal(dq(cst), toDS(v), rnd(u), rnd(l)));
      M.addCol(cst, l, u, v);
      break;
   }
   case 3:
   {
      c.name = "addColsReal";
      int k = g.range(0, 3);
      LPColSetReal cs;
      for(int t = 0; t < k; t++)
      {
         Q l, u;
         randomBounds(g, l, u);
         Q cst = smallInt(g, -9, 9);
         std::vector<Q> v = randomSparse(g, m, 0.4);
         cs.add(dq(cst), rnd(l), toDS(v), rnd(u));
         M.addCol(cst, l, u, v);
      }
      sp.addColsReal(cs);
      break;
   }
   case 4:
   {
      if(m == 0) return applyOp(c, 0);
      c.name = "changeRowReal";
      int i = g.range(0, m - 1);
      Q l, r;
      randomSides(g, l, r);
      std::vector<Q> v = randomSparse(g, n, 0.5);
      sp.changeRowReal(i, LPRowReal(rnd(l), toDS(v), rnd(r)));
      M.A[i] = v;
      M.lhs[i] = l;
      M.rhs[i] = r;
      break;
   }
   case 5:
   {
      if(n == 0) return applyOp(c, 2);
      c.name = "changeColReal";
      int j = g.range(0, n - 1);
      Q l, u;
      randomBounds(g, l, u);
      Q cst = smallInt(g, -9, 9);
      std::vector<Q> v = randomSparse(g, m, 0.5);
      sp.changeColReal(j, LPColReal(dq(cst), toDS(v), rnd(u), rnd(l)));
      for(int i = 0; i < m; i++) M.A[i][j] = v[i];
      M.lo[j] = l;
      M.up[j] = u;
      M.obj[j] = cst;
      break;
   }
   case 6:
   {
      if(m == 0) return applyOp(c, 0);
      c.name = "changeLhsReal(i)";
      int i = g.range(0, m - 1);
      Q v = (g.chance(0.2) && !g_finiteOnly) ? NINF() : (isPInf(M.rhs[i]) ? Q(g.range(-12, 12)) : Q(M.rhs[i] - g.range(0, 8)));
      sp.changeLhsReal(i, rnd(v));
      M.lhs[i] = v;
      break;
   }
   case 7:
   {
      if(m == 0) return applyOp(c, 0);
      c.name = "changeRhsReal(i)";
      int i = g.range(0, m - 1);
      Q v = (g.chance(0.2) && !g_finiteOnly) ? PINF() : (isNInf(M.lhs[i]) ? Q(g.range(-12, 12)) : Q(M.lhs[i] + g.range(0, 8)));
      sp.changeRhsReal(i, rnd(v));
      M.rhs[i] = v;
      break;
   }
   case 8:
   {
      if(m == 0) return applyOp(c, 0);
      c.name = "changeRangeReal(i)";
      int i = g.range(0, m - 1);
      Q l, r;
      randomSides(g, l, r);
      sp.changeRangeReal(i, rnd(l), rnd(r));
      M.lhs[i] = l;
      M.rhs[i] = r;
      break;
   }
   case 9:
   {
      c.name = "changeLhsReal(vec)";
      VectorReal v(m);
      for(int i = 0; i < m; i++)
      {
         Q q = g.chance(0.2) ? NINF() : (isPInf(M.rhs[i]) ? Q(g.range(-12, 12)) : Q(M.rhs[i] - g.range(0, 8)));
         v[i] = rnd(q);
         M.lhs[i] = q;
      }
      sp.changeLhsReal(v);
      break;
   }
   case 10:
   {
      c.name = "changeRhsReal(vec)";
      VectorReal v(m);
      for(int i = 0; i < m; i++)
      {
         Q q = g.chance(0.2) ? PINF() : (isNInf(M.lhs[i]) ? Q(g.range(-12, 12)) : Q(M.lhs[i] + g.range(0, 8)));
         v[i] = rnd(q);
         M.rhs[i] = q;
      }
      sp.changeRhsReal(v);
      break;
   }
   case 11:
   {
      c.name = "changeRangeReal(vec)";
      VectorReal a(m), b(m);
      for(int i = 0; i < m; i++)
      {
         Q l, r;
         randomSides(g, l, r);
         a[i] = rnd(l);
         b[i] = rnd(r);
         M.lhs[i] = l;
         M.rhs[i] = r;
      }
      sp.changeRangeReal(a, b);
      break;
   }
   case 12:
   {
      if(n == 0) return applyOp(c, 2);
      c.name = "changeLowerReal(i)";
      int j = g.range(0, n - 1);
      Q v = (g.chance(0.2) && !g_finiteOnly) ? NINF() : (isPInf(M.up[j]) ? Q(g.range(-6, 6)) : Q(M.up[j] - g.range(0, 6)));
      sp.changeLowerReal(j, rnd(v));
      M.lo[j] = v;
      break;
   }
   case 13:
   {
      if(n == 0) return applyOp(c, 2);
      c.name = "changeUpperReal(i)";
      int j = g.range(0, n - 1);
      Q v = (g.chance(0.2) && !g_finiteOnly) ? PINF() : (isNInf(M.lo[j]) ? Q(g.range(-6, 6)) : Q(M.lo[j] + g.range(0, 6)));
      sp.changeUpperReal(j, rnd(v));
      M.up[j] = v;
      break;
   }
   case 14:
   {
      if(n == 0) return applyOp(c, 2);
      c.name = "changeBoundsReal(i)";
      int j = g.range(0, n - 1);
      Q l, u;
      randomBounds(g, l, u);
      sp.changeBoundsReal(j, rnd(l), rnd(u));
      M.lo[j] = l;
      M.up[j] = u;
      break;
   }
   case 15:
   {
      c.name = "changeLowerReal(vec)";
      VectorReal v(n);
      for(int j = 0; j < n; j++)
      {
         Q q = g.chance(0.2) ? NINF() : (isPInf(M.up[j]) ? Q(g.range(-6, 6)) : Q(M.up[j] - g.range(0, 6)));
         v[j] = rnd(q);
         M.lo[j] = q;
      }
      sp.changeLowerReal(v);
      break;
   }
   case 16:
   {
      c.name = "changeUpperReal(vec)";
      VectorReal v(n);
      for(int j = 0; j < n; j++)
      {
         Q q = g.chance(0.2) ? PINF() : (isNInf(M.lo[j]) ? Q(g.range(-6, 6)) : Q(M.lo[j] + g.range(0, 6)));
         v[j] = rnd(q);
         M.up[j] = q;
      }
      sp.changeUpperReal(v);
      break;
   }
   case 17:
   {
      c.name = "changeBoundsReal(vec)";
      VectorReal a(n), b(n);
      for(int j = 0; j < n; j++)
      {
         Q l, u;
         randomBounds(g, l, u);
         a[j] = rnd(l);
         b[j] = rnd(u);
         M.lo[j] = l;
         M.up[j] = u;
      }
      sp.changeBoundsReal(a, b);
      break;
   }
   case 18:
   {
      if(n == 0) return applyOp(c, 2);
      c.name = "changeObjReal(i)";
      int j = g.range(0, n - 1);
      Q v = smallInt(g, -9, 9);
      sp.changeObjReal(j, dq(v));
      M.obj[j] = v;
      break;
   }
   case 19:
   {
      c.name = "changeObjReal(vec)";
      VectorReal v(n);
      for(int j = 0; j < n; j++)
      {
         Q q = smallInt(g, -9, 9);
         v[j] = dq(q);
         M.obj[j] = q;
      }
      sp.changeObjReal(v);
      break;
   }
   case 20:
   {
      if(m == 0 || n == 0) return applyOp(c, m == 0 ? 0 : 2);
      c.name = "changeElementReal";
      int i = g.range(0, m - 1), j = g.range(0, n - 1);
      Q v = g.chance(0.25) ? Q(0) : Q(smallNonzero(g, 9));
      sp.changeElementReal(i, j, dq(v));
      M.A[i][j] = v;
      break;
   }
   case 21:
   {
      if(m == 0) return applyOp(c, 0);
      c.name = "removeRowReal";
      int i = g.range(0, m - 1);
      sp.removeRowReal(i);
      std::string e = adoptAfterSingleRemoval(sp, M, true, i);
      if(!e.empty()) c.err = "removeRowReal:" + e;
      break;
   }
   case 22:
   {
      if(n <= 1) return applyOp(c, 2);
      c.name = "removeColReal";
      int j = g.range(0, n - 1);
      sp.removeColReal(j);
      std::string e = adoptAfterSingleRemoval(sp, M, false, j);
      if(!e.empty()) c.err = "removeColReal:" + e;
      break;
   }
   case 23:
   {
      if(m == 0) return applyOp(c, 0);
      c.name = "removeRowsReal(perm)";
      std::vector<int> perm(m);
      std::vector<char> rem(m, 0);
      for(int i = 0; i < m; i++)
      {
         rem[i] = g.chance(0.3);
         perm[i] = rem[i] ? -1 : g.range(0, 5);
      }
      sp.removeRowsReal(perm.data());
      std::string why;
      if(!validPerm(perm, rem, why)) c.err = "removeRowsReal(perm):perm contract: " + why;
      else M.removeRowsByPerm(perm);
      break;
   }
   case 24:
   {
      if(m == 0) return applyOp(c, 0);
      c.name = "removeRowsReal(idx,n,perm)";
      std::vector<int> idx;
      std::vector<char> rem(m, 0);
      for(int i = 0; i < m; i++) if(g.chance(0.3))
         {
            idx.push_back(i);
            rem[i] = 1;
         }
      g.shuffle(idx);
      bool withPerm = g.chance(0.6);
      std::vector<int> perm(m, 7);
      sp.removeRowsReal(idx.data(), (int)idx.size(), withPerm ? perm.data() : nullptr);
      if(!withPerm)
      {
         // no perm returned: survivors keep relative identity; derive by the same rule as the perm variant: unknown order ->
         // adopt by multiset like single removal, one at a time is not possible; use the perm-less contract: compare as sets
         LPModel want = M;
         std::vector<int> p2(m);
         int cc = 0;
         for(int i = 0; i < m; i++) p2[i] = rem[i] ? -1 : cc++;
         want.removeRowsByPerm(p2);
         LPModel got = readBackReal(sp);
         std::multiset<std::string> a, b;
         auto rk = [](const LPModel & L, int i)
         {
            std::string s = qs(L.lhs[i]) + "|" + qs(L.rhs[i]) + "|";
            for(int j = 0; j < L.n; j++) s += qs(L.A[i][j]) + ",";
            return s;
         };
         if(got.m != want.m || got.n != want.n) c.err = "removeRowsReal(idx):dims";
         else
         {
            for(int i = 0; i < want.m; i++)
            {
               a.insert(rk(want, i));
               b.insert(rk(got, i));
            }
            if(a != b) c.err = "removeRowsReal(idx):surviving rows differ from the model's";
            else
            {
               got.sense = M.sense;
               got.offset = M.offset;
               got.family = M.family;
               M = got;
            }
         }
      }
      else
      {
         std::string why;
         if(!validPerm(perm, rem, why)) c.err = "removeRowsReal(idx,n,perm):perm contract: " + why;
         else M.removeRowsByPerm(perm);
      }
      break;
   }
   case 25:
   {
      if(m == 0) return applyOp(c, 0);
      c.name = "removeRowRangeReal";
      int a = g.range(0, m - 1), b = g.range(a, std::min(m - 1, a + 3));
      std::vector<int> perm(m, 7);
      std::vector<char> rem(m, 0);
      for(int i = a; i <= b; i++) rem[i] = 1;
      sp.removeRowRangeReal(a, b, perm.data());
      std::string why;
      if(!validPerm(perm, rem, why)) c.err = "removeRowRangeReal:perm contract: " + why;
      else M.removeRowsByPerm(perm);
      break;
   }
   case 26:
   {
      if(n <= 1) return applyOp(c, 2);
      c.name = "removeColsReal(perm)";
      std::vector<int> perm(n);
      std::vector<char> rem(n, 0);
      int left = n;
      for(int j = 0; j < n; j++)
      {
         rem[j] = left > 1 && g.chance(0.3);
         if(rem[j]) left--;
         perm[j] = rem[j] ? -1 : g.range(0, 5);
      }
      sp.removeColsReal(perm.data());
      std::string why;
      if(!validPerm(perm, rem, why)) c.err = "removeColsReal(perm):perm contract: " + why;
      else M.removeColsByPerm(perm);
      break;
   }
   case 27:
   {
      if(n <= 1) return applyOp(c, 2);
      c.name = "removeColsReal(idx,n,perm)";
      std::vector<int> idx;
      std::vector<char> rem(n, 0);
      int left = n;
      for(int j = 0; j < n; j++) if(left > 1 && g.chance(0.3))
         {
            idx.push_back(j);
            rem[j] = 1;
            left--;
         }
      g.shuffle(idx);
      std::vector<int> perm(n, 7);
      sp.removeColsReal(idx.data(), (int)idx.size(), perm.data());
      std::string why;
      if(!validPerm(perm, rem, why)) c.err = "removeColsReal(idx,n,perm):perm contract: " + why;
      else M.removeColsByPerm(perm);
      break;
   }
   case 28:
   {
      if(n <= 1) return applyOp(c, 2);
      c.name = "removeColRangeReal";
      int a = g.range(0, n - 1), b = g.range(a, std::min(n - 1, a + 2));
      if(b - a + 1 >= n) b = a;
      if(n - (b - a + 1) < 1) return applyOp(c, 2);
      std::vector<int> perm(n, 7);
      std::vector<char> rem(n, 0);
      for(int j = a; j <= b; j++) rem[j] = 1;
      sp.removeColRangeReal(a, b, perm.data());
      std::string why;
      if(!validPerm(perm, rem, why)) c.err = "removeColRangeReal:perm contract: " + why;
      else M.removeColsByPerm(perm);
      break;
   }
   case 29:
   {
      c.name = "setIntParam(OBJSENSE)";
      int ns = g.chance(0.5) ? 1 : -1;
      sp.setIntParam(SoPlex::OBJSENSE, ns > 0 ? SoPlex::OBJSENSE_MAXIMIZE : SoPlex::OBJSENSE_MINIMIZE);
      M.sense = ns;
      break;
   }
   default:
   {
      c.name = "clearLPReal";
      if(!g.chance(0.15))
      {
         c.name = "noop";
         c.modifies = false;
         return;
      }
      sp.clearLPReal();
      int s = M.sense;
      Q off = M.offset;
      std::string fam = M.family;
      M.clear();
      M.sense = s;
      M.offset = off;
      M.family = fam;
      // rebuild a small LP so the history continues on something non-trivial
      break;
   }
   }
}

// fresh solver on the mirror: status and value
static void freshSolve(const LPModel& M, const ParamSet& cfg, int& st, double& v)
{
   SoPlex f;
   quiet(f);
   cfg.apply(f);
   loadReal(f, M, 0);
   f.optimize();
   st = (int)f.status();
   v = f.hasSol() ? f.objValueReal() : 0;
}
static bool definite(int st)
{
   return st == SPX::OPTIMAL || st == SPX::INFEASIBLE || st == SPX::UNBOUNDED || st == SPX::INForUNBD;
}
static bool sameVerdict(int a, int b)
{
   if(a == b) return true;
   if(a == SPX::INForUNBD) return b == SPX::INFEASIBLE || b == SPX::UNBOUNDED;
   if(b == SPX::INForUNBD) return a == SPX::INFEASIBLE || a == SPX::UNBOUNDED;
   return false;
}

struct HistRes
{
   std::string tag, detail;
   int atStep = -1;
};

// runs the history of case (seed sub) under cfg; deterministic in (sub, cfg)
static HistRes c06Run(uint64_t sub, const ParamSet& cfg, int nsteps, bool count)
{
   Sink& S = sink();
   HistRes R;
   Rng g(606, sub, 6);
   Planted P;
   LPModel M = g.chance(0.6) ? genPlantedOpt(g, P, 7, 7, g.chance(0.3)) : genArbitrary(g, 7, 7);
   SoPlex sp;
   quiet(sp);
   cfg.apply(sp);
   loadReal(sp, M, g.range(0, 2));
   auto fail = [&](const std::string & t, const std::string & d, int step)
   {
      if(R.tag.empty())
      {
         R.tag = t;
         R.detail = d;
         R.atStep = step;
      }
   };
   std::string e0 = compareAccessors(sp, M);
   if(!e0.empty())
   {
      fail("mirror.load." + e0.substr(0, e0.find(':')), e0.substr(e0.find(':') + 1), 0);
      return R;
   }
   std::string curCall = "?";
   try
   {
   bool rowsRemovedOnBasis = false;      // rows were removed while the current basis was held (see the basis check below)
   for(int step = 0; step < nsteps && R.tag.empty(); step++)
   {
      int w = g.range(0, 99);
      curCall = w < 70 ? "modification" : w < 88 ? "optimize" : "basis-call";
      if(w < 70)
      {
         int op = g.range(0, NOPS - 1);
         OpCtx c{g, sp, M, "", true, ""};
         applyOp(c, op);
         curCall = c.name + "+accessors";
         if(count && !c.name.empty()) S.count("c06.op." + c.name);
         if(verbose && count)
         {
            fprintf(stderr, "step %d: %s -> %dx%d sense %d hasBasis %d loaded %d basisstat %d |", step, c.name.c_str(), M.m, M.n, M.sense, (int)sp.hasBasis(), (int)sp._isRealLPLoaded, (int)sp._solver.basis().status());
            if(sp.hasBasis() && sp.numRows() == M.m && sp.numCols() == M.n)
            {
               for(int i = 0; i < M.m; i++) fprintf(stderr, " r%d=%d", i, (int)sp.basisRowStatus(i));
               for(int j = 0; j < M.n; j++) fprintf(stderr, " c%d=%d", j, (int)sp.basisColStatus(j));
            }
            fprintf(stderr, "\n");
            if(step >= 36) fprintf(stderr, "%s", M.toLPText().c_str());
         }
         if(!c.err.empty())
         {
            fail("perm." + c.err.substr(0, c.err.find(':')), c.err.substr(c.err.find(':') + 1) + " (step " + std::to_string(step) + ")", step);
            break;
         }
         if(c.name == "noop") continue;
         if(c.name.rfind("removeRow", 0) == 0 && sp.hasBasis()) rowsRemovedOnBasis = true;
         if(!sp.hasBasis() || c.name.find("Basis") != std::string::npos) rowsRemovedOnBasis = false;
         std::string e = compareAccessors(sp, M);
         if(!e.empty())
         {
            fail("mirror." + c.name + "." + e.substr(0, e.find(':')), e.substr(e.find(':') + 1) + " after " + c.name + " (step " + std::to_string(
                    step) + ")", step);
            break;
         }
         if(c.modifies && c.name != "setIntParam(OBJSENSE)")
         {
            if(count) S.count("c06.stale_checks");
            if(sp.hasSol()) fail("stale.hasSol." + c.name, "hasSol() still true after " + c.name, step);
            else if(sp.status() != SPX::UNKNOWN) fail("stale.status." + c.name, std::string("status() is ") + statusName((int)sp.status()) + " after " + c.name,
                     step);
            if(sp.hasBasis() && M.m == sp.numRows() && M.n == sp.numCols())
            {
               if(count) S.count("c06.basis_after_modification_checked");
               std::string r = monitorBasis(sp, M, false);
               // a finding seen after an operation that follows an earlier row removal on the same basis is marked: the stale basis
               // ids left by the removal (known finding) surface at the next operation that touches the basis
               if(!r.empty()) fail("basis." + r.substr(0, r.find(':')) + ".after." + c.name + (rowsRemovedOnBasis
                                      && c.name.rfind("removeRow", 0) != 0 ? "+earlier-row-removal" : ""), r.substr(r.find(':') + 1), step);
            }
         }
      }
      else if(w < 88)
      {
         if(M.n == 0) continue;
         // a warm start from a basis in which a free row is nonbasic (only reachable through modifications that free a nonbasic row)
         // runs into the known pricing gap for free rows; findings of such solves are marked
         bool freeRowNonbasic = false;
         if(sp.hasBasis() && sp.numRows() == M.m)
            for(int i = 0; i < M.m; i++) if(isNInf(M.lhs[i]) && isPInf(M.rhs[i]) && sp.basisRowStatus(i) != SPX::BASIC) freeRowNonbasic = true;
         if(count && freeRowNonbasic) S.count("c06.solves_from_basis_with_nonbasic_free_row");
         const std::string frn = freeRowNonbasic ? "+nonbasic-free-row" : "";
         sp.optimize();
         rowsRemovedOnBasis = false;
         int st = (int)sp.status();
         double v = sp.hasSol() ? sp.objValueReal() : 0;
         if(verbose && count) fprintf(stderr, "step %d: optimize -> %s %.10g iters %d\n%s", step, statusName(st), v, sp.numIterations(), step >= 0 ? M.toLPText().c_str() : "");
         if(count)
         {
            S.count("c06.solves");
            S.count(std::string("c06.solve_status.") + statusName(st));
         }
         // the LP seen through the accessors must not change by solving (scaling is invisible: ties into C09)
         std::string e = compareAccessors(sp, M);
         if(!e.empty())
         {
            fail("mirror.optimize." + e.substr(0, e.find(':')), e.substr(e.find(':') + 1) + " after optimize (step " + std::to_string(step) + ")", step);
            break;
         }
         Truth T = computeTruth(M, true);
         if(!(T.known && T.robust)) continue;
         int tst = T.status == REF_OPTIMAL ? (int)SPX::OPTIMAL : T.status == REF_INFEASIBLE ? (int)SPX::INFEASIBLE : (int)SPX::UNBOUNDED;
         int fst;
         double fv;
         freshSolve(M, cfg, fst, fv);
         if(!definite(fst) || !sameVerdict(fst, tst)) continue;     // the from-scratch solve itself is off: C01/C02 territory
         if(count) S.count("c06.solves_compared");
         if(!sameVerdict(st, fst))
         {
            fail(std::string("resolve.status.") + statusName(st) + frn, std::string("re-optimising the modified LP gives ") + statusName(
                    st) + ", a new solver given the final LP gives " + statusName(fst) + " (step " + std::to_string(step) + ")", step);
            break;
         }
         if(st == SPX::OPTIMAL && fst == SPX::OPTIMAL)
         {
            double rel = std::fabs(v - fv) / (1.0 + std::fabs(fv) + std::fabs(dq(T.objval)));
            if(count) S.maxi("c06.resolveObj/thr", rel / 1e-5);
            if(rel > 1e-5) fail("resolve.objective" + frn, "re-optimised value " + ds(v) + ", from scratch " + ds(fv) + " (step " + std::to_string(step) + ")", step);
         }
      }
      else if(w < 92)
      {
         if(sp.hasBasis())
         {
            if(count) S.count("c06.getBasis");
            std::string r = monitorBasis(sp, M, false);
            if(!r.empty()) fail("basis." + r.substr(0, r.find(':')), r.substr(r.find(':') + 1), step);
         }
      }
      else if(w < 96)
      {
         if(count) S.count("c06.clearBasis");
         sp.clearBasis();
         if(sp.hasBasis()) fail("clearBasis.hasBasis", "hasBasis() true after clearBasis()", step);
      }
      else
      {
         // setBasis with the slack basis
         int m = M.m, n = M.n;
         std::vector<SPX::VarStatus> rs(m + 1, SPX::BASIC), cs(n + 1);
         for(int j = 0; j < n; j++) cs[j] = !isNInf(M.lo[j]) ? (M.lo[j] == M.up[j] ? SPX::FIXED : SPX::ON_LOWER) : (!isPInf(M.up[j]) ? SPX::ON_UPPER : SPX::ZERO);
         sp.setBasis(rs.data(), cs.data());
         if(count) S.count("c06.setBasis");
      }
   }
   }
   catch(const SPxException& e)
   {
      // no public entry point documents an exception as its failure mode
      std::string w = e.what();
      fail("exception." + curCall + "." + w.substr(0, 8), "SPxException escaped from " + curCall + ": " + w, -1);
   }
   return R;
}

static void caseC06(long long k, Rng& g)
{
   Sink& S = sink();
   ParamSet cfg = randomAlgConfig(g, 0.12);
   // the property's explicit cross: scaler x persistent scaling x simplifier x representation
   cfg.i[SoPlex::SCALER] = (int)(k % 7);
   cfg.b[SoPlex::PERSISTENTSCALING] = ((k / 7) % 2) == 0;
   cfg.i[SoPlex::SIMPLIFIER] = ((k / 14) % 2) ? 3 : 0;
   cfg.i[SoPlex::REPRESENTATION] = (int)((k / 28) % 3);
   cfg.normalise();
   uint64_t sub = g.next();
   int nsteps = cli.thorough() ? 90 : 60;
   S.begin(k, cfg.key());
   S.count("cases");
   S.seen("cfg", fnv(cfg.key()));
   S.seen("nontrivial", sub ^ fnv(cfg.key()));
   HistRes r = c06Run(sub, cfg, nsteps, true);
   if(!r.tag.empty())
   {
      ParamSet mc;
      std::string cell = cellKey(cfg, [&](const ParamSet & p)
      {
         return c06Run(sub, p, nsteps, false).tag == r.tag;
      }, &mc);
      S.viol("C06:" + r.tag + ":" + cell, r.detail + " | full config " + cfg.key(), Json().num("history_seed", (long long)(sub >> 1)).num("step",
             r.atStep).str("config", cfg.key()).done());
   }
   if(k < 3) S.sample(Json().str("config", cfg.key()).num("steps", nsteps).done());
   S.end(k);
}

// ------------------------------------------------------------------------------------------------ C09
static std::string lpBits(const SPxLPBase<double>& lp)
{
   std::ostringstream o;
   o << lp.nRows() << "x" << lp.nCols() << ";";
   for(int i = 0; i < lp.nRows(); i++) o << dbits(lp.lhs(i)) << "," << dbits(lp.rhs(i)) << ";";
   for(int j = 0; j < lp.nCols(); j++)
   {
      o << dbits(lp.lower(j)) << "," << dbits(lp.upper(j)) << "," << dbits(lp.maxObj(j)) << ":";
      const SVectorBase<double>& c = lp.colVector(j);
      std::vector<std::pair<int, uint64_t>> e;
      for(int t = 0; t < c.size(); t++) e.push_back({c.index(t), dbits(c.value(t))});
      std::sort(e.begin(), e.end());
      for(auto& p : e) o << p.first << "=" << p.second << ",";
      o << ";";
   }
   return o.str();
}
static void fillLP(SPxLPBase<double>& lp, const LPModel& M)
{
   LPColSetBase<double> cols;
   DSVectorReal empty(1);
   for(int j = 0; j < M.n; j++) cols.add(dq(M.obj[j]), toReal(M.lo[j]), empty, toReal(M.up[j]));
   lp.addCols(cols);
   LPRowSetBase<double> rows;
   for(int i = 0; i < M.m; i++)
   {
      DSVectorReal r(M.n + 1);
      for(int j = 0; j < M.n; j++) if(M.A[i][j] != 0) r.add(j, dq(M.A[i][j]));
      rows.add(toReal(M.lhs[i]), r, toReal(M.rhs[i]));
   }
   lp.addRows(rows);
   lp.changeSense(M.sense > 0 ? SPxLPBase<double>::MAXIMIZE : SPxLPBase<double>::MINIMIZE);
}
static bool isPow2Scaled(double orig, double scaled, int e)
{
   if(std::fabs(orig) >= soplex::infinity) return std::fabs(scaled) >= soplex::infinity && ((orig > 0) == (scaled > 0));
   return sameBits(std::ldexp(orig, e) + 0.0, scaled + 0.0) || (orig == 0.0 && scaled == 0.0);
}

static HistRes c09Bare(const LPModel& M, int scalerId, bool persistent, bool count)
{
   Sink& S = sink();
   HistRes R;
   auto fail = [&](const std::string & t, const std::string & d)
   {
      if(R.tag.empty())
      {
         R.tag = t;
         R.detail = d;
      }
   };
   std::shared_ptr<Tolerances> tol = std::make_shared<Tolerances>();
   static SPxOut lpout;
   lpout.setVerbosity(SPxOut::ERROR);
   SPxLPBase<double> lp;
   lp.setTolerances(tol);
   lp.setOutstream(lpout);
   fillLP(lp, M);
   SPxLPBase<double> orig(lp);
   std::unique_ptr<SPxScaler<double>> sc;
   const char* nm = "";
   switch(scalerId)
   {
   case 1: sc.reset(new SPxEquiliSC<double>(false)); nm = "uniequi"; break;
   case 2: sc.reset(new SPxEquiliSC<double>(true)); nm = "biequi"; break;
   case 3: sc.reset(new SPxGeometSC<double>(false, 1)); nm = "geo1"; break;
   case 4: sc.reset(new SPxGeometSC<double>(false, 8)); nm = "geo8"; break;
   case 5: sc.reset(new SPxLeastSqSC<double>()); nm = "leastsq"; break;
   default: sc.reset(new SPxGeometSC<double>(true, 8)); nm = "geoequi"; break;
   }
   SPxOut out;
   out.setVerbosity(SPxOut::ERROR);
   sc->setOutstream(out);
   sc->setTolerances(tol);
   sc->scale(lp, persistent);
   if(count) S.count(std::string("c09.bare.") + nm + (persistent ? ".persistent" : ".internal"));
   std::string sfx = std::string(".") + nm;
   int m = M.m, n = M.n;
   std::vector<int> re(m), ce(n);
   bool anyNonzero = false;
   for(int i = 0; i < m; i++)
   {
      re[i] = sc->getRowScaleExp(i);
      if(re[i] != 0) anyNonzero = true;
      if(count) S.maxi("c09.max_abs_exponent", std::abs(re[i]));
   }
   for(int j = 0; j < n; j++)
   {
      ce[j] = sc->getColScaleExp(j);
      if(ce[j] != 0) anyNonzero = true;
      if(count) S.maxi("c09.max_abs_exponent", std::abs(ce[j]));
   }
   if(count && anyNonzero) S.count("c09.bare.nonzero_exponents_seen");
   // (1) every stored number is ldexp(original, exponent combination), bitwise
   for(int i = 0; i < m; i++)
   {
      if(!isPow2Scaled(orig.lhs(i), lp.lhs(i), re[i])) fail("bare.lhs" + sfx, "scaled lhs of row " + std::to_string(i) + " is not lhs * 2^rowexp");
      if(!isPow2Scaled(orig.rhs(i), lp.rhs(i), re[i])) fail("bare.rhs" + sfx, "scaled rhs of row " + std::to_string(i) + " is not rhs * 2^rowexp");
   }
   for(int j = 0; j < n; j++)
   {
      if(!isPow2Scaled(orig.lower(j), lp.lower(j), -ce[j])) fail("bare.lower" + sfx, "scaled lower of column " + std::to_string(j) + " is not lower * 2^-colexp");
      if(!isPow2Scaled(orig.upper(j), lp.upper(j), -ce[j])) fail("bare.upper" + sfx, "scaled upper of column " + std::to_string(j) + " is not upper * 2^-colexp");
      if(!isPow2Scaled(orig.maxObj(j), lp.maxObj(j), ce[j])) fail("bare.obj" + sfx, "scaled objective of column " + std::to_string(j) + " is not obj * 2^colexp");
      const SVectorBase<double>& co = orig.colVector(j);
      const SVectorBase<double>& cs = lp.colVector(j);
      if(co.size() != cs.size()) fail("bare.coef" + sfx, "scaling changed the number of entries of a column");
      else for(int t = 0; t < co.size(); t++)
         {
            int i = co.index(t);
            double sv = cs[i];
            if(!isPow2Scaled(co.value(t), sv, re[i] + ce[j])) fail("bare.coef" + sfx, "scaled coefficient (" + std::to_string(i) + "," + std::to_string(
                        j) + ") = " + ds(sv) + " is not " + ds(co.value(t)) + " * 2^(" + std::to_string(re[i]) + "+" + std::to_string(ce[j]) + ")");
         }
   }
   if(!R.tag.empty()) return R;
   // (2) the *Unscaled getters return the original bitwise
   if(lp.isScaled())
   {
      if(count) S.count("c09.bare.unscaled_getters_checked");
      for(int i = 0; i < m; i++)
      {
         if(!sameBits(lp.lhsUnscaled(i), orig.lhs(i))) fail("bare.lhsUnscaled" + sfx, "lhsUnscaled(" + std::to_string(i) + ") != original");
         if(!sameBits(lp.rhsUnscaled(i), orig.rhs(i))) fail("bare.rhsUnscaled" + sfx, "rhsUnscaled(" + std::to_string(i) + ") != original");
         DSVectorBase<double> rv;
         lp.getRowVectorUnscaled(i, rv);
         for(int t = 0; t < rv.size(); t++) if(!(rv.value(t) == orig.rowVector(i)[rv.index(t)])) fail("bare.rowVectorUnscaled" + sfx, "getRowVectorUnscaled(" + std::to_string(i) + ") differs from the original row");
         if(rv.size() != orig.rowVector(i).size()) fail("bare.rowVectorUnscaled" + sfx, "getRowVectorUnscaled size differs");
      }
      for(int j = 0; j < n; j++)
      {
         if(!sameBits(lp.lowerUnscaled(j), orig.lower(j))) fail("bare.lowerUnscaled" + sfx, "lowerUnscaled(" + std::to_string(j) + ") != original");
         if(!sameBits(lp.upperUnscaled(j), orig.upper(j))) fail("bare.upperUnscaled" + sfx, "upperUnscaled(" + std::to_string(j) + ") != original");
         if(!(lp.maxObjUnscaled(j) == orig.maxObj(j))) fail("bare.maxObjUnscaled" + sfx, "maxObjUnscaled(" + std::to_string(j) + ") != original");
         DSVectorBase<double> cv;
         lp.getColVectorUnscaled(j, cv);
         for(int t = 0; t < cv.size(); t++) if(!(cv.value(t) == orig.colVector(j)[cv.index(t)])) fail("bare.colVectorUnscaled" + sfx, "getColVectorUnscaled(" + std::to_string(j) + ") differs from the original column");
         if(cv.size() != orig.colVector(j).size()) fail("bare.colVectorUnscaled" + sfx, "getColVectorUnscaled size differs");
         for(int i = 0; i < m; i++) if(!(sc->getCoefUnscaled(lp, i, j) == orig.colVector(j)[i]))  fail("bare.getCoefUnscaled" + sfx, "getCoefUnscaled(" + std::to_string(i) + "," + std::to_string(j) + ") != original");
      }
      if(!R.tag.empty()) return R;
      // (3) unscaleLP restores the LP bitwise
      lp.unscaleLP();
      if(count) S.count("c09.bare.unscaleLP_checked");
      if(lpBits(lp) != lpBits(orig)) fail("bare.unscaleLP" + sfx, "unscaleLP() does not restore the LP bit for bit");
   }
   return R;
}

// user-level: accessors before optimize == after; files identical; repeated solve/modify cycles
static std::string fileBytes(const std::string& p)
{
   std::ifstream f(p, std::ios::binary);
   std::ostringstream o;
   o << f.rdbuf();
   return o.str();
}
static HistRes c09User(uint64_t sub, const ParamSet& cfg, bool count)
{
   Sink& S = sink();
   HistRes R;
   auto fail = [&](const std::string & t, const std::string & d)
   {
      if(R.tag.empty())
      {
         R.tag = t;
         R.detail = d;
      }
   };
   Rng g(909, sub, 9);
   Planted P;
   LPModel M = g.chance(0.7) ? genPlantedOpt(g, P, 7, 7, false) : genArbitrary(g, 7, 7);
   badlyScale(g, M, nullptr, g.pick(std::vector<int> {3, 6, 9}));
   if(!allExactDoubles(M)) return R;
   g_finiteOnly = true;
   struct Reset
   {
      ~Reset()
      {
         g_finiteOnly = false;
      }
   } reset_;
   SoPlex sp;
   quiet(sp);
   cfg.apply(sp);
   loadReal(sp, M, g.range(0, 2));
   std::string f0 = cli.tmpdir + "/c09_" + std::to_string(sub) + "_a.lp", f1 = cli.tmpdir + "/c09_" + std::to_string(sub) + "_b.lp";
   std::string f0m = cli.tmpdir + "/c09_" + std::to_string(sub) + "_a.mps", f1m = cli.tmpdir + "/c09_" + std::to_string(sub) + "_b.mps";
   sp.writeFile(f0.c_str(), nullptr, nullptr, nullptr, true);
   // the MPS writer cannot write free rows (it throws; recorded under C12/C14): compare MPS bytes only when there is none
   bool mpsOk = true;
   for(int i = 0; i < M.m; i++) if(isNInf(M.lhs[i]) && isPInf(M.rhs[i])) mpsOk = false;
   if(mpsOk) sp.writeFile(f0m.c_str(), nullptr, nullptr, nullptr, true);
   std::string b0 = fileBytes(f0), b0m = mpsOk ? fileBytes(f0m) : std::string();
   int cycles = g.range(2, 14);
   for(int cy = 0; cy < cycles && R.tag.empty(); cy++)
   {
      sp.optimize();
      if(count)
      {
         S.count("c09.user.solves");
         if(sp._isRealLPScaled) S.count("c09.user.solves_with_scaled_LP");
         if(sp._isRealLPScaled && sp._scaler)
         {
            bool nz = false;
            for(int i = 0; i < sp.numRows() && !nz; i++) if(sp._scaler->getRowScaleExp(i) != 0) nz = true;
            for(int j = 0; j < sp.numCols() && !nz; j++) if(sp._scaler->getColScaleExp(j) != 0) nz = true;
            if(nz) S.count("c09.user.nonzero_exponents_seen");
         }
      }
      std::string e = compareAccessors(sp, M);
      if(!e.empty())
      {
         fail("user.accessors-after-solve." + e.substr(0, e.find(':')), e.substr(e.find(':') + 1) + " (cycle " + std::to_string(cy) + ")");
         break;
      }
      if(cy == 0)
      {
         sp.writeFile(f1.c_str(), nullptr, nullptr, nullptr, true);
         if(mpsOk) sp.writeFile(f1m.c_str(), nullptr, nullptr, nullptr, true);
         if(count) S.count("c09.user.files_compared");
         if(fileBytes(f1) != b0) fail("user.writeFile.lp", "LP file written after a (scaled) solve differs from the file written before");
         if(mpsOk && fileBytes(f1m) != b0m) fail("user.writeFile.mps", "MPS file written after a (scaled) solve differs from the file written before");
      }
      // solution refers to the unscaled LP: certificate check when optimal
      if(sp.status() == SPX::OPTIMAL)
      {
         SolveOut o;
         extract(sp, o);
         Tol tol;
         std::string r = monitorOptimal(M, o, tol, "c09.");
         if(count) S.count("c09.user.certificates_checked");
         if(!r.empty()) fail("user.cert." + r.substr(0, r.find(':')), r.substr(r.find(':') + 1) + " (cycle " + std::to_string(cy) + ")");
      }
      else if(sp.hasDualFarkas())
      {
         VectorReal y(sp.numRows());
         if(sp.getDualFarkas(y))
         {
            FarkasRes f = checkFarkas(M, toQ(y), 1e-9);
            if(count) S.count("c09.user.farkas_checked");
            if(!f.proves) fail("user.farkas", "Farkas vector after a scaled solve does not prove infeasibility of the unscaled LP: " + f.why);
         }
      }
      else if(sp.hasPrimalRay())
      {
         VectorReal d(sp.numCols());
         if(sp.getPrimalRay(d))
         {
            RayRes rr = checkRay(M, toQ(d), 1e-9);
            if(count) S.count("c09.user.ray_checked");
            if(!rr.valid) fail("user.ray", "primal ray after a scaled solve is not a ray of the unscaled LP: " + rr.why);
         }
      }
      // modify while scaled: data added or changed must read back exactly
      int nmod = g.range(1, 3);
      for(int t = 0; t < nmod && R.tag.empty(); t++)
      {
         OpCtx c{g, sp, M, "", true, ""};
         static const int ops[] = {0, 2, 4, 5, 6, 7, 8, 12, 13, 14, 18, 20, 1, 3, 19};
         applyOp(c, ops[g.range(0, 14)]);
         // badly scaled values for the changed data: multiply by a power of two through a second change
         if(count && !c.name.empty()) S.count("c09.user.op." + c.name);
         std::string e2 = compareAccessors(sp, M);
         if(!e2.empty()) fail("user.modify-while-scaled." + c.name + "." + e2.substr(0, e2.find(':')), e2.substr(e2.find(':') + 1) + " after " + c.name);
      }
   }
   remove(f0.c_str());
   remove(f1.c_str());
   remove(f0m.c_str());
   remove(f1m.c_str());
   return R;
}

static void caseC09(long long k, Rng& g)
{
   Sink& S = sink();
   uint64_t sub = g.next();
   if(k % 2 == 0)
   {
      // bare scaler
      static const std::vector<std::string> fams = {"planted-opt", "arbitrary", "presolve-rich", "planted-infeasible"};
      Instance I = genFamily(g, fams[(size_t)((k / 2) % 4)], 9, 9);
      badlyScale(g, I.M, nullptr, g.pick(std::vector<int> {3, 10, 25, 60, 150}));
      int scalerId = 1 + (int)((k / 8) % 6);
      bool persistent = ((k / 48) % 2) == 0;
      S.begin(k, "bare scaler " + std::to_string(scalerId) + (persistent ? " persistent " : " internal ") + std::to_string(I.M.m) + "x" + std::to_string(
                 I.M.n));
      if(!allExactDoubles(I.M) || I.M.m == 0 || I.M.nnz() == 0)
      {
         S.count("gen.skipped");
         S.end(k);
         return;
      }
      S.count("cases");
      S.seen("nontrivial", I.M.signature() ^ (uint64_t)scalerId * 77 ^ (persistent ? 1 : 0));
      HistRes r = c09Bare(I.M, scalerId, persistent, true);
      if(!r.tag.empty()) S.viol("C09:" + r.tag + (persistent ? "" : ":internal"), r.detail, Json().raw("lp", I.M.toJson()).num("scaler", scalerId).done());
      if(k < 4) S.sample(Json().str("kind", "bare").num("scaler", scalerId).num("m", I.M.m).num("n", I.M.n).done());
      S.end(k);
      return;
   }
   ParamSet cfg = randomAlgConfig(g, 0.1);
   cfg.i[SoPlex::SCALER] = (int)((k / 2) % 7);
   cfg.b[SoPlex::PERSISTENTSCALING] = ((k / 14) % 2) == 0;
   if(g.chance(0.5)) cfg.i[SoPlex::SIMPLIFIER] = 0;
   cfg.normalise();
   S.begin(k, "user " + cfg.key());
   S.count("cases");
   S.seen("cfg", fnv(cfg.key()));
   S.seen("nontrivial", sub ^ fnv(cfg.key()));
   HistRes r = c09User(sub, cfg, true);
   if(!r.tag.empty())
   {
      ParamSet mc;
      std::string cell = cellKey(cfg, [&](const ParamSet & p)
      {
         return c09User(sub, p, false).tag == r.tag;
      }, &mc);
      S.viol("C09:" + r.tag + ":" + cell, r.detail + " | full config " + cfg.key(), Json().num("history_seed", (long long)(sub >> 1)).str("config",
             cfg.key()).done());
   }
   if(k < 4) S.sample(Json().str("kind", "user").str("config", cfg.key()).done());
   S.end(k);
}

int main(int argc, char** argv)
{
   cli.parse(argc, argv);
   verbose = cli.extra.count("verbose") > 0;
   Sink& S = sink();
   S.prop = cli.prop;
   selfTestOracles();
   for(long long k = cli.from; k < cli.to; k++)
   {
      Rng g(fnv(cli.prop), cli.seed, (uint64_t)k);
      if(cli.prop == "C06") caseC06(k, g);
      else if(cli.prop == "C09") caseC09(k, g);
      else
      {
         fprintf(stderr, "h_modify: unknown property %s\n", cli.prop.c_str());
         return 2;
      }
   }
   S.finish();
   return 0;
}
