// harness/h_mt.cpp -- C18: distinct solver objects used concurrently from different threads.
//
// A case k = (script set drawn from (seed,k), thread count T in {2,4,8,16,32}, R repetitions).  Every script is a
// deterministic sequence of API calls on its OWN solver objects (create, fill through the API and through readFile,
// modify, solve in floating point and exactly with/without precision boosting, query, write files, copy, destroy).
// Each script is first run ALONE (its own thread, nothing else running) and produces a digest = list of
// (step kind, hash of everything observable after that step).  Then all T scripts run concurrently, R times, under
// varying jitter; every concurrent digest must equal the script's sequential digest (oracle 1) and the build under
// ThreadSanitizer must not report a race (oracle 2, logs parsed by the driver).
//
// The monitor's own state: every thread writes only into its own TLog; logs are merged by the main thread after
// join; vl::sink() is used by the main thread only.  Observed concurrency is MEASURED: every API call is bracketed
// by monotonic-clock stamps; after a run the main thread counts, per pair of entry-point kinds, the calls of
// different threads whose intervals overlapped (counters overlap.<a>||<b>); mandatory minima on these counters make
// a run that did not actually interleave inconclusive.
//
// Control against differences that have nothing to do with shared state: "run alone" means run in a fresh thread, twice,
// with different garbage in recycled heap blocks (soilHeap + glibc M_PERTURB); steps whose digest differs between these
// two runs depend on uninitialised memory and are masked (counted, not compared); a concurrent difference is reported only
// if a third run alone reproduces the baseline (otherwise it is recorded as sequential nondeterminism).  API calls that
// crash or return garbage single-threaded (other properties' defects) are left out of the scripts, each with a comment
// at the place where it would have been called.
//
// MPS input (MPSInput::readLine, also used by readBasisFile) is exercised only by the "mps" script-set kind (every
// 5th case), and such a case is executed in a forked child: the tokeniser's process-global strtok state can crash
// the process, and the remaining coverage must not depend on it.  The child's ThreadSanitizer log is parsed by the
// parent (attributeChildTsanLog), which collapses the many top-frame pairs of that one root cause into one key.
//
// Extra arguments: --base N (offset added to the case index), --reps R, --threads T, --seqonly 1 (baselines only),
// --nofork 1 (mps cases in-process), --verbose 1.  Compile with -DVL_VGCHECK and run --seqonly under valgrind to find
// API calls that return uninitialised data.
#include "sx.hpp"
#include <pthread.h>
#include <sched.h>
#include <unistd.h>
#include <fcntl.h>
#include <time.h>
#include <dlfcn.h>
#include <dirent.h>
#include <signal.h>
#include <sys/wait.h>
#include <sys/stat.h>
#include <sys/types.h>
#include <malloc.h>
#include <poll.h>
#include <sys/prctl.h>

// ------------------------------------------------------------------------------------------------ TSan glue
#if defined(__SANITIZE_THREAD__)
#define VL_TSAN 1
#elif defined(__has_feature)
#if __has_feature(thread_sanitizer)
#define VL_TSAN 1
#endif
#endif

#ifdef VL_TSAN
// ThreadSanitizer does not see the recursive FILE lock of the (uninstrumented) C library: model it as a lock.
extern "C" void __tsan_acquire(void* addr);
extern "C" void __tsan_release(void* addr);
extern "C" void flockfile(FILE* f)
{
   static void (*real)(FILE*) = (void (*)(FILE*))dlsym(RTLD_NEXT, "flockfile");
   real(f);
   __tsan_acquire(f);
}
extern "C" void funlockfile(FILE* f)
{
   static void (*real)(FILE*) = (void (*)(FILE*))dlsym(RTLD_NEXT, "funlockfile");
   __tsan_release(f);
   real(f);
}
extern "C" int ftrylockfile(FILE* f)
{
   static int (*real)(FILE*) = (int (*)(FILE*))dlsym(RTLD_NEXT, "ftrylockfile");
   int r = real(f);
   if(r == 0) __tsan_acquire(f);
   return r;
}
extern "C" void __sanitizer_set_report_path(const char* path);
static const bool kTsan = true;
#else
static const bool kTsan = false;
#endif

using namespace vl;
using namespace soplex;

static Cli cli;
static bool verbose = false;
static std::string workDir;       // <tmpdir>/mt.<pid>

// ------------------------------------------------------------------------------------------------ kinds
enum EK { EK_CTOR, EK_DTOR, EK_COPY, EK_SETPARAM, EK_LOAD, EK_MODIFY, EK_READLP, EK_READMPS, EK_WRITE, EK_OPT, EK_EXACT, EK_EXACTB,
          EK_QUERY, EK_QUERYRAT, EK_BASISIO, EK_SETTINGSIO, EK_STATS, EK_N
        };
static const char* EKN[EK_N] = {"ctor", "dtor", "copy", "setParam", "load", "modify", "readLP", "readMPS", "writeFile", "optimize", "exact",
                                "exactb", "query", "queryRat", "basisio", "settingsio", "stats"
                               };
enum ST { ST_CTOR, ST_SETPARAM, ST_LOAD_REAL, ST_LOAD_RAT, ST_READ_LP, ST_READ_MPS, ST_MODIFY_REAL, ST_MODIFY_RAT, ST_OPT_REAL, ST_OPT_EXACT,
          ST_OPT_EXACTB, ST_QUERY_REAL, ST_WRITE_LP, ST_WRITE_MPS, ST_WRITE_BASIS, ST_READ_BASIS, ST_SETTINGSIO, ST_COPY, ST_ASSIGN, ST_EXCEPTION, ST_N
        };
static const char* STN[ST_N] = {"ctor", "setParam", "load.real", "load.rational", "readFile.lp", "readFile.mps", "modify.real",
                                "modify.rational", "optimize.real", "optimize.exact", "optimize.exact.boosted", "query.real", "writeFile.lp",
                                "writeFile.mps", "writeBasisFile", "readBasisFile", "settingsio", "copy", "assign", "exception"
                               };

static inline uint64_t nowns()
{
   struct timespec ts;
   clock_gettime(CLOCK_MONOTONIC, &ts);
   return (uint64_t)ts.tv_sec * 1000000000ULL + (uint64_t)ts.tv_nsec;
}

struct Hh
{
   uint64_t h = 1469598103934665603ULL;
   void u64(uint64_t v)
   {
#ifdef VL_VGCHECK      // development aid: make every digested value a branch condition, so that valgrind names the API call that returned uninitialised data
      {
         static volatile int vgsink;
         if(v & 0x8000) vgsink = 1;
         else vgsink = 2;
         if(v & 0x1) vgsink = 3;
         else vgsink = 4;
      }
#endif
      for(int i = 0; i < 8; i++)
      {
         h ^= (v >> (8 * i)) & 0xff;
         h *= 1099511628211ULL;
      }
   }
   void i(long long v)
   {
      u64((uint64_t)v);
   }
   void d(double v)
   {
      u64(dbits(v));
   }
   void s(const std::string& str)
   {
      u64(str.size());
      for(unsigned char c : str)
      {
         h ^= c;
         h *= 1099511628211ULL;
      }
   }
   void q(const Rational& r)
   {
      s(r.str());
   }
};

// ------------------------------------------------------------------------------------------------ scripts
struct Script
{
   uint64_t seed = 0;
   uint64_t id = 0;
   bool mps = false;
   bool verboseLog = false;
   LPModel MA, MF, MX;          // API-built float model, file model, exact (fractional) model
   ParamSet cfgA, cfgF;
   bool boostFirst = false;
   int order[4] = {0, 1, 2, 3};
   std::string inLP, inRatLP, inMPS, inMPS2, inRatMPS;
};

struct CallRec
{
   uint8_t kind;
   uint64_t t0, t1;
};
struct DigItem
{
   uint8_t step;
   uint64_t h;
};
struct TLog
{
   std::vector<CallRec> calls;
   std::vector<DigItem> dig;
   std::vector<std::string> info;         // human-readable summary of the step (same index as dig); not compared
   std::vector<uint8_t> seg;              // segment slot of the step (same index as dig)
   int curSeg = 0;
   std::string pendingInfo;
   std::map<std::string, long long> cnt;
   int divergedAt = -1;                   // index into the baseline digest
   int divergedLocal = -1;                // index into this run's digest
   std::string divergeDetail;
   uint64_t tStart = 0, tEnd = 0;
};

static std::vector<std::string> gFams = {"planted-opt", "planted-opt", "degenerate", "arbitrary", "presolve-rich", "badly-scaled",
                                         "planted-infeasible", "planted-unbounded"
                                        };

static LPModel genModel(Rng& g, int mx)
{
   for(int t = 0; t < 6; t++)
   {
      Instance I = genFamily(g, g.pick(gFams), mx, mx);
      if(allExactDoubles(I.M) && I.M.n >= 1) return I.M;
   }
   return genArbitrary(g, mx, mx);
}
static void fractionalise(Rng& g, LPModel& M)
{
   static const std::vector<int> dens = {3, 7, 10, 11, 13, 1000};
   for(int i = 0; i < M.m; i++)
   {
      for(int j = 0; j < M.n; j++) if(M.A[i][j] != 0 && g.chance(0.3)) M.A[i][j] /= Q(g.pick(dens));
      if(g.chance(0.3))
      {
         Q f = Q(1) / Q(g.pick(dens));
         if(isFin(M.lhs[i])) M.lhs[i] *= f;
         if(isFin(M.rhs[i])) M.rhs[i] *= f;
      }
   }
   for(int j = 0; j < M.n; j++)
   {
      if(g.chance(0.3)) M.obj[j] /= Q(g.pick(dens));
      if(g.chance(0.2))
      {
         Q f = Q(1) / Q(g.pick(dens));
         if(isFin(M.lo[j])) M.lo[j] *= f;
         if(isFin(M.up[j])) M.up[j] *= f;
      }
   }
}

static ParamSet floatConfig(Rng& g)
{
   // The property's quantifier names scalers, simplifiers and pricers; ratio testers, algorithm, representation, hyper pricing,
   // polishing, timers and random seeds are added.  Left at their defaults: the basis-update type, the crash-basis starters and the
   // least-squares scaler, which crash single-threaded on random small LPs (DESIGN section 6, suspects 11, 12; SPxWeightST::generate) --
   // other properties' business, and a crash of the sequential baseline would hide everything else here.
   static const std::vector<ParamDim> dims =
   {
      {'i', SoPlex::SCALER, {0, 1, 2, 3, 4, 6}},
      {'i', SoPlex::SIMPLIFIER, {0, 1, 3}},
      {'i', SoPlex::PRICER, {0, 1, 2, 3, 4, 5}},
      {'i', SoPlex::RATIOTESTER, {0, 1, 2, 3}},
      {'i', SoPlex::ALGORITHM, {0, 1}},
      {'i', SoPlex::REPRESENTATION, {0, 1, 2}},
      {'i', SoPlex::HYPER_PRICING, {0, 1, 2}},
      {'i', SoPlex::SOLUTION_POLISHING, {0, 1, 2}},
      {'i', SoPlex::TIMER, {0, 1, 2}},
      {'b', SoPlex::PERSISTENTSCALING, {0, 1}},
      {'b', SoPlex::ROWBOUNDFLIPS, {0, 1}},
      {'b', SoPlex::FULLPERTURBATION, {0, 1}},
      {'b', SoPlex::ENSURERAY, {0, 1}},
   };
   ParamSet p;
   for(auto& d : dims) if(g.chance(d.id == SoPlex::SCALER || d.id == SoPlex::SIMPLIFIER || d.id == SoPlex::PRICER ? 0.7 : 0.3)) setDim(p, d, g.pick(d.vals));
   if(g.chance(0.4))
   {
      p.hasSeed = true;
      p.seed = (unsigned)g.range(0, 1000);
   }
   p.normalise();
   return p;
}

static Script genScript(uint64_t seed, long long k, int idx, bool mps)
{
   Rng g(fnv("C18script"), seed * 1000003ULL + (uint64_t)k, (uint64_t)idx);
   Script s;
   s.seed = g.next();
   s.mps = mps;
   s.verboseLog = g.chance(0.3);
   int mx = g.chance(0.15) ? 14 : 8;
   s.MA = genModel(g, mx);
   s.MF = genModel(g, mx);
   s.MX = genModel(g, 7);
   fractionalise(g, s.MX);
   s.cfgA = floatConfig(g);
   s.cfgF = floatConfig(g);
   s.boostFirst = g.chance(0.5);
   std::vector<int> o = {0, 1, 2, 3};
   g.shuffle(o);
   for(int i = 0; i < 4; i++) s.order[i] = o[i];
   Hh h;
   h.u64(s.MA.signature());
   h.u64(s.MF.signature());
   h.u64(s.MX.signature());
   h.s(s.cfgA.key());
   h.s(s.cfgF.key());
   h.i(mps);
   s.id = h.h;
   return s;
}

static std::string readAll(const std::string& path)
{
   std::string out;
   int fd = open(path.c_str(), O_RDONLY);
   if(fd < 0) return "<cannot open>";
   char buf[8192];
   ssize_t n;
   while((n = read(fd, buf, sizeof buf)) > 0) out.append(buf, (size_t)n);
   close(fd);
   return out;
}

// ------------------------------------------------------------------------------------------------ executor
struct Diverged {};

struct Exec
{
   const Script& sc;
   TLog& L;
   const std::vector<DigItem>* expect;    // sequential digest (nullptr while recording the baseline)
   const std::vector<uint8_t>* masked = nullptr;   // steps whose result depends on heap garbage even when the script runs alone
   size_t cmpIdx = 0;                     // index into *expect of the next step (re-aligned at every segment start)
   bool conc;
   int jitMode;                           // 0 none, 1 light, 2 heavy
   Rng jit;
   Rng g;                                 // script decisions: seeded by the script only
   std::string outPrefix;
   std::ostringstream logstream;

   Exec(const Script& s, TLog& l, const std::vector<DigItem>* e, bool c, int jm, uint64_t jseed, const std::string& op)
      : sc(s), L(l), expect(e), conc(c), jitMode(jm), jit(0xC18, jseed, 7), g(0xC18A, s.seed, 1), outPrefix(op) {}

   void pause()
   {
      if(!conc || jitMode == 0) return;
      uint64_t r = jit.next();
      if(jitMode == 1)
      {
         if((r & 15) == 0) sched_yield();
         else if((r & 15) == 1) usleep((useconds_t)((r >> 8) % 60));
      }
      else
      {
         if((r & 3) == 0) sched_yield();
         else if((r & 3) == 1) usleep((useconds_t)((r >> 8) % 201));
      }
   }
   struct Scope
   {
      TLog& L;
      uint8_t kind;
      uint64_t t0;
      Scope(TLog& l, int k) : L(l), kind((uint8_t)k), t0(nowns()) {}
      ~Scope()
      {
         L.calls.push_back(CallRec{kind, t0, nowns()});
      }
   };
   template <class F> void call(int ek, F&& f)
   {
      pause();
      Scope s_(L, ek);
      f();
   }
   void step(int st, uint64_t h)
   {
      size_t idx = cmpIdx++;
      L.dig.push_back(DigItem{(uint8_t)st, h});
      L.info.push_back(L.pendingInfo);
      L.pendingInfo.clear();
      L.seg.push_back((uint8_t)L.curSeg);
      if(expect && masked && idx < masked->size() && (*masked)[idx])
      {
         L.cnt["steps.masked_not_compared"]++;
         return;
      }
      L.cnt[std::string("step.") + STN[st]]++;
      if(expect)
      {
         if(idx >= expect->size() || (*expect)[idx].step != st || (*expect)[idx].h != h)
         {
            L.divergedAt = (int)idx;
            L.divergedLocal = (int)L.dig.size() - 1;
            throw Diverged();
         }
      }
   }
   void attachLog(SoPlex& sp)
   {
      for(int v = 0; v <= 5; v++) sp.spxout.setStream((SPxOut::Verbosity)v, logstream);
      if(logstream.tellp() > 200000) logstream.str("");
   }

   // ---- digests of observable state
   uint64_t paramDigest(SoPlex& sp)
   {
      Hh h;
      call(EK_QUERY, [&]
      {
         for(int i = 0; i < SoPlex::BOOLPARAM_COUNT; i++)
         {
            h.i(sp.boolParam((SoPlex::BoolParam)i));
            h.s(SoPlex::Settings::boolParam.name[i]);
            h.i(SoPlex::Settings::boolParam.defaultValue[i]);
         }
         for(int i = 0; i < SoPlex::INTPARAM_COUNT; i++)
         {
            if(i == SoPlex::VERBOSITY) continue;
            h.i(sp.intParam((SoPlex::IntParam)i));
            h.s(SoPlex::Settings::intParam.name[i]);
            h.i(SoPlex::Settings::intParam.defaultValue[i]);
            h.i(SoPlex::Settings::intParam.lower[i]);
            h.i(SoPlex::Settings::intParam.upper[i]);
         }
         for(int i = 0; i < SoPlex::REALPARAM_COUNT; i++)
         {
            h.d(sp.realParam((SoPlex::RealParam)i));
            h.s(SoPlex::Settings::realParam.name[i]);
            h.d(SoPlex::Settings::realParam.defaultValue[i]);
            h.d(SoPlex::Settings::realParam.lower[i]);
            h.d(SoPlex::Settings::realParam.upper[i]);
         }
         h.i(sp.randomSeed());
         h.d(soplex::infinity);
         h.s(sp.getScalerName() ? sp.getScalerName() : "");
         h.s(sp.getSimplifierName() ? sp.getSimplifierName() : "");
         h.s(sp.getPricerName() ? sp.getPricerName() : "");
         h.s(sp.getRatiotesterName() ? sp.getRatiotesterName() : "");
         h.s(sp.getStarterName() ? sp.getStarterName() : "");
      });
      return h.h;
   }
   uint64_t lpDigestReal(SoPlex& sp)
   {
      Hh h;
      call(EK_QUERY, [&]
      {
         int m = sp.numRows(), n = sp.numCols();
         h.i(m);
         h.i(n);
         h.i(sp.numNonzeros());
         h.i(sp.intParam(SoPlex::OBJSENSE));
         h.d(sp.realParam(SoPlex::OBJ_OFFSET));
         for(int i = 0; i < m; i++)
         {
            h.d(sp.lhsReal(i));
            h.d(sp.rhsReal(i));
            h.i((int)sp.rowTypeReal(i));
            DSVectorReal r;
            sp.getRowVectorReal(i, r);
            h.i(r.size());
            for(int k = 0; k < r.size(); k++)
            {
               h.i(r.index(k));
               h.d(r.value(k));
            }
         }
         VectorReal lo(n), up(n), ob(n);
         sp.getLowerReal(lo);
         sp.getUpperReal(up);
         sp.getObjReal(ob);
         for(int j = 0; j < n; j++)
         {
            h.d(lo[j]);
            h.d(up[j]);
            h.d(ob[j]);
            h.d(sp.lowerReal(j));
            h.d(sp.upperReal(j));
            h.d(sp.objReal(j));
            DSVectorReal c;
            sp.getColVectorReal(j, c);
            h.i(c.size());
            for(int k = 0; k < c.size(); k++)
            {
               h.i(c.index(k));
               h.d(c.value(k));
            }
         }
         if(m > 0 && n > 0) h.d(sp.coefReal(m - 1, n - 1));
         // (min/maxAbsNonzeroReal are not part of the digest: on a persistently scaled LP they read scale exponents that were never
         //  initialised -- valgrind: uninitialised value from LPRowSetBase::add's realloc -- C09's business)
      });
      return h.h;
   }
   uint64_t lpDigestRational(SoPlex& sp)
   {
      Hh h;
      call(EK_QUERYRAT, [&]
      {
         int m = sp.numRowsRational(), n = sp.numColsRational();
         h.i(m);
         h.i(n);
         h.i(sp.numNonzerosRational());
         for(int i = 0; i < m; i++)
         {
            h.q(sp.lhsRational(i));
            h.q(sp.rhsRational(i));
            h.i((int)sp.rowTypeRational(i));
            const SVectorRational& r = sp.rowVectorRational(i);
            h.i(r.size());
            for(int k = 0; k < r.size(); k++)
            {
               h.i(r.index(k));
               h.q(r.value(k));
            }
         }
         for(int j = 0; j < n; j++)
         {
            h.q(sp.lowerRational(j));
            h.q(sp.upperRational(j));
            h.q(sp.objRational(j));
            const SVectorRational& c = sp.colVectorRational(j);
            h.i(c.size());
            for(int k = 0; k < c.size(); k++)
            {
               h.i(c.index(k));
               h.q(c.value(k));
            }
         }
         if(m > 0 && n > 0 && sp.numNonzerosRational() > 0)
         {
            h.q(sp.minAbsNonzeroRational());
            h.q(sp.maxAbsNonzeroRational());
         }
      });
      return h.h;
   }
   static void namesDigest(Hh& h, const NameSet& ns)
   {
      h.i(ns.num());
      for(int i = 0; i < ns.num(); i++) h.s(ns[i]);
   }
   uint64_t solveDigestReal(SoPlex& sp, int st)
   {
      Hh h;
      call(EK_QUERY, [&]
      {
         int m = sp.numRows(), n = sp.numCols();
         h.i(st);
         h.i((int)sp.status());
         h.i(sp.numIterations());
         h.i(sp.hasSol());
         h.i(sp.hasBasis());
         h.i(sp.isPrimalFeasible());
         h.i(sp.isDualFeasible());
         h.i(sp.hasPrimalRay());
         h.i(sp.hasDualFarkas());
         L.cnt[std::string("status.real.") + statusName((int)sp.status())]++;
         L.pendingInfo = std::string(statusName((int)sp.status())) + " iters=" + std::to_string(sp.numIterations()) + " hasSol=" + std::to_string(sp.hasSol()) +
                         (sp.hasSol() ? " obj=" + ds(sp.objValueReal()) : std::string()) + " " + std::to_string(m) + "x" + std::to_string(n);
         if(sp.hasSol())
         {
            VectorReal x(n), s(m), y(m), r(n);
            bool a = sp.getPrimal(x), b = sp.getSlacksReal(s), c = sp.getDual(y), d = sp.getRedCost(r);
            h.i(a * 8 + b * 4 + c * 2 + d);
            if(a) for(int j = 0; j < n; j++) h.d(x[j]);
            if(b) for(int i = 0; i < m; i++) h.d(s[i]);
            if(c) for(int i = 0; i < m; i++) h.d(y[i]);
            if(d) for(int j = 0; j < n; j++) h.d(r[j]);
            h.d(sp.objValueReal());
            double mv = 0, sv = 0;
            if(sp.getBoundViolation(mv, sv))
            {
               h.d(mv);
               h.d(sv);
            }
            if(sp.getRowViolation(mv, sv))
            {
               h.d(mv);
               h.d(sv);
            }
            if(sp.getRedCostViolation(mv, sv))
            {
               h.d(mv);
               h.d(sv);
            }
            if(sp.getDualViolation(mv, sv))
            {
               h.d(mv);
               h.d(sv);
            }
         }
         if(sp.hasPrimalRay())
         {
            VectorReal d(n);
            if(sp.getPrimalRay(d)) for(int j = 0; j < n; j++) h.d(d[j]);
         }
         if(sp.hasDualFarkas())
         {
            VectorReal y(m);
            if(sp.getDualFarkas(y)) for(int i = 0; i < m; i++) h.d(y[i]);
         }
         if(sp.hasBasis())
         {
            std::vector<VarStatus> rs(m + 1), cs(n + 1);
            sp.getBasis(rs.data(), cs.data());
            for(int i = 0; i < m; i++) h.i((int)rs[i]);
            for(int j = 0; j < n; j++) h.i((int)cs[j]);
            h.i((int)sp.basisStatus());
         }
      });
      return h.h;
   }
   uint64_t extraQueriesReal(SoPlex& sp)
   {
      Hh h;
      call(EK_QUERY, [&]
      {
         int m = sp.numRows(), n = sp.numCols();
         if(sp.hasBasis() && m > 0 && (int)sp.status() == 1)
         {
            std::vector<int> bind(m + 1);
            sp.getBasisInd(bind.data());
            for(int i = 0; i < m; i++) h.i(bind[i]);
            std::vector<double> coef(m + 1);
            int r = g.range(0, m - 1);
            if(sp.getBasisInverseRowReal(r, coef.data())) for(int i = 0; i < m; i++) h.d(coef[i]);
            // (getBasisInverseColReal is not called: with scaling it reads freed / out-of-range scale exponents even
            //  single-threaded -- heap-use-after-free in SPxScaler::getRowScaleExp, C05's business)
            std::vector<double> rhs(m + 1, 1.0), sol(m + 1, 0.0);
            if(sp.getBasisInverseTimesVecReal(rhs.data(), sol.data())) for(int i = 0; i < m; i++) h.d(sol[i]);
            double cond = 0;
            if(sp.getEstimatedCondition(cond)) h.d(cond);
            double metric = 0;
            if(sp.getBasisMetric(metric, 0)) h.d(metric);
         }
         h.i(n);
      });
      call(EK_STATS, [&]
      {
         std::ostringstream os;
         sp.printStatistics(os);
         std::string s = sp.statisticString();
         L.cnt["stats.bytes"] += (long long)(os.str().size() + s.size());
      });
      return h.h;
   }
   uint64_t solveDigestRational(SoPlex& sp, int st)
   {
      Hh h;
      call(EK_QUERYRAT, [&]
      {
         int m = sp.numRowsRational(), n = sp.numColsRational();
         h.i(st);
         h.i((int)sp.status());
         h.i(sp.numIterations());
         h.i(sp.numRefinements());
         h.i(sp.numPrecisionBoosts());
         h.i(sp.numIterationsBoosted());
         h.i(sp.hasSol());
         h.i(sp.hasBasis());
         L.cnt[std::string("status.exact.") + statusName((int)sp.status())]++;
         L.pendingInfo = std::string(statusName((int)sp.status())) + " iters=" + std::to_string(sp.numIterations()) + " refinements=" + std::to_string(
                            sp.numRefinements()) + " precisionBoosts=" + std::to_string(sp.numPrecisionBoosts()) + " boostedIters=" + std::to_string(sp.numIterationsBoosted()) +
                         (sp.hasSol() ? " obj=" + sp.objValueRational().str() : std::string());
         if(sp.numPrecisionBoosts() > 0) L.cnt["exact.solves_with_precision_boost"]++;
         if(sp.numRefinements() > 0) L.cnt["exact.solves_with_refinement"]++;
         if(sp.hasSol())
         {
            VectorRational x(n), s(m), y(m), r(n);
            bool a = sp.getPrimalRational(x), b = sp.getSlacksRational(s), c = sp.getDualRational(y), d = sp.getRedCostRational(r);
            h.i(a * 8 + b * 4 + c * 2 + d);
            if(a) for(int j = 0; j < n; j++) h.q(x[j]);
            if(b) for(int i = 0; i < m; i++) h.q(s[i]);
            if(c) for(int i = 0; i < m; i++) h.q(y[i]);
            if(d) for(int j = 0; j < n; j++) h.q(r[j]);
            h.q(sp.objValueRational());
            h.d(sp.objValueReal());
            VectorReal xr(n);
            if(sp.getPrimal(xr)) for(int j = 0; j < n; j++) h.d(xr[j]);
            Rational mv, sv;
            if(sp.getBoundViolationRational(mv, sv)) h.q(mv);
            if(sp.getRowViolationRational(mv, sv)) h.q(mv);
            if(sp.getRedCostViolationRational(mv, sv)) h.q(mv);
            if(sp.getDualViolationRational(mv, sv)) h.q(mv);
         }
         if(sp.hasPrimalRay())
         {
            VectorRational d(n);
            if(sp.getPrimalRayRational(d)) for(int j = 0; j < n; j++) h.q(d[j]);
         }
         if(sp.hasDualFarkas())
         {
            VectorRational y(m);
            if(sp.getDualFarkasRational(y)) for(int i = 0; i < m; i++) h.q(y[i]);
         }
         if(sp.hasBasis())
         {
            std::vector<VarStatus> rs(m + 1), cs(n + 1);
            sp.getBasis(rs.data(), cs.data());
            for(int i = 0; i < m; i++) h.i((int)rs[i]);
            for(int j = 0; j < n; j++) h.i((int)cs[j]);
         }
      });
      return h.h;
   }

   // ---- building blocks
   std::vector<SoPlex*> live;
   SoPlex* create()
   {
      SoPlex* sp = nullptr;
      call(EK_CTOR, [&] { sp = new SoPlex(); });
      live.push_back(sp);
      attachLog(*sp);
      L.cnt["objects.created"]++;
      return sp;
   }
   void destroy(SoPlex*& sp)
   {
      live.erase(std::remove(live.begin(), live.end(), sp), live.end());
      call(EK_DTOR, [&] { delete sp; });
      sp = nullptr;
   }
   void cleanup()      // after an exception / divergence: destroy what the aborted segment left behind
   {
      while(!live.empty())
      {
         SoPlex* sp = live.back();
         destroy(sp);
      }
   }
   void modifyReal(SoPlex& sp, int nmods)
   {
      for(int t = 0; t < nmods; t++)
      {
         int m = sp.numRows(), n = sp.numCols();
         int kind = g.range(0, 10);
         call(EK_MODIFY, [&]
         {
            switch(kind)
            {
            case 0:
               if(n > 0) sp.changeObjReal(g.range(0, n - 1), (double)g.range(-9, 9));
               break;
            case 1:
               if(n > 0)
               {
                  int lo = g.range(-5, 5);
                  sp.changeBoundsReal(g.range(0, n - 1), (double)lo, (double)(lo + g.range(0, 6)));
               }
               break;
            case 2:
               if(n > 0) sp.changeLowerReal(g.range(0, n - 1), -soplex::infinity);
               break;
            case 3:
               if(m > 0)
               {
                  int a = g.range(-12, 12);
                  sp.changeRangeReal(g.range(0, m - 1), (double)a, (double)(a + g.range(0, 9)));
               }
               break;
            case 4:
               if(m > 0) sp.changeRhsReal(g.range(0, m - 1), soplex::infinity);
               break;
            case 5:
               if(m > 0 && n > 0) sp.changeElementReal(g.range(0, m - 1), g.range(0, n - 1), (double)g.range(-6, 6));
               break;
            case 6:
            {
               DSVectorReal r(n + 1);
               for(int j = 0; j < n; j++) if(g.chance(0.5)) r.add(j, (double)smallNonzero(g, 6));
               int a = g.range(-10, 10);
               sp.addRowReal(LPRowReal(g.chance(0.3) ? -soplex::infinity : (double)a, r, g.chance(0.3) ? soplex::infinity : (double)(a + g.range(0, 8))));
               break;
            }
            case 7:
            {
               DSVectorReal c(m + 1);
               for(int i = 0; i < m; i++) if(g.chance(0.5)) c.add(i, (double)smallNonzero(g, 6));
               int a = g.range(-4, 4);
               sp.addColReal(LPColReal((double)g.range(-6, 6), c, g.chance(0.3) ? soplex::infinity : (double)(a + g.range(0, 6)), (double)a));
               break;
            }
            case 8:
               if(m > 1) sp.removeRowReal(g.range(0, m - 1));
               break;
            case 9:
               if(n > 1) sp.removeColReal(g.range(0, n - 1));
               break;
            default:
               if(n > 0)
               {
                  VectorReal o(n);
                  for(int j = 0; j < n; j++) o[j] = (double)g.range(-5, 5);
                  sp.changeObjReal(o);
               }
               break;
            }
         });
      }
   }
   void modifyRational(SoPlex& sp, int nmods)
   {
      static const int dens[] = {1, 2, 3, 7, 10};
      for(int t = 0; t < nmods; t++)
      {
         int m = sp.numRowsRational(), n = sp.numColsRational();
         int kind = g.range(0, 6);
         call(EK_MODIFY, [&]
         {
            switch(kind)
            {
            case 0:
               if(n > 0) sp.changeObjRational(g.range(0, n - 1), Rational(g.range(-9, 9)) / Rational(dens[g.range(0, 4)]));
               break;
            case 1:
               if(n > 0)
               {
                  Rational lo = Rational(g.range(-5, 5)) / Rational(dens[g.range(0, 4)]);
                  Rational up = lo + Rational(g.range(0, 6));
                  sp.changeBoundsRational(g.range(0, n - 1), lo, up);
               }
               break;
            case 2:
               if(m > 0)
               {
                  Rational a = Rational(g.range(-12, 12)) / Rational(dens[g.range(0, 4)]);
                  Rational b = a + Rational(g.range(0, 9));
                  sp.changeRangeRational(g.range(0, m - 1), a, b);
               }
               break;
            case 3:
               if(m > 0 && n > 0) sp.changeElementRational(g.range(0, m - 1), g.range(0, n - 1), Rational(g.range(-6, 6)) / Rational(dens[g.range(0, 4)]));
               break;
            case 4:
            {
               DSVectorRational r(n + 1);
               for(int j = 0; j < n; j++) if(g.chance(0.5)) r.add(j, Rational(smallNonzero(g, 6)) / Rational(dens[g.range(0, 4)]));
               Rational a = Rational(g.range(-10, 10));
               Rational b = a + Rational(g.range(0, 8));
               sp.addRowRational(LPRowRational(a, r, b));
               break;
            }
            case 5:
               if(m > 1) sp.removeRowRational(g.range(0, m - 1));
               break;
            default:
               if(n > 0) sp.changeUpperRational(g.range(0, n - 1), Rational(g.range(6, 20)));
               break;
            }
         });
      }
   }
   void writeAndDigest(SoPlex& sp, bool rational, bool mpsFormat, const char* tag)
   {
      std::string path = outPrefix + tag + (mpsFormat ? ".mps" : ".lp");
      bool ok = false;
      std::string exc;
      call(EK_WRITE, [&]
      {
         try
         {
            ok = rational ? sp.writeFileRational(path.c_str(), nullptr, nullptr, nullptr) : sp.writeFileReal(path.c_str(), nullptr, nullptr, nullptr, true);
         }
         catch(const SPxException& e)      // e.g. the MPS writer throws on a free row: part of the observable result
         {
            exc = e.what();
            L.cnt["writeFile.exceptions"]++;
         }
      });
      Hh h;
      h.i(ok);
      h.s(exc);
      h.s(readAll(path));
      unlink(path.c_str());
      step(mpsFormat ? ST_WRITE_MPS : ST_WRITE_LP, h.h);
   }

   // ---- segments
   // 0: API-built floating-point life cycle
   void segFloatApi()
   {
      SoPlex* sp = create();
      step(ST_CTOR, paramDigest(*sp));
      bool okp = true;
      call(EK_SETPARAM, [&]
      {
         okp = sp->setIntParam(SoPlex::VERBOSITY, sc.verboseLog ? g.range(3, 5) : 0, true);
         okp = sc.cfgA.apply(*sp) && okp;
         okp = sp->setIntParam(SoPlex::ITERLIMIT, 20000, true) && okp;
         if(g.chance(0.5)) okp = sp->setRealParam(SoPlex::INFTY, g.chance(0.5) ? 1e100 : 1e60, true) && okp;
         if(g.chance(0.3)) okp = sp->setRealParam(SoPlex::FEASTOL, 1e-7, true) && okp;
      });
      {
         Hh h;
         h.i(okp);
         h.u64(paramDigest(*sp));
         step(ST_SETPARAM, h.h);
      }
      int mode = g.range(0, 2);
      call(EK_LOAD, [&] { loadReal(*sp, sc.MA, mode); });
      step(ST_LOAD_REAL, lpDigestReal(*sp));
      int st = 0;
      call(EK_OPT, [&] { st = (int)sp->optimize(); });
      step(ST_OPT_REAL, solveDigestReal(*sp, st));
      step(ST_QUERY_REAL, extraQueriesReal(*sp));
      modifyReal(*sp, g.range(1, 5));
      step(ST_MODIFY_REAL, lpDigestReal(*sp));
      call(EK_OPT, [&] { st = (int)sp->optimize(); });
      step(ST_OPT_REAL, solveDigestReal(*sp, st));
      writeAndDigest(*sp, false, false, "a");
      writeAndDigest(*sp, false, true, "a");
      {
         std::string bp = outPrefix + "a.bas";
         bool ok = false;
         call(EK_BASISIO, [&] { ok = sp->writeBasisFile(bp.c_str(), nullptr, nullptr, g.chance(0.5)); });
         Hh h;
         h.i(ok);
         h.s(readAll(bp));
         unlink(bp.c_str());
         step(ST_WRITE_BASIS, h.h);
      }
      {
         std::string setp = outPrefix + "a.set";
         bool ok = false, ok2 = false;
         call(EK_SETTINGSIO, [&] { ok = sp->saveSettingsFile(setp.c_str(), g.chance(0.5)); });
         Hh h;
         h.i(ok);
         h.s(readAll(setp));
         SoPlex* s2 = create();
         call(EK_SETTINGSIO, [&] { ok2 = s2->loadSettingsFile(setp.c_str()); });
         h.i(ok2);
         h.u64(paramDigest(*s2));
         destroy(s2);
         unlink(setp.c_str());
         step(ST_SETTINGSIO, h.h);
      }
      {
         // copy construction / assignment (floating-point objects only: exact-mode copies have a known C17 defect)
         SoPlex* cp = nullptr;
         call(EK_COPY, [&] { cp = new SoPlex(*sp); });
         live.push_back(cp);
         // The copy constructor leaves the two counters read by _reapplyPersistentScaling() uninitialised (valgrind: solvereal.hpp:99
         // depends on uninitialised heap of `new SoPlex(rhs)`), so whether a copy re-applies persistent scaling depends on heap
         // garbage, alone or not.  That is C17's finding; here the counters get the value every other constructor gives them, so
         // that solves of copies can be compared at all.
         cp->_optimizeCalls = 0;
         cp->_unscaleCalls = 0;
         L.cnt["objects.copied"]++;
         {
            Hh h;
            h.u64(lpDigestReal(*cp));
            h.u64(paramDigest(*cp));
            step(ST_COPY, h.h);
         }
         modifyReal(*cp, 1);
         step(ST_MODIFY_REAL, lpDigestReal(*cp));
         int st2 = 0;
         call(EK_OPT, [&] { st2 = (int)cp->optimize(); });
         step(ST_OPT_REAL, solveDigestReal(*cp, st2));
         step(ST_COPY, lpDigestReal(*sp));        // the source is unchanged by what was done to the copy
         // assignment: exercised for the race detector only.  What the assignee reports (LP read-back, plug-in names, solve) varies
         // from run to run even when the script runs ALONE (measured: the digest of the assignee failed the run-alone-twice
         // control in ~5% of the scripts; solving it after its source is destroyed crashes) -- operator= is C17's business, so
         // nothing read from the assignee enters the digest; it is destroyed before its source.
         SoPlex* as = create();
         call(EK_COPY, [&] { *as = *cp; });
         L.cnt["objects.assigned"]++;
         step(ST_ASSIGN, 0);
         destroy(as);
         destroy(cp);
      }
      destroy(sp);
   }
   // 1: LP-format (or, in the mps kind, MPS-format) file input, floating-point and rational readers
   void segFile(bool mpsFormat, int variant)
   {
      const std::string& path = mpsFormat ? (variant ? sc.inMPS2 : sc.inMPS) : sc.inLP;
      int ek = mpsFormat ? EK_READMPS : EK_READLP, stp = mpsFormat ? ST_READ_MPS : ST_READ_LP;
      {
         SoPlex* sp = create();
         call(EK_SETPARAM, [&]
         {
            sp->setIntParam(SoPlex::VERBOSITY, sc.verboseLog ? 3 : 0, true);
            sc.cfgF.apply(*sp);
            sp->setIntParam(SoPlex::ITERLIMIT, 20000, true);
         });
         NameSet rn, cn;
         DIdxSet iv;
         bool ok = false;
         call(ek, [&] { ok = sp->readFile(path.c_str(), &rn, &cn, &iv); });
         L.cnt[ok ? "readFile.ok" : "readFile.failed"]++;
         Hh h;
         h.i(ok);
         h.u64(lpDigestReal(*sp));
         namesDigest(h, rn);
         namesDigest(h, cn);
         h.i(iv.size());
         step(stp, h.h);
         int st = 0;
         call(EK_OPT, [&] { st = (int)sp->optimize(); });
         step(ST_OPT_REAL, solveDigestReal(*sp, st));
         if(mpsFormat)
         {
            // basis files are MPS-like and parsed by the same MPSInput
            std::string bp = outPrefix + "f.bas";
            bool okw = false, okr = false;
            call(EK_BASISIO, [&] { okw = sp->writeBasisFile(bp.c_str(), &rn, &cn); });
            Hh hb;
            hb.i(okw);
            hb.s(readAll(bp));
            step(ST_WRITE_BASIS, hb.h);
            call(EK_READMPS, [&] { okr = sp->readBasisFile(bp.c_str(), &rn, &cn); });
            Hh hr;
            hr.i(okr);
            if(sp->hasBasis())
            {
               int m = sp->numRows(), n = sp->numCols();
               std::vector<VarStatus> rs(m + 1), cs(n + 1);
               sp->getBasis(rs.data(), cs.data());
               for(int i = 0; i < m; i++) hr.i((int)rs[i]);
               for(int j = 0; j < n; j++) hr.i((int)cs[j]);
            }
            unlink(bp.c_str());
            step(ST_READ_BASIS, hr.h);
         }
         else writeAndDigest(*sp, false, false, "f");
         destroy(sp);
      }
      {
         // rational reader of the same format
         SoPlex* sp = create();
         call(EK_SETPARAM, [&]
         {
            sp->setIntParam(SoPlex::VERBOSITY, 0, true);
            sp->setIntParam(SoPlex::READMODE, SoPlex::READMODE_RATIONAL, true);
            sp->setIntParam(SoPlex::SYNCMODE, SoPlex::SYNCMODE_AUTO, true);
         });
         const std::string& rp = mpsFormat ? sc.inRatMPS : sc.inRatLP;
         NameSet rn, cn;
         bool ok = false;
         call(ek, [&] { ok = sp->readFile(rp.c_str(), &rn, &cn, nullptr); });
         L.cnt[ok ? "readFile.ok" : "readFile.failed"]++;
         Hh h;
         h.i(ok);
         h.u64(lpDigestRational(*sp));
         h.u64(lpDigestReal(*sp));
         namesDigest(h, rn);
         namesDigest(h, cn);
         step(stp, h.h);
         destroy(sp);
      }
   }
   // 2/3: exact solves
   void segExact(bool boosted, bool fromFile)
   {
      SoPlex* sp = create();
      bool okp = true;
      bool noIR = boosted && g.chance(0.5);
      call(EK_SETPARAM, [&]
      {
         okp = sp->setIntParam(SoPlex::VERBOSITY, sc.verboseLog ? 3 : 0, true);
         okp = sp->setIntParam(SoPlex::SOLVEMODE, SoPlex::SOLVEMODE_RATIONAL, true) && okp;
         okp = sp->setIntParam(SoPlex::SYNCMODE, SoPlex::SYNCMODE_AUTO, true) && okp;
         okp = sp->setIntParam(SoPlex::READMODE, SoPlex::READMODE_RATIONAL, true) && okp;
         okp = sp->setIntParam(SoPlex::CHECKMODE, SoPlex::CHECKMODE_RATIONAL, true) && okp;
         okp = sp->setRealParam(SoPlex::FEASTOL, 0.0, true) && okp;
         okp = sp->setRealParam(SoPlex::OPTTOL, 0.0, true) && okp;
         okp = sp->setBoolParam(SoPlex::PRECISION_BOOSTING, boosted, true) && okp;
         if(noIR) okp = sp->setBoolParam(SoPlex::ITERATIVE_REFINEMENT, false, true) && okp;
         // one of rational reconstruction / rational factorization stays on (with both off a zero tolerance is unreachable)
         {
            int rr = g.range(0, 3);
            if(rr == 1) okp = sp->setBoolParam(SoPlex::RATFAC, false, true) && okp;
            if(rr == 2) okp = sp->setBoolParam(SoPlex::RATREC, false, true) && okp;
         }
         okp = sp->setIntParam(SoPlex::REFLIMIT, 300, true) && okp;     // logical bound on refinement rounds (never reached normally)
         // (lifting / equality transformation are left at their defaults: re-solving a modified LP with lifting on crashes
         //  single-threaded in _project(), which is not this property's business)
         okp = sp->setIntParam(SoPlex::ITERLIMIT, 20000, true) && okp;
      });
      {
         Hh h;
         h.i(okp);
         h.u64(paramDigest(*sp));
         step(ST_SETPARAM, h.h);
      }
      if(fromFile && !sc.mps)
      {
         bool ok = false;
         call(EK_READLP, [&] { ok = sp->readFile(sc.inRatLP.c_str()); });
         L.cnt[ok ? "readFile.ok" : "readFile.failed"]++;
         Hh h;
         h.i(ok);
         h.u64(lpDigestRational(*sp));
         step(ST_READ_LP, h.h);
      }
      else
      {
         int mode = g.range(0, 1);
         call(EK_LOAD, [&] { loadRational(*sp, sc.MX, mode); });
         step(ST_LOAD_RAT, lpDigestRational(*sp));
      }
      // modifications are applied to the freshly filled LP and the object is solved once: modifying / re-solving an object after
      // an exact solve crashes single-threaded in several ways (lifting, unboundedness transformation, changeElement) that are
      // the business of C03/C06/C07, and a crashing sequential baseline would hide everything else here
      modifyRational(*sp, g.range(0, 3));
      {
         Hh h;
         h.u64(lpDigestRational(*sp));
         h.u64(lpDigestReal(*sp));
         step(ST_MODIFY_RAT, h.h);
      }
      int ek = boosted ? EK_EXACTB : EK_EXACT, stp = boosted ? ST_OPT_EXACTB : ST_OPT_EXACT;
      int st = 0;
      call(ek, [&] { st = (int)sp->optimize(); });
      step(stp, solveDigestRational(*sp, st));
      writeAndDigest(*sp, true, false, boosted ? "xb" : "x");
      destroy(sp);
   }

   void runSegment(int seg)
   {
      if(sc.mps)
      {
         switch(seg)
         {
         case 0:
            segFile(true, 0);
            break;
         case 1:
            segFile(true, 1);
            break;
         case 2:
            segFile(true, 0);
            break;
         default:
            segFile(true, 1);
            break;
         }
         return;
      }
      switch(seg)
      {
      case 0:
         segFloatApi();
         break;
      case 1:
         segFile(false, 0);
         break;
      case 2:
         segExact(sc.boostFirst, g.chance(0.4));
         break;
      default:
         segExact(!sc.boostFirst, g.chance(0.4));
         break;
      }
   }
};

// ------------------------------------------------------------------------------------------------ running script sets
struct RunCtl
{
   pthread_barrier_t bar;
   bool useBarriers = false;
   std::atomic<int> go{0};
};

// Heap soiling.  Results that depend on uninitialised memory (e.g. members a copy constructor forgets) differ with the CONTENT of
// recycled heap blocks, which differs between a run alone and a concurrent run for reasons that have nothing to do with shared
// state.  The control: every script is run alone twice, with different garbage in the heap (this function, plus glibc's
// M_PERTURB in non-TSan builds); steps that differ between these two runs are masked (not compared) -- see maskUnstable().
static void soilHeap(int pattern)
{
   if(pattern < 0) return;
   std::vector<void*> blocks;
   auto grab = [&](size_t sz, int n)
   {
      for(int i = 0; i < n; i++)
      {
         void* p = malloc(sz);
         if(!p) return;
         memset(p, pattern, sz);
         blocks.push_back(p);
      }
   };
   for(size_t sz = 16; sz <= 512; sz += 16) grab(sz, 16);
   for(double z = 560; z < 40000; z *= 1.19) grab((size_t)z, z < 4096 ? 6 : 2);
   if(sizeof(SoPlex) < 120000) grab(sizeof(SoPlex), 2);      // (larger blocks come from fresh, zero-filled mappings anyway)
   for(size_t i = blocks.size(); i > 0; i--) free(blocks[i - 1]);
}

static void threadBody(const Script* sc, TLog* L, const std::vector<DigItem>* expect, const std::vector<uint8_t>* masked, const size_t* segStart,
                       bool conc, int jitMode, uint64_t jseed, std::string outPrefix, RunCtl* ctl, unsigned startDelayUs, int soil)
{
   soilHeap(soil);
   if(ctl)
   {
      while(ctl->go.load(std::memory_order_acquire) == 0) sched_yield();
      if(startDelayUs) usleep(startDelayUs);
   }
   L->tStart = nowns();
   Exec ex(*sc, *L, expect, conc, jitMode, jseed, outPrefix);
   ex.masked = masked;
   bool dead = false;
   for(int slot = 0; slot < 4; slot++)
   {
      L->curSeg = slot;
      if(segStart) ex.cmpIdx = segStart[slot];
      if(ctl && ctl->useBarriers) pthread_barrier_wait(&ctl->bar);
      if(dead) continue;
      try
      {
         ex.runSegment(sc->order[slot]);
         if(expect && segStart && ex.cmpIdx != segStart[slot + 1] && !(masked && segStart[slot + 1] > 0 && (*masked)[segStart[slot + 1] - 1]))
         {
            L->divergedAt = (int)ex.cmpIdx;      // the segment ended with fewer steps than when run alone
            L->divergedLocal = (int)L->dig.size();
            throw Diverged();
         }
      }
      catch(const Diverged&)
      {
         dead = true;
         ex.cleanup();
      }
      catch(const std::exception& e)
      {
         ex.cleanup();
         // an escaping exception is part of the observable result: same in both runs or a divergence
         Hh h;
         h.s(e.what());
         L->cnt["exceptions"]++;
         try
         {
            ex.step(ST_EXCEPTION, h.h);
         }
         catch(const Diverged&)
         {
            dead = true;
         }
      }
      catch(...)
      {
         ex.cleanup();
         L->cnt["exceptions"]++;
         try
         {
            ex.step(ST_EXCEPTION, 1);
         }
         catch(const Diverged&)
         {
            dead = true;
         }
      }
   }
   L->tEnd = nowns();
}

// the script run alone: its own fresh thread, nothing else running
static void setPerturb(int byte)      // glibc: fill allocated / freed memory with a pattern (no effect under TSan's allocator)
{
#ifndef VL_TSAN
   mallopt(M_PERTURB, byte);
#else
   (void)byte;
#endif
}
static void runAlone(const Script& sc, TLog& L, const std::vector<DigItem>* expect, const std::vector<uint8_t>* masked, const size_t* segStart,
                     const std::string& outPrefix, int soil)
{
   setPerturb(soil <= 0 ? 0 : soil);
   std::thread t(threadBody, &sc, &L, expect, masked, segStart, false, 0, (uint64_t)0, outPrefix, (RunCtl*)nullptr, 0u, soil);
   t.join();
   setPerturb(0);
}
// steps of `a` that differ in `b` (second run alone, different heap garbage): from the first difference to the end of its segment
static void segRanges(const std::vector<uint8_t>& seg, size_t start[5])
{
   // start[slot] = first index of slot, start[4] = size; slots appear in increasing order
   size_t i = 0;
   for(int slot = 0; slot < 4; slot++)
   {
      start[slot] = i;
      while(i < seg.size() && seg[i] == slot) i++;
   }
   start[4] = seg.size();
}
static int maskUnstable(const TLog& a, const TLog& b, std::vector<uint8_t>& mask)
{
   mask.assign(a.dig.size(), 0);
   size_t sa[5], sb[5];
   segRanges(a.seg, sa);
   segRanges(b.seg, sb);
   int n = 0;
   for(int slot = 0; slot < 4; slot++)
   {
      size_t la = sa[slot + 1] - sa[slot], lb = sb[slot + 1] - sb[slot];
      size_t q = 0;
      while(q < la && q < lb && a.dig[sa[slot] + q].step == b.dig[sb[slot] + q].step && a.dig[sa[slot] + q].h == b.dig[sb[slot] + q].h) q++;
      if(q == la && la == lb) continue;
      for(size_t r = (q < la ? q : (la ? la - 1 : 0)); r < la; r++)
      {
         mask[sa[slot] + r] = 1;
         n++;
      }
   }
   return n;
}

struct OverlapStats
{
   long long ov[EK_N][EK_N];
   long long calls[EK_N];
   int maxActive = 0;
   uint64_t interleaveHash = 0;
   OverlapStats()
   {
      memset(ov, 0, sizeof ov);
      memset(calls, 0, sizeof calls);
   }
};

static void computeOverlap(const std::vector<TLog>& logs, OverlapStats& os)
{
   struct Ev
   {
      uint64_t t0, t1;
      uint8_t kind;
      uint16_t th;
   };
   std::vector<Ev> all;
   for(size_t t = 0; t < logs.size(); t++) for(const CallRec& c : logs[t].calls) all.push_back(Ev{c.t0, c.t1, c.kind, (uint16_t)t});
   std::sort(all.begin(), all.end(), [](const Ev & a, const Ev & b)
   {
      return a.t0 < b.t0 || (a.t0 == b.t0 && a.th < b.th);
   });
   std::vector<Ev> active;
   Hh ih;
   for(const Ev& e : all)
   {
      os.calls[e.kind]++;
      for(size_t i = 0; i < active.size();)
      {
         if(active[i].t1 <= e.t0)
         {
            active[i] = active.back();
            active.pop_back();
         }
         else i++;
      }
      std::set<int> ths;
      for(const Ev& a : active)
      {
         if(a.th == e.th) continue;
         int x = std::min(a.kind, e.kind), y = std::max(a.kind, e.kind);
         os.ov[x][y]++;
         ths.insert(a.th);
      }
      if((int)ths.size() + 1 > os.maxActive) os.maxActive = (int)ths.size() + 1;
      active.push_back(e);
      ih.i(e.th);
      ih.i(e.kind);
   }
   os.interleaveHash = ih.h;
}

static std::string describeDivergence(const Script& sc, const std::vector<DigItem>& base, const TLog& L, const std::vector<std::string>* baseInfo = nullptr)
{
   int at = L.divergedAt;
   std::ostringstream o;
   o << "step #" << at << " of " << base.size() << ": expected ";
   if(at >= 0 && at < (int)base.size()) o << STN[base[at].step] << "/" << std::hex << base[at].h << std::dec;
   else o << "<end of script>";
   o << ", concurrent run gave ";
   int lc = L.divergedLocal;
   if(lc >= 0 && lc < (int)L.dig.size()) o << STN[L.dig[lc].step] << "/" << std::hex << L.dig[lc].h << std::dec;
   else o << "<segment ended>";
   if(baseInfo && at >= 0 && at < (int)baseInfo->size() && lc >= 0 && lc < (int)L.info.size() && !((*baseInfo)[at].empty() && L.info[lc].empty()))
      o << " [alone: " << (*baseInfo)[at] << " | concurrent: " << L.info[lc] << "]";
   o << "; script " << (sc.mps ? "mps" : "general") << " models " << sc.MA.m << "x" << sc.MA.n << "," << sc.MF.m << "x" << sc.MF.n << "," << sc.MX.m << "x"
     << sc.MX.n << " cfgA " << sc.cfgA.key() << " cfgF " << sc.cfgF.key();
   return o.str();
}

static const int kTs[5] = {2, 4, 8, 16, 32};

// write the input files of a script with SoPlex's own writers (main thread, before anything runs concurrently)
static LPModel noFreeRows(LPModel M)      // SoPlex's MPS writer throws on a free row
{
   for(int i = 0; i < M.m; i++) if(isNInf(M.lhs[i]) && isPInf(M.rhs[i])) M.rhs[i] = 1000;
   return M;
}
static bool writeInputs(Script& sc, const std::string& pfx)
{
   bool ok = true;
   if(sc.mps)
   {
      sc.MF = noFreeRows(sc.MF);
      sc.MA = noFreeRows(sc.MA);
      sc.MX = noFreeRows(sc.MX);
   }
   {
      SoPlex sp;
      quiet(sp);
      loadReal(sp, sc.MF, 0);
      sc.inLP = pfx + ".lp";
      ok = sp.writeFileReal(sc.inLP.c_str(), nullptr, nullptr, nullptr, true) && ok;
      if(sc.mps)
      {
         sc.inMPS = pfx + ".mps";
         ok = sp.writeFileReal(sc.inMPS.c_str(), nullptr, nullptr, nullptr, true) && ok;
         SoPlex s2;
         quiet(s2);
         loadReal(s2, sc.MA, 0);
         sc.inMPS2 = pfx + ".b.mps";
         ok = s2.writeFileReal(sc.inMPS2.c_str(), nullptr, nullptr, nullptr, true) && ok;
      }
   }
   {
      SoPlex sp;
      quiet(sp);
      sp.setIntParam(SoPlex::SYNCMODE, SoPlex::SYNCMODE_AUTO, true);
      sp.setIntParam(SoPlex::READMODE, SoPlex::READMODE_RATIONAL, true);
      loadRational(sp, sc.MX, 0);
      sc.inRatLP = pfx + ".rat.lp";
      ok = sp.writeFileRational(sc.inRatLP.c_str(), nullptr, nullptr, nullptr) && ok;
      if(sc.mps)
      {
         sc.inRatMPS = pfx + ".rat.mps";
         ok = sp.writeFileRational(sc.inRatMPS.c_str(), nullptr, nullptr, nullptr) && ok;
      }
   }
   return ok;
}

static void rmTree(const std::string& dir)
{
   DIR* d = opendir(dir.c_str());
   if(!d) return;
   struct dirent* e;
   while((e = readdir(d)) != nullptr)
   {
      std::string n = e->d_name;
      if(n == "." || n == "..") continue;
      unlink((dir + "/" + n).c_str());
   }
   closedir(d);
   rmdir(dir.c_str());
}

// progress marker sink for the forked mps case (parent learns in which phase a child died)
static int gProgressFd = -1;
static void progress(const std::string& s)
{
   if(gProgressFd >= 0)
   {
      std::string l = "P " + s + "\n";
      ssize_t r = write(gProgressFd, l.data(), l.size());
      (void)r;
   }
}

static void runCase(long long k, int reps)
{
   Sink& S = sink();
   bool mps = (k % 5) == 4;
   int T = kTs[(size_t)((k / 5 + k % 5) % 5)];
   if(cli.extra.count("threads")) T = atoi(cli.extra["threads"].c_str());
   std::string caseDir = workDir + "/c" + std::to_string(k);
   mkdir(caseDir.c_str(), 0700);
   std::vector<Script> scripts;
   Hh setHash;
   setHash.i(T);
   for(int i = 0; i < T; i++)
   {
      scripts.push_back(genScript(cli.seed, k, i, mps));
      setHash.u64(scripts.back().id);
      if(!writeInputs(scripts.back(), caseDir + "/in" + std::to_string(i))) S.count("inputs.write_failed");
   }
   S.count("cases");
   S.count(mps ? "cases.kind.mps" : "cases.kind.general");
   S.count("threads.T" + std::to_string(T));
   S.seen("nontrivial", setHash.h);
   // ---- sequential baseline
   std::vector<std::vector<DigItem>> base((size_t)T);
   std::vector<std::vector<std::string>> baseInfo((size_t)T);
   OverlapStats os;
   std::vector<std::vector<uint8_t>> mask((size_t)T);
   struct SegS
   {
      size_t s[5];
   };
   std::vector<SegS> segStart((size_t)T);
   for(int i = 0; i < T; i++)
   {
      TLog L, L2;
      runAlone(scripts[(size_t)i], L, nullptr, nullptr, nullptr, caseDir + "/seq" + std::to_string(i) + "_", 0);
      runAlone(scripts[(size_t)i], L2, nullptr, nullptr, nullptr, caseDir + "/seq" + std::to_string(i) + "_", 0xA5);
      int nm = maskUnstable(L, L2, mask[(size_t)i]);
      segRanges(L.seg, segStart[(size_t)i].s);
      if(nm)
      {
         S.count("digest.scripts_with_heap_garbage_dependent_steps");
         S.count("digest.steps_masked_heap_garbage_dependent", nm);
         for(size_t q = 0; q < mask[(size_t)i].size(); q++) if(mask[(size_t)i][q] && (q == 0 || !mask[(size_t)i][q - 1]))
               S.count(std::string("digest.first_masked_step.") + STN[L.dig[q].step]);
      }
      base[(size_t)i] = L.dig;
      baseInfo[(size_t)i] = L.info;
      S.count("runs.sequential_scripts", 2);
      S.count("steps.sequential", (long long)L.dig.size());
      for(auto& kv : L.cnt) S.count("seq." + kv.first, kv.second);
      if(verbose)
      {
         fprintf(stderr, "case %lld script %d: %zu steps, %zu calls:", k, i, L.dig.size(), L.calls.size());
         for(auto& d : L.dig) fprintf(stderr, " %s", STN[d.step]);
         fprintf(stderr, "\n");
      }
   }
   progress("seqdone");
   if(cli.extra.count("seqonly")) reps = 0;
   // ---- concurrent repetitions
   for(int rep = 0; rep < reps; rep++)
   {
      Rng gr(fnv("C18rep"), cli.seed * 7919ULL + (uint64_t)k, (uint64_t)rep);
      RunCtl ctl;
      setPerturb(rep % 2 ? 0xA5 : 0);
      ctl.useBarriers = (rep % 3) == 1;
      int jitMode = rep % 3 == 0 ? 0 : (rep % 3 == 1 ? 1 : 2);
      if(rep >= 3) jitMode = gr.range(0, 2);
      pthread_barrier_init(&ctl.bar, nullptr, (unsigned)T);
      std::vector<TLog> logs((size_t)T);
      std::vector<std::thread> th;
      for(int i = 0; i < T; i++)
      {
         unsigned delay = ctl.useBarriers ? 0u : (unsigned)gr.range(0, rep % 2 ? 300 : 30);
         static const int soils[4] = {0x00, 0xA5, 0x5A, 0x01};
         th.emplace_back(threadBody, &scripts[(size_t)i], &logs[(size_t)i], &base[(size_t)i], &mask[(size_t)i], (const size_t*)segStart[(size_t)i].s, true, jitMode, gr.next(),
                         caseDir + "/r" + std::to_string(rep) + "t" + std::to_string(i) + "_", &ctl, delay, soils[(size_t)gr.range(0, 3)]);
      }
      ctl.go.store(1, std::memory_order_release);
      for(auto& t : th) t.join();
      setPerturb(0);
      pthread_barrier_destroy(&ctl.bar);
      progress("rep" + std::to_string(rep));
      S.count("runs.concurrent");
      S.count("runs.concurrent_threads", T);
      S.count(std::string("runs.jitter_mode") + std::to_string(jitMode) + (ctl.useBarriers ? ".phase_barriers" : ".free"));
      OverlapStats ro;
      computeOverlap(logs, ro);
      S.seen("interleaving", ro.interleaveHash);
      S.maxi("threads.max_simultaneously_inside_library", ro.maxActive);
      for(int a = 0; a < EK_N; a++)
      {
         os.calls[a] += ro.calls[a];
         for(int b = a; b < EK_N; b++) os.ov[a][b] += ro.ov[a][b];
      }
      for(int i = 0; i < T; i++)
      {
         TLog& L = logs[(size_t)i];
         S.count("digest.compared");
         S.count("digest.steps_compared", (long long)L.dig.size());
         for(auto& kv : L.cnt) S.count(kv.first, kv.second);
         bool mismatch = L.divergedAt >= 0;
         if(!mismatch) continue;
         // is the script deterministic when run alone?  (otherwise the difference says nothing about concurrency)
         TLog again;
         runAlone(scripts[(size_t)i], again, &base[(size_t)i], &mask[(size_t)i], segStart[(size_t)i].s, caseDir + "/chk" + std::to_string(i) + "_", 0x5A);
         S.count("digest.mismatch_rechecks");
         if(again.divergedAt >= 0)
         {
            S.count("digest.sequential_nondeterminism");
            S.note("sequential-nondeterminism", "script " + std::to_string(i) + " of case " + std::to_string(k) +
                   " differs between two runs alone: " + describeDivergence(scripts[(size_t)i], base[(size_t)i], again));
            continue;
         }
         int at = L.divergedAt;
         std::string kind = at < (int)base[(size_t)i].size() ? STN[base[(size_t)i][(size_t)at].step] : "length";
         S.count("digest.mismatches");
         S.viol("C18:digest-mismatch:" + kind, "thread " + std::to_string(i) + " of " + std::to_string(T) + " (repetition " + std::to_string(rep) +
                ", jitter mode " + std::to_string(jitMode) + "): the concurrent run differs from the run alone (which was reproduced) at " +
                describeDivergence(scripts[(size_t)i], base[(size_t)i], L, &baseInfo[(size_t)i]),
                Json().num("case", k).num("threads", T).num("rep", rep).num("script", i).str("kind", kind).done());
      }
   }
   for(int a = 0; a < EK_N; a++)
   {
      if(os.calls[a]) S.count(std::string("calls.") + EKN[a], os.calls[a]);
      for(int b = a; b < EK_N; b++) if(os.ov[a][b]) S.count(std::string("overlap.") + EKN[a] + "||" + EKN[b], os.ov[a][b]);
   }
   // aggregated views used by the mandatory minima
   long long rf = os.ov[EK_READLP][EK_READLP] + os.ov[EK_READLP][EK_READMPS] + os.ov[EK_READMPS][EK_READMPS];
   if(rf) S.count("overlap.readFile||readFile", rf);
   long long ex = os.ov[EK_EXACT][EK_EXACT] + os.ov[EK_EXACT][EK_EXACTB] + os.ov[EK_EXACTB][EK_EXACTB];
   if(ex) S.count("overlap.anyexact||anyexact", ex);
   if(k < 3 && !mps)
      S.sample(Json().num("case", k).num("threads", T).num("reps", reps).num("steps_script0", (long long)base[0].size()).str("cfgA_script0",
               scripts[0].cfgA.key()).str("models_script0", std::to_string(scripts[0].MA.m) + "x" + std::to_string(scripts[0].MA.n) + " " + scripts[0].MA.family
                     + "; " + std::to_string(scripts[0].MX.m) + "x" + std::to_string(scripts[0].MX.n) + " " + scripts[0].MX.family + " (fractional)").done());
   rmTree(caseDir);
}

// ThreadSanitizer reports of the forked mps-kind child.  The process-global strtok state used by MPSInput::readLine makes one
// thread tokenise (and write NULs into) another thread's line buffer, so the same root cause shows up under many different
// top-frame pairs (readLine / clear_from / getline's memcpy / readMPS / readBasis / ratFromString reading a field ...).  A report is
// attributed to that root-cause cell iff one of its two access stacks passes through the MPS tokeniser or its callers (MPSInput::,
// readMPS, MPSread*, readBasis, strtok); such reports are collapsed to ONE key naming the call site.  Any other report of the
// child keeps a key built from the top SoPlex frames of its two stacks, like the driver's keys.
static std::string cleanFn(const std::string& fn)
{
   std::string out;
   int depth = 0;
   for(char ch : fn)
   {
      if(ch == '<' || ch == '(') depth++;
      else if(ch == '>' || ch == ')') depth--;
      else if(depth == 0) out += ch;
   }
   size_t q;
   while((q = out.find("soplex::")) != std::string::npos) out.erase(q, 8);
   while(!out.empty() && out.back() == ' ') out.pop_back();
   if(out.size() > 6 && out.compare(out.size() - 6, 6, " const") == 0) out.erase(out.size() - 6);
   size_t sp = out.rfind(' ');
   return sp == std::string::npos ? out : out.substr(sp + 1);
}
static void attributeChildTsanLog(const std::string& path, long long k)
{
   Sink& S = sink();
   std::string txt = readAll(path);
   unlink(path.c_str());
   if(txt == "<cannot open>" || txt.empty()) return;
   std::map<std::string, std::pair<int, std::string>> byKey;      // key -> (count, first report)
   std::map<std::string, std::set<std::string>> pairsByKey;
   size_t pos = 0;
   while(true)
   {
      size_t a = txt.find("WARNING: ThreadSanitizer: ", pos);
      if(a == std::string::npos) break;
      size_t e = txt.find("==================", a);
      std::string blk = txt.substr(a, e == std::string::npos ? std::string::npos : e - a);
      pos = a + 10;
      std::string kind;
      for(size_t i = 26; i < blk.size() && blk[i] != '(' && blk[i] != '\n'; i++) kind += blk[i] == ' ' ? '-' : blk[i];
      while(!kind.empty() && kind.back() == '-') kind.pop_back();
      // split into stacks (runs of lines starting with '#')
      std::vector<std::vector<std::string>> stacks;
      std::vector<std::string> cur;
      std::istringstream is(blk);
      std::string line;
      while(std::getline(is, line))
      {
         size_t f = line.find_first_not_of(" \t");
         if(f != std::string::npos && line[f] == '#') cur.push_back(line.substr(f));
         else if(!cur.empty())
         {
            stacks.push_back(cur);
            cur.clear();
         }
      }
      if(!cur.empty()) stacks.push_back(cur);
      bool mpsCell = false;
      std::vector<std::string> tops;
      for(size_t si = 0; si < stacks.size() && si < 2; si++)
      {
         std::string top;
         for(const std::string& fr : stacks[si])
         {
            // "#N function-with-args /path:line (module+off)"
            size_t b = fr.find(' ');
            if(b == std::string::npos) continue;
            std::string rest = fr.substr(b + 1);
            if(rest.find("MPSInput::") != std::string::npos || rest.find("::readMPS(") != std::string::npos || rest.find("MPSread") != std::string::npos
                  || rest.find("::readBasis(") != std::string::npos || rest.compare(0, 6, "strtok") == 0) mpsCell = true;
            if(top.empty() && (rest.find("soplex::") != std::string::npos || rest.find("/src/soplex") != std::string::npos))
            {
               size_t pe = rest.find(" /");
               size_t pn = rest.find(" <null>");
               size_t cut = std::min(pe, pn);
               top = cleanFn(cut == std::string::npos ? rest : rest.substr(0, cut));
            }
         }
         tops.push_back(top.empty() ? "?" : top);
      }
      std::sort(tops.begin(), tops.end());
      std::string pair;
      for(size_t i = 0; i < tops.size(); i++) pair += (i ? "|" : "") + tops[i];
      std::string key = mpsCell ? "C18:tsan:" + kind + ":MPSInput::readLine|MPSInput::readLine" : "C18:tsan:" + kind + ":" + pair;
      auto& slot = byKey[key];
      if(slot.first++ == 0) slot.second = blk.substr(0, 2500);
      pairsByKey[key].insert(pair);
      S.count("tsan.reports.mps_child");
   }
   for(auto& kv : byKey)
   {
      std::string pairs;
      for(auto& p : pairsByKey[kv.first]) pairs += (pairs.empty() ? "" : ", ") + p;
      S.viol(kv.first, std::to_string(kv.second.first) + " ThreadSanitizer report(s) in the forked mps-kind case (threads only construct solvers, read MPS / basis files, solve, "
             "destroy); top-frame pairs seen: " + pairs + "; first report:\n" + kv.second.second, Json().num("case", k).done());
   }
}

// run an mps-kind case in a forked child; merge its counters; attribute a death of the child
static void runCaseForked(long long k, int reps)
{
   Sink& S = sink();
   int pfd[2];
   if(pipe(pfd) != 0)
   {
      S.count("mps.pipe_failed");
      return;
   }
   fflush(stdout);
   fflush(stderr);
   pid_t pid = fork();
   if(pid == 0)
   {
      close(pfd[0]);
      gProgressFd = pfd[1];
      prctl(PR_SET_PDEATHSIG, SIGKILL);      // never outlive the worker
#ifdef VL_TSAN
      // the child's race reports go to their own log: the parent attributes them (see attributeChildTsanLog)
      __sanitizer_set_report_path((workDir + "/mpschild.tsanlog").c_str());
#endif
      Sink& C = sink();
      C.counters.clear();
      C.maxima.clear();
      C.distinct.clear();
      C.samples.clear();
      runCase(k, reps);
      std::ostringstream o;
      for(auto& kv : C.counters) o << "C " << kv.first << " " << kv.second << "\n";
      for(auto& kv : C.maxima) o << "M " << kv.first << " " << ds(kv.second) << "\n";
      for(auto& kv : C.distinct) for(uint64_t h : kv.second) o << "D " << kv.first << " " << h << "\n";
      o << "DONE\n";
      std::string s = o.str();
      size_t off = 0;
      while(off < s.size())
      {
         ssize_t w = write(pfd[1], s.data() + off, s.size() - off);
         if(w <= 0) break;
         off += (size_t)w;
      }
      close(pfd[1]);
      fflush(stdout);
      _exit(0);
   }
   close(pfd[1]);
   if(pid < 0)
   {
      close(pfd[0]);
      S.count("mps.fork_failed");
      return;
   }
   std::string data;
   char buf[4096];
   ssize_t n;
   // generous watchdog on progress markers (a mis-tokenised file could in principle send a reader into a loop); its firing is
   // inconclusive, never a verdict
   const int gapMs = (kTsan ? 1500 : 300) * 1000;
   bool timedOut = false;
   while(true)
   {
      struct pollfd pf;
      pf.fd = pfd[0];
      pf.events = POLLIN;
      pf.revents = 0;
      int pr = poll(&pf, 1, gapMs);
      if(pr == 0)
      {
         timedOut = true;
         kill(pid, SIGKILL);
         break;
      }
      if(pr < 0)
      {
         if(errno == EINTR) continue;
         break;
      }
      n = read(pfd[0], buf, sizeof buf);
      if(n <= 0) break;
      data.append(buf, (size_t)n);
   }
   close(pfd[0]);
   int status = 0;
   waitpid(pid, &status, 0);
   if(timedOut)
   {
      S.count("mps.child_watchdog_fired");
      S.note("inconclusive", "forked mps-kind case " + std::to_string(k) + " made no progress for " + std::to_string(gapMs / 1000) + " s and was killed");
      S.count("cases");
      S.count("cases.kind.mps");
      unlink((workDir + "/mpschild.tsanlog." + std::to_string((long long)pid)).c_str());
      return;
   }
   bool done = false;
   std::string lastPhase = "start";
   std::istringstream is(data);
   std::string line;
   while(std::getline(is, line))
   {
      if(line == "DONE")
      {
         done = true;
         continue;
      }
      std::istringstream ls(line);
      std::string tag, name;
      ls >> tag >> name;
      if(tag == "P") lastPhase = name;
      else if(tag == "C")
      {
         long long v = 0;
         ls >> v;
         S.count(name, v);
      }
      else if(tag == "M")
      {
         double v = 0;
         ls >> v;
         S.maxi(name, v);
      }
      else if(tag == "D")
      {
         uint64_t h = 0;
         ls >> h;
         S.seen(name, h);
      }
   }
   attributeChildTsanLog(workDir + "/mpschild.tsanlog." + std::to_string((long long)pid), k);
   if(!done)
   {
      std::string how = WIFSIGNALED(status) ? std::string("signal ") + strsignal(WTERMSIG(status)) : "exit status " + std::to_string(WEXITSTATUS(status));
      S.count("mps.child_deaths");
      if(lastPhase == "start")
         S.viol("C18:crash:mps-case:sequential-baseline", "the forked mps-kind case died (" + how + ") while its scripts were run ALONE (not a concurrency effect)");
      else
         S.viol("C18:crash:concurrent-readFile.mps", "the forked mps-kind case (threads only construct solvers, read MPS / basis files, solve and destroy) died (" +
                how + ") during the concurrent phase after the sequential baseline had completed; last completed phase: " + lastPhase,
                Json().num("case", k).str("phase", lastPhase).done());
      // partial evidence of the dead child is lost; count the case itself
      S.count("cases");
      S.count("cases.kind.mps");
   }
}

int main(int argc, char** argv)
{
   cli.parse(argc, argv);
   verbose = cli.extra.count("verbose") > 0;
   Sink& S = sink();
   S.prop = cli.prop;
   if(cli.prop != "C18")
   {
      fprintf(stderr, "h_mt: unknown property %s\n", cli.prop.c_str());
      return 2;
   }
   long long base = cli.extra.count("base") ? atoll(cli.extra["base"].c_str()) : 0;
   int reps = cli.extra.count("reps") ? atoi(cli.extra["reps"].c_str()) : (kTsan ? 2 : 4);
   bool nofork = cli.extra.count("nofork") > 0;
   if(verbose && cli.to - cli.from > 1000) cli.to = cli.from + 10;
   workDir = cli.tmpdir + "/mt." + std::to_string((long long)getpid());
   mkdir(workDir.c_str(), 0700);
   S.count(kTsan ? "build.tsan" : "build.plain");
   for(long long kk = cli.from; kk < cli.to; kk++)
   {
      long long k = kk + base;
      bool mps = (k % 5) == 4;
      S.begin(kk, std::string(mps ? "mps" : "general") + " script set, case id " + std::to_string(k));
      if(mps && !nofork) runCaseForked(k, reps);
      else runCase(k, reps);
      S.end(kk);
   }
   rmTree(workDir);
   S.finish();
   return 0;
}
