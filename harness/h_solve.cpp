// harness/h_solve.cpp -- floating-point solve monitors: C01 (OPTIMAL certificate + completeness),
// C02 (verdicts, Farkas proofs, rays), C04 (basis validity / reuse), C05 (basis inverse queries).
#include "sx.hpp"
#include "solvecommon.hpp"

using namespace vl;
using namespace soplex;

static Cli cli;
static bool verbose = false;

// ------------------------------------------------------------------------------------------------ C01
// returns violation tag ("" if none) for (LP, cfg); tag = monitor[:status]
static std::string c01Once(const Instance& I, const ParamSet& cfg, int loadMode, bool count, std::string* detail)
{
   Sink& S = sink();
   SoPlex sp;
   quiet(sp);
   LogCapture lc;
   cfg.apply(sp);
   lc.attach(sp, 3);
   loadReal(sp, I.M, loadMode);
   sp.setIntParam(SoPlex::ITERLIMIT, 200000, true);
   sp.optimize();
   SolveOut o;
   extract(sp, o);
   if(verbose && count)
   {
      fprintf(stderr, "%s\nstatus %s iters %d obj %.17g\n", I.M.toLPText().c_str(), statusName(o.status), o.iters, o.objval);
      auto pv = [](const char* n, const std::vector<Q>& v)
      {
         fprintf(stderr, "%s:", n);
         for(auto& q : v) fprintf(stderr, " %.10g", dq(q));
         fprintf(stderr, "\n");
      };
      pv("x", o.x);
      pv("s", o.s);
      pv("y", o.y);
      pv("r", o.r);
      fprintf(stderr, "log:\n%s\n", lc.buf.all.c_str());
      fprintf(stderr, "poststeps:");
      for(int q = 0; q < sp._simplifierMainSM.m_hist.size(); q++) fprintf(stderr, " %s", sp._simplifierMainSM.m_hist[q]->getName());
      fprintf(stderr, "\n");
   }
   if(count)
   {
      S.count(std::string("status.") + statusName(o.status));
      if(o.iters > 0) S.count("c01.solves_with_iterations");
   }
   Tol tol;
   tol.feas = sp.realParam(SoPlex::FEASTOL);
   tol.opt = sp.realParam(SoPlex::OPTTOL);
   std::string tag;
   if(o.status == SPX::OPTIMAL)
   {
      if(count) S.count("c01.optimal_checked");
      std::string r = monitorOptimal(I.M, o, tol, count ? "c01." : "c01min.");
      if(!r.empty())
      {
         size_t c = r.find(':');
         tag = "cert." + r.substr(0, c);
         if(detail) *detail = r.substr(c + 1);
      }
      else if(I.T.known && I.T.robust && I.T.status == REF_OPTIMAL)
      {
         double v = dq(I.T.objval);
         double osc = 1.0 + std::fabs(v);
         for(int j = 0; j < I.M.n; j++) osc += std::fabs(dq(I.M.obj[j] * o.x[j]));
         double rel = std::fabs(o.objval - v) / osc;
         if(count)
         {
            S.count("c01.objective_vs_truth");
            S.maxi("c01.objVsTruth/thr", rel / 1e-4);
         }
         if(rel > 1e-4)
         {
            tag = "objective";
            if(detail) *detail = "OPTIMAL with objective " + ds(o.objval) + " but the certified optimum is " + ds(v);
         }
      }
      else if(I.T.known && I.T.robust && I.T.status != REF_OPTIMAL)
      {
         tag = "optimal-but-no-optimum";
         if(detail) *detail = std::string("OPTIMAL returned, certified truth is ") + (I.T.status == REF_INFEASIBLE ? "INFEASIBLE" : "UNBOUNDED");
      }
   }
   if(tag.empty() && I.T.known && I.T.robust && I.T.status == REF_OPTIMAL)
   {
      if(count) S.count("c01.complete_checked");
      if(o.status != SPX::OPTIMAL)
      {
         tag = std::string("complete.") + statusName(o.status);
         if(detail) *detail = std::string("LP has certified finite optimum ") + ds(dq(I.T.objval)) + " but status is " + statusName(o.status);
      }
   }
   if(count && lc.buf.resolveNotes > 0) S.count("c01.silent_resolves");
   return tag;
}

static void caseC01(long long k, Rng& g)
{
   Sink& S = sink();
   static std::vector<ParamSet> pw = pairwiseConfigs(cli.seed);
   static const std::vector<std::string> fams = {"planted-opt", "planted-opt", "degenerate", "arbitrary", "arbitrary", "presolve-rich", "presolve-rich", "badly-scaled", "planted-infeasible", "planted-unbounded"};
   std::string fam = fams[(size_t)(k % (long long)fams.size())];
   int big = g.range(0, 19);
   int mx = big == 0 ? 40 : big <= 3 ? 20 : 10;
   Instance I = genFamily(g, fam, mx, mx);
   ParamSet cfg = (k / (long long)fams.size()) % 3 != 2 ? pw[(size_t)((k / (long long)fams.size()) % (long long)pw.size())] : randomAlgConfig(g);
   if(g.chance(0.15)) cfg = ParamSet();
   int loadMode = g.range(0, 2);
   S.begin(k, fam + " " + std::to_string(I.M.m) + "x" + std::to_string(I.M.n) + " " + cfg.key());
   if(!allExactDoubles(I.M))
   {
      S.count("gen.inexact_skipped");
      S.end(k);
      return;
   }
   ensureTruth(I);
   S.count("cases");
   S.count("family." + fam);
   S.count(std::string("truth.") + (I.T.known ? (I.T.robust ? "robust" : "fragile") : "unknown"));
   S.seen("cfg", fnv(cfg.key()));
   std::string detail;
   std::string tag = c01Once(I, cfg, loadMode, true, &detail);
   S.seen("nontrivial", I.M.signature() ^ fnv(cfg.key()));
   if(!tag.empty())
   {
      ParamSet mc;
      std::string cell = cellKey(cfg, [&](const ParamSet & p)
      {
         return c01Once(I, p, loadMode, false, nullptr) == tag;
      }, &mc);
      S.viol("C01:" + tag + ":" + cell, detail + " | family " + fam + ", full config " + cfg.key(), replayJson(I.M, cfg, mc, loadMode));
   }
   if(k < 4) S.sample(Json().str("family", fam).num("m", I.M.m).num("n", I.M.n).str("config", cfg.key()).str("truth",
                         I.T.known ? statusName(I.T.status == REF_OPTIMAL ? 1 : I.T.status == REF_UNBOUNDED ? 2 : 3) : "unknown").done());
   S.end(k);
}

// ------------------------------------------------------------------------------------------------ C02
static std::string c02Once(const Instance& I, const ParamSet& cfg, int loadMode, bool count, std::string* detail)
{
   Sink& S = sink();
   SoPlex sp;
   quiet(sp);
   cfg.apply(sp);
   loadReal(sp, I.M, loadMode);
   sp.setIntParam(SoPlex::ITERLIMIT, 200000, true);
   sp.optimize();
   int st = (int)sp.status();
   if(count) S.count(std::string("status.") + statusName(st));
   std::string tag;
   auto set = [&](const std::string & t, const std::string & d)
   {
      if(tag.empty())
      {
         tag = t;
         if(detail) *detail = d;
      }
   };
   bool definite = st == SPX::OPTIMAL || st == SPX::INFEASIBLE || st == SPX::UNBOUNDED || st == SPX::INForUNBD;
   if(I.T.known && definite)
   {
      if(count) S.count("c02.verdict_checked");
      const char* tn = I.T.status == REF_OPTIMAL ? "optimal" : I.T.status == REF_INFEASIBLE ? "infeasible" : "unbounded";
      if(st == SPX::INFEASIBLE && I.T.status != REF_INFEASIBLE)
         set("verdict.INFEASIBLE-on-feasible", std::string("INFEASIBLE returned but the LP has a certified feasible point (truth ") + tn + ")");
      if(I.T.robust)
      {
         if((st == SPX::UNBOUNDED || st == SPX::INForUNBD) && I.T.status == REF_OPTIMAL)
            set(std::string("verdict.") + statusName(st) + "-on-optimal", std::string(statusName(st)) + " returned but the LP has the certified finite optimum " + ds(dq(I.T.objval)));
         if(st == SPX::OPTIMAL && I.T.status != REF_OPTIMAL)
            set(std::string("verdict.OPTIMAL-on-") + tn, std::string("OPTIMAL returned but certified truth is ") + tn);
         if(st == SPX::UNBOUNDED && I.T.status == REF_INFEASIBLE)
            set("verdict.UNBOUNDED-on-infeasible", "UNBOUNDED returned but the LP is certified infeasible");
      }
   }
   int m = sp.numRows(), n = sp.numCols();
   if(sp.hasDualFarkas())
   {
      VectorReal y(m);
      if(sp.getDualFarkas(y))
      {
         if(count) S.count("c02.farkas_checked");
         FarkasRes f = checkFarkas(I.M, toQ(y), 1e-9);
         double relm = f.proves ? dq(f.margin) / std::max(1e-300, dq(f.norm)) : 0.0;
         if(count && f.proves) S.maxi("c02.farkas_inv_margin", 1e-9 / std::max(relm, 1e-300));
         if(!f.proves || relm <= 1e-9) set("farkas", "offered Farkas vector does not prove infeasibility of the user's LP: " + (f.proves ? "margin " + ds(relm) : f.why));
      }
      else set("farkas-getter", "hasDualFarkas() is true but getDualFarkas() fails");
   }
   if(sp.hasPrimalRay())
   {
      VectorReal d(n);
      if(sp.getPrimalRay(d))
      {
         if(count) S.count("c02.ray_checked");
         RayRes r = checkRay(I.M, toQ(d), 1e-9);
         if(!r.valid) set("ray", "offered primal ray is not a valid improving recession direction: " + r.why);
      }
      else set("ray-getter", "hasPrimalRay() is true but getPrimalRay() fails");
   }
   if(sp.boolParam(SoPlex::ENSURERAY))
   {
      if(st == SPX::INFEASIBLE)
      {
         if(count) S.count("c02.ensureray_infeasible");
         if(!sp.hasDualFarkas()) set("ensureray.nofarkas", "ensure-ray on, INFEASIBLE returned without a Farkas vector");
      }
      if(st == SPX::UNBOUNDED)
      {
         if(count) S.count("c02.ensureray_unbounded");
         if(!sp.hasPrimalRay()) set("ensureray.noray", "ensure-ray on, UNBOUNDED returned without a primal ray");
      }
   }
   if(st == SPX::UNBOUNDED && sp.isPrimalFeasible() && sp.hasSol())
   {
      // a primal feasible point is claimed: it must be feasible
      VectorReal x(n);
      if(sp.getPrimal(x))
      {
         if(count) S.count("c02.unbounded_point_checked");
         std::vector<Q> xq = toQ(x);
         Q worst = 0, xs = 1;
         for(auto& v : xq) if(qabs(v) > xs) xs = qabs(v);
         for(int j = 0; j < n; j++)
         {
            if(!isNInf(I.M.lo[j]) && xq[j] < I.M.lo[j] && I.M.lo[j] - xq[j] > worst) worst = I.M.lo[j] - xq[j];
            if(!isPInf(I.M.up[j]) && xq[j] > I.M.up[j] && xq[j] - I.M.up[j] > worst) worst = xq[j] - I.M.up[j];
         }
         Q amax = 1;
         for(int i = 0; i < m; i++)
         {
            Q a = I.M.activity(i, xq);
            for(int j = 0; j < n; j++) if(qabs(I.M.A[i][j]) > amax) amax = qabs(I.M.A[i][j]);
            if(!isNInf(I.M.lhs[i]) && a < I.M.lhs[i] && I.M.lhs[i] - a > worst) worst = I.M.lhs[i] - a;
            if(!isPInf(I.M.rhs[i]) && a > I.M.rhs[i] && a - I.M.rhs[i] > worst) worst = a - I.M.rhs[i];
         }
         double rel = dq(worst) / dq(Q(xs * amax));
         if(count) S.maxi("c02.unbdPointViol/thr", rel / 1e-5);
         if(rel > 1e-5) set("unbounded-point", "UNBOUNDED with isPrimalFeasible() but the primal point violates the LP by " + ds(dq(worst)));
      }
   }
   return tag;
}

static void caseC02(long long k, Rng& g)
{
   Sink& S = sink();
   static std::vector<ParamSet> pw = pairwiseConfigs(cli.seed + 1);
   static const std::vector<std::string> fams = {"planted-infeasible", "planted-unbounded", "planted-both", "planted-opt", "arbitrary", "planted-infeasible", "planted-unbounded", "arbitrary", "presolve-rich", "badly-scaled"};
   std::string fam = fams[(size_t)(k % (long long)fams.size())];
   int big = g.range(0, 19);
   int mx = big == 0 ? 30 : big <= 3 ? 16 : 9;
   Instance I = genFamily(g, fam, mx, mx);
   ParamSet cfg = (k / 10) % 3 != 2 ? pw[(size_t)((k / 10) % (long long)pw.size())] : randomAlgConfig(g);
   // the property's explicit cross: ensure-ray x simplifier
   cfg.b[SoPlex::ENSURERAY] = g.chance(0.5);
   cfg.i[SoPlex::SIMPLIFIER] = g.chance(0.5) ? 0 : (g.chance(0.5) ? 3 : 1);
   cfg.normalise();
   int loadMode = g.range(0, 2);
   S.begin(k, fam + " " + std::to_string(I.M.m) + "x" + std::to_string(I.M.n) + " " + cfg.key());
   if(!allExactDoubles(I.M))
   {
      S.count("gen.inexact_skipped");
      S.end(k);
      return;
   }
   ensureTruth(I);
   S.count("cases");
   S.count("family." + fam);
   S.count(std::string("truth.") + (I.T.known ? (I.T.robust ? "robust" : "fragile") : "unknown"));
   S.seen("cfg", fnv(cfg.key()));
   S.seen("nontrivial", I.M.signature() ^ fnv(cfg.key()));
   std::string detail;
   std::string tag = c02Once(I, cfg, loadMode, true, &detail);
   if(!tag.empty())
   {
      ParamSet mc;
      std::string cell = cellKey(cfg, [&](const ParamSet & p)
      {
         return c02Once(I, p, loadMode, false, nullptr) == tag;
      }, &mc);
      S.viol("C02:" + tag + ":" + cell, detail + " | family " + fam + ", full config " + cfg.key(), replayJson(I.M, cfg, mc, loadMode));
   }
   if(k < 4) S.sample(Json().str("family", fam).num("m", I.M.m).num("n", I.M.n).str("config", cfg.key()).done());
   S.end(k);
}

int main(int argc, char** argv)
{
   cli.parse(argc, argv);
   verbose = cli.extra.count("verbose") > 0;
   Sink& S = sink();
   S.prop = cli.prop;
   selfTestOracles();
   for(long long k = cli.from; k < cli.to; k++)
   {
      Rng g(fnv(cli.prop), cli.seed, (uint64_t)k);
      if(cli.prop == "C01") caseC01(k, g);
      else if(cli.prop == "C02") caseC02(k, g);
      else
      {
         fprintf(stderr, "h_solve: unknown property %s\n", cli.prop.c_str());
         return 2;
      }
   }
   S.finish();
   return 0;
}
