// harness/h_solve.cpp -- floating-point solve monitors: C01 (OPTIMAL certificate + completeness),
// C02 (verdicts, Farkas proofs, rays), C04 (basis validity / reuse), C05 (basis inverse queries).
#include "sx.hpp"
#include "solvecommon.hpp"

using namespace vl;
using namespace soplex;

static Cli cli;
static bool verbose = false;

// ------------------------------------------------------------------------------------------------ C01
// returns violation tag ("" if none) for (LP, cfg); tag = monitor[:status]
static std::string c01Once(const Instance& I, const ParamSet& cfg, int loadMode, bool count, std::string* detail)
{
   Sink& S = sink();
   SoPlex sp;
   quiet(sp);
   LogCapture lc;
   cfg.apply(sp);
   lc.attach(sp, 3);
   loadReal(sp, I.M, loadMode);
   sp.setIntParam(SoPlex::ITERLIMIT, 200000, true);
   sp.optimize();
   SolveOut o;
   extract(sp, o);
   if(verbose && count)
   {
      fprintf(stderr, "%s\nstatus %s iters %d obj %.17g\n", I.M.toLPText().c_str(), statusName(o.status), o.iters, o.objval);
      auto pv = [](const char* n, const std::vector<Q>& v)
      {
         fprintf(stderr, "%s:", n);
         for(auto& q : v) fprintf(stderr, " %.10g", dq(q));
         fprintf(stderr, "\n");
      };
      pv("x", o.x);
      pv("s", o.s);
      pv("y", o.y);
      pv("r", o.r);
      fprintf(stderr, "log:\n%s\n", lc.buf.all.c_str());
      fprintf(stderr, "poststeps:");
      for(int q = 0; q < sp._simplifierMainSM.m_hist.size(); q++) fprintf(stderr, " %s", sp._simplifierMainSM.m_hist[q]->getName());
      fprintf(stderr, "\n");
   }
   if(count)
   {
      S.count(std::string("status.") + statusName(o.status));
      if(o.iters > 0) S.count("c01.solves_with_iterations");
   }
   Tol tol;
   tol.feas = sp.realParam(SoPlex::FEASTOL);
   tol.opt = sp.realParam(SoPlex::OPTTOL);
   std::string tag;
   if(o.status == SPX::OPTIMAL)
   {
      if(count) S.count("c01.optimal_checked");
      std::string r = monitorOptimal(I.M, o, tol, count ? "c01." : "c01min.");
      if(!r.empty())
      {
         size_t c = r.find(':');
         tag = "cert." + r.substr(0, c);
         // root-cause annotation: the simplex loop itself announced that it stops with violations and calls the result OPTIMAL
         if(lc.buf.despiteNotes > 0) tag += "+terminated-despite-violations";
         if(detail) *detail = r.substr(c + 1);
      }
      else if(I.T.known && I.T.robust && I.T.status == REF_OPTIMAL)
      {
         double v = dq(I.T.objval);
         double osc = 1.0 + std::fabs(v);
         for(int j = 0; j < I.M.n; j++) osc += std::fabs(dq(I.M.obj[j] * o.x[j]));
         double rel = std::fabs(o.objval - v) / osc;
         if(count)
         {
            S.count("c01.objective_vs_truth");
            S.maxi("c01.objVsTruth/thr", rel / 1e-4);
         }
         if(rel > 1e-4)
         {
            tag = "objective";
            if(detail) *detail = "OPTIMAL with objective " + ds(o.objval) + " but the certified optimum is " + ds(v);
         }
      }
      else if(I.T.known && I.T.robust && I.T.status != REF_OPTIMAL)
      {
         tag = "optimal-but-no-optimum";
         if(detail) *detail = std::string("OPTIMAL returned, certified truth is ") + (I.T.status == REF_INFEASIBLE ? "INFEASIBLE" : "UNBOUNDED");
      }
   }
   if(tag.empty() && I.T.known && I.T.robust && I.T.status == REF_OPTIMAL)
   {
      if(count) S.count("c01.complete_checked");
      if(o.status != SPX::OPTIMAL)
      {
         tag = std::string("complete.") + statusName(o.status);
         if(detail) *detail = std::string("LP has certified finite optimum ") + ds(dq(I.T.objval)) + " but status is " + statusName(o.status);
      }
   }
   if(count && lc.buf.resolveNotes > 0) S.count("c01.silent_resolves");
   if(count && lc.buf.despiteNotes > 0) S.count("c01.terminated_despite_violations");
   return tag;
}

static void caseC01(long long k, Rng& g)
{
   Sink& S = sink();
   static std::vector<ParamSet> pw = pairwiseConfigs(cli.seed);
   static const std::vector<std::string> fams = {"planted-opt", "planted-opt", "degenerate", "arbitrary", "arbitrary", "presolve-rich", "presolve-rich", "badly-scaled", "planted-infeasible", "planted-unbounded"};
   std::string fam = fams[(size_t)(k % (long long)fams.size())];
   int big = g.range(0, 19);
   int mx = big == 0 ? 40 : big <= 3 ? 20 : 10;
   Instance I = genFamily(g, fam, mx, mx);
   ParamSet cfg = (k / (long long)fams.size()) % 3 != 2 ? pw[(size_t)((k / (long long)fams.size()) % (long long)pw.size())] : randomAlgConfig(g);
   if(g.chance(0.15)) cfg = ParamSet();
   int loadMode = g.range(0, 2);
   S.begin(k, fam + " " + std::to_string(I.M.m) + "x" + std::to_string(I.M.n) + " " + cfg.key());
   if(!allExactDoubles(I.M))
   {
      S.count("gen.inexact_skipped");
      S.end(k);
      return;
   }
   ensureTruth(I);
   S.count("cases");
   S.count("family." + fam);
   S.count(std::string("truth.") + (I.T.known ? (I.T.robust ? "robust" : "fragile") : "unknown"));
   S.seen("cfg", fnv(cfg.key()));
   std::string detail;
   std::string tag = c01Once(I, cfg, loadMode, true, &detail);
   S.seen("nontrivial", I.M.signature() ^ fnv(cfg.key()));
   if(!tag.empty())
   {
      ParamSet mc;
      std::string cell = cellKey(cfg, [&](const ParamSet & p)
      {
         return c01Once(I, p, loadMode, false, nullptr) == tag;
      }, &mc);
      S.viol("C01:" + tag + ":" + cell, detail + " | family " + fam + ", full config " + cfg.key(), replayJson(I.M, cfg, mc, loadMode));
   }
   if(k < 4) S.sample(Json().str("family", fam).num("m", I.M.m).num("n", I.M.n).str("config", cfg.key()).str("truth",
                         I.T.known ? statusName(I.T.status == REF_OPTIMAL ? 1 : I.T.status == REF_UNBOUNDED ? 2 : 3) : "unknown").done());
   S.end(k);
}

// ------------------------------------------------------------------------------------------------ C02
static std::string c02Once(const Instance& I, const ParamSet& cfg, int loadMode, bool count, std::string* detail)
{
   Sink& S = sink();
   SoPlex sp;
   quiet(sp);
   cfg.apply(sp);
   loadReal(sp, I.M, loadMode);
   sp.setIntParam(SoPlex::ITERLIMIT, 200000, true);
   sp.optimize();
   int st = (int)sp.status();
   if(count) S.count(std::string("status.") + statusName(st));
   std::string tag;
   auto set = [&](const std::string & t, const std::string & d)
   {
      if(tag.empty())
      {
         tag = t;
         if(detail) *detail = d;
      }
   };
   bool definite = st == SPX::OPTIMAL || st == SPX::INFEASIBLE || st == SPX::UNBOUNDED || st == SPX::INForUNBD;
   if(I.T.known && definite)
   {
      if(count) S.count("c02.verdict_checked");
      const char* tn = I.T.status == REF_OPTIMAL ? "optimal" : I.T.status == REF_INFEASIBLE ? "infeasible" : "unbounded";
      if(st == SPX::INFEASIBLE && I.T.status != REF_INFEASIBLE)
         set("verdict.INFEASIBLE-on-feasible", std::string("INFEASIBLE returned but the LP has a certified feasible point (truth ") + tn + ")");
      if(I.T.robust)
      {
         if((st == SPX::UNBOUNDED || st == SPX::INForUNBD) && I.T.status == REF_OPTIMAL)
            set(std::string("verdict.") + statusName(st) + "-on-optimal", std::string(statusName(st)) + " returned but the LP has the certified finite optimum " + ds(dq(I.T.objval)));
         if(st == SPX::OPTIMAL && I.T.status != REF_OPTIMAL)
            set(std::string("verdict.OPTIMAL-on-") + tn, std::string("OPTIMAL returned but certified truth is ") + tn);
         // (UNBOUNDED on an infeasible LP is wrong too, but the property text does not forbid it: it is only counted)
         if(st == SPX::UNBOUNDED && I.T.status == REF_INFEASIBLE && count) S.count("c02.note.UNBOUNDED_on_infeasible");
      }
   }
   int m = sp.numRows(), n = sp.numCols();
   if(sp.hasDualFarkas())
   {
      VectorReal y(m);
      if(sp.getDualFarkas(y))
      {
         if(count) S.count("c02.farkas_checked");
         FarkasRes f = checkFarkas(I.M, toQ(y), 1e-9);
         double relm = f.proves ? dq(f.margin) / std::max(1e-300, dq(f.norm)) : 0.0;
         if(count && f.proves) S.maxi("c02.farkas_inv_margin", 1e-9 / std::max(relm, 1e-300));
         if(!f.proves || relm <= 1e-9) set("farkas", "offered Farkas vector does not prove infeasibility of the user's LP: " + (f.proves ? "margin " + ds(relm) : f.why));
      }
      else set("farkas-getter", "hasDualFarkas() is true but getDualFarkas() fails");
   }
   if(sp.hasPrimalRay())
   {
      VectorReal d(n);
      if(sp.getPrimalRay(d))
      {
         if(count) S.count("c02.ray_checked");
         RayRes r = checkRay(I.M, toQ(d), 1e-9);
         if(!r.valid) set("ray", "offered primal ray is not a valid improving recession direction: " + r.why);
      }
      else set("ray-getter", "hasPrimalRay() is true but getPrimalRay() fails");
   }
   if(sp.boolParam(SoPlex::ENSURERAY))
   {
      if(st == SPX::INFEASIBLE)
      {
         if(count) S.count("c02.ensureray_infeasible");
         if(!sp.hasDualFarkas()) set("ensureray.nofarkas", "ensure-ray on, INFEASIBLE returned without a Farkas vector");
      }
      if(st == SPX::UNBOUNDED)
      {
         if(count) S.count("c02.ensureray_unbounded");
         if(!sp.hasPrimalRay()) set("ensureray.noray", "ensure-ray on, UNBOUNDED returned without a primal ray");
      }
   }
   if(st == SPX::UNBOUNDED && sp.isPrimalFeasible() && sp.hasSol())
   {
      // a primal feasible point is claimed: it must be feasible
      VectorReal x(n);
      if(sp.getPrimal(x))
      {
         if(count) S.count("c02.unbounded_point_checked");
         std::vector<Q> xq = toQ(x);
         Q worst = 0, xs = 1;
         for(auto& v : xq) if(qabs(v) > xs) xs = qabs(v);
         for(int j = 0; j < n; j++)
         {
            if(!isNInf(I.M.lo[j]) && xq[j] < I.M.lo[j] && I.M.lo[j] - xq[j] > worst) worst = I.M.lo[j] - xq[j];
            if(!isPInf(I.M.up[j]) && xq[j] > I.M.up[j] && xq[j] - I.M.up[j] > worst) worst = xq[j] - I.M.up[j];
         }
         Q amax = 1;
         for(int i = 0; i < m; i++)
         {
            Q a = I.M.activity(i, xq);
            for(int j = 0; j < n; j++) if(qabs(I.M.A[i][j]) > amax) amax = qabs(I.M.A[i][j]);
            if(!isNInf(I.M.lhs[i]) && a < I.M.lhs[i] && I.M.lhs[i] - a > worst) worst = I.M.lhs[i] - a;
            if(!isPInf(I.M.rhs[i]) && a > I.M.rhs[i] && a - I.M.rhs[i] > worst) worst = a - I.M.rhs[i];
         }
         double rel = dq(worst) / dq(Q(xs * amax));
         if(count) S.maxi("c02.unbdPointViol/thr", rel / 1e-5);
         if(rel > 1e-5) set("unbounded-point", "UNBOUNDED with isPrimalFeasible() but the primal point violates the LP by " + ds(dq(worst)));
      }
   }
   return tag;
}

static void caseC02(long long k, Rng& g)
{
   Sink& S = sink();
   static std::vector<ParamSet> pw = pairwiseConfigs(cli.seed + 1);
   static const std::vector<std::string> fams = {"planted-infeasible", "planted-unbounded", "planted-both", "planted-opt", "arbitrary", "planted-infeasible", "planted-unbounded", "arbitrary", "presolve-rich", "degenerate"};
   std::string fam = fams[(size_t)(k % (long long)fams.size())];
   int big = g.range(0, 19);
   int mx = big == 0 ? 30 : big <= 3 ? 16 : 9;
   Instance I = genFamily(g, fam, mx, mx);
   ParamSet cfg = (k / 10) % 3 != 2 ? pw[(size_t)((k / 10) % (long long)pw.size())] : randomAlgConfig(g);
   // the property's explicit cross: ensure-ray x simplifier
   cfg.b[SoPlex::ENSURERAY] = g.chance(0.5);
   cfg.i[SoPlex::SIMPLIFIER] = g.chance(0.5) ? 0 : (g.chance(0.5) ? 3 : 1);
   cfg.normalise();
   int loadMode = g.range(0, 2);
   S.begin(k, fam + " " + std::to_string(I.M.m) + "x" + std::to_string(I.M.n) + " " + cfg.key());
   if(!allExactDoubles(I.M))
   {
      S.count("gen.inexact_skipped");
      S.end(k);
      return;
   }
   ensureTruth(I);
   S.count("cases");
   S.count("family." + fam);
   S.count(std::string("truth.") + (I.T.known ? (I.T.robust ? "robust" : "fragile") : "unknown"));
   S.seen("cfg", fnv(cfg.key()));
   S.seen("nontrivial", I.M.signature() ^ fnv(cfg.key()));
   std::string detail;
   std::string tag = c02Once(I, cfg, loadMode, true, &detail);
   if(!tag.empty())
   {
      ParamSet mc;
      std::string cell = cellKey(cfg, [&](const ParamSet & p)
      {
         return c02Once(I, p, loadMode, false, nullptr) == tag;
      }, &mc);
      S.viol("C02:" + tag + ":" + cell, detail + " | family " + fam + ", full config " + cfg.key(), replayJson(I.M, cfg, mc, loadMode));
   }
   if(k < 4) S.sample(Json().str("family", fam).num("m", I.M.m).num("n", I.M.n).str("config", cfg.key()).done());
   S.end(k);
}

// ------------------------------------------------------------------------------------------------ netlib (C01/C02 --sub netlib)
struct NetlibEntry
{
   const char* name;
   const char* ext;
   int cls;          // 1 finite optimum, 3 infeasible, 2 unbounded
   double opt;
};
static const NetlibEntry NETLIB[] =
{
   {"adlittle", "mps", 1, 0.22549496316238038228101176621492e6}, {"afiro", "mps", 1, -0.46475314285714285714285714285714e3},
   {"agg", "mps", 1, -0.35991767286576506712640824319636e8}, {"beaconfd", "mps", 1, 0.335924858072e5},
   {"blend", "mps", 1, -0.30812149845828220173774356124984e2}, {"bore3d", "mps", 1, 0.13730803942084927215581987251301e4},
   {"brandy", "mps", 1, 0.15185098964881283835426751550618e4}, {"capri", "mps", 1, 0.26900129137681610087717280693754e4},
   {"etamacro", "mps", 1, -0.7557152333749133350792583667773e3}, {"finnis", "mps", 1, 0.17279106559561159432297900375543e6},
   {"grow7", "mps", 1, -0.47787811814711502616766956242865e8}, {"israel", "mps", 1, -0.89664482186304572966200464196045e6},
   {"kb2", "mps", 1, -0.17499001299062057129526866493726e4}, {"lotfi", "mps", 1, -0.2526470606188e2}, {"recipe", "mps", 1, -0.266616e3},
   {"sc105", "mps", 1, -0.52202061211707248062628010857689e2}, {"sc205", "mps", 1, -0.52202061211707248062628010857689e2},
   {"sc50a", "mps", 1, -0.64575077058564509026860413914575e2}, {"sc50b", "mps", 1, -0.7e2},
   {"scagr25", "mps", 1, -0.14753433060768523167790925075974e8}, {"scagr7", "mps", 1, -0.2331389824330984e7},
   {"scfxm1", "mps", 1, 0.18416759028348943683579089143655e5}, {"scorpion", "mps", 1, 0.18781248227381066296479411763586e4},
   {"scrs8", "mps", 1, 0.90429695380079143579923107948844e3}, {"scsd1", "mps", 1, 0.86666666743333647292533502995263e1},
   {"seba", "mps", 1, 0.157116e5}, {"share1b", "mps", 1, -0.7658931857918568112797274346007e5},
   {"afiro", "lp", 1, -0.46475314285714285714285714285714e3}, {"scagr25", "lp", 1, -0.14753433060768523167790925075974e8},
   {"bgetam", "mps", 3, 0}, {"box1", "mps", 3, 0}, {"ex72a", "mps", 3, 0}, {"forest6", "mps", 3, 0}, {"galenet", "mps", 3, 0},
   {"gams10am", "mps", 3, 0}, {"klein1", "mps", 3, 0}, {"refinery", "mps", 3, 0}, {"woodinfe", "mps", 3, 0}, {"gas11", "mps", 2, 0},
};
static const int NNETLIB = (int)(sizeof(NETLIB) / sizeof(NETLIB[0]));

static std::string instanceDir()
{
   const char* r = getenv("VERIF_REPO");
   std::string d = std::string(r && *r ? r : "/repo") + "/check/instances/";
   std::ifstream t(d + "afiro.mps");
   if(t.good()) return d;
   return "/repo/check/instances/";
}

static std::string netlibOnce(int fi, const ParamSet& cfg, const std::string& prop, bool count, std::string* detail)
{
   Sink& S = sink();
   static std::map<int, LPModel> cache;
   const NetlibEntry& E = NETLIB[fi];
   std::string path = instanceDir() + E.name + "." + E.ext;
   SoPlex sp;
   quiet(sp);
   cfg.apply(sp);
   if(!sp.readFile(path.c_str()))
   {
      if(detail) *detail = "cannot read " + path;
      return "netlib.unreadable";
   }
   if(!cache.count(fi)) cache[fi] = readBackReal(sp);
   const LPModel& M = cache[fi];
   sp.setIntParam(SoPlex::ITERLIMIT, 500000, true);
   sp.setRealParam(SoPlex::TIMELIMIT, 120.0, true);
   sp.optimize();
   SolveOut o;
   extract(sp, o);
   int st = o.status;
   if(count)
   {
      S.count(std::string("netlib.status.") + statusName(st));
      S.count("netlib.solves");
      S.maxi("netlib.max_iterations", o.iters);
   }
   if(st == SPX::ABORT_TIME)
   {
      if(count) S.count("netlib.inconclusive_time_budget");
      return "";
   }
   std::string nm = std::string(E.name) + "." + E.ext;
   if(prop == "C01")
   {
      if(E.cls == 1)
      {
         if(st != SPX::OPTIMAL)
         {
            if(detail) *detail = nm + " has a finite optimum but the status is " + statusName(st);
            return std::string("netlib.complete.") + statusName(st);
         }
         double rel = std::fabs(o.objval - E.opt) / (1.0 + std::fabs(E.opt));
         if(count) S.maxi("netlib.objVsListed/thr", rel / 1e-5);
         if(rel > 1e-5)
         {
            if(detail) *detail = nm + ": objective " + ds(o.objval) + " but the listed optimum is " + ds(E.opt);
            return "netlib.objective";
         }
      }
      if(st == SPX::OPTIMAL)
      {
         if(E.cls != 1)
         {
            if(detail) *detail = nm + " has no finite optimum but the status is OPTIMAL";
            return "netlib.optimal-but-no-optimum";
         }
         Tol tol;
         tol.feas = sp.realParam(SoPlex::FEASTOL);
         tol.opt = sp.realParam(SoPlex::OPTTOL);
         if(count) S.count("netlib.certificates_checked");
         std::string r = monitorOptimal(M, o, tol, "netlib.");
         if(!r.empty())
         {
            if(detail) *detail = nm + ": " + r.substr(r.find(':') + 1);
            return "netlib.cert." + r.substr(0, r.find(':'));
         }
      }
      return "";
   }
   // C02
   bool definite = st == SPX::OPTIMAL || st == SPX::INFEASIBLE || st == SPX::UNBOUNDED || st == SPX::INForUNBD;
   if(definite)
   {
      if(count) S.count("netlib.verdicts_checked");
      if(st == SPX::INFEASIBLE && E.cls != 3)
      {
         if(detail) *detail = nm + " is feasible but the status is INFEASIBLE";
         return "netlib.verdict.INFEASIBLE-on-feasible";
      }
      if((st == SPX::UNBOUNDED || st == SPX::INForUNBD) && E.cls == 1)
      {
         if(detail) *detail = nm + " has a finite optimum but the status is " + statusName(st);
         return std::string("netlib.verdict.") + statusName(st) + "-on-optimal";
      }
      if(st == SPX::OPTIMAL && E.cls != 1)
      {
         if(detail) *detail = nm + " has no finite optimum but the status is OPTIMAL";
         return "netlib.verdict.OPTIMAL-on-nonoptimal";
      }
   }
   if(sp.hasDualFarkas())
   {
      VectorReal y(sp.numRows());
      if(sp.getDualFarkas(y))
      {
         if(count) S.count("netlib.farkas_checked");
         FarkasRes f = checkFarkas(M, toQ(y), 1e-7);
         double relm = f.proves ? dq(f.margin) / std::max(1e-300, dq(f.norm)) : 0.0;
         if(!f.proves || relm <= 1e-9)
         {
            if(detail) *detail = nm + ": Farkas vector does not prove infeasibility: " + (f.proves ? "margin " + ds(relm) : f.why.substr(0, 200));
            return "netlib.farkas";
         }
      }
   }
   if(sp.hasPrimalRay())
   {
      VectorReal d(sp.numCols());
      if(sp.getPrimalRay(d))
      {
         if(count) S.count("netlib.ray_checked");
         RayRes r = checkRay(M, toQ(d), 1e-7);
         if(!r.valid)
         {
            if(detail) *detail = nm + ": primal ray invalid: " + r.why;
            return "netlib.ray";
         }
      }
   }
   if(sp.boolParam(SoPlex::ENSURERAY))
   {
      if(st == SPX::INFEASIBLE && !sp.hasDualFarkas())
      {
         if(detail) *detail = nm + ": ensure-ray on, INFEASIBLE without Farkas vector";
         return "netlib.ensureray.nofarkas";
      }
      if(st == SPX::UNBOUNDED && !sp.hasPrimalRay())
      {
         if(detail) *detail = nm + ": ensure-ray on, UNBOUNDED without primal ray";
         return "netlib.ensureray.noray";
      }
   }
   return "";
}

static void caseNetlib(long long k, Rng& g, const std::string& prop)
{
   Sink& S = sink();
   static std::vector<ParamSet> pw = pairwiseConfigs(cli.seed + 31);
   int fi;
   if(prop == "C02")
   {
      // favour the infeasible / unbounded files
      static const int sel[] = {29, 30, 31, 32, 33, 34, 35, 36, 37, 38, 1, 4, 12, 18, 27};
      fi = sel[k % 15];
   }
   else fi = (int)(k % 29);
   long long ci = k / (prop == "C02" ? 15 : 29);
   ParamSet cfg = ci == 0 ? ParamSet() : (ci % 3 != 0 ? pw[(size_t)((ci * 7 + fi) % (long long)pw.size())] : randomAlgConfig(g));
   if(prop == "C02")
   {
      cfg.b[SoPlex::ENSURERAY] = (ci % 2) == 1;
      cfg.normalise();
   }
   S.begin(k, std::string("netlib ") + NETLIB[fi].name + "." + NETLIB[fi].ext + " " + cfg.key());
   S.count("cases");
   S.count(std::string("netlib.file.") + NETLIB[fi].name);
   S.seen("cfg", fnv(cfg.key()));
   S.seen("nontrivial", fnv(std::string(NETLIB[fi].name) + NETLIB[fi].ext + cfg.key()));
   std::string detail;
   std::string tag = netlibOnce(fi, cfg, prop, true, &detail);
   if(!tag.empty())
   {
      ParamSet mc;
      std::string cell = cellKey(cfg, [&](const ParamSet & p)
      {
         return netlibOnce(fi, p, prop, false, nullptr) == tag;
      }, &mc);
      S.viol(prop + ":" + tag + ":" + cell, detail + " | full config " + cfg.key(), Json().str("file", std::string(NETLIB[fi].name) + "." + NETLIB[fi].ext).str("settings",
             cfg.settingsText()).str("minimal_cell", mc.key()).done());
   }
   if(k < 3) S.sample(Json().str("file", std::string(NETLIB[fi].name) + "." + NETLIB[fi].ext).str("config", cfg.key()).done());
   S.end(k);
}

// ------------------------------------------------------------------------------------------------ C04
static std::vector<VarStatus> toVS(const std::vector<int>& v)
{
   std::vector<VarStatus> r(v.size() + 1);
   for(size_t i = 0; i < v.size(); i++) r[i] = (VarStatus)v[i];
   return r;
}
// equal "up to marking variables with equal bounds as fixed"
static bool sameStatus(int want, int got, bool equalBounds)
{
   if(want == got) return true;
   if(equalBounds && got == (int)SPX::FIXED && (want == (int)SPX::ON_LOWER || want == (int)SPX::ON_UPPER)) return true;
   if(equalBounds && want == (int)SPX::FIXED && (got == (int)SPX::ON_LOWER || got == (int)SPX::ON_UPPER)) return true;
   return false;
}
// random valid basis description with an exactly regular basis matrix (or singular if wantSingular); false if none found
static bool randomBasis(Rng& g, const LPModel& M, std::vector<int>& rs, std::vector<int>& cs, bool wantRegular)
{
   int m = M.m, n = M.n;
   for(int attempt = 0; attempt < 30; attempt++)
   {
      std::vector<int> vars(m + n);
      for(int k = 0; k < m + n; k++) vars[k] = k;
      g.shuffle(vars);
      std::vector<int> bind;
      double pcol = g.unit();
      // choose m basics, biased between slacks and structurals
      std::vector<char> basic(m + n, 0);
      int cnt = 0;
      for(int k = 0; k < m + n && cnt < m; k++)
      {
         int v = vars[k];
         bool isCol = v < n;
         if(g.chance(isCol ? pcol : 1 - pcol) || (m + n - k) <= (m - cnt))
         {
            basic[v] = 1;
            cnt++;
         }
      }
      if(cnt != m) continue;
      for(int v = 0; v < m + n; v++) if(basic[v]) bind.push_back(v < n ? v : -1 - (v - n));
      bool reg = nonsingularQ(basisMatrix(M, bind));
      if(reg != wantRegular) continue;
      rs.assign(m, 0);
      cs.assign(n, 0);
      auto nb = [&](const Q & lo, const Q & up) -> int
      {
         bool fl = !isNInf(lo), fu = !isPInf(up);
         if(fl && fu) return lo == up ? (int)SPX::FIXED : (g.chance(0.5) ? (int)SPX::ON_LOWER : (int)SPX::ON_UPPER);
         if(fl) return (int)SPX::ON_LOWER;
         if(fu) return (int)SPX::ON_UPPER;
         return (int)SPX::ZERO;
      };
      for(int j = 0; j < n; j++) cs[j] = basic[j] ? (int)SPX::BASIC : nb(M.lo[j], M.up[j]);
      for(int i = 0; i < m; i++) rs[i] = basic[n + i] ? (int)SPX::BASIC : nb(M.lhs[i], M.rhs[i]);
      return true;
   }
   return false;
}

struct C04Res
{
   std::string tag, detail;
   std::vector<std::pair<std::string, std::string>> all;    // every finding of the run (first one also in tag/detail)
   void set(const std::string& t, const std::string& d)
   {
      if(tag.empty())
      {
         tag = t;
         detail = d;
      }
      for(auto& p : all) if(p.first == t) return;
      all.push_back({t, d});
   }
   bool has(const std::string& t) const
   {
      for(auto& p : all) if(p.first == t) return true;
      return false;
   }
};

static bool definiteStatus(int st)
{
   return st == SPX::OPTIMAL || st == SPX::INFEASIBLE || st == SPX::UNBOUNDED || st == SPX::INForUNBD;
}
// same verdict class: INForUNBD is compatible with INFEASIBLE and UNBOUNDED
static bool sameVerdict(int a, int b)
{
   if(a == b) return true;
   if(a == SPX::INForUNBD) return b == SPX::INFEASIBLE || b == SPX::UNBOUNDED;
   if(b == SPX::INForUNBD) return a == SPX::INFEASIBLE || a == SPX::UNBOUNDED;
   return false;
}

static C04Res c04Once(const Instance& I, const ParamSet& cfg, int loadMode, uint64_t subseed, bool count)
{
   Sink& S = sink();
   C04Res R;
   Rng g(99, subseed, 4);
   const LPModel& M = I.M;
   int m = M.m, n = M.n;
   SoPlex sp;
   quiet(sp);
   cfg.apply(sp);
   if(verbose && count) sp.setIntParam(SoPlex::VERBOSITY, 5, true);
   loadReal(sp, M, loadMode);
   sp.setIntParam(SoPlex::ITERLIMIT, 200000, true);
   int scenario = g.range(0, 9);
   if(verbose && count) fprintf(stderr, "%s\nscenario %d\n", M.toLPText().c_str(), scenario);
   // scenario 0-5: plain solve; 6-7: aborted solve (iteration limit); 8-9: setBasis fuzz without a solve
   if(scenario >= 6 && scenario <= 7) sp.setIntParam(SoPlex::ITERLIMIT, g.range(0, 6), true);
   int st0 = 0;
   double v0 = 0;
   if(scenario <= 7)
   {
      sp.optimize();
      st0 = (int)sp.status();
      v0 = sp.hasSol() ? sp.objValueReal() : 0;
      if(count) S.count(std::string("c04.after.") + statusName(st0));
      if(verbose && count && sp.hasBasis())
      {
         std::vector<VarStatus> a(m + 1), b(n + 1);
         sp.getBasis(a.data(), b.data());
         fprintf(stderr, "%s\nscenario %d status %s iters %d rep %d\nrows:", M.toLPText().c_str(), scenario, statusName(st0), sp.numIterations(), (int)sp._solver.rep());
         for(int i = 0; i < m; i++) fprintf(stderr, " %d", (int)a[i]);
         fprintf(stderr, "\ncols:");
         for(int j = 0; j < n; j++) fprintf(stderr, " %d", (int)b[j]);
         fprintf(stderr, "\n");
      }
      if(sp.hasBasis())
      {
         if(count) S.count("c04.basis_checked");
         std::string r = monitorBasis(sp, M, true);
         if(!r.empty())
         {
            size_t c = r.find(':');
            R.set("basis." + r.substr(0, c) + ".after-" + statusName(st0), r.substr(c + 1));
            return R;
         }
      }
      else if(st0 == SPX::OPTIMAL)
      {
         // an optimal floating-point solve always leaves a basis
         R.set("nobasis.OPTIMAL", "status OPTIMAL but hasBasis() is false");
         return R;
      }
   }
   // reference: from-scratch result of the same configuration without limits
   int stRef;
   double vRef;
   {
      SoPlex ref;
      quiet(ref);
      cfg.apply(ref);
      loadReal(ref, M, loadMode);
      ref.setIntParam(SoPlex::ITERLIMIT, 200000, true);
      ref.optimize();
      stRef = (int)ref.status();
      vRef = ref.hasSol() ? ref.objValueReal() : 0;
   }
   // reuse is compared only on instances whose class is certified and robust w.r.t. tolerances (two floating-point
   // solves of a tolerance-ambiguous LP may legitimately disagree)
   bool refUsable = definiteStatus(stRef) && I.T.known && I.T.robust;
   if(I.T.known && I.T.robust)
   {
      // if the from-scratch solve itself is wrong w.r.t. certified truth this is C01/C02's business: skip reuse checks
      int tst = I.T.status == REF_OPTIMAL ? (int)SPX::OPTIMAL : I.T.status == REF_INFEASIBLE ? (int)SPX::INFEASIBLE : (int)SPX::UNBOUNDED;
      if(!sameVerdict(stRef, tst)) refUsable = false;
   }
   auto sameResult = [&](SoPlex & q, const char* what)
   {
      int st = (int)q.status();
      if(!refUsable) return;
      if(count) S.count(std::string("c04.reuse.") + what);
      if(!sameVerdict(st, stRef))
      {
         R.set(std::string("reuse.") + what + "." + statusName(st), std::string("solve started from a returned basis ends ") + statusName(
                  st) + ", from scratch " + statusName(stRef));
         return;
      }
      if(st == SPX::OPTIMAL && stRef == SPX::OPTIMAL)
      {
         double v = q.objValueReal();
         double sc = 1.0 + std::fabs(vRef);
         VectorReal x(n);
         q.getPrimal(x);
         for(int j = 0; j < n; j++) sc += std::fabs(dq(M.obj[j]) * x[j]);
         double rel = std::fabs(v - vRef) / sc;
         if(count) S.maxi("c04.reuseObj/thr", rel / 1e-4);
         if(rel > 1e-4) R.set(std::string("reuse.") + what + ".objective", "optimal value " + ds(v) + " after warm start, " + ds(vRef) + " from scratch");
      }
   };
   if(scenario <= 7 && sp.hasBasis())
   {
      std::vector<int> rs(m), cs(n);
      {
         std::vector<VarStatus> a(m + 1), b(n + 1);
         sp.getBasis(a.data(), b.data());
         for(int i = 0; i < m; i++) rs[i] = (int)a[i];
         for(int j = 0; j < n; j++) cs[j] = (int)b[j];
      }
      // (f1) continue in the same object with the limit lifted
      sp.setIntParam(SoPlex::ITERLIMIT, 200000, true);
      sp.optimize();
      sameResult(sp, "same-object");
      if(!R.tag.empty()) return R;
      if(sp.hasBasis())
      {
         std::string r = monitorBasis(sp, M, true);
         if(!r.empty())
         {
            size_t c = r.find(':');
            R.set("basis." + r.substr(0, c) + ".after-resolve", r.substr(c + 1));
            return R;
         }
      }
      // (e)+(f2) new object, same LP, setBasis(b)
      SoPlex q;
      quiet(q);
      cfg.apply(q);
      loadReal(q, M, g.range(0, 2));
      q.setIntParam(SoPlex::ITERLIMIT, 200000, true);
      std::vector<VarStatus> a = toVS(rs), b = toVS(cs);
      q.setBasis(a.data(), b.data());
      if(count) S.count("c04.setbasis_roundtrip");
      if(!q.hasBasis())
      {
         R.set("setbasis.lost", "hasBasis() false right after setBasis() with a basis returned by a solve");
         return R;
      }
      std::vector<VarStatus> a2(m + 1), b2(n + 1);
      q.getBasis(a2.data(), b2.data());
      for(int i = 0; i < m; i++) if(!sameStatus(rs[i], (int)a2[i], isFin(M.lhs[i]) && M.lhs[i] == M.rhs[i]))
         {
            R.set("setbasis.readback", "row " + std::to_string(i) + " set " + std::to_string(rs[i]) + " read " + std::to_string((int)a2[i]));
            return R;
         }
      for(int j = 0; j < n; j++) if(!sameStatus(cs[j], (int)b2[j], isFin(M.lo[j]) && M.lo[j] == M.up[j]))
         {
            R.set("setbasis.readback", "col " + std::to_string(j) + " set " + std::to_string(cs[j]) + " read " + std::to_string((int)b2[j]));
            return R;
         }
      {
         std::string r = monitorBasis(q, M, false);
         if(!r.empty())
         {
            size_t c = r.find(':');
            R.set("basis." + r.substr(0, c) + ".after-setBasis", r.substr(c + 1));
            return R;
         }
      }
      q.optimize();
      sameResult(q, "new-object");
      if(!R.tag.empty()) return R;
      if(q.hasBasis())
      {
         std::string r = monitorBasis(q, M, true);
         if(!r.empty())
         {
            size_t c = r.find(':');
            R.set("basis." + r.substr(0, c) + ".after-warmstart", r.substr(c + 1));
            return R;
         }
      }
      // (h) bound-class changes while a basis is held (fix / unfix / free a column, drop or add a side of a row): as long as
      // hasBasis() stays true the reported statuses must remain consistent with the *new* bounds
      {
         int nmod = g.range(1, 4);
         try
         {
         for(int t = 0; t < nmod && q.hasBasis() && m > 0 && n > 0; t++)
         {
            int w = g.range(0, 9);
            int mq = q.numRows(), nq = q.numCols();
            if(mq < 1 || nq < 1) break;
            int j = g.range(0, nq - 1), i = g.range(0, mq - 1);
            double v = (double)g.range(-4, 4);
            const char* what = "";
            if(w == 8 && mq > 2)
            {
               // remove rows through the permutation interface (survivors are renumbered, their statuses must move with them)
               what = "removeRowsReal(perm)";
               std::vector<int> perm(mq, 0);
               int nrem = 0;
               for(int r_ = 0; r_ < mq; r_++) if(g.chance(0.3) && nrem < mq - 1)
                  {
                     perm[r_] = -1;
                     nrem++;
                  }
               q.removeRowsReal(perm.data());
            }
            else if(w == 9 && nq > 2)
            {
               what = "removeColsReal(perm)";
               std::vector<int> perm(nq, 0);
               int nrem = 0;
               for(int c_ = 0; c_ < nq; c_++) if(g.chance(0.3) && nrem < nq - 1)
                  {
                     perm[c_] = -1;
                     nrem++;
                  }
               q.removeColsReal(perm.data());
            }
            else if(w >= 8) continue;
            else if(w == 0) { what = "changeLowerReal(-inf)"; q.changeLowerReal(j, -soplex::infinity); }
            else if(w == 1) { what = "changeUpperReal(+inf)"; q.changeUpperReal(j, soplex::infinity); }
            else if(w == 2) { what = "changeBoundsReal(fix)"; q.changeBoundsReal(j, v, v); }
            else if(w == 3) { what = "changeBoundsReal(free)"; q.changeBoundsReal(j, -soplex::infinity, soplex::infinity); }
            else if(w == 4) { what = "changeLhsReal(-inf)"; q.changeLhsReal(i, -soplex::infinity); }
            else if(w == 5) { what = "changeRhsReal(+inf)"; q.changeRhsReal(i, soplex::infinity); }
            else if(w == 6) { what = "changeRangeReal(eq)"; q.changeRangeReal(i, v, v); }
            else { what = "changeBoundsReal(box)"; q.changeBoundsReal(j, v, v + 3.0); }
            if(count) S.count(std::string("c04.boundclass_change.") + what);
            if(!q.hasBasis()) break;
            LPModel M2 = readBackReal(q);
            std::string r = monitorBasis(q, M2, false);
            if(count) S.count("c04.basis_after_boundclass_change_checked");
            if(!r.empty())
            {
               size_t c = r.find(':');
               R.set("basis." + r.substr(0, c) + ".after-" + what, r.substr(c + 1));
               return R;
            }
         }
         }
         catch(const SPxException& e)
         {
            R.set("basis.exception.after-modification", std::string("exception while querying the basis after a modification: ") + e.what());
            return R;
         }
      }
      return R;
   }
   if(scenario >= 8 && m > 0 && m <= 30)
   {
      std::vector<int> rs, cs;
      bool regular = g.chance(0.8);
      if(!randomBasis(g, M, rs, cs, regular)) return R;
      if(count) S.count(regular ? "c04.setbasis_fuzz_regular" : "c04.setbasis_fuzz_singular");
      std::vector<VarStatus> a = toVS(rs), b = toVS(cs);
      if(verbose && count)
      {
         fprintf(stderr, "user basis rows:");
         for(int i = 0; i < m; i++) fprintf(stderr, " %d", rs[i]);
         fprintf(stderr, " cols:");
         for(int j = 0; j < n; j++) fprintf(stderr, " %d", cs[j]);
         fprintf(stderr, "\n");
      }
      sp.setBasis(a.data(), b.data());
      if(!sp.hasBasis())
      {
         R.set("setbasis.lost", "hasBasis() false right after setBasis() with a valid basis description");
         return R;
      }
      std::vector<VarStatus> a2(m + 1), b2(n + 1);
      sp.getBasis(a2.data(), b2.data());
      for(int i = 0; i < m; i++) if(!sameStatus(rs[i], (int)a2[i], isFin(M.lhs[i]) && M.lhs[i] == M.rhs[i]))
         {
            R.set("setbasis.readback", "row " + std::to_string(i) + " set " + std::to_string(rs[i]) + " read " + std::to_string((int)a2[i]));
            return R;
         }
      for(int j = 0; j < n; j++) if(!sameStatus(cs[j], (int)b2[j], isFin(M.lo[j]) && M.lo[j] == M.up[j]))
         {
            R.set("setbasis.readback", "col " + std::to_string(j) + " set " + std::to_string(cs[j]) + " read " + std::to_string((int)b2[j]));
            return R;
         }
      std::string r = monitorBasis(sp, M, false);
      if(!r.empty())
      {
         size_t c = r.find(':');
         R.set("basis." + r.substr(0, c) + ".after-setBasis", r.substr(c + 1));
         return R;
      }
      // the property promises reuse only for bases the solver itself returned; a user-invented basis is only required to
      // be stored faithfully.  The solve is still run (sanitizers watch it) and a basis it leaves is checked.
      sp.optimize();
      if(count) S.count(std::string("c04.userbasis_solve.") + statusName((int)sp.status()));
      if(sp.hasBasis() && definiteStatus((int)sp.status()))
      {
         std::string r2 = monitorBasis(sp, M, true);
         if(!r2.empty())
         {
            size_t c = r2.find(':');
            R.set("basis." + r2.substr(0, c) + ".after-userbasis-solve", r2.substr(c + 1));
         }
      }
   }
   return R;
}

static void caseC04(long long k, Rng& g)
{
   Sink& S = sink();
   static std::vector<ParamSet> pw = pairwiseConfigs(cli.seed + 4);
   static const std::vector<std::string> fams = {"planted-opt", "degenerate", "arbitrary", "presolve-rich", "planted-infeasible", "planted-unbounded", "arbitrary", "planted-opt", "badly-scaled", "planted-both"};
   std::string fam = fams[(size_t)(k % (long long)fams.size())];
   int big = g.range(0, 19);
   int mx = big == 0 ? 30 : big <= 3 ? 16 : 9;
   Instance I = genFamily(g, fam, mx, mx);
   ParamSet cfg = (k / 10) % 3 != 2 ? pw[(size_t)((k / 10) % (long long)pw.size())] : randomAlgConfig(g);
   if(g.chance(0.2)) cfg = ParamSet();
   int loadMode = g.range(0, 2);
   uint64_t sub = g.next();
   S.begin(k, fam + " " + std::to_string(I.M.m) + "x" + std::to_string(I.M.n) + " " + cfg.key());
   if(!allExactDoubles(I.M))
   {
      S.count("gen.inexact_skipped");
      S.end(k);
      return;
   }
   ensureTruth(I);
   S.count("cases");
   S.count("family." + fam);
   S.seen("cfg", fnv(cfg.key()));
   S.seen("nontrivial", I.M.signature() ^ fnv(cfg.key()) ^ (sub % 10));
   C04Res r = c04Once(I, cfg, loadMode, sub, true);
   if(!r.tag.empty())
   {
      ParamSet mc;
      std::string cell = cellKey(cfg, [&](const ParamSet & p)
      {
         return c04Once(I, p, loadMode, sub, false).tag == r.tag;
      }, &mc);
      S.viol("C04:" + r.tag + ":" + cell, r.detail + " | family " + fam + ", full config " + cfg.key(), replayJson(I.M, cfg, mc, loadMode));
   }
   if(k < 4) S.sample(Json().str("family", fam).num("m", I.M.m).num("n", I.M.n).str("config", cfg.key()).num("scenario", (long long)(sub % 10)).done());
   S.end(k);
}

// ------------------------------------------------------------------------------------------------ C05
// B in the user's space from getBasisInd and the model (unscale=true) or from the solver's internal (possibly scaled)
// columns (unscale=false)
static std::vector<std::vector<Q>> basisMatrixInternal(SoPlex& sp, const std::vector<int>& bind)
{
   int m = sp.numRows();
   std::vector<std::vector<Q>> B(m, std::vector<Q>(m, Q(0)));
   for(int k = 0; k < m; k++)
   {
      if(bind[k] >= 0)
      {
         const SVectorBase<double>& c = sp.colVectorRealInternal(bind[k]);
         for(int t = 0; t < c.size(); t++) B[c.index(t)][k] = qd(c.value(t));
      }
      else B[-1 - bind[k]][k] = 1;
   }
   return B;
}

static C04Res c05Once(const Instance& I, const ParamSet& cfg, int loadMode, uint64_t subseed, bool count)
{
   Sink& S = sink();
   C04Res R;
   Rng g(77, subseed, 5);
   const LPModel& M = I.M;
   int m = M.m, n = M.n;
   if(m == 0) return R;
   SoPlex sp;
   quiet(sp);
   cfg.apply(sp);
   loadReal(sp, M, loadMode);
   sp.setIntParam(SoPlex::ITERLIMIT, 200000, true);
   int scenario = g.range(0, 9);
   if(scenario == 6) sp.setIntParam(SoPlex::ITERLIMIT, g.range(1, 5), true);
   if(scenario <= 7) sp.optimize();
   else
   {
      // user basis; optionally after a first solve so that scaling is active
      if(g.chance(0.5)) sp.optimize();
      std::vector<int> rs, cs;
      if(m > 30 || !randomBasis(g, M, rs, cs, true)) return R;
      std::vector<VarStatus> a = toVS(rs), b = toVS(cs);
      sp.setBasis(a.data(), b.data());
   }
   if(!sp.hasBasis()) return R;
   std::vector<int> bind(m + 1, 0);
   sp.getBasisInd(bind.data());
   bind.resize(m);
   {
      // getBasisInd must describe a basis (C04 checks that in depth); skip if exactly singular (nothing to compare with)
      std::set<int> seen(bind.begin(), bind.end());
      if((int)seen.size() != m) return R;
   }
   std::vector<std::vector<Q>> Buser = basisMatrix(M, bind);
   if(m > 40) return R;
   {
      // the claim is about numerically regular bases: exact condition number (inf-norm) must be moderate, otherwise a
      // floating-point factorization may legitimately refuse the matrix or lose all digits
      std::vector<std::vector<Q>> inv;
      if(!invertQ(Buser, inv)) return R;
      Q nb = 0, ni = 0;
      for(int i = 0; i < m; i++)
      {
         Q a = 0, b = 0;
         for(int k2 = 0; k2 < m; k2++)
         {
            a += qabs(Buser[i][k2]);
            b += qabs(inv[i][k2]);
         }
         if(a > nb) nb = a;
         if(b > ni) ni = b;
      }
      double cond = dq(nb) * dq(ni);
      if(count) S.maxi("c05.max_condition_checked", cond <= 1e8 ? cond : 0);
      // the factorization works with absolute tolerances (zero, pivot and stability thresholds): the claim is judged for bases whose
      // entries and whose inverse's entries are of moderate absolute size as well (a 1x1 basis [4e-11] is exactly regular and
      // perfectly conditioned, and still legitimately refused)
      if(cond > 1e8 || dq(nb) > 1e8 || dq(ni) > 1e8)
      {
         if(count) S.count("c05.skipped_ill_conditioned");
         return R;
      }
   }
   const char* rep = sp._solver.rep() == SPX::COLUMN ? "col" : "row";
   bool scaled = sp._solver.isScaled();
   if(count)
   {
      S.count(std::string("c05.bases.rep=") + rep + (scaled ? ".scaled" : ".unscaled"));
      if(scaled)
      {
         bool nz = false;
         for(int i = 0; i < m && !nz; i++) if(sp._scaler && sp._scaler->getRowScaleExp(i) != 0) nz = true;
         for(int j = 0; j < n && !nz; j++) if(sp._scaler && sp._scaler->getColScaleExp(j) != 0) nz = true;
         if(nz) S.count("c05.bases_with_nonzero_scale_exponent");
      }
   }
   // every query kind is judged on its own: a failing kind is recorded and skipped afterwards, the others go on
   std::set<std::string> dead;
   for(int us = 1; us >= 0; us--)
   {
      bool unscale = us == 1;
      if(!unscale && !scaled) continue;
      // for unscale=false the reference is the internal (scaled) column data
      std::vector<std::vector<Q>> B = unscale ? Buser : basisMatrixInternal(sp, bind);
      std::string sfx = std::string(".rep=") + rep + (scaled ? ".scaled" : ".unscaled") + (unscale ? "" : ".internal");
      Q bnorm = 0;
      for(int i = 0; i < m; i++)
      {
         Q rsum = 0;
         for(int k = 0; k < m; k++) rsum += qabs(B[i][k]);
         if(rsum > bnorm) bnorm = rsum;
      }
      auto thr = [&](const Q & resultNorm) { return 1e-8 * (1.0 + dq(bnorm) * dq(resultNorm)); };
      const int CAN = 4;
      int nidx = std::min(m, 6);
      for(int t = 0; t < nidx; t++)
      {
         int kk = m <= 6 ? t : g.range(0, m - 1);
         bool sparse = g.chance(0.5);
         // ---- inverse column: B * col_k = e_k
         [&]()
         {
            if(dead.count("invcol")) return;
            std::vector<double> buf(m + 2 * CAN, 0.0);
            for(int c = 0; c < CAN; c++) buf[c] = buf[m + CAN + c] = 12345.678;
            std::vector<int> inds(m + 1, -7);
            int ninds = -5;
            bool ok = sp.getBasisInverseColReal(kk, buf.data() + CAN, sparse ? inds.data() : nullptr, sparse ? &ninds : nullptr, unscale);
            if(count) S.count("c05.invcol" + sfx);
            if(!ok)
            {
               R.set("invcol.failed" + sfx, "getBasisInverseColReal returned false although a regular basis is available");
               { dead.insert("invcol"); return; }
            }
            for(int c = 0; c < CAN; c++) if(buf[c] != 12345.678 || buf[m + CAN + c] != 12345.678)
               {
                  R.set("invcol.canary" + sfx, "getBasisInverseColReal wrote outside [0,numRows)");
                  { dead.insert("invcol"); return; }
               }
            for(int i = 0; i < m; i++) if(!std::isfinite(buf[CAN + i]))
               {
                  R.set("invcol.nonfinite" + sfx, "getBasisInverseColReal returned a non-finite entry");
                  { dead.insert("invcol"); return; }
               }
            std::vector<Q> col(m);
            Q cn = 0;
            for(int i = 0; i < m; i++)
            {
               col[i] = qd(buf[CAN + i]);
               if(qabs(col[i]) > cn) cn = qabs(col[i]);
            }
            Q worst = 0;
            for(int i = 0; i < m; i++)
            {
               Q a = 0;
               for(int c = 0; c < m; c++) if(B[i][c] != 0 && col[c] != 0) a += B[i][c] * col[c];
               Q e = qabs(a - (i == kk ? 1 : 0));
               if(e > worst) worst = e;
            }
            double ratio = dq(worst) / thr(cn);
            if(count) S.maxi("c05.invcol/thr", ratio);
            if(ratio > 1)
            {
               R.set("invcol.residual" + sfx, "B * (column " + std::to_string(kk) + " of inverse) differs from the unit vector by " + ds(dq(worst)));
               { dead.insert("invcol"); return; }
            }
            if(sparse && ninds >= 0)
            {
               if(count) S.count("c05.sparse_index_checked");
               std::set<int> is(inds.begin(), inds.begin() + ninds);
               for(int i = 0; i < m; i++) if((buf[CAN + i] != 0.0) != (is.count(i) > 0))
                  {
                     R.set("invcol.index" + sfx, "sparse index output does not list exactly the nonzero positions (position " + std::to_string(i) + ")");
                     { dead.insert("invcol"); return; }
                  }
               if((int)is.size() != ninds)
               {
                  R.set("invcol.index" + sfx, "duplicate index in sparse output");
                  { dead.insert("invcol"); return; }
               }
            }
         }();
         // ---- inverse row: row_k * B = e_k^T
         [&]()
         {
            if(dead.count("invrow")) return;
            std::vector<double> buf(m + 2 * CAN, 0.0);
            for(int c = 0; c < CAN; c++) buf[c] = buf[m + CAN + c] = 12345.678;
            std::vector<int> inds(m + 1, -7);
            int ninds = -5;
            bool ok = sp.getBasisInverseRowReal(kk, buf.data() + CAN, sparse ? inds.data() : nullptr, sparse ? &ninds : nullptr, unscale);
            if(count) S.count("c05.invrow" + sfx);
            if(!ok)
            {
               R.set("invrow.failed" + sfx, "getBasisInverseRowReal returned false although a regular basis is available");
               { dead.insert("invrow"); return; }
            }
            for(int c = 0; c < CAN; c++) if(buf[c] != 12345.678 || buf[m + CAN + c] != 12345.678)
               {
                  R.set("invrow.canary" + sfx, "getBasisInverseRowReal wrote outside [0,numRows)");
                  { dead.insert("invrow"); return; }
               }
            for(int i = 0; i < m; i++) if(!std::isfinite(buf[CAN + i]))
               {
                  R.set("invrow.nonfinite" + sfx, "getBasisInverseRowReal returned a non-finite entry");
                  { dead.insert("invrow"); return; }
               }
            std::vector<Q> row(m);
            Q rn = 0;
            for(int i = 0; i < m; i++)
            {
               row[i] = qd(buf[CAN + i]);
               rn += qabs(row[i]);
            }
            Q worst = 0, cmax = 0;
            for(int c = 0; c < m; c++)
            {
               Q a = 0, cs_ = 0;
               for(int i = 0; i < m; i++) if(B[i][c] != 0)
                  {
                     cs_ += qabs(B[i][c]);
                     if(row[i] != 0) a += row[i] * B[i][c];
                  }
               if(cs_ > cmax) cmax = cs_;
               Q e = qabs(a - (c == kk ? 1 : 0));
               if(e > worst) worst = e;
            }
            double ratio = dq(worst) / (1e-8 * (1.0 + dq(cmax) * dq(rn)));
            if(count) S.maxi("c05.invrow/thr", ratio);
            if(ratio > 1)
            {
               R.set("invrow.residual" + sfx, "(row " + std::to_string(kk) + " of inverse) * B differs from the unit row by " + ds(dq(worst)));
               { dead.insert("invrow"); return; }
            }
            if(sparse && ninds >= 0)
            {
               if(count) S.count("c05.sparse_index_checked");
               std::set<int> is(inds.begin(), inds.begin() + ninds);
               for(int i = 0; i < m; i++) if((buf[CAN + i] != 0.0) != (is.count(i) > 0))
                  {
                     R.set("invrow.index" + sfx, "sparse index output does not list exactly the nonzero positions (position " + std::to_string(i) + ")");
                     { dead.insert("invrow"); return; }
                  }
            }
         }();
      }
      // ---- solve / multiply with small integer vectors (B v exactly representable)
      for(int t = 0; t < 3; t++)
      {
         std::vector<Q> v(m);
         Q vn = 0;
         for(int i = 0; i < m; i++)
         {
            v[i] = g.chance(0.6) ? Q(g.range(-4, 4)) : Q(0);
            vn += qabs(v[i]);
         }
         std::vector<Q> Bv(m, Q(0)), BTv(m, Q(0));
         for(int i = 0; i < m; i++) for(int c = 0; c < m; c++) if(B[i][c] != 0)
               {
                  if(v[c] != 0) Bv[i] += B[i][c] * v[c];
                  if(v[i] != 0) BTv[c] += B[i][c] * v[i];
               }
         // multBasis: B v
         [&]()
         {
            if(dead.count("mult")) return;
            std::vector<double> vec(m);
            for(int i = 0; i < m; i++) vec[i] = dq(v[i]);
            bool ok = sp.multBasis(vec.data(), unscale);
            if(count) S.count("c05.mult" + sfx);
            if(!ok)
            {
               R.set("mult.failed" + sfx, "multBasis returned false");
               { dead.insert("mult"); return; }
            }
            for(int i = 0; i < m; i++) if(!std::isfinite(vec[i]))
               {
                  R.set("mult.nonfinite" + sfx, "multBasis returned a non-finite entry");
                  { dead.insert("mult"); return; }
               }
            Q worst = 0;
            for(int i = 0; i < m; i++) if(qabs(qd(vec[i]) - Bv[i]) > worst) worst = qabs(qd(vec[i]) - Bv[i]);
            double ratio = dq(worst) / (1e-8 * (1.0 + dq(bnorm) * dq(vn)));
            if(count) S.maxi("c05.mult/thr", ratio);
            if(ratio > 1)
            {
               R.set("mult.value" + sfx, "multBasis(v) differs from B v by " + ds(dq(worst)));
               { dead.insert("mult"); return; }
            }
         }();
         // multBasisTranspose: B^T v
         [&]()
         {
            if(dead.count("multT")) return;
            std::vector<double> vec(m);
            for(int i = 0; i < m; i++) vec[i] = dq(v[i]);
            bool ok = sp.multBasisTranspose(vec.data(), unscale);
            if(count) S.count("c05.multT" + sfx);
            if(!ok)
            {
               R.set("multT.failed" + sfx, "multBasisTranspose returned false");
               { dead.insert("multT"); return; }
            }
            for(int i = 0; i < m; i++) if(!std::isfinite(vec[i]))
               {
                  R.set("multT.nonfinite" + sfx, "multBasisTranspose returned a non-finite entry");
                  { dead.insert("multT"); return; }
               }
            Q worst = 0;
            for(int i = 0; i < m; i++) if(qabs(qd(vec[i]) - BTv[i]) > worst) worst = qabs(qd(vec[i]) - BTv[i]);
            double ratio = dq(worst) / (1e-8 * (1.0 + dq(bnorm) * dq(vn)));
            if(count) S.maxi("c05.multT/thr", ratio);
            if(ratio > 1)
            {
               R.set("multT.value" + sfx, "multBasisTranspose(v) differs from B^T v by " + ds(dq(worst)));
               { dead.insert("multT"); return; }
            }
         }();
         // solve: B sol = B v  =>  residual check on B sol - rhs
         [&]()
         {
            if(dead.count("solve")) return;
            bool exactRhs = true;
            std::vector<double> rhs(m), sol(m, 0.0);
            for(int i = 0; i < m; i++)
            {
               rhs[i] = dq(Bv[i]);
               if(qd(rhs[i]) != Bv[i]) exactRhs = false;
            }
            if(exactRhs)
            {
               bool ok = sp.getBasisInverseTimesVecReal(rhs.data(), sol.data(), unscale);
               if(count) S.count("c05.solve" + sfx);
               if(!ok)
               {
                  R.set("solve.failed" + sfx, "getBasisInverseTimesVecReal returned false");
                  { dead.insert("solve"); return; }
               }
               for(int i = 0; i < m; i++) if(!std::isfinite(sol[i]))
                  {
                     R.set("solve.nonfinite" + sfx, "getBasisInverseTimesVecReal returned a non-finite entry");
                     { dead.insert("solve"); return; }
                  }
               Q sn = 0, worst = 0;
               std::vector<Q> sq(m);
               for(int i = 0; i < m; i++)
               {
                  sq[i] = qd(sol[i]);
                  if(qabs(sq[i]) > sn) sn = qabs(sq[i]);
               }
               for(int i = 0; i < m; i++)
               {
                  Q a = 0;
                  for(int c = 0; c < m; c++) if(B[i][c] != 0 && sq[c] != 0) a += B[i][c] * sq[c];
                  if(qabs(a - Bv[i]) > worst) worst = qabs(a - Bv[i]);
               }
               double ratio = dq(worst) / thr(sn);
               if(count) S.maxi("c05.solve/thr", ratio);
               if(ratio > 1)
               {
                  R.set("solve.residual" + sfx, "B * getBasisInverseTimesVecReal(rhs) differs from rhs by " + ds(dq(worst)));
                  { dead.insert("solve"); return; }
               }
            }
         }();
      }
   }
   return R;
}

static void caseC05(long long k, Rng& g)
{
   Sink& S = sink();
   static const std::vector<std::string> fams = {"planted-opt", "badly-scaled", "arbitrary", "degenerate", "badly-scaled", "planted-infeasible", "planted-unbounded", "presolve-rich"};
   std::string fam = fams[(size_t)(k % (long long)fams.size())];
   int mx = g.range(0, 9) == 0 ? 25 : 9;
   Instance I = genFamily(g, fam, mx, mx);
   // the property's explicit cross: representation x scaler x persistent scaling (other algorithmic parameters random)
   ParamSet cfg = randomAlgConfig(g, 0.15);
   cfg.i[SoPlex::REPRESENTATION] = (int)((k / 8) % 3);
   cfg.i[SoPlex::SCALER] = (int)((k / 24) % 7);
   cfg.b[SoPlex::PERSISTENTSCALING] = ((k / 168) % 2) == 0;
   if(g.chance(0.5)) cfg.i[SoPlex::SIMPLIFIER] = 0;
   cfg.normalise();
   int loadMode = g.range(0, 2);
   uint64_t sub = g.next();
   S.begin(k, fam + " " + std::to_string(I.M.m) + "x" + std::to_string(I.M.n) + " " + cfg.key());
   if(!allExactDoubles(I.M))
   {
      S.count("gen.inexact_skipped");
      S.end(k);
      return;
   }
   S.count("cases");
   S.count("family." + fam);
   S.seen("cfg", fnv(cfg.key()));
   S.seen("nontrivial", I.M.signature() ^ fnv(cfg.key()) ^ (sub % 10));
   C04Res r = c05Once(I, cfg, loadMode, sub, true);
   // one finding per failing query kind (a wrong multBasis must not hide a wrong getBasisInverseRowReal and vice versa)
   for(size_t f = 0; f < r.all.size() && f < 5; f++)
   {
      const std::string tag = r.all[f].first;
      ParamSet mc;
      std::string cell = cellKey(cfg, [&](const ParamSet & p)
      {
         return c05Once(I, p, loadMode, sub, false).has(tag);
      }, &mc);
      S.viol("C05:" + tag + ":" + cell, r.all[f].second + " | family " + fam + ", full config " + cfg.key(), replayJson(I.M, cfg, mc, loadMode));
   }
   if(k < 4) S.sample(Json().str("family", fam).num("m", I.M.m).num("n", I.M.n).str("config", cfg.key()).done());
   S.end(k);
}

// ------------------------------------------------------------------------------------------------ C16
struct Baseline
{
   int st = 0, iters = 0;
   double v = 0;
};
static void applyCommon(SoPlex& sp, const ParamSet& cfg, const LPModel& M, int loadMode)
{
   quiet(sp);
   cfg.apply(sp);
   loadReal(sp, M, loadMode);
}
static Baseline baselineSolve(const Instance& I, const ParamSet& cfg, int loadMode)
{
   SoPlex sp;
   applyCommon(sp, cfg, I.M, loadMode);
   sp.optimize();
   Baseline b;
   b.st = (int)sp.status();
   b.iters = sp.numIterations();
   b.v = sp.hasSol() ? sp.objValueReal() : 0;
   return b;
}
// parses the iteration column of the solver's per-iteration log line: " L  |    0.0 |       3 | ..."
static int parseIterLine(const std::string& line)
{
   size_t a = line.find('|');
   if(a == std::string::npos || a > 8) return -1;
   size_t b = line.find('|', a + 1);
   if(b == std::string::npos) return -1;
   size_t c = line.find('|', b + 1);
   if(c == std::string::npos) return -1;
   std::string f = line.substr(b + 1, c - b - 1);
   char* e = nullptr;
   long v = strtol(f.c_str(), &e, 10);
   if(e == f.c_str()) return -1;
   while(*e == ' ') e++;
   if(*e != 0) return -1;
   return (int)v;
}

// mode: 0 iteration limit k, 1 interrupt at iteration k, 2 time limit zero/tiny, 3 objective limit (k encodes the variant 0..5)
static C04Res c16Once(const Instance& I, const ParamSet& cfg, int loadMode, int mode, int k, bool count, const Baseline* known = nullptr)
{
   Sink& S = sink();
   C04Res R;
   const LPModel& M = I.M;
   Baseline base = known ? *known : baselineSolve(I, cfg, loadMode);
   if(!definiteStatus(base.st)) return R;     // baseline itself undecided: nothing to compare with (C01/C02 territory)
   if(I.T.known && I.T.robust)
   {
      int tst = I.T.status == REF_OPTIMAL ? (int)SPX::OPTIMAL : I.T.status == REF_INFEASIBLE ? (int)SPX::INFEASIBLE : (int)SPX::UNBOUNDED;
      if(!sameVerdict(base.st, tst)) return R;
   }
   else return R;     // stop/resume equivalence is judged only on instances with certified, tolerance-robust class
   SoPlex sp;
   applyCommon(sp, cfg, M, loadMode);
   volatile bool flag = false;
   LogCapture lc;
   int expectAbort = 0;
   std::string mname;
   if(mode == 0)
   {
      mname = "iterlimit";
      sp.setIntParam(SoPlex::ITERLIMIT, k, true);
      expectAbort = SPX::ABORT_ITER;
      sp.optimize();
   }
   else if(mode == 1)
   {
      mname = "interrupt";
      lc.attach(sp, 3);
      sp.setIntParam(SoPlex::DISPLAYFREQ, 1, true);
      lc.buf.onLine = [&](const std::string & line)
      {
         int it = parseIterLine(line);
         if(it >= k) flag = true;
      };
      expectAbort = SPX::ABORT_TIME;
      sp.optimize(&flag);
   }
   else if(mode == 2)
   {
      mname = "timelimit";
      sp.setRealParam(SoPlex::TIMELIMIT, k == 0 ? 0.0 : 1e-9, true);
      if(k >= 2) sp.setIntParam(SoPlex::TIMER, k == 2 ? SoPlex::TIMER_WALLCLOCK : SoPlex::TIMER_CPU, true);
      expectAbort = SPX::ABORT_TIME;
      sp.optimize();
   }
   else
   {
      mname = "objlimit";
      if(base.st != SPX::OPTIMAL) return R;
      static const double fr[3] = {1e-3, 1.0, 10.0};
      double delta = fr[k % 3] * (std::fabs(base.v) + 1.0);
      bool beyond = (k % 6) >= 3;     // true: the optimum lies beyond the limit in the direction of optimisation (ABORT_VALUE allowed)
      // variants 0..5: the limit that bounds the direction of optimisation from the far side: minimisation OBJLIMIT_UPPER (beyond means
      // v > limit), maximisation OBJLIMIT_LOWER (v < limit).  variants 6..11: the other limit (minimisation OBJLIMIT_LOWER, maximisation
      // OBJLIMIT_UPPER); "beyond in the direction of optimisation" is then v < limit for minimisation and v > limit for maximisation
      bool other = k >= 6;
      bool useUpper = (M.sense < 0) != other;
      double limit = useUpper == beyond ? base.v - delta : base.v + delta;
      const SoPlex::RealParam lp_ = useUpper ? SoPlex::OBJLIMIT_UPPER : SoPlex::OBJLIMIT_LOWER;
      sp.setRealParam(lp_, limit, true);
      sp.optimize();
      int st = (int)sp.status();
      if(count)
      {
         S.count(std::string("c16.objlimit.") + (other ? "otherlimit." : "") + (beyond ? "beyond." : "harmless.") + statusName(st));
         S.count(std::string("c16.objlimit.sense.") + (M.sense < 0 ? "min" : "max") + (useUpper ? ".upper" : ".lower"));
      }
      if(!beyond)
      {
         if(st == SPX::ABORT_VALUE)
         {
            R.set("objlimit.false-abort", "ABORT_VALUE although the optimum " + ds(base.v) + " does not lie beyond the limit " + ds(limit));
            return R;
         }
         if(!sameVerdict(st, base.st))
         {
            R.set(std::string("objlimit.harmless-changes-status.") + statusName(st), "a limit on the harmless side changed the status");
            return R;
         }
         double rel = std::fabs(sp.objValueReal() - base.v) / (1.0 + std::fabs(base.v));
         if(rel > 1e-5)
         {
            R.set("objlimit.harmless-changes-value", "a limit on the harmless side changed the optimal value to " + ds(sp.objValueReal()));
            return R;
         }
         return R;
      }
      if(st != SPX::ABORT_VALUE && !sameVerdict(st, base.st))
      {
         R.set(std::string("objlimit.status.") + statusName(st), "status with objective limit is neither ABORT_VALUE nor the true status");
         return R;
      }
      if(st == SPX::ABORT_VALUE)
      {
         if(sp.hasBasis())
         {
            std::string r = monitorBasis(sp, M, true);
            if(!r.empty())
            {
               R.set("objlimit.basis." + r.substr(0, r.find(':')), r.substr(r.find(':') + 1));
               return R;
            }
         }
         sp.setRealParam(lp_, useUpper ? soplex::infinity : -soplex::infinity, true);
         sp.optimize();
         if(count) S.count("c16.objlimit.resumed");
         if((int)sp.status() != SPX::OPTIMAL || std::fabs(sp.objValueReal() - base.v) / (1.0 + std::fabs(base.v)) > 1e-5)
            R.set(std::string("objlimit.resume.") + statusName((int)sp.status()), "after lifting the objective limit: status " + std::string(statusName((
                        int)sp.status())) + " value " + ds(sp.hasSol() ? sp.objValueReal() : 0.0) + ", expected OPTIMAL " + ds(base.v));
      }
      return R;
   }
   int st = (int)sp.status();
   int its = sp.numIterations();
   if(count)
   {
      S.count("c16." + mname + ".stops");
      S.count("c16." + mname + ".stopped." + statusName(st));
      if(st == expectAbort) S.count("c16." + mname + ".stopped_inside_solve");
      S.seen("stoppoints", fnv(mname) ^ (uint64_t)k * 1315423911ULL ^ I.M.signature());
   }
   // honest status
   if(st != expectAbort)
   {
      if(!definiteStatus(st))
      {
         R.set(mname + ".status." + statusName(st), std::string("stopped solve returned ") + statusName(st) + " (expected " + statusName(
                  expectAbort) + " or the true status)");
         return R;
      }
      if(!sameVerdict(st, base.st))
      {
         R.set(mname + ".wrong-verdict." + statusName(st), std::string("stopped solve claims ") + statusName(st) + " but the LP is " + statusName(
                  base.st));
         return R;
      }
   }
   if(mode == 0)
   {
      if(count) S.maxi("c16.iterlimit.overshoot", (double)(its - k));
      if(its > k)
      {
         R.set("iterlimit.overshoot", std::to_string(its) + " iterations performed with iteration limit " + std::to_string(k));
         return R;
      }
   }
   if(sp.hasBasis())
   {
      if(count) S.count("c16.basis_after_stop_checked");
      std::string r = monitorBasis(sp, M, true);
      if(!r.empty())
      {
         R.set(mname + ".basis." + r.substr(0, r.find(':')), r.substr(r.find(':') + 1));
         return R;
      }
   }
   // resume with the limit lifted
   if(mode == 0) sp.setIntParam(SoPlex::ITERLIMIT, -1, true);
   if(mode == 2) sp.setRealParam(SoPlex::TIMELIMIT, soplex::infinity, true);
   flag = false;
   lc.buf.onLine = nullptr;
   sp.optimize();
   int st2 = (int)sp.status();
   if(count) S.count("c16." + mname + ".resumed");
   if(!sameVerdict(st2, base.st))
   {
      R.set(mname + ".resume." + statusName(st2), std::string("after lifting the limit the solve ends ") + statusName(st2) + ", uninterrupted " + statusName(
               base.st) + " (stopped with " + statusName(st) + " after " + std::to_string(its) + " iterations)");
      return R;
   }
   if(st2 == SPX::OPTIMAL && base.st == SPX::OPTIMAL)
   {
      double rel = std::fabs(sp.objValueReal() - base.v) / (1.0 + std::fabs(base.v));
      if(count) S.maxi("c16.resumeObj/thr", rel / 1e-5);
      if(rel > 1e-5) R.set(mname + ".resume.objective", "after lifting the limit the optimal value is " + ds(sp.objValueReal()) + ", uninterrupted " + ds(
                                 base.v));
   }
   return R;
}

// exact (rational) solves stopped by a limit: variant 0..3 iteration limit k, 4 refinement limit 0, 5 refinement limit 1 with stalling
// limit 1, 6 time limit 0.  Judged: a definite status must be the certified one and an OPTIMAL answer must carry the exact optimal value;
// after lifting the limit the same object must reach the certified status and the exact optimum.
static C04Res c16Exact(const Instance& I, int variant, bool count)
{
   Sink& S = sink();
   C04Res R;
   const LPModel& M = I.M;
   if(!(I.T.known && I.T.robust) || M.m == 0 || M.n == 0 || M.m > 14 || M.n > 14) return R;
   int tst = I.T.status == REF_OPTIMAL ? (int)SPX::OPTIMAL : I.T.status == REF_INFEASIBLE ? (int)SPX::INFEASIBLE : (int)SPX::UNBOUNDED;
   SoPlex sp;
   quiet(sp);
   sp.setIntParam(SoPlex::SYNCMODE, SoPlex::SYNCMODE_AUTO, true);
   sp.setIntParam(SoPlex::READMODE, SoPlex::READMODE_RATIONAL, true);
   sp.setIntParam(SoPlex::SOLVEMODE, SoPlex::SOLVEMODE_RATIONAL, true);
   sp.setIntParam(SoPlex::CHECKMODE, SoPlex::CHECKMODE_RATIONAL, true);
   sp.setRealParam(SoPlex::FEASTOL, 0.0, true);
   sp.setRealParam(SoPlex::OPTTOL, 0.0, true);
   loadRational(sp, M, 0);
   Q offset = qd(sp.realParam(SoPlex::OBJ_OFFSET));
   std::string mname;
   if(variant <= 3)
   {
      mname = "exact.iterlimit";
      sp.setIntParam(SoPlex::ITERLIMIT, variant, true);
   }
   else if(variant == 4)
   {
      mname = "exact.reflimit0";
      sp.setIntParam(SoPlex::REFLIMIT, 0, true);
   }
   else if(variant == 5)
   {
      mname = "exact.reflimit1";
      sp.setIntParam(SoPlex::REFLIMIT, 1, true);
      sp.setIntParam(SoPlex::STALLREFLIMIT, 1, true);
   }
   else
   {
      mname = "exact.timelimit0";
      sp.setRealParam(SoPlex::TIMELIMIT, 0.0, true);
   }
   auto judge = [&](const char* phase, bool mustDecide)
   {
      int st = (int)sp.status();
      if(count) S.count("c16." + mname + "." + phase + "." + statusName(st));
      if(definiteStatus(st))
      {
         if(!sameVerdict(st, tst))
         {
            R.set(mname + "." + phase + ".status." + statusName(st), std::string("exact solve ") + phase + " reports " + statusName(st) + " but the LP is certified " + statusName(tst));
            return;
         }
         if(st == SPX::OPTIMAL && sp.hasSol())
         {
            Q ov = Q(sp.objValueRational());
            if(ov != I.T.objval + offset && ov != I.T.objval)
               R.set(mname + "." + phase + ".objective", std::string("exact solve ") + phase + " reports OPTIMAL with value " + qs(ov) + ", certified optimum " + qs(I.T.objval));
         }
      }
      else if(mustDecide) R.set(mname + "." + phase + ".undecided." + statusName(st), std::string("after lifting the limit the exact solve ends with ") + statusName(st) + " (certified " + statusName(tst) + ")");
   };
   sp.optimize();
   if(count) S.count("c16.exact.stops");
   judge("stopped", false);
   if(!R.tag.empty()) return R;
   // lift every limit and continue on the same object
   sp.setIntParam(SoPlex::ITERLIMIT, 200000, true);
   sp.setIntParam(SoPlex::REFLIMIT, -1, true);
   sp.setIntParam(SoPlex::STALLREFLIMIT, -1, true);
   sp.setRealParam(SoPlex::TIMELIMIT, 60.0, true);
   sp.optimize();
   if((int)sp.status() == SPX::ABORT_TIME)
   {
      if(count) S.count("c16.exact.inconclusive_time_budget");
      return R;
   }
   if(count) S.count("c16.exact.resumed");
   judge("resumed", true);
   return R;
}

static void caseC16(long long k, Rng& g)
{
   Sink& S = sink();
   static const std::vector<std::string> fams = {"planted-opt", "degenerate", "planted-opt", "planted-infeasible", "planted-unbounded", "arbitrary"};
   std::string fam = fams[(size_t)(k % (long long)fams.size())];
   int mx = g.pick(std::vector<int> {8, 14, 14, 22, 30});
   Instance I = genFamily(g, fam, mx, mx);
   ParamSet cfg = randomAlgConfig(g, 0.12);
   // the property's explicit cross: primal/dual x row/column x simplifier on/off
   cfg.i[SoPlex::ALGORITHM] = (int)((k / 6) % 2);
   cfg.i[SoPlex::REPRESENTATION] = 1 + (int)((k / 12) % 2);
   cfg.i[SoPlex::SIMPLIFIER] = ((k / 24) % 2) ? 3 : 0;
   cfg.normalise();
   int loadMode = g.range(0, 2);
   S.begin(k, fam + " " + std::to_string(I.M.m) + "x" + std::to_string(I.M.n) + " " + cfg.key());
   if(!allExactDoubles(I.M))
   {
      S.count("gen.inexact_skipped");
      S.end(k);
      return;
   }
   ensureTruth(I);
   S.count("cases");
   S.count("family." + fam);
   Baseline base = baselineSolve(I, cfg, loadMode);
   S.count(std::string("c16.baseline.") + statusName(base.st));
   S.maxi("c16.baseline_iterations", base.iters);
   S.seen("nontrivial", I.M.signature() ^ fnv(cfg.key()));
   int N = base.iters;
   std::vector<std::pair<int, int>> pts;   // (mode, k)
   int cap = cli.thorough() ? 150 : 24;
   for(int mode = 0; mode <= 1; mode++)
   {
      if(N + 1 <= cap) for(int t = 0; t <= N; t++) pts.push_back({mode, t});
      else
      {
         std::set<int> chosen = {0, 1, N - 1, N};
         while((int)chosen.size() < cap) chosen.insert(g.range(0, N));
         for(int t : chosen) pts.push_back({mode, t});
      }
   }
   for(int t = 0; t < 4; t++) pts.push_back({2, t});
   for(int t = 0; t < 12; t++) pts.push_back({3, t});
   bool reported = false;
   for(auto& pt : pts)
   {
      C04Res r = c16Once(I, cfg, loadMode, pt.first, pt.second, true, &base);
      S.count("c16.stop_points");
      if(!r.tag.empty() && !reported)
      {
         reported = true;      // one finding per case is enough (keys are deduplicated anyway)
         ParamSet mc;
         std::string cell = cellKey(cfg, [&](const ParamSet & p)
         {
            return c16Once(I, p, loadMode, pt.first, pt.second, false).tag == r.tag;
         }, &mc);
         S.viol("C16:" + r.tag + ":" + cell, r.detail + " | stop point k=" + std::to_string(pt.second) + " of N=" + std::to_string(N) + ", family " + fam +
                ", full config " + cfg.key(), replayJson(I.M, cfg, mc, loadMode));
      }
   }
   // exact solves with limits (default exact configuration; the algorithmic configuration of the case is not applied)
   if(!reported)
      for(int v = 0; v < 7; v++)
      {
         C04Res r = c16Exact(I, v, true);
         if(!r.tag.empty())
         {
            S.viol("C16:" + r.tag + ":{}", r.detail + " | family " + fam + " " + std::to_string(I.M.m) + "x" + std::to_string(I.M.n), replayJson(I.M, ParamSet(), ParamSet(), 0));
            break;
         }
      }
   if(k < 4) S.sample(Json().str("family", fam).num("m", I.M.m).num("n", I.M.n).str("config", cfg.key()).num("N", N).num("stop_points",
                         (long long)pts.size()).done());
   S.end(k);
}

// ------------------------------------------------------------------------------------------------ C17
// full observable snapshot of a solver object as a string (bitwise for reals)
static std::string hexd(double d)
{
   char b[24];
   snprintf(b, sizeof b, "%016llx", (unsigned long long)dbits(d));
   return b;
}
static std::string snapLP(SoPlex& sp)
{
   std::ostringstream o;
   int m = sp.numRows(), n = sp.numCols();
   o << m << "x" << n << " nnz" << sp.numNonzeros() << " sense" << sp.intParam(SoPlex::OBJSENSE) << "|";
   for(int i = 0; i < m; i++)
   {
      o << hexd(sp.lhsReal(i)) << hexd(sp.rhsReal(i)) << ":";
      DSVectorReal r;
      sp.getRowVectorReal(i, r);
      std::vector<std::pair<int, double>> e;
      for(int t = 0; t < r.size(); t++) e.push_back({r.index(t), r.value(t)});
      std::sort(e.begin(), e.end());
      for(auto& p : e) o << p.first << "=" << hexd(p.second) << ",";
      o << ";";
   }
   for(int j = 0; j < n; j++) o << hexd(sp.lowerReal(j)) << hexd(sp.upperReal(j)) << hexd(sp.objReal(j)) << ";";
   return o.str();
}
static std::string snapParams(SoPlex& sp)
{
   std::ostringstream o;
   for(int i = 0; i < SoPlex::BOOLPARAM_COUNT; i++) o << sp.boolParam((SoPlex::BoolParam)i);
   o << "|";
   for(int i = 0; i < SoPlex::INTPARAM_COUNT; i++) o << sp.intParam((SoPlex::IntParam)i) << ",";
   o << "|";
   for(int i = 0; i < SoPlex::REALPARAM_COUNT; i++) o << hexd(sp.realParam((SoPlex::RealParam)i)) << ",";
   o << "|seed" << sp.randomSeed();
   // derived tolerance state that a user can observe through tolerances()
   o << "|tol" << hexd(sp.tolerances()->epsilon()) << hexd(sp.tolerances()->floatingPointFeastol()) << hexd(
        sp.tolerances()->floatingPointOpttol()) << hexd(sp.tolerances()->epsilonFactorization()) << hexd(sp.tolerances()->epsilonUpdate()) << hexd(
        sp.tolerances()->epsilonPivot());
   return o.str();
}
static std::string snapSol(SoPlex& sp, bool withIters = true)
{
   std::ostringstream o;
   int m = sp.numRows(), n = sp.numCols();
   o << "st" << (int)sp.status() << " hasSol" << sp.hasSol() << " hasBasis" << sp.hasBasis();
   if(withIters) o << " it" << sp.numIterations();
   o << "|";
   if(sp.hasBasis())
   {
      std::vector<VarStatus> a(m + 1), b(n + 1);
      sp.getBasis(a.data(), b.data());
      for(int i = 0; i < m; i++) o << (int)a[i];
      o << "/";
      for(int j = 0; j < n; j++) o << (int)b[j];
   }
   o << "|";
   if(sp.hasSol())
   {
      VectorReal x(n), sl(m), y(m), r(n);
      if(sp.getPrimal(x)) for(int j = 0; j < n; j++) o << hexd(x[j]);
      o << "/";
      if(sp.getSlacksReal(sl)) for(int i = 0; i < m; i++) o << hexd(sl[i]);
      o << "/";
      if(sp.getDual(y)) for(int i = 0; i < m; i++) o << hexd(y[i]);
      o << "/";
      if(sp.getRedCost(r)) for(int j = 0; j < n; j++) o << hexd(r[j]);
      o << "/" << hexd(sp.objValueReal());
   }
   if(sp.hasPrimalRay())
   {
      VectorReal d(n);
      if(sp.getPrimalRay(d)) for(int j = 0; j < n; j++) o << hexd(d[j]);
   }
   if(sp.hasDualFarkas())
   {
      VectorReal d(m);
      if(sp.getDualFarkas(d)) for(int i = 0; i < m; i++) o << hexd(d[i]);
   }
   return o.str();
}
static std::string firstDiff(const std::string& a, const std::string& b)
{
   size_t i = 0;
   while(i < a.size() && i < b.size() && a[i] == b[i]) i++;
   size_t s0 = i > 30 ? i - 30 : 0;
   return "at offset " + std::to_string(i) + ": '" + a.substr(s0, 70) + "' vs '" + b.substr(s0, 70) + "'";
}
// solution snapshot without the iteration count / status prefix fields?  No: the property demands equal iteration counts too.

static void randomModification(Rng& g, SoPlex& sp)
{
   int m = sp.numRows(), n = sp.numCols();
   int w = g.range(0, 7);
   if(w == 0 && n > 0) sp.changeObjReal(g.range(0, n - 1), (double)g.range(-9, 9));
   else if(w == 1 && n > 0)
   {
      int j = g.range(0, n - 1);
      double lo = g.range(-5, 5);
      sp.changeBoundsReal(j, lo, lo + g.range(0, 6));
   }
   else if(w == 2 && m > 0)
   {
      int i = g.range(0, m - 1);
      double lo = g.range(-9, 9);
      sp.changeRangeReal(i, lo, lo + g.range(0, 9));
   }
   else if(w == 3 && m > 0 && n > 0) sp.changeElementReal(g.range(0, m - 1), g.range(0, n - 1), (double)g.range(-5, 5));
   else if(w == 4 && n > 0)
   {
      DSVectorReal c(m + 1);
      for(int i = 0; i < m; i++) if(g.chance(0.4)) c.add(i, (double)smallNonzero(g, 5));
      sp.addColReal(LPColReal((double)g.range(-5, 5), c, (double)g.range(3, 9), (double)g.range(-3, 2)));
   }
   else if(w == 5)
   {
      DSVectorReal r(n + 1);
      for(int j = 0; j < n; j++) if(g.chance(0.4)) r.add(j, (double)smallNonzero(g, 5));
      sp.addRowReal(LPRowReal((double)g.range(-9, 0), r, (double)g.range(1, 9)));
   }
   else if(w == 6 && m > 1) sp.removeRowReal(g.range(0, m - 1));
   else if(n > 1) sp.removeColReal(g.range(0, n - 1));
}
static void randomParamChange(Rng& g, SoPlex& sp)
{
   int w = g.range(0, 6);
   if(w == 0) sp.setRealParam(SoPlex::FEASTOL, g.pick(std::vector<double> {1e-5, 1e-7, 1e-8}));
   else if(w == 1) sp.setRealParam(SoPlex::OPTTOL, g.pick(std::vector<double> {1e-5, 1e-7, 1e-8}));
   else if(w == 2) sp.setRealParam(SoPlex::EPSILON_ZERO, g.pick(std::vector<double> {1e-14, 1e-12, 1e-18}));
   else if(w == 3) sp.setIntParam(SoPlex::PRICER, g.range(0, 5));
   else if(w == 4) sp.setIntParam(SoPlex::SCALER, g.pick(std::vector<int> {0, 1, 2, 3, 4, 6}));
   else if(w == 5) sp.setRealParam(SoPlex::EPSILON_PIVOT, g.pick(std::vector<double> {1e-9, 1e-11}));
   else sp.setBoolParam(SoPlex::ROWBOUNDFLIPS, g.chance(0.5));
}

static C04Res c17Once(const Instance& I, const ParamSet& cfg, int loadMode, uint64_t subseed, bool count)
{
   Sink& S = sink();
   C04Res R;
   Rng g(1717, subseed, 17);
   const LPModel& M = I.M;
   int scenario = g.range(0, 13);
   auto mk = [&](SoPlex & sp)
   {
      applyCommon(sp, cfg, M, loadMode);
      sp.setIntParam(SoPlex::ITERLIMIT, 100000, true);
   };
   if(scenario >= 10)
   {
      // (scenarios 10..13) state leaking between solves: object A solves the LP, is then modified through the API and solved again without a basis;
      // object B receives the same LP and the same modifications but never saw the first solve.  Bit-identical paths are not claimed
      // across histories (persistent scaling factors legitimately differ); the verdict and the optimal value are, and they are judged
      // only where the modified LP has a certified, tolerance-robust class and the fresh object itself agrees with it.
      uint64_t scen = g.next();
      int nmod = g.range(1, 4);
      SoPlex a, b;
      mk(a);
      mk(b);
      a.optimize();
      for(int t = 0; t < nmod; t++)
      {
         Rng ha(77, scen, (uint64_t)t), hb(77, scen, (uint64_t)t);
         bool generic = ha.chance(0.5);
         hb.chance(0.5);       // keep both streams aligned
         if(generic)
         {
            randomModification(ha, a);
            randomModification(hb, b);
         }
         else
         {
            // move one side of a row (or one bound) by a sizeable integer amount: makes the earlier optimum / earlier bounds on the
            // optimal value stale in a definite direction
            int m_ = a.numRows(), n_ = a.numCols();
            int w = ha.range(0, 2);
            double d = (double)(ha.chance(0.5) ? ha.range(1, 12) : -ha.range(1, 12));
            for(SoPlex* sp : {&a, &b})
            {
               if(w <= 1 && m_ > 0)
               {
                  int i = (int)(scen % (uint64_t)m_);
                  double l = sp->lhsReal(i), r = sp->rhsReal(i);
                  if(l > -soplex::infinity && (w == 0 || r >= soplex::infinity))
                  {
                     double nl = l + d;
                     sp->changeLhsReal(i, r < soplex::infinity && nl > r ? r : nl);
                  }
                  else if(r < soplex::infinity)
                  {
                     double nr = r + d;
                     sp->changeRhsReal(i, l > -soplex::infinity && nr < l ? l : nr);
                  }
               }
               else if(n_ > 0)
               {
                  int j = (int)(scen % (uint64_t)n_);
                  double l = sp->lowerReal(j), u = sp->upperReal(j);
                  if(l > -soplex::infinity)
                  {
                     double nl = l + d;
                     sp->changeLowerReal(j, u < soplex::infinity && nl > u ? u : nl);
                  }
                  else if(u < soplex::infinity) sp->changeUpperReal(j, u + d);
               }
            }
         }
      }
      a.clearBasis();
      if(snapLP(a) != snapLP(b))
      {
         if(count) S.count("c17.history.lp_mismatch_skipped");      // accessor-level disagreement is C06's subject, not judged here
         return R;
      }
      Instance I2;
      I2.M = readBackReal(b);
      if(!allExactDoubles(I2.M) || I2.M.m == 0 || M.family == "badly-scaled") return R;     // badly scaled data: no tolerance-robust class
      ensureTruth(I2);
      int it0 = a.numIterations(), st0 = (int)a.status();
      a.optimize();
      b.optimize();
      if(verbose && count)
         fprintf(stderr, "history scenario: first solve %s (%d it), %d modifications, LP now\n%s\nA: %s (%d it) B: %s (%d it)\n", statusName(st0), it0, nmod,
                 I2.M.toLPText().c_str(), statusName((int)a.status()), a.numIterations(), statusName((int)b.status()), b.numIterations());
      if(count) S.count("c17.history.compared");
      if(!(I2.T.known && I2.T.robust)) return R;
      int tst = I2.T.status == REF_OPTIMAL ? (int)SPX::OPTIMAL : I2.T.status == REF_INFEASIBLE ? (int)SPX::INFEASIBLE : (int)SPX::UNBOUNDED;
      int sa = (int)a.status(), sb = (int)b.status();
      if(count) S.count("c17.history.certified");
      if(!definiteStatus(sb) || !sameVerdict(sb, tst)) return R;       // the fresh object itself is off: C01/C02 territory
      if(tst == SPX::OPTIMAL && std::fabs(b.objValueReal() - dq(I2.T.objval)) > 1e-6 * (1.0 + std::fabs(dq(I2.T.objval)))) return R;
      if(count) S.count("c17.history.judged");
      if(definiteStatus(sa) && !sameVerdict(sa, tst))
         R.set(std::string("history-dependent.status.") + statusName(sa), std::string("after an earlier solve, modifications and clearBasis() the object reports ") + statusName(
                  sa) + " where a new object with the same LP and parameters reports " + statusName(sb) + " (certified: " + statusName(tst) + ")");
      else if(sa == SPX::OPTIMAL && tst == SPX::OPTIMAL && std::fabs(a.objValueReal() - dq(I2.T.objval)) > 1e-6 * (1.0 + std::fabs(dq(I2.T.objval))))
         R.set("history-dependent.objective", "after an earlier solve, modifications and clearBasis() the object reports optimal value " + ds(a.objValueReal()) +
               " where a new object with the same LP reports " + ds(b.objValueReal()) + " (certified " + ds(dq(I2.T.objval)) + ")");
      return R;
   }
   if(scenario <= 2)
   {
      // twins
      SoPlex a, b;
      mk(a);
      mk(b);
      a.optimize();
      b.optimize();
      if(count) S.count("c17.twin_solves");
      std::string sa = snapSol(a), sb = snapSol(b);
      if(sa != sb) R.set("twins-differ", "two objects with the same LP, parameters and seed differ: " + firstDiff(sa, sb));
      return R;
   }
   if(scenario <= 4)
   {
      // same object, clearBasis, solve again
      SoPlex a;
      mk(a);
      unsigned seed0 = a.randomSeed();
      a.optimize();
      std::string s1 = snapSol(a);
      a.clearBasis();
      if(cli.extra.count("reseed")) a.setRandomSeed(seed0);
      a.optimize();
      std::string s2 = snapSol(a);
      if(count) S.count("c17.resolve_after_clearBasis");
      if(s1 != s2) R.set("resolve-after-clearBasis-differs", "solving the same unmodified object again after clearBasis() differs: " + firstDiff(s1, s2));
      return R;
   }
   // copies: build a history on A, copy at a random point, compare, then test independence both ways.
   // Independence is judged against a "parallel universe": the identical scenario in which the other object is left alone.
   uint64_t scen = g.next();
   std::string nextSolve[2];
   for(int universe = 0; universe < 2 && R.tag.empty(); universe++)
   {
      bool hammer = universe == 0;
      Rng h(4711, scen, 3);
      std::unique_ptr<SoPlex> A(new SoPlex());
      mk(*A);
      int point = h.range(0, 4);       // 0 before solve, 1 after solve, 2 after aborted solve, 3 after solve+modification, 4 after solve+clearBasis
      if(point >= 1)
      {
         if(point == 2) A->setIntParam(SoPlex::ITERLIMIT, h.range(0, 4), true);
         A->optimize();
         if(point == 2) A->setIntParam(SoPlex::ITERLIMIT, 100000, true);
         if(point == 3) randomModification(h, *A);
         if(point == 4) A->clearBasis();
      }
      bool byAssign = h.chance(0.5);
      std::unique_ptr<SoPlex> B;
      if(byAssign)
      {
         B.reset(new SoPlex());
         quiet(*B);
         Planted pp;
         Rng g2(5, subseed, 1);
         LPModel other = genPlantedOpt(g2, pp, 4, 4, false);
         loadReal(*B, other, 0);
         if(h.chance(0.5)) B->optimize();
         *B = *A;
      }
      else B.reset(new SoPlex(*A));
      const char* how = byAssign ? "assign" : "copyctor";
      if(count && universe == 0) S.count(std::string("c17.copies.") + how + ".point" + std::to_string(point));
      if(universe == 0)
      {
         std::string la = snapLP(*A), lb = snapLP(*B);
         if(la != lb)
         {
            R.set(std::string("copy-unequal.lp.") + how, "copy has a different LP: " + firstDiff(la, lb));
            break;
         }
         std::string pa = snapParams(*A), pb = snapParams(*B);
         if(pa != pb)
         {
            R.set(std::string("copy-unequal.params.") + how, "copy has different parameters: " + firstDiff(pa, pb));
            break;
         }
         {
            // the position of the random generator that draws the perturbation shifts is part of what "same random seed" means: a copy
            // whose generator is rewound or re-seeded follows a different path than its source in every later solve (hooked state,
            // read through the opened private section; the unchanged copy constructor and operator= copy the generator verbatim)
            const Random& ra = A->_solver.random;
            const Random& rb = B->_solver.random;
            if(count) S.count("c17.copy_random_state_compared");
            if(count && (ra.lin_seed != Random(ra.getSeed()).lin_seed || ra.xor_seed != Random(ra.getSeed()).xor_seed)) S.count("c17.copy_random_state_compared.generator-advanced");
            if(ra.seedshift != rb.seedshift || ra.lin_seed != rb.lin_seed || ra.xor_seed != rb.xor_seed || ra.mwc_seed != rb.mwc_seed || ra.cst_seed != rb.cst_seed)
            {
               R.set(std::string("copy-unequal.random-state.") + how, "the random generator of the copy is not in the state of the source's generator: source (shift,lin,xor,mwc,cst)=("
                     + std::to_string(ra.seedshift) + "," + std::to_string(ra.lin_seed) + "," + std::to_string(ra.xor_seed) + "," + std::to_string(ra.mwc_seed) + "," + std::to_string(ra.cst_seed)
                     + "), copy=(" + std::to_string(rb.seedshift) + "," + std::to_string(rb.lin_seed) + "," + std::to_string(rb.xor_seed) + "," + std::to_string(rb.mwc_seed) + "," + std::to_string(rb.cst_seed) + ")");
               break;
            }
         }
         std::string sa = snapSol(*A, false), sb = snapSol(*B, false);
         if(sa != sb)
         {
            R.set(std::string("copy-unequal.solution.") + how + ".point" + std::to_string(point), "copy has different status/basis/solution: " + firstDiff(sa,
                  sb));
            break;
         }
      }
      bool alsoResolve = h.chance(0.4);
      if(alsoResolve)
      {
         // a re-solve of both must agree in verdict and optimal value (bit-identical paths are not claimed for copies)
         A->optimize();
         B->optimize();
         if(universe == 0)
         {
            if(count) S.count("c17.copy_resolve_compared");
            int sa = (int)A->status(), sb = (int)B->status();
            bool da = definiteStatus(sa), db = definiteStatus(sb);
            if(da && db && !sameVerdict(sa, sb))
            {
               // two different definite verdicts: only a violation where the LP has one certified, tolerance-robust class (an LP that is
               // both primal and dual infeasible, or sits on a tolerance boundary, may legitimately be classified either way)
               Instance I2;
               I2.M = readBackReal(*B);
               if(allExactDoubles(I2.M) && M.family != "badly-scaled") ensureTruth(I2);     // badly scaled data: no tolerance-robust class
               if(I2.T.known && I2.T.robust) R.set(std::string("copy-resolve-status.") + how, std::string("source re-solved: ") + statusName(sa) + ", copy re-solved: " + statusName(sb));
               else if(count) S.count("c17.note.copy_resolve_verdicts_differ_on_uncertified_lp");
            }
            else if(sa == SPX::OPTIMAL && sb == SPX::OPTIMAL && M.family != "badly-scaled")
            {
               // (on badly scaled data a tolerance-level move of the point changes the objective by large relative amounts: not judged)
               double va = A->objValueReal(), vb = B->objValueReal();
               if(std::fabs(va - vb) > 1e-6 * (1.0 + std::fabs(va))) R.set(std::string("copy-resolve-objective.") + how, "source re-solved: " + ds(va) + ", copy re-solved: " + ds(vb));
            }
            if(snapSol(*A) != snapSol(*B) && count) S.count("c17.note.copy_resolve_not_bit_identical");
            if(!R.tag.empty()) break;
         }
      }
      bool victimIsCopy = h.chance(0.5);
      SoPlex* V = victimIsCopy ? B.get() : A.get();
      std::unique_ptr<SoPlex>& Hp = victimIsCopy ? A : B;
      std::string vlp = snapLP(*V), vpar = snapParams(*V), vsol = snapSol(*V, false);
      int nops = h.range(2, 8);
      bool destroyed = false;
      {
         // draw the hammer script in both universes so that the random stream stays aligned
         for(int t = 0; t < nops; t++)
         {
            int w = h.range(0, 5);
            Rng hs(99, scen, (uint64_t)t);
            if(!hammer) continue;
            if(w <= 1) randomModification(hs, *Hp);
            else if(w == 2) randomParamChange(hs, *Hp);
            else if(w == 3) Hp->optimize();
            else if(w == 4) Hp->clearBasis();
            else Hp->setIntParam(SoPlex::OBJSENSE, -Hp->intParam(SoPlex::OBJSENSE));
         }
         destroyed = h.chance(0.5);
         if(hammer && destroyed) Hp.reset();
      }
      const char* dir = victimIsCopy ? "source-affects-copy" : "copy-affects-source";
      if(hammer)
      {
         if(count) S.count(std::string("c17.independence.") + (victimIsCopy ? "modify-source" : "modify-copy") + (destroyed ? ".destroy" : ""));
         std::string a1 = snapLP(*V), a2 = snapParams(*V), a3 = snapSol(*V, false);
         if(a1 != vlp)
         {
            R.set(std::string("dependent.lp.") + dir, "LP of one object changed by operations on the other: " + firstDiff(vlp, a1));
            break;
         }
         if(a2 != vpar)
         {
            R.set(std::string("dependent.params.") + dir, "parameters/tolerances of one object changed by operations on the other: " + firstDiff(vpar, a2));
            break;
         }
         if(a3 != vsol)
         {
            R.set(std::string("dependent.solution.") + dir, "status/basis/solution of one object changed by operations on the other: " + firstDiff(vsol, a3));
            break;
         }
      }
      V->optimize();
      nextSolve[universe] = snapSol(*V);
      if(universe == 1)
      {
         if(count) S.count("c17.independence_next_solve_compared");
         if(nextSolve[0] != nextSolve[1]) R.set(std::string("dependent.next-solve.") + dir,
                                                   "the next solve of the untouched object depends on whether the other object was modified/solved/destroyed: " + firstDiff(nextSolve[1], nextSolve[0]));
      }
   }
   return R;
}

static void caseC17(long long k, Rng& g)
{
   Sink& S = sink();
   static std::vector<ParamSet> pw = pairwiseConfigs(cli.seed + 17);
   static const std::vector<std::string> fams = {"planted-opt", "degenerate", "arbitrary", "presolve-rich", "planted-infeasible", "planted-unbounded", "badly-scaled"};
   std::string fam = fams[(size_t)(k % (long long)fams.size())];
   int mx = g.range(0, 9) == 0 ? 25 : 10;
   Instance I = genFamily(g, fam, mx, mx);
   ParamSet cfg = (k / 7) % 3 != 2 ? pw[(size_t)((k / 7) % (long long)pw.size())] : randomAlgConfig(g);
   if(g.chance(0.25)) cfg = ParamSet();
   int loadMode = g.range(0, 2);
   uint64_t sub = g.next();
   S.begin(k, fam + " " + std::to_string(I.M.m) + "x" + std::to_string(I.M.n) + " " + cfg.key());
   if(!allExactDoubles(I.M))
   {
      S.count("gen.inexact_skipped");
      S.end(k);
      return;
   }
   S.count("cases");
   S.count("family." + fam);
   S.seen("cfg", fnv(cfg.key()));
   S.seen("nontrivial", I.M.signature() ^ fnv(cfg.key()) ^ (sub % 1000));
   C04Res r = c17Once(I, cfg, loadMode, sub, true);
   if(!r.tag.empty())
   {
      ParamSet mc;
      std::string cell = cellKey(cfg, [&](const ParamSet & p)
      {
         return c17Once(I, p, loadMode, sub, false).tag == r.tag;
      }, &mc);
      S.viol("C17:" + r.tag + ":" + cell, r.detail + " | family " + fam + ", full config " + cfg.key(), replayJson(I.M, cfg, mc, loadMode));
   }
   if(k < 4) S.sample(Json().str("family", fam).num("m", I.M.m).num("n", I.M.n).str("config", cfg.key()).done());
   S.end(k);
}

int main(int argc, char** argv)
{
   cli.parse(argc, argv);
   verbose = cli.extra.count("verbose") > 0;
   Sink& S = sink();
   S.prop = cli.prop;
   selfTestOracles();
   for(long long k = cli.from; k < cli.to; k++)
   {
      Rng g(fnv(cli.prop), cli.seed, (uint64_t)k);
      if((cli.prop == "C01" || cli.prop == "C02") && cli.sub == "netlib") caseNetlib(k, g, cli.prop);
      else if(cli.prop == "C01") caseC01(k, g);
      else if(cli.prop == "C02") caseC02(k, g);
      else if(cli.prop == "C04") caseC04(k, g);
      else if(cli.prop == "C05") caseC05(k, g);
      else if(cli.prop == "C16") caseC16(k, g);
      else if(cli.prop == "C17") caseC17(k, g);
      else
      {
         fprintf(stderr, "h_solve: unknown property %s\n", cli.prop.c_str());
         return 2;
      }
   }
   S.finish();
   return 0;
}
