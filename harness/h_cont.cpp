// harness/h_cont.cpp -- property C19: containers and sparse vectors behave as their abstract data types.
// Model-based testing of the elementary containers of src/soplex (see DESIGN.md "C19"): every unit (cont_sets.cpp,
// cont_misc.cpp, cont_vec.cpp) owns one container under test and a reference model built from std:: containers and exact
// rational arithmetic, executes one public operation at a time with valid arguments and compares the full observable state
// (plus the project's own isConsistent() under ENABLE_CONSISTENCY_CHECKS) after every operation.
//
// Case k -> unit u = k mod NU, block j = k div NU.  If j is a multiple of P and c = j/P < EC, the case is chunk c of the
// bounded-exhaustive enumeration of all operation sequences of length L over the unit's exhaustive alphabet (every EC-th
// sequence, starting at c); every other case is one long random operation sequence seeded by (prop, seed, k).  L, EC and the
// period P (which spreads the expensive exhaustive cases evenly over the case range) come from the stage arguments, so
// everything is a pure function of (prop, seed, k).
#include "cont_common.hpp"
#include <unistd.h>
#include <sys/wait.h>
#include <sys/types.h>
#include <fcntl.h>
#include <signal.h>
#include <sys/resource.h>

namespace cont
{
using namespace soplex;

Hazards& hazards()
{
   static Hazards h;
   return h;
}

static std::string g_tmpdir = ".";

int forkProbe(const std::function<bool()>& fn, int timeoutSec, std::string* errText, int cpuSec)
{
   fflush(stdout);
   fflush(stderr);
   std::string errFile = g_tmpdir + "/probe." + std::to_string((long)getpid()) + ".err";
   pid_t pid = fork();
   if(pid < 0) return 3;
   if(pid == 0)
   {
      int fd = open(errFile.c_str(), O_WRONLY | O_CREAT | O_TRUNC, 0600);
      if(fd >= 0)
      {
         dup2(fd, 2);
         close(fd);
      }
      int nul = open("/dev/null", O_WRONLY);
      if(nul >= 0) dup2(nul, 1);
      alarm((unsigned)timeoutSec);
      if(cpuSec > 0)
      {
         struct rlimit rl;
         rl.rlim_cur = (rlim_t)cpuSec;
         rl.rlim_max = (rlim_t)cpuSec + 1;
         setrlimit(RLIMIT_CPU, &rl);
      }
      bool ok = false;
      try
      {
         ok = fn();
      }
      catch(...)
      {
         ok = false;
      }
      _exit(ok ? 0 : 1);
   }
   int st = 0;
   waitpid(pid, &st, 0);
   if(errText)
   {
      FILE* f = fopen(errFile.c_str(), "r");
      if(f)
      {
         char buf[2048];
         size_t n = fread(buf, 1, sizeof buf - 1, f);
         buf[n] = 0;
         *errText = buf;
         fclose(f);
      }
   }
   unlink(errFile.c_str());
   if(WIFEXITED(st)) return WEXITSTATUS(st) == 0 ? 0 : 1;
   if(WIFSIGNALED(st) && (WTERMSIG(st) == SIGALRM || WTERMSIG(st) == SIGXCPU || WTERMSIG(st) == SIGKILL)) return 3;
   return 2;
}

struct CI2
{
   int v;
   int w;
   CI2() : v(-7), w(7) {}
   CI2(const CI2& o) : v(o.v), w(o.w) {}
   CI2& operator=(const CI2& o)
   {
      v = o.v;
      w = o.w;
      return *this;
   }
};

// Inference probes: decide from a non-crashing variant of a call whether the crashing variant may be executed in process.
void probeHazards(Unit* reporter)
{
   Hazards& H = hazards();
   if(H.probed) return;
   H.probed = true;
   Sink& S = sink();
   {
      // SVectorBase::remove(n,m): 4 nonzeros, remove(1,2) leaves 2; a wrong size means that remove(n, size()-1) would loop ~2^32 times
      Nonzero<double> mem[6];
      SVectorBase<double> v(6, mem);
      for(int i = 0; i < 4; i++) v.add(i, 1.0 + i);
      v.remove(1, 2);
      H.svecRemoveTail = !(v.size() == 2 && v[0] == 1.0 && v[3] == 4.0);
   }
   {
      int buf[6] = { -99, 10, 20, 30, -99, -99};
      IdxSet ix(4, buf + 1, 3);
      ix.remove(1, 2);
      H.idxRemoveTail = !(ix.size() == 1 && buf[1] == 10 && buf[0] == -99);
   }
   {
      Array<double> a(0);
      a.push_back(1.0);
      a.push_back(2.0);
      a.push_back(3.0);
      double x = 99.0;
      a.insert(1, 1, x);
      H.arrayInsert0 = !(a.size() == 4 && a[1] == 99.0 && a[0] == 1.0);
   }
   {
      SVSetBase<double> s;
      DSVectorBase<double> d1, d2;
      d1.add(0, 1.0);
      d2.add(1, 2.0);
      SVectorBase<double> sv[2] = {SVectorBase<double>(static_cast<const SVectorBase<double>&>(d1)), SVectorBase<double>(static_cast<const SVectorBase<double>&>(d2))};
      DataKey keys[2];
      s.add(keys, sv, 2);
      H.svsetAddKeys0 = !(keys[0].idx >= 0 && keys[1].idx >= 0);
   }
   {
      // xtend() of the last vector when ensureMem() packs the memory: afterwards the vector must still live inside the arena
      SVSetBase<double> s(2, 3);
      DSVectorBase<double> e;
      s.add(e);
      s.memRemax(1);
      s.xtend(s[0], 2);
      const Nonzero<double>* lo = s.SVSetBase<double>::SVSetBaseArray::get_const_ptr();
      const Nonzero<double>* m = s[0].mem();
      H.xtendLastStale = !(s[0].max() >= 2 && m >= lo && m + s[0].max() <= lo + s.memSize());
   }
#if defined(__SANITIZE_ADDRESS__)
   {
      std::string err;
      int r = forkProbe([]()
      {
         ClassSet<CI2> cs(8);
         DataKey k;
         CI2 it;
         cs.add(k, it);
         cs.add(k, it);
         cs.reMax(0);
         return cs.max() == 2 && cs.num() == 2;
      }, 30, &err);
      H.classSetShrink = (r != 0);
      S.count(std::string("probe.classSetShrink.") + (r == 0 ? "ok" : r == 1 ? "wrong" : r == 2 ? "crash" : "hang"));
      if(r != 0 && reporter)
      {
         std::string kind = "crash";
         size_t p = err.find("AddressSanitizer: ");
         if(p != std::string::npos)
         {
            kind = err.substr(p + 18, 40);
            kind = kind.substr(0, kind.find_first_of(" \n"));
         }
         if(r == 1 && p == std::string::npos) kind = "wrong-result";
         if(r == 3) kind = "hang";
         std::string savedName = reporter->name;
         reporter->name = "ClassSet";
         reporter->fail("reMax(shrink)", "probe:" + kind,
                        "ClassSet<T>(8) with 2 elements, reMax(0): forked probe ended with " + kind + " (reMax copies max() old items into newmax slots); " +
                        err.substr(0, 600));
         reporter->name = savedName;
         reporter->bad = false;
      }
   }
   {
      std::string err;
      int r = forkProbe([]()
      {
         // dim 3, index memory of 3 entries; A[0] fills all 3 positions, the element of A[1] is then written to idx[3]
         SVSetBase<double> A(8, 8);
         DSVectorBase<double> c0, c1, e;
         c0.add(0, 1.0);
         c0.add(1, 2.0);
         c0.add(2, 3.0);
         c1.add(1, 1.0);
         A.add(c0);
         A.add(c1);
         for(int i = 0; i < 6; i++) A.add(e);
         auto tol = std::make_shared<Tolerances>();
         SSVectorBase<double> x(8, tol), y(3, tol);
         x.setValue(0, 1.0);
         x.setValue(1, 1.0);
         int ns = 0, nf = 0;
         y.assign2product4setup(A, x, nullptr, nullptr, ns, nf);
         return y[0] == 1.0 && y[1] == 3.0 && y[2] == 3.0;
      }, 30, &err);
      H.a2pShortOverflow = (r != 0);
      S.count(std::string("probe.a2pShortOverflow.") + (r == 0 ? "ok" : r == 1 ? "wrong" : r == 2 ? "crash" : "hang"));
      if(r != 0 && reporter)
      {
         std::string kind = "crash";
         size_t p = err.find("AddressSanitizer: ");
         if(p != std::string::npos)
         {
            kind = err.substr(p + 18, 40);
            kind = kind.substr(0, kind.find_first_of(" \n"));
         }
         else if(r == 1) kind = "wrong-result";
         std::string savedName = reporter->name;
         reporter->name = "Vec.double";
         reporter->fail("SSVector.assign2product4setup", "probe:" + kind,
                        "SSVectorBase<double>(3) := A * x through assign2productShort with a result that fills all 3 positions after the first column: "
                        "forked probe ended with " + kind + " (idx[nonzero_idx] is written before the position is known to be new); " + err.substr(0, 500));
         reporter->name = savedName;
         reporter->bad = false;
      }
   }
#else
   H.classSetShrink = true;     // cannot be decided without AddressSanitizer: the shrinking variants are left to the asan stage
   H.a2pShortOverflow = true;
   S.count("probe.classSetShrink.assumed");
   S.count("probe.a2pShortOverflow.assumed");
#endif
   S.count(std::string("hazard.svecRemoveTail.") + (H.svecRemoveTail ? "present" : "absent"));
   S.count(std::string("hazard.idxRemoveTail.") + (H.idxRemoveTail ? "present" : "absent"));
   S.count(std::string("hazard.arrayInsert0.") + (H.arrayInsert0 ? "present" : "absent"));
   S.count(std::string("hazard.svsetAddKeys0.") + (H.svsetAddKeys0 ? "present" : "absent"));
   S.count(std::string("hazard.xtendLastStale.") + (H.xtendLastStale ? "present" : "absent"));
}

struct PK
{
   int a;
   friend int operator==(const PK& x, const PK& y)
   {
      return x.a == y.a;
   }
};
static int pkHash(const PK* k)
{
   return (k->a % 7) * 3;
}
// DataHashTable::reMax() re-inserts through add(), which calls reMax() again with a size computed from the partial count; for
// growth factors below 1/SOPLEX_HASHTABLE_FILLFACTOR the table ends up full and add() probes forever.  The in-process
// workload therefore only uses factors >= 1.5; the defect itself is observed here, in a forked child with a CPU limit.
void probeHashRemax(Unit* reporter)
{
   static bool done = false;
   if(done) return;
   done = true;
   std::string err;
   int r = forkProbe([]()
   {
      for(int n = 0; n < 40; n++)
      {
         DataHashTable<PK, int> h(pkHash, 3, 0, 1.25);
         for(int i = 0; i < n; i++)
         {
            PK k;
            k.a = i;
            h.add(k, i);
         }
         h.reMax();
         for(int i = 0; i < n; i++)
         {
            PK k;
            k.a = i;
            if(!h.has(k) || h[k] != i) return false;
         }
      }
      return true;
   }, 120, &err, 2);
   sink().count(std::string("probe.hashRemaxSmallFactor.") + (r == 0 ? "ok" : r == 1 ? "wrong" : r == 2 ? "crash" : "hang"));
   if(r != 0 && reporter)
   {
      std::string savedName = reporter->name;
      reporter->name = "DataHashTable";
      reporter->fail("reMax(factor=1.25)", r == 3 ? "probe:hang" : r == 2 ? "probe:crash" : "probe:wrong-result",
                     "DataHashTable(hash, 3, 0, factor 1.25) with n = 0..39 items, reMax(): forked probe did not finish within 2 s of CPU time "
                     "(add() inside reMax() calls reMax() with int(factor * partial count) + 1, the table ends up full and add() probes forever)");
      reporter->name = savedName;
      reporter->bad = false;
   }
}

struct UnitDesc
{
   const char* name;
   int tu;      // 0 sets 1 misc 2 vec
   int idx;
   int exlenDelta;
};

static std::vector<UnitDesc> unitTable()
{
   std::vector<UnitDesc> t;
   for(int i = 0; i < NSETS; i++) t.push_back({setsUnitNames[i], 0, i, 0});
   for(int i = 0; i < NMISC; i++) t.push_back({miscUnitNames[i], 1, i, 0});
   for(int i = 0; i < NVEC; i++) t.push_back({vecUnitNames[i], 2, i, -1});
   return t;
}
static Unit* makeUnit(const UnitDesc& d)
{
   return d.tu == 0 ? makeSetsUnit(d.idx) : d.tu == 1 ? makeMiscUnit(d.idx) : makeVecUnit(d.idx);
}

} // namespace cont

using namespace cont;

int main(int argc, char** argv)
{
   Cli cli;
   cli.parse(argc, argv);
   bool verbose = cli.extra.count("verbose") > 0;
   Sink& S = sink();
   S.prop = cli.prop;
   if(cli.prop != "C19")
   {
      fprintf(stderr, "h_cont: unknown property %s\n", cli.prop.c_str());
      return 2;
   }
   g_tmpdir = cli.tmpdir;
   int exlen = cli.extra.count("exlen") ? atoi(cli.extra["exlen"].c_str()) : (cli.thorough() ? 5 : 4);
   int EC = cli.extra.count("ec") ? atoi(cli.extra["ec"].c_str()) : 32;
   int period = cli.extra.count("period") ? std::max(1, atoi(cli.extra["period"].c_str())) : 1;
   int rlo = cli.extra.count("rlo") ? atoi(cli.extra["rlo"].c_str()) : (cli.thorough() ? 300 : 150);
   int rhi = cli.extra.count("rhi") ? atoi(cli.extra["rhi"].c_str()) : (cli.thorough() ? 2000 : 700);
   std::string only = cli.extra.count("unit") ? cli.extra["unit"] : "";
   std::vector<UnitDesc> table = unitTable();
   int NU = (int)table.size();
   std::vector<Unit*> units(NU, nullptr);

   for(long long k = cli.from; k < cli.to; k++)
   {
      int u = (int)(k % NU);
      long long j = k / NU;
      const UnitDesc& d = table[u];
      bool exhaustive = (j % period == 0) && (j / period < EC);
      if(exhaustive) j /= period;
      S.begin(k, std::string(d.name) + (exhaustive ? ":exhaustive:" + std::to_string(j) : std::string(":random")));
      if(!only.empty() && only != d.name)
      {
         S.end(k);
         continue;
      }
      if(!units[u]) units[u] = makeUnit(d);
      Unit& U = *units[u];
      U.prop = cli.prop;
      probeHazards(&U);
      std::fill(U.disabled.begin(), U.disabled.end(), 0);
      S.count("cases");
      if(exhaustive)
      {
         S.count("cases.exhaustive");
         std::vector<int> ops = U.exOps();
         int A = (int)ops.size();
         int L = std::max(1, exlen + d.exlenDelta - (exlen >= 6 && d.exlenDelta < 0 ? 1 : 0));
         long long total = 1;
         for(int i = 0; i < L; i++) total *= A;
         long long nseq = 0;
         U.rnd = false;
         int reported = 0;
         for(long long s = j; s < total; s += EC)
         {
            U.g.reseed(fnv(cli.prop + d.name), 1, (uint64_t)s);
            U.beginSeq();
            U.reset();
            long long t = s;
            for(int q = 0; q < L && !U.bad; q++)
            {
               U.doStep(ops[t % A]);
               t /= A;
            }
            nseq++;
            if(nseq <= 400) S.seen("nontrivial", U.seqHash);
            if(U.bad && ++reported > 2000) break;
         }
         S.count(std::string("seqs.") + d.name, nseq);
         S.count("seqs.exhaustive", nseq);
         S.maxi(std::string("exhaustive.alphabet.") + d.name, A);
         S.maxi(std::string("exhaustive.length.") + d.name, L);
      }
      else
      {
         S.count("cases.random");
         Rng g(fnv(cli.prop), cli.seed, (uint64_t)k);
         int len = g.range(rlo, rhi);
         U.rnd = true;
         U.g = g;
         U.beginSeq();
         U.reset();
         long long wsum = 0;
         for(int w : U.weights) wsum += w;
         int resets = 0;
         for(int q = 0; q < len; q++)
         {
            long long r = (long long)(U.g.next() % (uint64_t)wsum);
            int o = 0;
            while(r >= U.weights[o])
            {
               r -= U.weights[o];
               o++;
            }
            U.doStep(o);
            if(U.bad)
            {
               // a violation was reported: do not use this operation again in this case, restart from an empty container
               U.disabled[o] = 1;
               if(U.curOp >= 0) U.disabled[U.curOp] = 1;
               uint64_t h = U.seqHash;
               U.beginSeq();
               U.seqHash = h;
               U.reset();
               if(++resets > 40) break;
            }
         }
         S.seen("nontrivial", U.seqHash);
         S.count(std::string("seqs.") + d.name);
         S.count("seqs.random");
         S.count("ops.random.total", len);
         S.maxi("random.length", len);
         if(verbose) fprintf(stderr, "case %lld unit %s random len %d resets %d\n%s\n", k, d.name, len, resets, U.traceStr().c_str());
      }
      U.flushCounters();
      S.end(k);
   }
   for(Unit* u : units) delete u;
   S.finish();
   return 0;
}
