// harness/h_state.cpp -- C14: basis files and state files restore exactly what was saved.
#include "sx.hpp"
#include "solvecommon.hpp"

using namespace vl;
using namespace soplex;

static Cli cli;
static bool verbose = false;

struct SRes
{
   std::string tag, detail;
   void set(const std::string& t, const std::string& d)
   {
      if(tag.empty())
      {
         tag = t;
         detail = d;
      }
   }
};

static void makeNames(Rng& g, int m, int n, NameSet& rn, NameSet& cn)
{
   rn.clear();
   cn.clear();
   int style = g.range(0, 2);
   for(int i = 0; i < m; i++)
   {
      char b[32];
      if(style == 0) snprintf(b, sizeof b, "R%d", i);
      else if(style == 1) snprintf(b, sizeof b, "row_%03d", i);
      else snprintf(b, sizeof b, "%c%c%d", 'a' + (i % 26), 'A' + ((i / 26) % 26), i * 7 + 1);
      b[8] = 0;
      rn.add(b);
   }
   for(int j = 0; j < n; j++)
   {
      char b[32];
      if(style == 0) snprintf(b, sizeof b, "x%d", j + 100);     // deliberately not the default numbering
      else if(style == 1) snprintf(b, sizeof b, "v_%04d", j);
      else snprintf(b, sizeof b, "%c_%d", 'k' + (j % 10), j);
      b[8] = 0;
      cn.add(b);
   }
}
static bool sameStatus(int want, int got, bool equalBounds)
{
   if(want == got) return true;
   if(equalBounds && got == (int)SPX::FIXED && (want == (int)SPX::ON_LOWER || want == (int)SPX::ON_UPPER)) return true;
   if(equalBounds && want == (int)SPX::FIXED && (got == (int)SPX::ON_LOWER || got == (int)SPX::ON_UPPER)) return true;
   return false;
}
static bool randomBasis(Rng& g, const LPModel& M, std::vector<int>& rs, std::vector<int>& cs)
{
   int m = M.m, n = M.n;
   for(int attempt = 0; attempt < 30; attempt++)
   {
      std::vector<int> vars(m + n);
      for(int k = 0; k < m + n; k++) vars[k] = k;
      g.shuffle(vars);
      double pcol = g.unit();
      std::vector<char> basic(m + n, 0);
      int cnt = 0;
      for(int k = 0; k < m + n && cnt < m; k++)
      {
         int v = vars[k];
         if(g.chance(v < n ? pcol : 1 - pcol) || (m + n - k) <= (m - cnt))
         {
            basic[v] = 1;
            cnt++;
         }
      }
      if(cnt != m) continue;
      std::vector<int> bind;
      for(int v = 0; v < m + n; v++) if(basic[v]) bind.push_back(v < n ? v : -1 - (v - n));
      if(m <= 40 && !nonsingularQ(basisMatrix(M, bind))) continue;
      rs.assign(m, 0);
      cs.assign(n, 0);
      auto nb = [&](const Q & lo, const Q & up) -> int
      {
         bool fl = !isNInf(lo), fu = !isPInf(up);
         if(fl && fu) return lo == up ? (int)SPX::FIXED : (g.chance(0.5) ? (int)SPX::ON_LOWER : (int)SPX::ON_UPPER);
         if(fl) return (int)SPX::ON_LOWER;
         if(fu) return (int)SPX::ON_UPPER;
         return (int)SPX::ZERO;
      };
      for(int j = 0; j < n; j++) cs[j] = basic[j] ? (int)SPX::BASIC : nb(M.lo[j], M.up[j]);
      for(int i = 0; i < m; i++) rs[i] = basic[n + i] ? (int)SPX::BASIC : nb(M.lhs[i], M.rhs[i]);
      return true;
   }
   return false;
}
static std::string statusVec(const std::vector<int>& v)
{
   std::string s;
   for(int x : v) s += (char)('0' + x);
   return s;
}
static std::string slurp(const std::string& p)
{
   std::ifstream f(p);
   std::ostringstream o;
   o << f.rdbuf();
   return o.str();
}

static SRes c14Once(const Instance& I, const ParamSet& cfg, uint64_t sub, bool count)
{
   Sink& S = sink();
   SRes R;
   Rng g(1414, sub, 14);
   const LPModel& M = I.M;
   int m = M.m, n = M.n;
   SoPlex sp;
   quiet(sp);
   cfg.apply(sp);
   loadReal(sp, M, g.range(0, 2));
   bool userNames = g.chance(0.5);
   bool cpx = g.chance(0.5);
   NameSet rn, cn;
   makeNames(g, m, n, rn, cn);
   const NameSet* prn = userNames ? &rn : nullptr;
   const NameSet* pcn = userNames ? &cn : nullptr;
   int source = g.range(0, 9);    // 0-4 solve, 5 aborted solve, 6-9 user basis
   std::string src;
   if(source <= 5)
   {
      if(source == 5) sp.setIntParam(SoPlex::ITERLIMIT, g.range(0, 5), true);
      sp.optimize();
      if(source == 5) sp.setIntParam(SoPlex::ITERLIMIT, -1, true);
      src = std::string("solve.") + statusName((int)sp.status());
   }
   else
   {
      std::vector<int> rs, cs;
      if(m == 0 || m > 30 || !randomBasis(g, M, rs, cs)) return R;
      std::vector<SPX::VarStatus> a(m + 1), b(n + 1);
      for(int i = 0; i < m; i++) a[i] = (SPX::VarStatus)rs[i];
      for(int j = 0; j < n; j++) b[j] = (SPX::VarStatus)cs[j];
      sp.setBasis(a.data(), b.data());
      src = "setBasis";
   }
   if(!sp.hasBasis()) return R;
   std::vector<int> rs(m), cs(n);
   {
      std::vector<SPX::VarStatus> a(m + 1), b(n + 1);
      sp.getBasis(a.data(), b.data());
      for(int i = 0; i < m; i++) rs[i] = (int)a[i];
      for(int j = 0; j < n; j++) cs[j] = (int)b[j];
   }
   // only valid bases are claimed (one basic variable per row); anything else is C04's finding
   {
      int nb = 0;
      for(int v : rs) if(v == (int)SPX::BASIC) nb++;
      for(int v : cs) if(v == (int)SPX::BASIC) nb++;
      if(nb != m) return R;
   }
   std::string base = cli.tmpdir + "/c14_" + std::to_string(sub);
   std::string tag = std::string(userNames ? "usernames" : "defaultnames") + (cpx ? ".cpx" : ".std");
   if(count)
   {
      S.count("c14.basis_roundtrips." + tag);
      S.count("c14.source." + src);
      bool hasUpper = false, hasFixed = false, hasZero = false;
      for(int v : cs)
      {
         if(v == (int)SPX::ON_UPPER) hasUpper = true;
         if(v == (int)SPX::FIXED) hasFixed = true;
         if(v == (int)SPX::ZERO) hasZero = true;
      }
      if(hasUpper) S.count("c14.bases_with_nonbasic_at_upper");
      if(hasFixed) S.count("c14.bases_with_fixed");
      if(hasZero) S.count("c14.bases_with_free_nonbasic");
   }
   // ---- (1) basis file round trip
   {
      std::string fn = base + ".bas";
      bool w = sp.writeBasisFile(fn.c_str(), prn, pcn, cpx);
      if(!w)
      {
         R.set("writeBasisFile.failed." + tag, "writeBasisFile returned false");
         return R;
      }
      SoPlex q;
      quiet(q);
      cfg.apply(q);
      loadReal(q, M, 0);
      bool rd = q.readBasisFile(fn.c_str(), prn, pcn);
      if(!rd)
      {
         R.set("readBasisFile.rejected." + tag, "readBasisFile rejects the file written by writeBasisFile (" + src + "); file:\n" + slurp(fn).substr(0, 600));
         remove(fn.c_str());
         return R;
      }
      if(!q.hasBasis())
      {
         R.set("readBasisFile.nobasis." + tag, "readBasisFile returned true but hasBasis() is false");
         remove(fn.c_str());
         return R;
      }
      std::vector<SPX::VarStatus> a(m + 1), b(n + 1);
      q.getBasis(a.data(), b.data());
      for(int i = 0; i < m; i++) if(!sameStatus(rs[i], (int)a[i], isFin(M.lhs[i]) && M.lhs[i] == M.rhs[i]))
         {
            R.set("basisfile.row-status." + tag, "row " + std::to_string(i) + " written with status " + std::to_string(rs[i]) + " read back as " + std::to_string((
                     int)a[i]) + " (" + src + ", rows " + statusVec(rs) + ")");
            break;
         }
      for(int j = 0; j < n && R.tag.empty(); j++) if(!sameStatus(cs[j], (int)b[j], isFin(M.lo[j]) && M.lo[j] == M.up[j]))
         {
            R.set("basisfile.col-status." + tag, "column " + std::to_string(j) + " written with status " + std::to_string(cs[j]) + " read back as " + std::to_string((
                     int)b[j]) + " (" + src + ", cols " + statusVec(cs) + ")");
            break;
         }
      remove(fn.c_str());
      if(!R.tag.empty()) return R;
   }
   // ---- (2) state files
   if(g.chance(0.5) && n > 0)
   {
      if(count) S.count("c14.state_roundtrips." + tag);
      std::string prefix = base + "_state";
      int st0 = (int)sp.status();
      double v0 = sp.hasSol() ? sp.objValueReal() : 0;
      try
      {
         sp.writeStateReal(prefix.c_str(), prn, pcn, cpx, true);
      }
      catch(const SPxException& e)
      {
         std::string w = e.what();
         R.set("exception.writeStateReal." + w.substr(0, 8) + (cpx ? ".lp" : ".mps"), "writeStateReal threw: " + w);
         remove((prefix + ".set").c_str());
         remove((prefix + ".mps").c_str());
         remove((prefix + ".lp").c_str());
         remove((prefix + ".bas").c_str());
         return R;
      }
      std::string lpf = prefix + (cpx ? ".lp" : ".mps"), basf = prefix + ".bas", setf = prefix + ".set";
      SoPlex q;
      quiet(q);
      NameSet rn2, cn2;
      bool ok1 = q.loadSettingsFile(setf.c_str());
      q.setIntParam(SoPlex::VERBOSITY, 0, true);
      bool ok2 = ok1 && q.readFile(lpf.c_str(), &rn2, &cn2);
      auto cleanup = [&]()
      {
         remove(lpf.c_str());
         remove(basf.c_str());
         remove(setf.c_str());
      };
      if(!ok1)
      {
         R.set("state.settings-rejected", "loadSettingsFile rejects the settings file written by writeStateReal");
         cleanup();
         return R;
      }
      if(!ok2)
      {
         R.set("state.lp-rejected." + tag, "readFile rejects the LP file written by writeStateReal:\n" + slurp(lpf).substr(0, 1500));
         cleanup();
         return R;
      }
      // every non-default parameter is restored
      for(int i = 0; i < SoPlex::BOOLPARAM_COUNT; i++) if(sp.boolParam((SoPlex::BoolParam)i) != q.boolParam((SoPlex::BoolParam)i))
            R.set("state.param.bool." + SoPlex::Settings::boolParam.name[i], "bool parameter not restored from the state's settings file");
      for(int i = 0; i < SoPlex::INTPARAM_COUNT; i++) if(i != SoPlex::VERBOSITY && i != SoPlex::ITERLIMIT
               && !(i == SoPlex::OBJSENSE && !cpx)      /* MPS stores a maximisation as the negated minimisation (documented) */
               && sp.intParam((SoPlex::IntParam)i) != q.intParam((SoPlex::IntParam)i))
            R.set("state.param.int." + SoPlex::Settings::intParam.name[i], "int parameter not restored: " + std::to_string(sp.intParam((SoPlex::IntParam)i)) + " vs " + std::to_string(
                     q.intParam((SoPlex::IntParam)i)));
      for(int i = 0; i < SoPlex::REALPARAM_COUNT; i++)
      {
         double a = sp.realParam((SoPlex::RealParam)i), b = q.realParam((SoPlex::RealParam)i);
         if(!(a == b) && std::fabs(a - b) > 1e-12 * std::max(std::fabs(a), std::fabs(b))) R.set("state.param.real." + SoPlex::Settings::realParam.name[i],
                  "real parameter not restored to printed precision: " + ds(a) + " vs " + ds(b));
      }
      if(!R.tag.empty())
      {
         cleanup();
         return R;
      }
      // LP: same dimensions (write-zero-objective keeps every column), same certified class/optimum
      if(q.numRows() != m || q.numCols() != n)
      {
         // LP format splits ranged rows: allow m + #ranged
         int ranged = 0;
         for(int i = 0; i < m; i++) if(isFin(M.lhs[i]) && isFin(M.rhs[i]) && M.lhs[i] != M.rhs[i]) ranged++;
         if(!(cpx && q.numCols() == n && q.numRows() == m + ranged))
         {
            R.set("state.lp-dims." + tag, "restored LP is " + std::to_string(q.numRows()) + "x" + std::to_string(q.numCols()) + ", saved " + std::to_string(m) + "x" + std::to_string(n));
            cleanup();
            return R;
         }
      }
      bool sameShape = q.numRows() == m && q.numCols() == n;
      bool rb = q.readBasisFile(basf.c_str(), &rn2, &cn2);
      if(sameShape)
      {
         if(!rb)
         {
            R.set("state.basis-rejected." + tag, "readBasisFile rejects the basis file of the saved state; file:\n" + slurp(basf).substr(0, 500));
            cleanup();
            return R;
         }
         std::vector<SPX::VarStatus> a(m + 1), b(n + 1);
         q.getBasis(a.data(), b.data());
         // the LP reader may order rows/columns differently: map by name
         for(int i = 0; i < m && R.tag.empty(); i++)
         {
            int k = userNames ? rn2.number(rn[i]) : i;
            if(!userNames)
            {
               // default names written by the LP writer: C<i> / R<i>...; rely on order
               k = i;
            }
            if(k < 0 || k >= m)
            {
               R.set("state.rowname-lost." + tag, std::string("row name ") + rn[i] + " not found after reading the state's LP file");
               break;
            }
            if(!sameStatus(rs[i], (int)a[k], isFin(M.lhs[i]) && M.lhs[i] == M.rhs[i])) R.set("state.row-status." + tag, "row " + std::to_string(i) + " status " + std::to_string(
                        rs[i]) + " restored as " + std::to_string((int)a[k]));
         }
         for(int j = 0; j < n && R.tag.empty(); j++)
         {
            int k = userNames ? cn2.number(cn[j]) : j;
            if(k < 0 || k >= n)
            {
               R.set("state.colname-lost." + tag, std::string("column name ") + cn[j] + " not found after reading the state's LP file");
               break;
            }
            if(!sameStatus(cs[j], (int)b[k], isFin(M.lo[j]) && M.lo[j] == M.up[j])) R.set("state.col-status." + tag, "column " + std::to_string(j) + " status " + std::to_string(
                        cs[j]) + " restored as " + std::to_string((int)b[k]));
         }
         if(!R.tag.empty())
         {
            cleanup();
            return R;
         }
      }
      // re-solve from the restored state
      if(I.T.known && I.T.robust && (st0 == SPX::OPTIMAL || st0 == SPX::INFEASIBLE || st0 == SPX::UNBOUNDED))
      {
         q.optimize();
         int st1 = (int)q.status();
         if(count) S.count("c14.state_resolves");
         auto sameV = [](int a, int b)
         {
            if(a == b) return true;
            if(a == SPX::INForUNBD) return b == SPX::INFEASIBLE || b == SPX::UNBOUNDED;
            if(b == SPX::INForUNBD) return a == SPX::INFEASIBLE || a == SPX::UNBOUNDED;
            return false;
         };
         bool definite1 = st1 == SPX::OPTIMAL || st1 == SPX::INFEASIBLE || st1 == SPX::UNBOUNDED || st1 == SPX::INForUNBD;
         if(definite1 && !sameV(st0, st1)) R.set(std::string("state.resolve-status.") + statusName(st1), std::string("solver restored from the state files ends ") + statusName(
                     st1) + ", the saved solver had " + statusName(st0));
         else if(st0 == SPX::OPTIMAL && st1 == SPX::OPTIMAL)
         {
            // MPS stores a maximisation as the negated minimisation (documented); the offset travels in the settings file
            double v1 = q.objValueReal();
            bool inverted = !cpx && M.sense > 0;
            double core0 = v0 - sp.realParam(SoPlex::OBJ_OFFSET), core1 = v1 - q.realParam(SoPlex::OBJ_OFFSET);
            double want = inverted ? -core0 : core0;
            double rel = std::fabs(core1 - want) / (1.0 + std::fabs(want));
            double relOff = rel;
            if(count) S.maxi("c14.stateObj/thr", std::min(rel, relOff) / 1e-6);
            if(std::min(rel, relOff) > 1e-6) R.set("state.resolve-objective." + tag, "restored solver reaches " + ds(v1) + ", saved solver had " + ds(v0));
            else if(sameShape && sp.status() == SPX::OPTIMAL && cfg.size() == 0)
            {
               if(count) S.maxi("c14.iterations_after_restore", q.numIterations());
            }
         }
      }
      cleanup();
   }
   // ---- (3) rational state files: a solver that holds the rational LP (sync mode auto) writes its state with writeStateRational
   //      and write-zero-objective on; the LP file must keep every column the basis file names (same dimensions after reading back)
   if(R.tag.empty() && n > 0)
   {
      if(count) S.count("c14.rational_state_roundtrips." + tag);
      int emptyZero = 0;
      for(int j = 0; j < n; j++)
      {
         bool nz = !(M.obj[j] == 0);
         for(int i = 0; i < m && !nz; i++) nz = !(M.A[i][j] == 0);
         if(!nz) emptyZero++;
      }
      if(count && emptyZero > 0) S.count("c14.rational_state_roundtrips.with-empty-zero-objective-column");
      std::string prefix = base + "_rstate";
      std::string lpf = prefix + (cpx ? ".lp" : ".mps"), basf = prefix + ".bas", setf = prefix + ".set";
      auto cleanup3 = [&]()
      {
         remove(lpf.c_str());
         remove(basf.c_str());
         remove(setf.c_str());
      };
      SoPlex r;
      quiet(r);
      r.setIntParam(SoPlex::SYNCMODE, SoPlex::SYNCMODE_AUTO, true);
      loadReal(r, M, 0);
      bool wrote = true;
      try
      {
         r.writeStateRational(prefix.c_str(), nullptr, nullptr, cpx, true);
      }
      catch(const SPxException& e)
      {
         wrote = false;
         std::string w = e.what();
         R.set("exception.writeStateRational." + w.substr(0, 8) + (cpx ? ".lp" : ".mps"), "writeStateRational threw: " + w);
      }
      if(wrote)
      {
         SoPlex q;
         quiet(q);
         q.setIntParam(SoPlex::SYNCMODE, SoPlex::SYNCMODE_AUTO, true);
         bool ok = q.readFile(lpf.c_str(), nullptr, nullptr);
         if(!ok) R.set("rstate.lp-rejected." + tag, "readFile rejects the LP file written by writeStateRational:\n" + slurp(lpf).substr(0, 1500));
         else
         {
            int ranged = 0;
            for(int i = 0; i < m; i++) if(isFin(M.lhs[i]) && isFin(M.rhs[i]) && M.lhs[i] != M.rhs[i]) ranged++;
            bool dimsOk = q.numCols() == n && (q.numRows() == m || (cpx && q.numRows() == m + ranged));
            if(!dimsOk) R.set("rstate.lp-dims." + tag, "LP restored from writeStateRational(writeZeroObjective=true) is " + std::to_string(q.numRows()) + "x" + std::to_string(
                                    q.numCols()) + ", saved " + std::to_string(m) + "x" + std::to_string(n) + " (" + std::to_string(emptyZero) + " empty zero-objective columns)");
         }
      }
      cleanup3();
   }
   return R;
}

static void caseC14(long long k, Rng& g)
{
   Sink& S = sink();
   static const std::vector<std::string> fams = {"planted-opt", "degenerate", "arbitrary", "presolve-rich", "planted-infeasible", "planted-unbounded"};
   std::string fam = fams[(size_t)(k % (long long)fams.size())];
   int mx = g.range(0, 9) == 0 ? 20 : 8;
   Instance I = genFamily(g, fam, mx, mx);
   ParamSet cfg = g.chance(0.5) ? ParamSet() : randomAlgConfig(g, 0.2);
   cfg.i.erase(SoPlex::SOLUTION_POLISHING);
   uint64_t sub = g.next();
   S.begin(k, fam + " " + std::to_string(I.M.m) + "x" + std::to_string(I.M.n) + " " + cfg.key());
   if(!allExactDoubles(I.M))
   {
      S.count("gen.skipped");
      S.end(k);
      return;
   }
   ensureTruth(I);
   S.count("cases");
   S.seen("nontrivial", I.M.signature() ^ fnv(cfg.key()) ^ (sub % 1000));
   SRes r = c14Once(I, cfg, sub, true);
   if(!r.tag.empty())
   {
      ParamSet mc;
      std::string cell = cellKey(cfg, [&](const ParamSet & p)
      {
         return c14Once(I, p, sub, false).tag == r.tag;
      }, &mc);
      // file-format failures do not depend on the algorithmic configuration: key by the monitor alone
      bool cfgDependent = r.tag.rfind("state.resolve", 0) == 0;
      S.viol("C14:" + r.tag + (cfgDependent ? ":" + cell : std::string()), r.detail + " | family " + fam + ", full config " + cfg.key(), replayJson(I.M, cfg, mc, 0));
   }
   if(k < 4) S.sample(Json().str("family", fam).num("m", I.M.m).num("n", I.M.n).str("config", cfg.key()).done());
   S.end(k);
}

int main(int argc, char** argv)
{
   cli.parse(argc, argv);
   verbose = cli.extra.count("verbose") > 0;
   Sink& S = sink();
   S.prop = cli.prop;
   selfTestOracles();
   for(long long k = cli.from; k < cli.to; k++)
   {
      Rng g(fnv(cli.prop), cli.seed, (uint64_t)k);
      if(cli.prop == "C14") caseC14(k, g);
      else
      {
         fprintf(stderr, "h_state: unknown property %s\n", cli.prop.c_str());
         return 2;
      }
   }
   S.finish();
   return 0;
}
