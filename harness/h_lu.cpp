// harness/h_lu.cpp -- stand-alone LU monitors.
//   C10: SLUFactor<double> (load / status / every public solve overload / Forest-Tomlin and product-form (ETA) updates)
//        judged against the current matrix kept in exact rational arithmetic (exact inverse, exact condition number).
//   C11: SLUFactorRational (load / status / solveRight / solveLeft, dense and sparse) judged by exact equality.
// Oracles and thresholds: DESIGN.md "### C10", "### C11", 3.4.  Only valid uses of the API are issued (see comments at
// the call sites for the preconditions taken from slufactor.hpp / spxbasis.h / enter.hpp / leave.hpp).
#include "sxinc.hpp"
#include "cert.hpp"

using namespace vl;
using namespace soplex;

static Cli cli;
static bool verbose = false;
typedef std::vector<std::vector<Q>> QMat;   // [row][col]
typedef std::function<Q(Rng&)> EntF;

// ------------------------------------------------------------------------------------------------ small exact helpers
static Q p2(int e)
{
   Q r = 1;
   if(e >= 0) mpq_mul_2exp(r.backend().data(), r.backend().data(), (unsigned long)e);
   else mpq_div_2exp(r.backend().data(), r.backend().data(), (unsigned long)(-e));
   return r;
}
static bool isDouble(const Q& q)
{
   double d = mpq_get_d(q.backend().data());
   return std::isfinite(d) && qd(d) == q && (d == 0 || std::fabs(d) > 1e-290);
}
static Q vinf(const std::vector<Q>& v)
{
   Q m = 0;
   for(auto& x : v) if(qabs(x) > m) m = qabs(x);
   return m;
}
static double dinf(const std::vector<double>& v)
{
   double m = 0;
   for(double x : v) if(std::fabs(x) > m) m = std::fabs(x);
   return m;
}
static QMat zeroM(int n)
{
   return QMat((size_t)n, std::vector<Q>((size_t)n, Q(0)));
}
static std::vector<int> randPerm(Rng& g, int n)
{
   std::vector<int> p((size_t)n);
   for(int i = 0; i < n; i++) p[(size_t)i] = i;
   g.shuffle(p);
   return p;
}
static QMat permuted(Rng& g, const QMat& M, bool rows, bool cols)
{
   int n = (int)M.size();
   std::vector<int> pr = randPerm(g, n), pc = randPerm(g, n);
   QMat R = zeroM(n);
   for(int i = 0; i < n; i++) for(int j = 0; j < n; j++) R[(size_t)(rows ? pr[(size_t)i] : i)][(size_t)(cols ? pc[(size_t)j] : j)] = M[(size_t)i][(size_t)j];
   return R;
}
static std::string matText(const QMat& M)
{
   std::string s;
   for(auto& r : M)
   {
      for(auto& v : r) s += qs(v) + " ";
      s += "\n";
   }
   return s;
}

// ------------------------------------------------------------------------------------------------ matrix families
// every generator returns a structurally plausible n x n matrix; nonsingularity / condition is decided exactly afterwards
static QMat famRandSparse(Rng& g, int n, const EntF& ent)
{
   QMat M = zeroM(n);
   int maxk = g.range(1, 5);
   for(int j = 0; j < n; j++)
   {
      int k = g.range(1, std::min(n, maxk));
      for(int t = 0; t < k; t++) M[(size_t)g.range(0, n - 1)][(size_t)j] = ent(g);
   }
   if(g.chance(0.9))
   {
      std::vector<int> p = randPerm(g, n);
      for(int j = 0; j < n; j++) if(M[(size_t)p[(size_t)j]][(size_t)j] == 0 || g.chance(0.5)) M[(size_t)p[(size_t)j]][(size_t)j] = ent(g);
   }
   return M;
}
static QMat famTriangular(Rng& g, int n, const EntF& ent)
{
   QMat M = zeroM(n);
   double p = g.chance(0.5) ? 0.15 : 0.5;
   bool upper = g.chance(0.5);
   for(int i = 0; i < n; i++)
   {
      M[(size_t)i][(size_t)i] = ent(g);
      for(int j = i + 1; j < n; j++) if(g.chance(p))
         {
            if(upper) M[(size_t)i][(size_t)j] = ent(g);
            else M[(size_t)j][(size_t)i] = ent(g);
         }
   }
   return g.chance(0.7) ? permuted(g, M, true, true) : M;
}
static QMat famPermIdentity(Rng& g, int n, const EntF& ent)
{
   QMat M = zeroM(n);
   std::vector<int> p = randPerm(g, n);
   bool unit = g.chance(0.4);
   for(int j = 0; j < n; j++) M[(size_t)p[(size_t)j]][(size_t)j] = unit ? Q(1) : ent(g);
   return M;
}
// block form  [U1 A B; 0 N C; 0 0 T]  (U1, T upper triangular: column resp. row singleton stages; N nucleus), then permuted
static QMat famBlocks(Rng& g, int n, const EntF& ent, int k, double nucDensity, double offDensity)
{
   QMat M = zeroM(n);
   k = std::min(k, n);
   int s1 = g.range(0, n - k), s2 = n - k - s1;
   for(int i = 0; i < n; i++)
   {
      bool inNuc = i >= s1 && i < s1 + k;
      for(int j = 0; j < n; j++)
      {
         bool jn = j >= s1 && j < s1 + k;
         if(i == j) M[(size_t)i][(size_t)j] = ent(g);
         else if(inNuc && jn)
         {
            if(g.chance(nucDensity)) M[(size_t)i][(size_t)j] = ent(g);
         }
         else if(j > i && g.chance(offDensity)) M[(size_t)i][(size_t)j] = ent(g);
      }
   }
   (void)s2;
   return permuted(g, M, true, true);
}
static QMat famSingletons(Rng& g, int n, const EntF& ent)
{
   return famBlocks(g, n, ent, g.range(0, std::max(0, n / 3)), 0.5, g.chance(0.5) ? 0.05 : 0.2);
}
static QMat famDenseBump(Rng& g, int n, const EntF& ent)
{
   return famBlocks(g, n, ent, g.range(std::min(n, 3), std::min(n, 16)), g.chance(0.5) ? 1.0 : 0.7, 0.1);
}
static QMat famDense(Rng& g, int n, const EntF& ent)
{
   QMat M = zeroM(n);
   for(int i = 0; i < n; i++) for(int j = 0; j < n; j++) if(g.chance(0.9)) M[(size_t)i][(size_t)j] = ent(g);
   return M;
}
static const std::vector<std::string> FAMS = {"random-sparse", "triangular", "perm-identity", "singletons", "dense-bump", "badly-scaled", "dense-small"};
static QMat genBase(Rng& g, const std::string& fam, int n, const EntF& ent)
{
   if(fam == "random-sparse") return famRandSparse(g, n, ent);
   if(fam == "triangular") return famTriangular(g, n, ent);
   if(fam == "perm-identity") return famPermIdentity(g, n, ent);
   if(fam == "singletons") return famSingletons(g, n, ent);
   if(fam == "dense-bump") return famDenseBump(g, n, ent);
   if(fam == "dense-small") return famDense(g, n, ent);
   // badly-scaled: any structure, scaled later
   static const std::vector<std::string> inner = {"random-sparse", "triangular", "perm-identity", "singletons", "dense-bump"};
   return genBase(g, g.pick(inner), n, ent);
}
// make an exactly singular matrix out of M; returns the kind
static const std::vector<std::string> SINGKINDS = {"zero-col", "zero-row", "dup-col", "dup-row", "dep-col", "dep-row", "two-singletons-one-row", "parallel-col"};
static void singularize(Rng& g, QMat& M, const std::string& kind)
{
   int n = (int)M.size();
   int a = g.range(0, n - 1), b = n > 1 ? (a + g.range(1, n - 1)) % n : a;
   auto small = [&]() { int v = g.range(1, 3); return Q(g.chance(0.5) ? v : -v); };
   if(kind == "zero-col" || n == 1) for(int i = 0; i < n; i++) M[(size_t)i][(size_t)a] = 0;
   else if(kind == "zero-row") for(int j = 0; j < n; j++) M[(size_t)a][(size_t)j] = 0;
   else if(kind == "dup-col") for(int i = 0; i < n; i++) M[(size_t)i][(size_t)b] = M[(size_t)i][(size_t)a];
   else if(kind == "dup-row") M[(size_t)b] = M[(size_t)a];
   else if(kind == "parallel-col")
   {
      Q f = g.chance(0.5) ? p2(g.range(-3, 3)) : small();
      for(int i = 0; i < n; i++) M[(size_t)i][(size_t)b] = f * M[(size_t)i][(size_t)a];
   }
   else if(kind == "dep-col" || kind == "dep-row")
   {
      int c = n > 2 ? (b + 1 + g.range(0, n - 3)) % n : a;
      if(c == a || c == b) c = a;
      Q f1 = small(), f2 = small();
      for(int i = 0; i < n; i++)
      {
         if(kind == "dep-col") M[(size_t)i][(size_t)b] = f1 * M[(size_t)i][(size_t)a] + (c != a ? Q(f2 * M[(size_t)i][(size_t)c]) : Q(0));
         else M[(size_t)b][(size_t)i] = f1 * M[(size_t)a][(size_t)i] + (c != a ? Q(f2 * M[(size_t)c][(size_t)i]) : Q(0));
      }
   }
   else // two column singletons in the same row
   {
      int r = g.range(0, n - 1);
      for(int i = 0; i < n; i++)
      {
         M[(size_t)i][(size_t)a] = i == r ? Q(small()) : Q(0);
         M[(size_t)i][(size_t)b] = i == r ? Q(small()) : Q(0);
      }
   }
}

// ------------------------------------------------------------------------------------------------ exact mirror of the loaded matrix
// base matrix B0 (condition-controlled), power-of-two row/column scaling, actual matrix B = Dr B0 Dc and exact inverses
struct Ex
{
   int n = 0;
   QMat B0, I0;               // base and its exact inverse
   std::vector<int> re, ce;   // scaling exponents
   QMat B, I;                 // actual matrix and its exact inverse
   std::vector<std::vector<std::pair<int, Q>>> rows, cols;   // sparse views of B
   Q nInf, nOne, iInf, iOne;  // ||B||_inf, ||B||_1, ||B^-1||_inf, ||B^-1||_1
   Q c0;                      // cond_inf of the base
   bool scaled = false;

   static Q normInf(const QMat& M)
   {
      Q m = 0;
      for(auto& r : M)
      {
         Q s = 0;
         for(auto& v : r) if(v != 0) s += qabs(v);
         if(s > m) m = s;
      }
      return m;
   }
   static Q normOne(const QMat& M)
   {
      int n = (int)M.size();
      Q m = 0;
      for(int j = 0; j < n; j++)
      {
         Q s = 0;
         for(int i = 0; i < n; i++) if(M[(size_t)i][(size_t)j] != 0) s += qabs(M[(size_t)i][(size_t)j]);
         if(s > m) m = s;
      }
      return m;
   }
   bool init(const QMat& base, const std::vector<int>& r, const std::vector<int>& c)
   {
      n = (int)base.size();
      B0 = base;
      re = r;
      ce = c;
      scaled = false;
      for(int e : re) if(e) scaled = true;
      for(int e : ce) if(e) scaled = true;
      if(!invertQ(B0, I0)) return false;
      rebuild();
      return true;
   }
   void rebuild()
   {
      if(!scaled)
      {
         B = B0;
         I = I0;
      }
      else
      {
         B = zeroM(n);
         I = zeroM(n);
         for(int i = 0; i < n; i++) for(int j = 0; j < n; j++)
            {
               if(B0[(size_t)i][(size_t)j] != 0) B[(size_t)i][(size_t)j] = B0[(size_t)i][(size_t)j] * p2(re[(size_t)i] + ce[(size_t)j]);
               if(I0[(size_t)j][(size_t)i] != 0) I[(size_t)j][(size_t)i] = I0[(size_t)j][(size_t)i] * p2(-re[(size_t)i] - ce[(size_t)j]);
            }
      }
      rows.assign((size_t)n, {});
      cols.assign((size_t)n, {});
      for(int i = 0; i < n; i++) for(int j = 0; j < n; j++) if(B[(size_t)i][(size_t)j] != 0)
            {
               rows[(size_t)i].push_back({j, B[(size_t)i][(size_t)j]});
               cols[(size_t)j].push_back({i, B[(size_t)i][(size_t)j]});
            }
      nInf = normInf(B);
      nOne = normOne(B);
      iInf = normInf(I);
      iOne = normOne(I);
      c0 = scaled ? Q(normInf(B0) * normInf(I0)) : Q(nInf * iInf);
   }
   double cond() const
   {
      return dq(Q(nInf * iInf));
   }
   std::vector<Q> solve(const std::vector<Q>& b, bool left) const
   {
      std::vector<Q> x((size_t)n, Q(0));
      for(int i = 0; i < n; i++)
      {
         Q s = 0;
         for(int j = 0; j < n; j++)
         {
            const Q& e = left ? I[(size_t)j][(size_t)i] : I[(size_t)i][(size_t)j];
            if(e != 0 && b[(size_t)j] != 0) s += e * b[(size_t)j];
         }
         x[(size_t)i] = s;
      }
      return x;
   }
   // candidate replacement of column r by base column a0: returns false if singular; fills the would-be inverse and condition
   bool tryReplace(int r, const std::vector<Q>& a0, QMat& newI0, Q& newCond0) const
   {
      std::vector<Q> al((size_t)n, Q(0));
      for(int i = 0; i < n; i++)
      {
         Q s = 0;
         for(int j = 0; j < n; j++) if(a0[(size_t)j] != 0 && I0[(size_t)i][(size_t)j] != 0) s += I0[(size_t)i][(size_t)j] * a0[(size_t)j];
         al[(size_t)i] = s;
      }
      if(al[(size_t)r] == 0) return false;
      newI0 = I0;
      for(int j = 0; j < n; j++) if(newI0[(size_t)r][(size_t)j] != 0) newI0[(size_t)r][(size_t)j] /= al[(size_t)r];
      for(int i = 0; i < n; i++) if(i != r && al[(size_t)i] != 0)
            for(int j = 0; j < n; j++) if(newI0[(size_t)r][(size_t)j] != 0) newI0[(size_t)i][(size_t)j] -= al[(size_t)i] * newI0[(size_t)r][(size_t)j];
      QMat nb = B0;
      for(int i = 0; i < n; i++) nb[(size_t)i][(size_t)r] = a0[(size_t)i];
      newCond0 = normInf(nb) * normInf(newI0);
      return true;
   }
   void commitReplace(int r, const std::vector<Q>& a0, const QMat& newI0)
   {
      for(int i = 0; i < n; i++) B0[(size_t)i][(size_t)r] = a0[(size_t)i];
      I0 = newI0;
      rebuild();
   }
   std::vector<Q> actualCol(int r, const std::vector<Q>& a0) const
   {
      std::vector<Q> a((size_t)n, Q(0));
      for(int i = 0; i < n; i++) if(a0[(size_t)i] != 0) a[(size_t)i] = scaled ? Q(a0[(size_t)i] * p2(re[(size_t)i] + ce[(size_t)r])) : a0[(size_t)i];
      return a;
   }
};

// ------------------------------------------------------------------------------------------------ index-array guard
// The index array of every caller-owned semi-sparse vector handed to the factorisation is temporarily replaced by a window in the middle
// of a canary-filled buffer with the same logical capacity.  A store outside [0, capacity) -- an overrun of the caller's array -- is then
// observed deterministically in every flavour (and does not corrupt the heap of the harness) instead of only under ASan.
template <class V> struct IdxGuard
{
   enum { CAN = 0x5ca1ab1e };
   V& v;
   int* orig;
   int origLen, cap, pad;
   std::vector<int> buf;
   IdxGuard(V& vv, int capacity) : v(vv), orig(vv.idx), origLen(vv.len), cap(capacity), pad(4 * capacity + 64)
   {
      buf.assign((size_t)(cap + 2 * pad), (int)CAN);
      for(int i = 0; i < cap; i++) buf[(size_t)(pad + i)] = (i < v.num && i < origLen) ? orig[i] : 0;
      v.idx = buf.data() + pad;
      v.len = cap;
   }
   int below() const
   {
      int c = 0;
      for(int i = 0; i < pad; i++) if(buf[(size_t)i] != CAN) c++;
      return c;
   }
   int above() const
   {
      int c = 0;
      for(int i = pad + cap; i < cap + 2 * pad; i++) if(buf[(size_t)i] != CAN) c++;
      return c;
   }
   void reset()
   {
      for(int i = 0; i < pad; i++) buf[(size_t)i] = CAN;
      for(int i = pad + cap; i < cap + 2 * pad; i++) buf[(size_t)i] = CAN;
   }
   ~IdxGuard()
   {
      if(v.num > origLen) v.num = origLen;
      if(v.num < 0) v.num = 0;
      for(int i = 0; i < v.num; i++) orig[i] = buf[(size_t)(pad + i)];
      v.idx = orig;
      v.len = origLen;
   }
};

// ------------------------------------------------------------------------------------------------ C10 monitors
struct C10Ctx
{
   SLUFactor<double>* F = nullptr;
   Ex* E = nullptr;
   std::shared_ptr<Tolerances> tol;
   std::string ut, phase, fam;
   double eps0 = 1e-16;
   int nupd = 0;
   bool exactCap = false;     // result vectors with index capacity exactly dim (SSVectorBase(dim) as a stand-alone user creates them)
   // growth of the factors as reported by the factorisation itself (1/stability(), >= 1); SPxBasisBase refactorises below minStab ~ 1e-6,
   // so the drivers keeps it <= ~1e7.  Rounding level after updates = unit roundoff x growth.
   // error amplification of the current update history: the larger of (a) the element growth 1/stability() the factorisation reports for
   // itself (SPxBasisBase::change() keeps using an updated factorisation down to stability ~1e-6) and (b) the first-order amplification
   // implied by the updates actually applied since the last factorisation, 1 + sum_j |alpha_j|_max / |pivot_j| (exact pivot ratios; the
   // product-form eta file does not enter stability() unless an eta entry exceeds the largest matrix entry).
   double histGrowth = 0;
   double growth() const
   {
      if(phase == "loaded") return 1.0;     // a fresh factorisation: plain rounding level
      double s = (double)F->stability();
      return std::max((s > 0 && s < 1) ? 1.0 / s : 1.0, 1.0 + histGrowth);
   }
   // index capacity of caller-owned semi-sparse vectors: dim + 1 as the solver's own vectors have (created empty, then reDim()), or exactly
   // dim as SSVectorBase(dim) and the SSVectorBase copy constructor give
   int cap() const
   {
      return exactCap ? E->n : E->n + 1;
   }
   std::string cell() const
   {
      return "{utype=" + ut + ",phase=" + phase + (exactCap ? ",cap=dim" : "") + "}";
   }
   void overrun(const IdxGuard<SSVectorBase<double>>& gd, const std::string& variant, const char* which) const
   {
      sink().count("c10.index_guard.checked");
      int b = gd.below(), a = gd.above();
      if(a || b)
         sink().viol("C10:" + variant + ":index-array-overrun." + which + ":" + cell(), std::to_string(b) + " store(s) below and " + std::to_string(a) + " above the caller's index array of " + which + " (capacity " + std::to_string(gd.cap) + ", dim " + std::to_string(E->n) + ")", replay());
   }
   std::string replay() const
   {
      Json j;
      j.str("family", fam).num("n", E->n).str("utype", ut).str("phase", phase).num("updates_applied", nupd).dbl("markowitz", (double)F->markowitz()).dbl("cond_inf", E->cond());
      if(E->n <= 10) j.str("matrix_rows", matText(E->B));
      return j.done();
   }
};

struct RhsV
{
   std::vector<Q> q;          // exact values
   std::vector<double> d;     // same values as doubles
   std::vector<Q> sol;        // exact solution (filled lazily)
   bool haveSol = false;
   int nnz() const
   {
      int c = 0;
      for(double v : d) if(v != 0) c++;
      return c;
   }
};
static const std::vector<Q>& solOf(const Ex& E, RhsV& r, bool left)
{
   if(!r.haveSol)
   {
      r.sol = E.solve(r.q, left);
      r.haveSol = true;
   }
   return r.sol;
}
static void setQ(RhsV& r, int n, const std::vector<Q>& q)
{
   r.q = q;
   r.d.assign((size_t)n, 0.0);
   for(int i = 0; i < n; i++) r.d[(size_t)i] = dq(q[(size_t)i]);
   r.haveSol = false;
}
// kind 0: sparse 1..4 entries, 1: unit vector, 2: column (right) / row (left) of B (solution = unit vector), 3: dense, 4: >= 10 nonzeros
static RhsV makeRhs(Rng& g, const Ex& E, bool left, int kind)
{
   int n = E.n;
   std::vector<Q> q((size_t)n, Q(0));
   auto val = [&]() { int v = g.range(1, 9); return Q(g.chance(0.5) ? v : -v); };
   if(kind == 1) q[(size_t)g.range(0, n - 1)] = g.chance(0.7) ? Q(1) : val();
   else if(kind == 2)
   {
      int k = g.range(0, n - 1);
      bool ok = true;
      for(int i = 0; i < n; i++)
      {
         q[(size_t)i] = left ? E.B[(size_t)k][(size_t)i] : E.B[(size_t)i][(size_t)k];
      }
      (void)ok;
   }
   else if(kind == 3 || kind == 4)
   {
      for(int i = 0; i < n; i++) if(g.chance(kind == 3 ? 0.8 : 0.5)) q[(size_t)i] = val();
      if(kind == 4) for(int t = 0; t < 12 && t < n; t++) q[(size_t)g.range(0, n - 1)] = val();
   }
   else
   {
      int k = g.range(1, std::min(n, 4));
      for(int t = 0; t < k; t++) q[(size_t)g.range(0, n - 1)] = val();
   }
   bool any = false;
   for(auto& v : q) if(v != 0) any = true;
   if(!any) q[(size_t)g.range(0, n - 1)] = 1;
   if(kind != 2 && g.chance(0.3))
   {
      Q s = p2(g.range(-4, 8));
      for(auto& v : q) if(v != 0) v *= s;
   }
   RhsV r;
   setQ(r, n, q);
   return r;
}
static DSVectorBase<double> toSV(const RhsV& r)
{
   DSVectorBase<double> v((int)r.d.size() + 1);
   for(size_t i = 0; i < r.d.size(); i++) if(r.d[i] != 0) v.add((int)i, r.d[i]);
   return v;
}
static VectorBase<double> toDV(const RhsV& r)
{
   VectorBase<double> v((int)r.d.size());
   for(size_t i = 0; i < r.d.size(); i++) v[(int)i] = r.d[i];
   return v;
}
// a *setup* semi-sparse vector (precondition of every SSVector right-hand side of the multi-rhs calls, see asserts in
// SPxBasisBase::solve4update / enter.hpp: rhs->isSetup())
static void fillSS(SSVectorBase<double>& s, const RhsV& r)
{
   s.clear();
   for(size_t i = 0; i < r.d.size(); i++) if(r.d[i] != 0) s.setValue((int)i, r.d[i]);
   s.setup();
}
static std::vector<double> valsOf(const VectorBase<double>& v)
{
   std::vector<double> o((size_t)v.dim());
   for(int i = 0; i < v.dim(); i++) o[(size_t)i] = v[i];
   return o;
}
static std::vector<double> valsOf(const SSVectorBase<double>& v)
{
   std::vector<double> o((size_t)v.dim());
   for(int i = 0; i < v.dim(); i++) o[(size_t)i] = v[i];
   return o;
}

// exact residual / forward error verdict for one returned vector
static void judge(C10Ctx& C, bool left, RhsV& b, bool wantFwd, const std::vector<double>& x, const std::string& variant, const char* view = "")
{
   Sink& S = sink();
   const Ex& E = *C.E;
   int n = E.n;
   S.count("c10.eval." + variant + "." + C.ut);
   S.count("c10.eval_total");
   for(double v : x) if(!std::isfinite(v))
      {
         S.viol("C10:" + variant + ":nonfinite" + view + ":" + C.cell(), "solution contains a non-finite value", C.replay());
         return;
      }
   std::vector<Q> xq((size_t)n);
   for(int i = 0; i < n; i++) xq[(size_t)i] = qd(x[(size_t)i]);
   Q rmax = 0;
   const auto& lines = left ? E.cols : E.rows;
   for(int i = 0; i < n; i++)
   {
      Q s = -b.q[(size_t)i];
      for(auto& e : lines[(size_t)i]) if(xq[(size_t)e.first] != 0) s += e.second * xq[(size_t)e.first];
      if(qabs(s) > rmax) rmax = qabs(s);
   }
   Q normM = left ? E.nOne : E.nInf, normI = left ? E.iOne : E.iInf;
   Q xn = vinf(xq), bn = vinf(b.q);
   // rounding level 1e-9 relative (DESIGN C10) + the absolute zero tolerance `epsilon` (1e-16) with which the solves drop entries
   Q allow = qd(64.0 * n * C.eps0) * (normM + qd(1.0 / (double)C.F->markowitz()));
   double rho = C.growth();
   // rounding level: 1e-9 relative for a fresh factorisation, amplified after updates by C.growth() (see there)
   Q thr = qd(1e-9 * rho) * (normM * xn + bn) + allow;
   double ratio = dq(rmax) / dq(thr);
   S.maxi(std::string("c10.resid/thr.") + (left ? "left." : "right.") + C.phase, ratio);
   S.maxi(std::string("c10.resid/1e-9scale.") + C.phase, dq(rmax) / dq(Q(qd(1e-9) * (normM * xn + bn) + allow)));
   S.maxi("c10.growth_log10." + C.phase, std::log10(rho));
   if(verbose) fprintf(stderr, "  judge %-32s %s upd=%d resid=%.3g thr=%.3g ratio=%.3g |x|=%.3g |b|=%.3g\n", (variant + view).c_str(), C.phase.c_str(), C.nupd, dq(rmax), dq(thr), ratio, dq(xn), dq(bn));
   if(rmax > thr)
   {
      S.viol("C10:" + variant + ":residual" + view + ":" + C.cell(),
             "||" + std::string(left ? "B^T x - b" : "B x - b") + "||_inf = " + ds(dq(rmax)) + " > threshold " + ds(dq(thr)) + " (||B||=" + ds(dq(normM)) + ", ||x||=" + ds(dq(xn)) + ", ||b||=" + ds(dq(bn)) + ", cond=" + ds(E.cond()) + ", n=" + std::to_string(n) + ", updates=" + std::to_string(C.nupd) + ", family " + C.fam + ")",
             C.replay());
      if(verbose)
      {
         fprintf(stderr, "VIOL %s residual ratio %g\nB=\n%s b=", variant.c_str(), ratio, matText(E.B).c_str());
         for(auto& v : b.q) fprintf(stderr, " %s", qs(v).c_str());
         fprintf(stderr, "\n x=");
         for(double v : x) fprintf(stderr, " %.17g", v);
         fprintf(stderr, "\n");
      }
      return;
   }
   if(wantFwd && E.cond() <= 1e10)
   {
      const std::vector<Q>& xs = solOf(E, b, left);
      Q emax = 0;
      for(int i = 0; i < n; i++) if(qabs(xq[(size_t)i] - xs[(size_t)i]) > emax) emax = qabs(xq[(size_t)i] - xs[(size_t)i]);
      Q fthr = normI * thr;   // forward error implied by a rounding-level residual: cond-scaled
      S.count("c10.forward_checked");
      S.maxi("c10.fwd/thr." + C.phase, dq(emax) / dq(fthr));
      if(emax > fthr)
         S.viol("C10:" + variant + ":forward" + view + ":" + C.cell(), "||x - x*||_inf = " + ds(dq(emax)) + " > cond-scaled threshold " + ds(dq(fthr)) + " (cond=" + ds(E.cond()) + ")", C.replay());
   }
}
// index set of a sparse result: if the vector claims to be set up, its index set must address exactly its non-zeros
static void judgeIdx(C10Ctx& C, bool left, RhsV& b, const SSVectorBase<double>& x, const std::string& variant)
{
   Sink& S = sink();
   int n = C.E->n;
   if(!x.isSetup())
   {
      S.count("c10.sparse_result.not_setup");
      return;
   }
   S.count("c10.sparse_result.setup_checked");
   std::vector<char> in((size_t)n, 0);
   std::string bad;
   for(int k = 0; k < x.size(); k++)
   {
      int i = x.index(k);
      if(i < 0 || i >= n) bad = "index out of range";
      else if(in[(size_t)i]) bad = "duplicate index";
      else in[(size_t)i] = 1;
      if(i >= 0 && i < n && x[i] == 0) S.count("c10.sparse_result.indexed_zero");
   }
   std::vector<double> sv((size_t)n, 0.0);
   for(int i = 0; i < n; i++)
   {
      if(in[(size_t)i]) sv[(size_t)i] = x[i];
      else if(x[i] != 0)
      {
         if(std::fabs(x[i]) > C.eps0) bad = "non-zero value " + ds(x[i]) + " at position " + std::to_string(i) + " is missing from the index set";
         else S.count("c10.sparse_result.unindexed_below_epsilon");
      }
   }
   if(!bad.empty())
   {
      S.viol("C10:" + variant + ":index-set:" + C.cell(), "set-up sparse result: " + bad, C.replay());
      // what a consumer iterating over the index set sees
      judge(C, left, b, false, sv, variant, ".sparse-view");
   }
}
// "the two- and three-right-hand-side variants return the same vectors as the corresponding single solves": in floating point two
// different elimination orders can only agree up to the accuracy either of them has; the tightest bound that correct code is guaranteed
// to meet is the one implied by two rounding-level residuals:  ||y_multi - y_single|| <= ||B^-1|| (thr(y_multi) + thr(y_single)).
static void agree(C10Ctx& C, bool left, const std::vector<double>& multi, const std::vector<double>& single, const RhsV& b, const std::string& variant, const char* which)
{
   Sink& S = sink();
   const Ex& E = *C.E;
   S.count("c10.agree." + variant + "." + C.ut);
   double diff = 0;
   for(size_t i = 0; i < multi.size(); i++)
   {
      double d = std::fabs(multi[i] - single[i]);
      if(!(d <= diff)) diff = d;   // NaN-propagating
   }
   double normM = dq(left ? E.nOne : E.nInf), normI = dq(left ? E.iOne : E.iInf), bn = dinf(b.d);
   double rel = 1e-9 * C.growth();
   double allow = 64.0 * E.n * C.eps0 * (normM + 1.0 / (double)C.F->markowitz());
   double thr = normI * (rel * (normM * dinf(multi) + bn) + rel * (normM * dinf(single) + bn) + 2 * allow);
   S.maxi("c10.agree/thr." + C.phase, diff / thr);
   if(multi == single) S.count("c10.agree.bitwise_equal");
   if(verbose) fprintf(stderr, "  agree %-32s %s diff=%.3g thr=%.3g cond=%.3g\n", variant.c_str(), which, diff, thr, E.cond());
   if(!(diff <= thr))
      S.viol("C10:" + variant + ":disagrees-with-single." + which + ":" + C.cell(), std::string("result ") + which + " differs from the single solve of the same right-hand side by " + ds(diff) + " (threshold " + ds(thr) + ", cond " + ds(E.cond()) + ")", C.replay());
}

// variant identifiers: every public solve overload of SLUFactor<double> (slufactor.h)
enum Var
{
   R_DENSE, R_SS, R_SV, R_4UPD, R_2UPD_D, R_2UPD_S, R_3UPD_D, R_3UPD_S,
   L_DENSE, L_SS, L_SV, L_2_D, L_2_S, L_3_D, L_3_S, NVAR
};
static const char* VARNAME[NVAR] = {"solveRight.dense", "solveRight.ssvec", "solveRight.svec", "solveRight4update", "solve2right4update.dense", "solve2right4update.sparse",
                                    "solve3right4update.dense", "solve3right4update.sparse", "solveLeft.dense", "solveLeft.ssvec", "solveLeft.svec", "solveLeft2.dense",
                                    "solveLeft2.sparse", "solveLeft3.dense", "solveLeft3.sparse"
                                   };

// run one variant.  b1 (the "first" right-hand side, an SVector) may be forced (entering column of an update).
// Returns the x vector in *xout for update steps.
static void runVariant(C10Ctx& C, Rng& g, int v, RhsV* forced, SSVectorBase<double>* xpersist, bool wantFwd)
{
   SLUFactor<double>& F = *C.F;
   const Ex& E = *C.E;
   int n = E.n;
   bool left = v >= L_DENSE;
   std::string name = VARNAME[v];
   auto pickKind = [&](bool needSparseish) { int k = g.range(0, 9); return k < 3 ? 0 : k < 5 ? 1 : k < 7 ? 2 : needSparseish ? (k == 7 ? 0 : 4) : (k == 7 ? 3 : 4); };
   RhsV b1 = forced ? *forced : makeRhs(g, E, left, (v == R_DENSE || v == L_DENSE || v == R_SS || v == L_SS) ? (g.chance(0.5) ? 3 : pickKind(false)) : pickKind(true));
   typedef IdxGuard<SSVectorBase<double>> G;
   SSVectorBase<double> xloc(n, C.tol);
   SSVectorBase<double>& x = xpersist ? *xpersist : xloc;
   switch(v)
   {
   case R_DENSE:
   case L_DENSE:
   {
      VectorBase<double> xv(n), bv = toDV(b1);
      if(g.chance(0.5)) for(int i = 0; i < n; i++) xv[i] = 7.5;   // result vector need not be zero on entry
      if(left) F.solveLeft(xv, bv);
      else F.solveRight(xv, bv);
      judge(C, left, b1, wantFwd, valsOf(xv), name);
      if(valsOf(bv) != b1.d) sink().viol("C10:" + name + ":rhs-modified:" + C.cell(), "const right-hand side was changed", C.replay());
      break;
   }
   case R_SS:
   case L_SS:
   {
      SSVectorBase<double> bs(n, C.tol);
      fillSS(bs, b1);
      G gx(x, C.cap()), gb(bs, C.cap());
      if(left) F.solveLeft(x, (const SSVectorBase<double>&)bs);
      else F.solveRight(x, (const SSVectorBase<double>&)bs);
      judge(C, left, b1, wantFwd, valsOf(x), name);
      judgeIdx(C, left, b1, x, name);
      C.overrun(gx, name, "x");
      C.overrun(gb, name, "b");
      break;
   }
   case R_SV:
   case L_SV:
   case R_4UPD:
   {
      DSVectorBase<double> bs = toSV(b1);
      G gx(x, C.cap());
      if(v == R_SV) F.solveRight(x, (const SVectorBase<double>&)bs);
      else if(v == L_SV) F.solveLeft(x, (const SVectorBase<double>&)bs);
      else F.solveRight4update(x, bs);
      judge(C, left, b1, wantFwd, valsOf(x), name);
      judgeIdx(C, left, b1, x, name);
      C.overrun(gx, name, "x");
      break;
   }
   default:
   {
      // multi right-hand-side variants: first the single solves as reference, then the combined call
      bool three = v == R_3UPD_D || v == R_3UPD_S || v == L_3_D || v == L_3_S;
      bool sparseOut = v == R_2UPD_S || v == R_3UPD_S || v == L_2_S || v == L_3_S;
      RhsV b2 = makeRhs(g, E, left, pickKind(true)), b3 = makeRhs(g, E, left, pickKind(true));
      DSVectorBase<double> s1 = toSV(b1), s2 = toSV(b2), s3 = toSV(b3);
      std::vector<double> ref1, ref2, ref3;
      {
         SSVectorBase<double> r1(n, C.tol), r2(n, C.tol), r3(n, C.tol);
         G g1(r1, C.cap()), g2(r2, C.cap()), g3(r3, C.cap());
         if(left)
         {
            F.solveLeft(r1, (const SVectorBase<double>&)s1);
            F.solveLeft(r2, (const SVectorBase<double>&)s2);
            if(three) F.solveLeft(r3, (const SVectorBase<double>&)s3);
         }
         else
         {
            F.solveRight(r1, (const SVectorBase<double>&)s1);
            F.solveRight(r2, (const SVectorBase<double>&)s2);
            if(three) F.solveRight(r3, (const SVectorBase<double>&)s3);
         }
         ref1 = valsOf(r1);
         ref2 = valsOf(r2);
         ref3 = valsOf(r3);
         const char* sn = left ? "solveLeft.svec" : "solveRight.svec";
         C.overrun(g1, sn, "x");
         C.overrun(g2, sn, "x");
         C.overrun(g3, sn, "x");
      }
      SSVectorBase<double> d(n, C.tol), e(n, C.tol);
      fillSS(d, b2);
      fillSS(e, b3);
      std::vector<double> y, z;
      {
         G gx(x, C.cap()), gd(d, C.cap()), ge(e, C.cap());
         if(sparseOut)
         {
            SSVectorBase<double> ys(n, C.tol), zs(n, C.tol);
            G gy(ys, C.cap()), gz(zs, C.cap());
            if(v == R_2UPD_S) F.solve2right4update(x, ys, s1, d);
            else if(v == R_3UPD_S) F.solve3right4update(x, ys, zs, s1, d, e);
            else if(v == L_2_S) F.solveLeft(x, ys, s1, d);
            else F.solveLeft(x, ys, zs, s1, d, e);
            y = valsOf(ys);
            z = valsOf(zs);
            judgeIdx(C, left, b2, ys, name + ".y");
            if(three) judgeIdx(C, left, b3, zs, name + ".z");
            C.overrun(gy, name, "y");
            C.overrun(gz, name, "z");
         }
         else
         {
            VectorBase<double> yv(n), zv(n);
            if(v == R_2UPD_D) F.solve2right4update(x, yv, s1, d);
            else if(v == R_3UPD_D) F.solve3right4update(x, yv, zv, s1, d, e);
            else if(v == L_2_D) F.solveLeft(x, yv, s1, d);
            else F.solveLeft(x, yv, zv, s1, d, e);
            y = valsOf(yv);
            z = valsOf(zv);
         }
         judge(C, left, b1, wantFwd, valsOf(x), name + ".x");
         judgeIdx(C, left, b1, x, name + ".x");
         C.overrun(gx, name, "x");
         C.overrun(gd, name, "rhs2");
         C.overrun(ge, name, "rhs3");
      }
      judge(C, left, b2, wantFwd, y, name + ".y");
      agree(C, left, valsOf(x), ref1, b1, name, "x");
      agree(C, left, y, ref2, b2, name, "y");
      if(three)
      {
         judge(C, left, b3, wantFwd, z, name + ".z");
         agree(C, left, z, ref3, b3, name, "z");
      }
      break;
   }
   }
   if(forced) *forced = b1;
}

static void probe(C10Ctx& C, Rng& g, int howMany, SSVectorBase<double>* xpersist)
{
   std::vector<int> vs((size_t)NVAR);
   for(int i = 0; i < NVAR; i++) vs[(size_t)i] = i;
   if(howMany < NVAR) g.shuffle(vs);
   bool fwd = C.E->n <= 24 || g.chance(0.25);
   for(int i = 0; i < howMany && i < NVAR; i++) runVariant(C, g, vs[(size_t)i], nullptr, g.chance(0.5) ? xpersist : nullptr, fwd);
}

static Q entDouble(Rng& g)
{
   int t = g.range(0, 11), v = g.range(1, 9);
   if(g.chance(0.5)) v = -v;
   if(t < 8) return Q(v);
   if(t == 8) return Q(v) / Q(1 << g.range(1, 4));
   if(t == 9) return Q(v * g.range(10, 120));
   return Q(v > 0 ? 1 : -1);
}
static int pickDim(Rng& g, int lo, int hi)
{
   int t = g.range(0, 9);
   int n = t < 4 ? g.range(lo, 8) : t < 8 ? g.range(9, 24) : g.range(25, hi);
   return std::max(lo, std::min(hi, n));
}
static const std::vector<double> MARKGRID = {0.0001, 0.001, 0.01, 0.01, 0.1, 0.3, 0.5, 0.9, 0.9999, 1e-7, 1.0};

static bool loadInto(SLUFactor<double>& F, std::vector<DSVectorBase<double>>& cols, const QMat& B, int& st)
{
   int n = (int)B.size();
   cols.assign((size_t)n, DSVectorBase<double>(1));
   std::vector<const SVectorBase<double>*> ptr((size_t)n);
   for(int j = 0; j < n; j++)
   {
      DSVectorBase<double> c(n + 1);
      for(int i = 0; i < n; i++) if(B[(size_t)i][(size_t)j] != 0) c.add(i, dq(B[(size_t)i][(size_t)j]));
      cols[(size_t)j] = c;
   }
   for(int j = 0; j < n; j++) ptr[(size_t)j] = &cols[(size_t)j];
   int ret = (int)F.load(ptr.data(), n);
   st = (int)F.status();
   return ret == st;
}
static bool allDoubles(const QMat& M)
{
   for(auto& r : M) for(auto& v : r) if(!isDouble(v)) return false;
   return true;
}

static void caseC10(long long k, Rng& g)
{
   Sink& S = sink();
   const int nf = (int)FAMS.size();
   std::string fam = FAMS[(size_t)(k % nf)];
   int uti = (int)((k / nf) % 2);
   std::string ut = uti ? "FT" : "ETA";
   bool wantSingular = (k / (2 * nf)) % 6 == 5;
   int hi = fam == "dense-small" ? 12 : 60;
   int n = pickDim(g, 1, hi);
   double mark = g.pick(MARKGRID);
   int maxUpd = cli.thorough() ? (g.chance(0.2) ? 200 : g.range(10, 60)) : 25;
   if(g.chance(0.1)) maxUpd = 0;
   S.begin(k, fam + " n=" + std::to_string(n) + " " + ut + " markowitz=" + ds(mark) + (wantSingular ? " singular" : "") + " maxupd=" + std::to_string(maxUpd));

   std::shared_ptr<Tolerances> tol = std::make_shared<Tolerances>();
   SLUFactor<double> F;
   F.setTolerances(tol);
   F.setUtype(uti ? SLUFactor<double>::FOREST_TOMLIN : SLUFactor<double>::ETA);
   F.setMarkowitz(mark);
   std::vector<DSVectorBase<double>> cols;

   // ---------------- exactly singular matrices: must be reported SINGULAR
   if(wantSingular)
   {
      QMat M = genBase(g, fam, n, entDouble);
      std::string kind = g.pick(SINGKINDS);
      // Domain in which a missed singularity is an alarm (floating-point elimination of an exactly singular matrix leaves a rounding residue
      // as last pivot, recognised through the absolute pivot tolerance 1e-10; with element growth the residue can legitimately be larger):
      //  * structural kinds (empty row/column, two column singletons in one row): recognised without arithmetic;
      //  * network matrices (columns = arcs +1/-1 or roots +-1; totally unimodular, so every intermediate of the elimination is 0/+-1 and
      //    the arithmetic is exact for every pivot order): dependent columns (cycles) / dependent rows (root-less components), any dimension;
      //  * duplicate / parallel / integer-dependent rows and columns of small-integer matrices up to dimension 8.
      // Outside of it a miss is counted, not reported.
      bool provable;
      if(n >= 2 && g.chance(0.35))
      {
         kind = "network-dependent";
         M = zeroM(n);
         for(int c = 0; c < n; c++)
         {
            if(g.chance(0.8))
            {
               int i = g.range(0, n - 1), j = (i + g.range(1, n - 1)) % n;
               M[(size_t)i][(size_t)c] = 1;
               M[(size_t)j][(size_t)c] = -1;
            }
            else M[(size_t)g.range(0, n - 1)][(size_t)c] = g.chance(0.5) ? 1 : -1;
         }
         provable = true;
      }
      else
      {
         singularize(g, M, kind);
         provable = kind == "zero-col" || kind == "zero-row" || kind == "two-singletons-one-row" || n == 1 || n <= 8;
      }
      if(fam == "badly-scaled" && kind != "network-dependent")
      {
         // mild power-of-two scaling only: singularity is recognised through the absolute pivot tolerance 1e-10
         for(int i = 0; i < n; i++)
         {
            Q s = p2(g.range(-3, 3));
            for(int j = 0; j < n; j++) M[(size_t)i][(size_t)j] *= s;
         }
      }
      if(nonsingularQ(M) || !allDoubles(M))
      {
         S.count("c10.gen.singular_failed");
         S.end(k);
         return;
      }
      S.count("cases");
      S.count("c10.singular.kind." + kind);
      S.count("c10.family." + fam);
      S.seen("nontrivial", fnv(fam + "|" + std::to_string(n) + "|" + ut + "|singular|" + kind));
      bool prior = g.chance(0.3);
      int st = 0;
      if(prior)
      {
         // the object has factorised a regular matrix of the same dimension before (as a simplex basis would)
         QMat R = famPermIdentity(g, n, entDouble);
         loadInto(F, cols, R, st);
      }
      bool consistent = loadInto(F, cols, M, st);
      S.count("c10.load.singular_checked");
      S.count(std::string("c10.load.status.") + std::to_string(st));
      Json rp;
      rp.str("family", fam).num("n", n).str("utype", ut).str("kind", kind).dbl("markowitz", mark);
      if(n <= 10) rp.str("matrix_rows", matText(M));
      if(!consistent) S.viol("C10:load:return-vs-status:{utype=" + ut + "}", "load() returned a status different from status()", rp.done());
      S.count(std::string("c10.load.singular_checked.") + (provable ? "alarm_domain" : "observation_only"));
      if(st != (int)SLinSolver<double>::SINGULAR && !provable) S.count("c10.load.singular_missed_outside_alarm_domain");
      else if(st != (int)SLinSolver<double>::SINGULAR)
         S.viol("C10:load:missed-singular:{kind=" + kind + "}", "exactly singular matrix (" + kind + ", n=" + std::to_string(n) + ", family " + fam + ") loaded with status " + std::to_string(st) + " instead of SINGULAR", rp.done());
      if(F.stability() != 0) S.count("c10.singular.stability_nonzero");
      S.end(k);
      return;
   }

   // ---------------- nonsingular matrix with exactly known condition
   Ex E;
   bool ok = false;
   for(int attempt = 0; attempt < 6 && !ok; attempt++)
   {
      QMat M = genBase(g, fam, n, entDouble);
      std::vector<int> re((size_t)n, 0), ce((size_t)n, 0);
      if(fam == "badly-scaled")
      {
         // all entries stay >= 2^-34 ~ 6e-11, well above the absolute zero tolerance epsilon = 1e-16 below which SoPlex drops input entries
         int Emax = g.pick(std::vector<int>({3, 8, 15}));
         for(int i = 0; i < n; i++)
         {
            re[(size_t)i] = g.range(-Emax, Emax);
            ce[(size_t)i] = g.range(-Emax, Emax);
         }
      }
      if(!E.init(M, re, ce))
      {
         S.count("c10.gen.singular_retry");
         continue;
      }
      if(E.c0 > qd(1e6))
      {
         S.count("c10.gen.illcond_retry");
         continue;
      }
      ok = allDoubles(E.B);
   }
   if(!ok)
   {
      S.count("c10.gen.skipped");
      S.end(k);
      return;
   }
   S.count("cases");
   S.count("c10.family." + fam);
   S.count("c10.utype." + ut);
   S.count("c10.dim." + std::string(n <= 8 ? "1-8" : n <= 24 ? "9-24" : "25-60"));
   double cond = E.cond();
   S.count(std::string("c10.cond.") + (cond <= 1e2 ? "le1e2" : cond <= 1e4 ? "le1e4" : cond <= 1e8 ? "le1e8" : "gt1e8"));
   C10Ctx C;
   C.F = &F;
   C.E = &E;
   C.tol = tol;
   C.ut = ut;
   C.fam = fam;
   C.phase = "loaded";
   C.eps0 = tol->epsilon();
   int st = 0;
   if(g.chance(0.25))
   {
      // object reuse: an unrelated matrix (maybe singular, maybe other dimension) was loaded before
      int n2 = g.chance(0.5) ? n : pickDim(g, 1, 20);
      QMat R = famRandSparse(g, n2, entDouble);
      if(g.chance(0.4)) singularize(g, R, "dup-col");
      loadInto(F, cols, R, st);
      S.count("c10.load.object_reused");
   }
   bool consistent = loadInto(F, cols, E.B, st);
   S.count("c10.load.regular_checked");
   S.count(std::string("c10.load.status.") + std::to_string(st));
   if(!consistent) S.viol("C10:load:return-vs-status:{utype=" + ut + "}", "load() returned a status different from status()", C.replay());
   // domain of the "never reported singular" clause: cond <= 1e8 and no entry scale near the documented absolute pivot tolerance 1e-10
   bool wellcond = cond <= 1e8 && E.iInf <= qd(1e5);
   if(st != (int)SLinSolver<double>::OK)
   {
      if(st == (int)SLinSolver<double>::SINGULAR && !wellcond) S.count("c10.load.singular_outside_wellcond_domain");
      else S.viol(std::string("C10:load:") + (st == (int)SLinSolver<double>::SINGULAR ? "false-singular" : "bad-status-" + std::to_string(st)),
                     "nonsingular matrix with cond_inf " + ds(cond) + " (||B^-1||=" + ds(dq(E.iInf)) + ", n=" + std::to_string(n) + ", family " + fam + ", markowitz " + ds(mark) + ") loaded with status " + std::to_string(st), C.replay());
      S.end(k);
      return;
   }
   if(wellcond) S.count("c10.load.wellcond_ok");
   double stab0 = (double)F.stability();
   S.count("c10.stability.read");
   if(!(stab0 >= 0 && stab0 <= 1)) S.count("c10.stability.out_of_unit_interval");
   C.exactCap = (k / (2 * nf)) % 4 == 3;
   if(C.exactCap) S.count("c10.result_vectors.exact_capacity_cases");
   SSVectorBase<double> xpersist(n, tol);
   probe(C, g, NVAR, &xpersist);

   // ---------------- update history, driven like SPxBasisBase::change(): solve*4update(x, enterVec, ...) then change(i, enterVec, eta)
   auto minStabOf = [](double s)
   {
      if(s > 1e-4) s *= 0.001;
      if(s > 1e-5) s *= 0.01;
      if(s > 1e-6) s *= 0.1;
      return s;
   };
   double minStab = minStabOf(stab0);
   int sinceRefac = 0, maxChain = 0, applied = 0;
   bool allowEtaArg = g.chance(0.35) && !(uti == 1 && maxUpd > 60);
   bool noUpdateVectorSetUp = false, etaArgSinceRefac = false;
   auto doRefactor = [&]() -> bool
   {
      std::vector<const SVectorBase<double>*> ptr((size_t)n);
      for(int j = 0; j < n; j++) ptr[(size_t)j] = &cols[(size_t)j];
      int rs = (int)F.load(ptr.data(), n);
      S.count("c10.refactorizations");
      sinceRefac = 0;
      C.nupd = 0;
      C.histGrowth = 0;
      C.phase = "loaded";
      etaArgSinceRefac = false;
      noUpdateVectorSetUp = true;
      if(rs != (int)SLinSolver<double>::OK)
      {
         bool wc2 = E.cond() <= 1e8 && E.iInf <= qd(1e5);
         if(wc2) S.viol(std::string("C10:load:") + (rs == (int)SLinSolver<double>::SINGULAR ? "false-singular" : "bad-status-" + std::to_string(rs)), "refactorisation of a nonsingular matrix with cond_inf " + ds(E.cond()) + " gives status " + std::to_string(rs), C.replay());
         else S.count("c10.load.singular_outside_wellcond_domain");
         return false;
      }
      minStab = minStabOf((double)F.stability());
      return true;
   };
   double pRefac = g.chance(0.5) ? 0.0 : 0.04;
   Q condCap = qd(1e6);
   for(int step = 0; step < maxUpd; step++)
   {
      // choose leaving position and entering column (base units), exact test of the new matrix
      int r = -1;
      std::vector<Q> a0;
      QMat newI0;
      Q nc;
      for(int attempt = 0; attempt < 8 && r < 0; attempt++)
      {
         int rr = g.range(0, n - 1);
         std::vector<Q> c((size_t)n, Q(0));
         int kind = g.range(0, 9);
         if(kind < 3) c[(size_t)g.range(0, n - 1)] = g.chance(0.6) ? Q(1) : entDouble(g);        // slack-like unit column
         else if(kind < 7)
         {
            int nn = g.range(1, std::min(n, 5));
            for(int t = 0; t < nn; t++) c[(size_t)g.range(0, n - 1)] = entDouble(g);
         }
         else if(kind < 9)
         {
            for(int i = 0; i < n; i++) c[(size_t)i] = E.B0[(size_t)i][(size_t)rr];
            c[(size_t)g.range(0, n - 1)] += entDouble(g);
         }
         else for(int i = 0; i < n; i++) if(g.chance(0.6)) c[(size_t)i] = entDouble(g);
         bool any = false;
         for(auto& v : c) if(v != 0) any = true;
         if(!any) continue;
         if(!E.tryReplace(rr, c, newI0, nc))
         {
            S.count("c10.update.candidate_singular");
            continue;
         }
         if(nc > condCap)
         {
            S.count("c10.update.candidate_illcond");
            continue;
         }
         r = rr;
         a0 = c;
      }
      if(r < 0)
      {
         S.count("c10.update.no_candidate");
         continue;
      }
      RhsV ent;
      setQ(ent, n, E.actualCol(r, a0));
      bool repr = true;
      for(auto& v : ent.q) if(!isDouble(v) || (v != 0 && qabs(v) < qd(1e-11))) repr = false;
      if(!repr)
      {
         S.count("c10.update.column_not_representable_skipped");
         continue;
      }
      // exact B^-1 a on the old matrix: the pivot element must be well away from the zero tolerance (ratio test guarantees this in the simplex)
      std::vector<Q> alpha = E.solve(ent.q, false);
      // numerically acceptable pivot in the units the factorisation sees (the simplex ratio tests enforce a relative pivot stability, too):
      // a product-form eta with |alpha|_max / |pivot| = 1e7 amplifies rounding errors by 1e7 per step whatever the code does
      if(qabs(alpha[(size_t)r]) < qd(1e-9) || qabs(alpha[(size_t)r]) < qd(1e-3) * vinf(alpha))
      {
         S.count("c10.update.pivot_too_small_skipped");
         continue;
      }
      ent.sol = alpha;
      ent.haveSol = true;
      static const int UPDV[5] = {R_4UPD, R_2UPD_D, R_2UPD_S, R_3UPD_D, R_3UPD_S};
      int uv = g.chance(0.5) ? R_4UPD : UPDV[g.range(1, 4)];
      // documented alternative (SLinSolver::change: "one may also pass the optional parameter eta to the solution of solveRight() if
      // readily available"): no solve*4update, eta = B^-1 subst from solveRight.  Only valid while no update vector is set up, i.e.
      // directly after load()/change().
      bool etaArg = allowEtaArg && noUpdateVectorSetUp && g.chance(0.5);
      bool usePersist = g.chance(0.7);
      SSVectorBase<double> xl(n, tol);
      SSVectorBase<double>& x = usePersist ? xpersist : xl;
      if(etaArg)
      {
         uv = R_SV;
         runVariant(C, g, R_SV, &ent, &x, true);
         x.setup();
         S.count("c10.update.via.change-with-eta-argument." + ut);
      }
      else
      {
         runVariant(C, g, uv, &ent, &x, true);
         S.count(std::string("c10.update.via.") + VARNAME[uv] + "." + ut);
      }
      DSVectorBase<double> newcol = toSV(ent);
      // precondition of the update (assert in CLUFactor::update; guaranteed by the ratio test in the simplex): usable computed pivot element
      if(!etaArg) noUpdateVectorSetUp = false;
      if(!(std::fabs(x[r]) > 1e-12) || (x.isSetup() && x.pos(r) < 0))
      {
         S.count("c10.update.computed_pivot_unusable_skipped");
         continue;
      }
      if(verbose)
      {
         fprintf(stderr, "step %d: about to replace column %d via %s: exact pivot %.17g computed %.17g, x setup %d size %d, |alpha|=%.3g\n  x:", step, r, VARNAME[uv], dq(alpha[(size_t)r]), x[r], (int)x.isSetup(), x.isSetup() ? x.size() : -1, dq(vinf(alpha)));
         for(int i = 0; i < n; i++) fprintf(stderr, " %.6g(%.6g)", x[i], dq(alpha[(size_t)i]));
         fprintf(stderr, "\n  entering column:");
         for(int i = 0; i < n; i++) fprintf(stderr, " %.6g", ent.d[(size_t)i]);
         fprintf(stderr, "\n");
      }
      int stc = -1;
      bool threw = false;
      std::string what;
      try
      {
         stc = (int)F.change(r, newcol, (etaArg || g.chance(0.5)) ? &x : nullptr);
      }
      catch(const SPxException& ex)
      {
         threw = true;
         what = ex.what();
      }
      cols[(size_t)r] = newcol;
      E.commitReplace(r, a0, newI0);
      applied++;
      sinceRefac++;
      C.nupd = sinceRefac;
      C.histGrowth += dq(Q(vinf(alpha) / qabs(alpha[(size_t)r])));
      if(etaArg) etaArgSinceRefac = true;
      C.phase = etaArgSinceRefac ? "updated-etaarg" : "updated";
      noUpdateVectorSetUp = true;
      S.count("c10.updates_applied");
      S.count("c10.updates_applied." + ut);
      int stNow = (int)F.status();
      if(verbose) fprintf(stderr, "step %d: replaced column %d via %s, status %d threw %d stability %.3g cond %.3g pivot %.3g chain %d\n", step, r, VARNAME[uv], stNow, (int)threw, stNow == 0 ? (double)F.stability() : -1.0, E.cond(), dq(alpha[(size_t)r]), sinceRefac);
      bool wc = E.cond() <= 1e8 && E.iInf <= qd(1e5);
      bool refac = false;
      if(threw || stNow != (int)SLinSolver<double>::OK)
      {
         S.count(threw ? "c10.update.threw" : "c10.update.status_not_ok");
         if(wc && E.c0 <= condCap)
            S.viol("C10:change:false-singular:" + C.cell(), "column replacement leading to a nonsingular matrix with cond_inf " + ds(E.cond()) + " (exact pivot element " + ds(dq(alpha[(size_t)r])) + ", update " + std::to_string(sinceRefac) + " since factorisation) " + (threw ? "threw " + what : "left status " + std::to_string(stNow)), C.replay());
         refac = true;
      }
      else
      {
         if(stc != stNow) S.viol("C10:change:return-vs-status:" + C.cell(), "change() returned a status different from status()", C.replay());
         double stab = (double)F.stability();
         S.count("c10.stability.read");
         S.maxi("c10.inv_stability_log10." + C.phase, -std::log10(std::max(stab, 1e-300)));
         if(stab < minStab)
         {
            // SPxBasisBase::change() refactorises here
            S.count("c10.update.stability_refactor");
            refac = true;
         }
      }
      if(!refac && g.chance(pRefac))
      {
         S.count("c10.update.voluntary_refactor");
         refac = true;
      }
      if(sinceRefac > maxChain && !refac) maxChain = sinceRefac;
      if(refac && !doRefactor()) break;
      if(step == maxUpd - 1 || step % 16 == 15 || g.chance(0.8))
      {
         probe(C, g, (step == maxUpd - 1 || step % 16 == 15) ? NVAR : g.range(2, 4), &xpersist);
         noUpdateVectorSetUp = false;   // the probes contain solve*4update calls
      }
      // the eta-argument update under FOREST_TOMLIN leaves a corrupted factorisation (known finding): observed once, then refactorised
      if(etaArgSinceRefac && uti == 1 && !doRefactor()) break;
   }
   S.maxi("c10.max_updates_without_refactorization", maxChain);
   int ub = maxChain == 0 ? 0 : maxChain <= 5 ? 1 : maxChain <= 25 ? 2 : maxChain <= 100 ? 3 : 4;
   S.count("c10.chain_bucket." + std::to_string(ub));
   S.seen("nontrivial", fnv(fam + "|" + std::to_string(n) + "|" + ut + "|" + std::to_string(ub)));
   S.seen("matrices", fnv(matText(E.B)));
   if(k < 6) S.sample(Json().str("family", fam).num("n", n).str("utype", ut).dbl("markowitz", mark).dbl("cond_inf", cond).num("updates_applied", applied).num("longest_chain", maxChain).done());
   S.end(k);
}

// ------------------------------------------------------------------------------------------------ C11: SLUFactorRational
static Z bigInt(Rng& g, int bits)
{
   Z r = 0;
   for(int b = 0; b < bits; b += 32)
   {
      r <<= 32;
      r += (unsigned long)(g.next() & 0xffffffffULL);
   }
   if(bits % 32) r >>= (32 - bits % 32);
   if(r == 0) r = 1;
   return r;
}
// entries of widely varying bit length
static Q entRational(Rng& g, int heavy)   // heavy: per-mille probability of a very long entry
{
   int t = g.range(0, 999);
   int v = g.range(1, 9);
   Q s = g.chance(0.5) ? Q(1) : Q(-1);
   if(t < heavy)
   {
      int kind = g.range(0, 5);
      if(kind == 0) return s * Q(bigInt(g, g.range(60, 220))) / Q(bigInt(g, g.range(60, 220)));
      if(kind == 1) return s * (Q(1) + p2(-g.pick(std::vector<int>({53, 54, 60, 80, 200}))));      // rounds to +-1 in double
      if(kind == 2) return s * p2(g.chance(0.5) ? g.range(70, 300) : -g.range(70, 300));
      if(kind == 3) return s * Q(bigInt(g, 64)) / Q(bigInt(g, 64));
      if(kind == 4) return s * (Q(v) + Q(1) / Q(bigInt(g, g.range(55, 120))));
      return s * Q(bigInt(g, g.range(100, 400)));
   }
   t = g.range(0, 9);
   if(t < 4) return s * Q(v);
   if(t < 6) return s * Q(v) / Q(g.range(2, 9));                 // non-dyadic small
   if(t == 6) return s * Q(v) / Q(10);                           // decimal literal-like
   if(t == 7) return s * Q(g.range(1, 1000)) / Q(g.range(1, 1000));
   if(t == 8) return s * Q(v) / Q(1 << g.range(1, 6));
   return s;
}
static QMat roundToDouble(const QMat& M)
{
   QMat R = M;
   for(auto& r : R) for(auto& v : r) if(v != 0) v = qd(roundNearest(v));
   return R;
}
static std::vector<Q> valsOfR(const VectorRational& v)
{
   std::vector<Q> o((size_t)v.dim());
   for(int i = 0; i < v.dim(); i++) o[(size_t)i] = v[i];
   return o;
}
static std::vector<Q> valsOfR(const SSVectorRational& v)
{
   std::vector<Q> o((size_t)v.dim());
   for(int i = 0; i < v.dim(); i++) o[(size_t)i] = v[i];
   return o;
}
struct C11Ctx
{
   std::string ut, fam;
   int n = 0;
   const QMat* M = nullptr;
   std::string replay() const
   {
      Json j;
      j.str("family", fam).num("n", n).str("utype", ut);
      if(n <= 8) j.str("matrix_rows", matText(*M));
      return j.done();
   }
};
static void exactCmp(C11Ctx& C, const std::vector<Q>& got, const std::vector<Q>& want, const std::string& variant)
{
   Sink& S = sink();
   S.count("c11.eval." + variant + "." + C.ut);
   S.count("c11.eval_total");
   for(size_t i = 0; i < got.size(); i++) if(got[i] != want[i])
      {
         S.viol("C11:" + variant + ":inexact:{utype=" + C.ut + "}", "component " + std::to_string(i) + " is " + qs(got[i]).substr(0, 80) + " but the exact solution has " + qs(want[i]).substr(0, 80) + " (n=" + std::to_string(C.n) + ", family " + C.fam + ")", C.replay());
         return;
      }
}
static void idxCmpR(C11Ctx& C, const SSVectorRational& x, const std::string& variant)
{
   Sink& S = sink();
   if(!x.isSetup())
   {
      S.count("c11.sparse_result.not_setup");
      return;
   }
   S.count("c11.sparse_result.setup_checked");
   std::vector<char> in((size_t)C.n, 0);
   std::string bad;
   for(int k = 0; k < x.size(); k++)
   {
      int i = x.index(k);
      if(i < 0 || i >= C.n) bad = "index out of range";
      else if(in[(size_t)i]) bad = "duplicate index";
      else in[(size_t)i] = 1;
      if(i >= 0 && i < C.n && x[i] == 0) S.count("c11.sparse_result.indexed_zero");
   }
   for(int i = 0; i < C.n; i++) if(!in[(size_t)i] && x[i] != 0) bad = "non-zero at position " + std::to_string(i) + " missing from the index set";
   if(!bad.empty())
   {
      S.viol("C11:" + variant + ":index-set:{utype=" + C.ut + "}", "set-up sparse result: " + bad + " (n=" + std::to_string(C.n) + ", size " + std::to_string(x.size()) + ")", C.replay());
      if(verbose)
      {
         fprintf(stderr, "C11 index set of %s:", variant.c_str());
         for(int k = 0; k < x.size(); k++) fprintf(stderr, " %d:%s", x.index(k), x[x.index(k)].str().substr(0, 12).c_str());
         fprintf(stderr, "\nmatrix:\n%s", matText(*C.M).c_str());
      }
   }
}
static std::vector<Q> rhsRational(Rng& g, int n, int kind, const QMat& M, bool left)
{
   std::vector<Q> q((size_t)n, Q(0));
   if(kind == 0) q[(size_t)g.range(0, n - 1)] = 1;                                        // unit vector (basis inverse row/column)
   else if(kind == 1)
   {
      int k = g.range(1, std::min(n, 4));
      for(int t = 0; t < k; t++) q[(size_t)g.range(0, n - 1)] = entRational(g, 100);
   }
   else if(kind == 2)
   {
      int c = g.range(0, n - 1);
      for(int i = 0; i < n; i++) q[(size_t)i] = left ? M[(size_t)c][(size_t)i] : M[(size_t)i][(size_t)c];
   }
   else for(int i = 0; i < n; i++) if(g.chance(0.8)) q[(size_t)i] = entRational(g, 30);
   bool any = false;
   for(auto& v : q) if(v != 0) any = true;
   if(!any) q[(size_t)g.range(0, n - 1)] = Q(1) / Q(3);
   return q;
}
static DSVectorRational toSVR(const std::vector<Q>& q)
{
   DSVectorRational v((int)q.size() + 1);
   for(size_t i = 0; i < q.size(); i++) if(q[i] != 0) v.add((int)i, q[i]);
   return v;
}
static void fillSSR(SSVectorRational& s, const std::vector<Q>& q)
{
   s.clear();
   for(size_t i = 0; i < q.size(); i++) if(q[i] != 0) s.setValue((int)i, q[i]);
   s.setup();
}

static void caseC11(long long k, Rng& g)
{
   Sink& S = sink();
   static const std::vector<std::string> fams = {"random-sparse", "triangular", "perm-identity", "singletons", "dense-bump", "dense-small", "double-rounding-singular", "double-rounding-differs", "exactly-singular"};
   std::string fam = fams[(size_t)(k % (long long)fams.size())];
   int uti = (int)((k / (long long)fams.size()) % 2);
   std::string ut = uti ? "FT" : "ETA";
   int hi = fam == "dense-small" ? 10 : 40;
   int t = g.range(0, 9);
   int n = t < 5 ? g.range(1, 6) : t < 9 ? g.range(7, 16) : g.range(17, hi);
   n = std::min(n, hi);
   int heavy = n <= 6 ? 250 : n <= 16 ? 80 : 15;
   EntF ent = [heavy](Rng & gg) { return entRational(gg, heavy); };
   S.begin(k, fam + " n=" + std::to_string(n) + " " + ut);
   QMat M;
   std::string special;
   if(fam == "double-rounding-singular")
   {
      // exactly nonsingular, but two columns coincide after rounding every entry to double
      if(n < 2) n = 2;
      M = genBase(g, g.chance(0.5) ? "random-sparse" : "dense-bump", n, [](Rng & gg) { return entDouble(gg); });
      int a = g.range(0, n - 1), b = (a + g.range(1, n - 1)) % n;
      for(int i = 0; i < n; i++) M[(size_t)i][(size_t)b] = M[(size_t)i][(size_t)a];
      std::vector<int> nzr;
      for(int i = 0; i < n; i++) if(M[(size_t)i][(size_t)a] != 0) nzr.push_back(i);
      if(!nzr.empty())
      {
         int i = g.pick(nzr);
         M[(size_t)i][(size_t)b] *= (Q(1) + p2(-g.pick(std::vector<int>({60, 80, 120}))));
      }
      if(!nonsingularQ(M) || nonsingularQ(roundToDouble(M)))
      {
         S.count("c11.gen.special_failed");
         S.end(k);
         return;
      }
      S.count("c11.double_rounding_singular");
   }
   else if(fam == "double-rounding-differs")
   {
      M = genBase(g, g.chance(0.5) ? "random-sparse" : "singletons", n, [](Rng & gg) { int v = gg.range(1, 9); return (gg.chance(0.5) ? Q(1) : Q(-1)) * Q(v) / Q(gg.pick(std::vector<int>({3, 7, 10, 11}))); });
   }
   else if(fam == "exactly-singular")
   {
      M = genBase(g, g.pick(std::vector<std::string>({"random-sparse", "triangular", "singletons", "dense-bump"})), n, ent);
      std::string kind = g.pick(SINGKINDS);
      if(n < 2 || g.chance(0.5)) singularize(g, M, kind);
      else
      {
         // non-dyadic dependence: column b = (p/q) column a [+ (r/s) column c], q, s in {3, 7, 10, 11}.  The matrix is exactly singular, but
         // rounding its entries to double destroys the dependence
         int a = g.range(0, n - 1), b = (a + g.range(1, n - 1)) % n, c = n > 2 ? (b + 1 + g.range(0, n - 3)) % n : a;
         if(c == b) c = a;
         std::vector<int> dens = {3, 7, 10, 11};
         Q f1 = Q(g.range(1, 9)) / Q(g.pick(dens)), f2 = c != a ? Q(Q(g.range(1, 9)) / Q(g.pick(dens))) : Q(0);
         bool anyNz = false;
         for(int i = 0; i < n; i++) if(M[(size_t)i][(size_t)a] != 0) anyNz = true;
         if(!anyNz) M[(size_t)g.range(0, n - 1)][(size_t)a] = Q(g.range(1, 9));
         for(int i = 0; i < n; i++) M[(size_t)i][(size_t)b] = f1 * M[(size_t)i][(size_t)a] + (c != a ? Q(f2 * M[(size_t)i][(size_t)c]) : Q(0));
         kind = "nondyadic-dep-col";
      }
      special = kind;
   }
   else M = genBase(g, fam, n, ent);
   bool regular = nonsingularQ(M);
   if(fam == "exactly-singular" && regular)
   {
      S.count("c11.gen.special_failed");
      S.end(k);
      return;
   }
   S.count("cases");
   S.count("c11.family." + fam);
   S.count(std::string("c11.truth.") + (regular ? "regular" : "singular"));
   S.count("c11.dim." + std::string(n <= 6 ? "1-6" : n <= 16 ? "7-16" : "17-40"));
   size_t maxbits = 0;
   for(auto& r : M) for(auto& v : r) maxbits = std::max(maxbits, mpz_sizeinbase(mpq_numref(v.backend().data()), 2) + mpz_sizeinbase(mpq_denref(v.backend().data()), 2));
   S.maxi("c11.max_entry_bits", (double)maxbits);
   S.count(std::string("c11.bits.") + (maxbits <= 16 ? "le16" : maxbits <= 128 ? "le128" : "gt128"));
   if(regular && !nonsingularQ(roundToDouble(M))) S.count("c11.regular_but_double_rounding_singular");
   if(!regular && nonsingularQ(roundToDouble(M))) S.count("c11.singular_but_double_rounding_regular");
   S.seen("nontrivial", fnv(fam + "|" + std::to_string(n) + "|" + ut + "|" + (regular ? "r" : "s") + special + "|" + std::to_string(maxbits / 32)));

   C11Ctx C;
   C.ut = ut;
   C.fam = fam;
   C.n = n;
   C.M = &M;
   SLUFactorRational F;
   F.setUtype(uti ? SLUFactorRational::FOREST_TOMLIN : SLUFactorRational::ETA);
   if(g.chance(0.5)) F.setMarkowitz(Rational(g.pick(std::vector<int>({1, 5, 30, 60, 99, 100, 0}))) / 100);
   std::vector<DSVectorRational> cols((size_t)n, DSVectorRational(1));
   std::vector<const SVectorRational*> ptr((size_t)n);
   for(int j = 0; j < n; j++)
   {
      DSVectorRational c(n + 1);
      for(int i = 0; i < n; i++) if(M[(size_t)i][(size_t)j] != 0) c.add(i, M[(size_t)i][(size_t)j]);
      cols[(size_t)j] = c;
   }
   for(int j = 0; j < n; j++) ptr[(size_t)j] = &cols[(size_t)j];
   if(g.chance(0.2))
   {
      // object reuse: another matrix of the same dimension was factorised before
      QMat R = famPermIdentity(g, n, ent);
      std::vector<DSVectorRational> c2((size_t)n, DSVectorRational(2));
      std::vector<const SVectorRational*> p2v((size_t)n);
      for(int j = 0; j < n; j++)
      {
         for(int i = 0; i < n; i++) if(R[(size_t)i][(size_t)j] != 0) c2[(size_t)j].add(i, R[(size_t)i][(size_t)j]);
         p2v[(size_t)j] = &c2[(size_t)j];
      }
      F.load(p2v.data(), n);
      S.count("c11.load.object_reused");
   }
   int ret = (int)F.load(ptr.data(), n);
   int st = (int)F.status();
   S.count("c11.load.checked");
   S.count("c11.load.status." + std::to_string(st));
   if(ret != st) S.viol("C11:load:return-vs-status:{utype=" + ut + "}", "load() returned a status different from status()", C.replay());
   if(!regular)
   {
      if(st != (int)SLinSolverRational::SINGULAR)
         S.viol("C11:load:missed-singular:{kind=" + special + "}", "matrix with exact determinant zero (" + special + ", n=" + std::to_string(n) + ") loaded with status " + std::to_string(st), C.replay());
      S.end(k);
      return;
   }
   if(st != (int)SLinSolverRational::OK)
   {
      S.viol(std::string("C11:load:") + (st == (int)SLinSolverRational::SINGULAR ? "false-singular" : "bad-status-" + std::to_string(st)) + ":{utype=" + ut + "}",
             "matrix with non-zero exact determinant (n=" + std::to_string(n) + ", family " + fam + ") loaded with status " + std::to_string(st), C.replay());
      S.end(k);
      return;
   }
   // ---- solves: every public overload of SLUFactorRational::solveRight / solveLeft (+ the 4update right solves without update)
   typedef IdxGuard<SSVectorRational> GR;
   // the factorisation's own work vectors whose index arrays serve as heaps / index lists of the sparse solves (declared after F, so they
   // are restored before F is destroyed; `eta` is not guarded because setup_and_assign() re-allocates its index array)
   GR gIntS(F.ssvec, F.ssvec.len), gIntF(F.forest, F.forest.len);
   auto ovr = [&](const GR & gd, const std::string & variant, const char* which)
   {
      for(GR* gi : {&gIntS, &gIntF})
      {
         int b = gi->below(), a = gi->above();
         if(a || b)
         {
            S.viol("C11:" + variant + ":index-array-overrun.internal:{utype=" + ut + "}", std::to_string(b) + " store(s) below and " + std::to_string(a) + " above the index array of the factorisation's own work vector " + (gi == &gIntS ? "ssvec" : "forest") + " (capacity " + std::to_string(gi->cap) + ", dim " + std::to_string(n) + ")", C.replay());
            gi->reset();
         }
      }
      S.count("c11.index_guard.checked");
      int b = gd.below(), a = gd.above();
      if(a || b) S.viol("C11:" + variant + ":index-array-overrun." + which + ":{utype=" + ut + "}", std::to_string(b) + " store(s) below and " + std::to_string(a) + " above the caller's index array of " + which + " (SSVectorRational(" + std::to_string(n) + "), family " + fam + ")", C.replay());
   };
   int rounds = n <= 16 ? 2 : 1;
   for(int round = 0; round < rounds; round++)
   {
      for(int left = 0; left < 2; left++)
      {
         std::vector<Q> b1 = rhsRational(g, n, g.range(0, 3), M, left), b2 = rhsRational(g, n, g.range(0, 3), M, left), b3 = rhsRational(g, n, g.range(0, 1), M, left);
         QMat A = M;
         if(left) for(int i = 0; i < n; i++) for(int j = 0; j < n; j++) A[(size_t)i][(size_t)j] = M[(size_t)j][(size_t)i];
         std::vector<Q> x1, x2, x3;
         if(!solveQ(A, b1, x1) || !solveQ(A, b2, x2) || !solveQ(A, b3, x3))
         {
            S.count("c11.oracle_failed");
            continue;
         }
         if(verbose)
         {
            fprintf(stderr, "round %d %s b1:", round, left ? "left" : "right");
            for(auto& q : b1) fprintf(stderr, " %s", qs(q).substr(0, 30).c_str());
            fprintf(stderr, "\n b2:");
            for(auto& q : b2) fprintf(stderr, " %s", qs(q).substr(0, 30).c_str());
            fprintf(stderr, "\n b3:");
            for(auto& q : b3) fprintf(stderr, " %s", qs(q).substr(0, 30).c_str());
            fprintf(stderr, "\n");
         }
         std::string side = left ? "solveLeft" : "solveRight";
         {
            // dense: VectorRational x, VectorRational b
            VectorRational xv(n), bv(n);
            for(int i = 0; i < n; i++) bv[i] = b1[(size_t)i];
            if(g.chance(0.5)) for(int i = 0; i < n; i++) xv[i] = Rational(5) / 7;
            if(left) F.solveLeft(xv, bv);
            else F.solveRight(xv, bv);
            exactCmp(C, valsOfR(xv), x1, side + ".dense");
            if(valsOfR(bv) != b1) S.viol("C11:" + side + ".dense:rhs-modified:{utype=" + ut + "}", "const right-hand side was changed", C.replay());
         }
         {
            // sparse: SSVectorRational x, SVectorRational b  (the call behind getBasisInverseRow/ColRational)
            SSVectorRational xs(n);
            DSVectorRational bs = toSVR(b2);
            GR gx(xs, n);
            if(left) F.solveLeft(xs, bs);
            else F.solveRight(xs, bs);
            exactCmp(C, valsOfR(xs), x2, side + ".sparse");
            idxCmpR(C, xs, side + ".sparse");
            ovr(gx, side + ".sparse", "x");
         }
         if(left)
         {
            {
               SSVectorRational xs(n), d(n);
               VectorRational y(n);
               DSVectorRational s1 = toSVR(b1);
               fillSSR(d, b2);
               GR gx(xs, n), gd(d, n);
               F.solveLeft(xs, y, s1, d);
               exactCmp(C, valsOfR(xs), x1, "solveLeft2.x");
               idxCmpR(C, xs, "solveLeft2.x");
               exactCmp(C, valsOfR(y), x2, "solveLeft2.y");
               ovr(gx, "solveLeft2", "x");
               ovr(gd, "solveLeft2", "rhs2");
            }
            {
               SSVectorRational xs(n), d(n), e(n);
               VectorRational y(n), z(n);
               DSVectorRational s1 = toSVR(b3);
               fillSSR(d, b1);
               fillSSR(e, b2);
               GR gx(xs, n), gd(d, n), ge(e, n);
               F.solveLeft(xs, y, z, s1, d, e);
               exactCmp(C, valsOfR(xs), x3, "solveLeft3.x");
               idxCmpR(C, xs, "solveLeft3.x");
               exactCmp(C, valsOfR(y), x1, "solveLeft3.y");
               exactCmp(C, valsOfR(z), x2, "solveLeft3.z");
               ovr(gx, "solveLeft3", "x");
               ovr(gd, "solveLeft3", "rhs2");
               ovr(ge, "solveLeft3", "rhs3");
            }
         }
         else
         {
            {
               SSVectorRational xs(n);
               DSVectorRational s1 = toSVR(b3);
               GR gx(xs, n);
               F.solveRight4update(xs, s1);
               exactCmp(C, valsOfR(xs), x3, "solveRight4update");
               idxCmpR(C, xs, "solveRight4update");
               ovr(gx, "solveRight4update", "x");
            }
            // the two- and three-right-hand-side 4update right solves have no caller inside SoPlex; exercised in every 4th case
            if(k % 4 == 1 && round == 0)
            {
               S.count("c11.multi_rhs_4update_cases");
               {
                  SSVectorRational xs(n), d(n);
                  VectorRational y(n);
                  DSVectorRational s1 = toSVR(b1);
                  fillSSR(d, b2);
                  GR gx(xs, n), gd(d, n);
                  F.solve2right4update(xs, y, s1, d);
                  exactCmp(C, valsOfR(xs), x1, "solve2right4update.x");
                  idxCmpR(C, xs, "solve2right4update.x");
                  exactCmp(C, valsOfR(y), x2, "solve2right4update.y");
                  ovr(gx, "solve2right4update", "x");
                  ovr(gd, "solve2right4update", "rhs2");
               }
               {
                  SSVectorRational xs(n), d(n), e(n);
                  VectorRational y(n), z(n);
                  DSVectorRational s1 = toSVR(b2);
                  fillSSR(d, b3);
                  fillSSR(e, b1);
                  GR gx(xs, n), gd(d, n), ge(e, n);
                  F.solve3right4update(xs, y, z, s1, d, e);
                  exactCmp(C, valsOfR(xs), x2, "solve3right4update.x");
                  idxCmpR(C, xs, "solve3right4update.x");
                  exactCmp(C, valsOfR(y), x3, "solve3right4update.y");
                  exactCmp(C, valsOfR(z), x1, "solve3right4update.z");
                  ovr(gx, "solve3right4update", "x");
                  ovr(gd, "solve3right4update", "rhs2");
                  ovr(ge, "solve3right4update", "rhs3");
               }
            }
         }
      }
   }
   if(k < 6) S.sample(Json().str("family", fam).num("n", n).str("utype", ut).num("max_entry_bits", (long long)maxbits).boolean("regular", regular).done());
   S.end(k);
}

// ------------------------------------------------------------------------------------------------ oracle self test
static bool selfTest()
{
   QMat M = {{Q(2), Q(1)}, {Q(1), Q(1)}}, I;
   if(!invertQ(M, I) || I[0][0] != 1 || I[0][1] != -1 || I[1][0] != -1 || I[1][1] != 2) return false;
   QMat Sg = {{Q(1), Q(2)}, {Q(2), Q(4)}};
   if(nonsingularQ(Sg) || !nonsingularQ(M)) return false;
   Ex E;
   if(!E.init(M, {1, 0}, {0, -2})) return false;
   // B = diag(2,1) M diag(1,1/4); check B * I == identity
   for(int i = 0; i < 2; i++) for(int j = 0; j < 2; j++)
      {
         Q s = 0;
         for(int t = 0; t < 2; t++) s += E.B[(size_t)i][(size_t)t] * E.I[(size_t)t][(size_t)j];
         if(s != (i == j ? 1 : 0)) return false;
      }
   QMat nI;
   Q nc;
   std::vector<Q> a = {Q(0), Q(3)};
   if(!E.tryReplace(0, a, nI, nc)) return false;
   E.commitReplace(0, a, nI);
   for(int i = 0; i < 2; i++) for(int j = 0; j < 2; j++)
      {
         Q s = 0;
         for(int t = 0; t < 2; t++) s += E.B[(size_t)i][(size_t)t] * E.I[(size_t)t][(size_t)j];
         if(s != (i == j ? 1 : 0)) return false;
      }
   if(p2(-3) != Q(1) / 8 || p2(4) != 16) return false;
   return true;
}

int main(int argc, char** argv)
{
   cli.parse(argc, argv);
   verbose = cli.extra.count("verbose") > 0;
   Sink& S = sink();
   S.prop = cli.prop;
   if(!selfTest())
   {
      fprintf(stderr, "h_lu: oracle self test failed\n");
      return 2;
   }
   for(long long k = cli.from; k < cli.to; k++)
   {
      Rng g(fnv(cli.prop), cli.seed, (uint64_t)k);
      if(cli.prop == "C10") caseC10(k, g);
      else if(cli.prop == "C11") caseC11(k, g);
      else
      {
         fprintf(stderr, "h_lu: unknown property %s\n", cli.prop.c_str());
         return 2;
      }
   }
   S.finish();
   return 0;
}
