// harness/fz_read.cpp -- libFuzzer target for C13 (flavour `fuzz`: clang, ASan+UBSan+LSan).  Same seven entry points and the same
// post-read sequence as h_read (harness/c13_common.hpp).  Environment:
//   FZ_ENTRY=0..6      entry point (lp-real, lp-rational, mps-real, mps-rational, basis, settings-file, settings-string)
//   FZ_TMP=DIR         scratch directory (required)
//   FZ_SIDE=FILE       non-fatal monitor violations (escaped-and-caught exceptions, inconsistencies) are appended here, one line
//                      "key<TAB>base64(input)" per distinct key, and fuzzing continues
//   FZ_STATS=FILE      counters written at exit
//   FZ_DUMPSEEDS=DIR   write the seed files of this entry point's kind to DIR at start-up
//   FZ_MPS_GUARD=1     append "\nENDATA\n" to MPS/basis inputs (set by the driver only while the known EOF hang of
//                      MPSInput::readLine is present, otherwise every truncated input would stop the fuzzer)
// Fatal findings (sanitizer report, hang = read not finished within its CPU budget, uncaught signal) end the process the libFuzzer
// way (artifact written); the driver re-runs the artifact, derives a key and restarts with the remaining budget.
#include "c13_common.hpp"

using namespace c13;

static int fzEntry = 0;
static bool mpsGuard = false;
static std::string sidePath, statsPath;
static std::map<std::string, long long> counters;
static std::set<std::string> sideSeen;
static const uint8_t* curData = nullptr;
static size_t curSize = 0;

static void writeStats()
{
   if(statsPath.empty()) return;
   FILE* f = fopen(statsPath.c_str(), "w");
   if(!f) return;
   for(auto& kv : counters) fprintf(f, "%s\t%lld\n", kv.first.c_str(), kv.second);
   fclose(f);
}

static void onTimeoutFz()
{
   std::string frame = topSoplexFrame();
   fprintf(stderr, "\nC13-VIOLATION key=C13:hang:%s:%s%s\n", entryName[g_entry], g_phase == PH_READ ? "" : "post:", frame.c_str());
   fflush(stderr);
   writeStats();
   abort();
}

extern "C" int LLVMFuzzerInitialize(int*, char***)
{
   const char* e = getenv("FZ_ENTRY");
   fzEntry = e ? atoi(e) : 0;
   if(fzEntry < 0 || fzEntry >= NENTRY) fzEntry = 0;
   const char* t = getenv("FZ_TMP");
   if(!t || !*t)
   {
      fprintf(stderr, "fz_read: FZ_TMP must name a scratch directory\n");
      exit(2);
   }
   mpsGuard = getenv("FZ_MPS_GUARD") && *getenv("FZ_MPS_GUARD") == '1';
   if(getenv("FZ_SIDE")) sidePath = getenv("FZ_SIDE");
   if(getenv("FZ_STATS")) statsPath = getenv("FZ_STATS");
   installTimer();
   g_onTimeout = onTimeoutFz;
   H.count = [](const std::string & n)
   {
      counters[n]++;
   };
   H.maxi = nullptr;
   H.viol = [](const std::string & key, const std::string & detail)
   {
      counters["viol." + key]++;
      if(sideSeen.insert(key).second && !sidePath.empty())
      {
         FILE* f = fopen(sidePath.c_str(), "a");
         if(f)
         {
            std::string d = detail.substr(0, 300);
            for(auto& c : d) if(c == '\t' || c == '\n') c = ' ';
            fprintf(f, "%s\t%s\t%s\n", key.c_str(), b64(std::string((const char*)curData, std::min<size_t>(curSize, 8192))).c_str(), d.c_str());
            fclose(f);
         }
      }
   };
   initCtx(t);
   if(const char* d = getenv("FZ_DUMPSEEDS"))
   {
      buildPool();
      mkdir(d, 0777);
      for(auto& s : P.all)
      {
         if(s.kind != kindOfEntry(fzEntry) || s.bytes.size() > 4096) continue;
         if(fzEntry == SET_STR)
         {
            int q = 0;
            for(auto& l : splitLines(s.bytes)) writeWhole(std::string(d) + "/" + s.name + "." + std::to_string(q++), l.substr(0, l.find('\n')));
         }
         else writeWhole(std::string(d) + "/" + s.name, s.bytes);
      }
   }
   atexit(writeStats);
   return 0;
}

extern "C" int LLVMFuzzerTestOneInput(const uint8_t* data, size_t size)
{
   curData = data;
   curSize = size;
   CaseIn in;
   in.entry = fzEntry;
   in.bytes.assign((const char*)data, size);
   // keep LP inputs on the LP reader and MPS inputs on the MPS reader (readFile sniffs the first byte)
   if(fzEntry <= LP_RAT && size > 0 && (data[0] == '*' || data[0] == 'N')) in.bytes.insert(0, 1, ' ');
   if((fzEntry == MPS_REAL || fzEntry == MPS_RAT) && (size == 0 || (data[0] != '*' && data[0] != 'N')) && !(size >= 2 && data[0] == 0x1f && data[1] == 0x8b)) in.bytes.insert(0, "NAME\n");
   if(mpsGuard && (fzEntry == MPS_REAL || fzEntry == MPS_RAT || fzEntry == BASIS)) in.bytes += "\nENDATA\n";
   uint64_t h = fnv(in.bytes);
   in.variant = (h & 1 ? V_NAMES : 0u) | (h & 2 ? V_SYNCAUTO : 0u) | ((h >> 2) % 5 == 0 ? V_PRELOAD : 0u);
   CaseOut out;
   runCase(in, out);
   if((++counters["cases"] & 255) == 0) writeStats();      // survive a later fatal finding
   return 0;
}
