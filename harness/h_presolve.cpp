// harness/h_presolve.cpp -- C08: the internal simplifier driven stand-alone (no simplex, no silent re-solve):
// presolve verdicts vs certified truth; postsolve of several exact optimal vertices of the reduced LP.
#include "sx.hpp"
#include "solvecommon.hpp"

using namespace vl;
using namespace soplex;

static Cli cli;
static bool verbose = false;
typedef SPxSimplifier<double> SIMP;

static void fillLP(SPxLPBase<double>& lp, const LPModel& M)
{
   LPColSetBase<double> cols;
   DSVectorReal empty(1);
   for(int j = 0; j < M.n; j++) cols.add(dq(M.obj[j]), toReal(M.lo[j]), empty, toReal(M.up[j]));
   lp.addCols(cols);
   LPRowSetBase<double> rows;
   for(int i = 0; i < M.m; i++)
   {
      DSVectorReal r(M.n + 1);
      for(int j = 0; j < M.n; j++) if(M.A[i][j] != 0) r.add(j, dq(M.A[i][j]));
      rows.add(toReal(M.lhs[i]), r, toReal(M.rhs[i]));
   }
   lp.addRows(rows);
   // objective was entered in "max" storage (LPColSet holds maxObj): set the sense so that obj(j) == user objective
   if(M.sense < 0)
   {
      // stored values are interpreted as maxObj; a minimisation problem stores -c
      lp.changeSense(SPxLPBase<double>::MINIMIZE);
   }
}
static LPModel readLP(const SPxLPBase<double>& lp)
{
   LPModel M;
   M.m = lp.nRows();
   M.n = lp.nCols();
   M.A.assign(M.m, std::vector<Q>(M.n, Q(0)));
   M.lhs.resize(M.m);
   M.rhs.resize(M.m);
   M.lo.resize(M.n);
   M.up.resize(M.n);
   M.obj.resize(M.n);
   M.sense = lp.spxSense() == SPxLPBase<double>::MAXIMIZE ? 1 : -1;
   for(int i = 0; i < M.m; i++)
   {
      M.lhs[i] = fromReal(lp.lhs(i));
      M.rhs[i] = fromReal(lp.rhs(i));
   }
   for(int j = 0; j < M.n; j++)
   {
      M.lo[j] = fromReal(lp.lower(j));
      M.up[j] = fromReal(lp.upper(j));
      M.obj[j] = qd(lp.obj(j));
      const SVectorBase<double>& c = lp.colVector(j);
      for(int t = 0; t < c.size(); t++) M.A[c.index(t)][j] = qd(c.value(t));
   }
   return M;
}

struct PRes
{
   std::string tag, detail;
   std::string kinds;     // sorted set of PostStep kinds in the history of the failing postsolve
   void set(const std::string& t, const std::string& d)
   {
      if(tag.empty())
      {
         tag = t;
         detail = d;
      }
   }
};

static const char* resName(int r)
{
   switch(r)
   {
   case 0: return "OKAY";
   case 1: return "INFEASIBLE";
   case 2: return "DUAL_INFEASIBLE";
   case 3: return "UNBOUNDED";
   case 4: return "VANISHED";
   }
   return "?";
}

// postsolve one reduced-space solution and judge it in the original space
static void judgePostsolve(const LPModel& M, const Truth& T, SPxMainSM<double>& smOrig, const std::vector<Q>& x, const std::vector<Q>& y,
                           const std::vector<Q>& s, const std::vector<Q>& r, const std::vector<int>& rst, const std::vector<int>& cst, const Q& redObj,
                           const char* what, PRes& R, bool count)
{
   Sink& S = sink();
   SPxMainSM<double> sm(smOrig);       // unsimplify consumes the history: work on a copy
   sm.setTolerances(smOrig.tolerances());   // (the copy constructor of the simplifier does not carry the tolerances object)
   sm.spxout = smOrig.spxout;
   int rm = (int)s.size(), rn = (int)x.size();
   VectorReal vx(rn), vy(rm), vs(rm), vr(rn);
   for(int j = 0; j < rn; j++)
   {
      vx[j] = dq(x[j]);
      vr[j] = dq(r[j]);
   }
   for(int i = 0; i < rm; i++)
   {
      vy[i] = dq(y[i]);
      vs[i] = dq(s[i]);
   }
   std::vector<SPX::VarStatus> rs(rm + 1), cs(rn + 1);
   for(int i = 0; i < rm; i++) rs[i] = (SPX::VarStatus)rst[i];
   for(int j = 0; j < rn; j++) cs[j] = (SPX::VarStatus)cst[j];
   if(count)
   {
      for(int q = 0; q < sm.m_hist.size(); q++) S.count(std::string("c08.poststep.") + sm.m_hist[q]->getName());
      S.count("c08.postsolves");
   }
   {
      std::set<std::string> ks;
      for(int q = 0; q < sm.m_hist.size(); q++) ks.insert(sm.m_hist[q]->getName());
      R.kinds.clear();
      for(auto& k_ : ks) R.kinds += (R.kinds.empty() ? "" : ",") + k_;
   }
   if(verbose)
   {
      fprintf(stderr, "history:");
      for(int q = 0; q < sm.m_hist.size(); q++) fprintf(stderr, " %s", sm.m_hist[q]->getName());
      fprintf(stderr, "\n");
   }
   try
   {
      sm.unsimplify(vx, vy, vs, vr, rs.data(), cs.data(), true);
   }
   catch(const SPxException& e)
   {
      R.set(std::string("unsimplify.exception.") + what, std::string("unsimplify threw: ") + e.what());
      return;
   }
   SolveOut o;
   o.status = SPX::OPTIMAL;
   o.x = toQ(sm.unsimplifiedPrimal());
   o.s = toQ(sm.unsimplifiedSlacks());
   o.y = toQ(sm.unsimplifiedDual());
   o.r = toQ(sm.unsimplifiedRedCost());
   if((int)o.x.size() != M.n || (int)o.s.size() != M.m || (int)o.y.size() != M.m || (int)o.r.size() != M.n)
   {
      R.set(std::string("dims.") + what, "unsimplified vectors have the wrong dimension");
      return;
   }
   if(verbose)
   {
      auto pv = [](const char* n, const std::vector<Q>& v)
      {
         fprintf(stderr, "%s:", n);
         for(auto& q : v) fprintf(stderr, " %.10g", dq(q));
         fprintf(stderr, "\n");
      };
      fprintf(stderr, "--- postsolve (%s)\nreduced input:\n", what);
      pv("x", x);
      pv("y", y);
      pv("s", s);
      pv("r", r);
      fprintf(stderr, "rstat:");
      for(int v : rst) fprintf(stderr, " %d", v);
      fprintf(stderr, " cstat:");
      for(int v : cst) fprintf(stderr, " %d", v);
      fprintf(stderr, "\noriginal output:\n");
      pv("x", o.x);
      pv("y", o.y);
      pv("s", o.s);
      pv("r", o.r);
   }
   // objective value: c.x + offset of the original; reported = reduced + getObjoffset
   Q pobj = M.objval(o.x);
   o.objval = dq(pobj);
   Tol tol;
   // the simplifier is given the default tolerances (feastol = opttol = 1e-6) and decides "implied free", "redundant", "fixed" with
   // them, so its reductions are entitled to errors of that order; the monitor alarms beyond 10x the tolerance like every other
   // certificate monitor (an earlier version used 1e-8 and flagged violations of 1.1e-7)
   tol.feas = 1e-6;
   tol.opt = 1e-6;
   std::string e = monitorOptimal(M, o, tol, "c08.");
   if(!e.empty())
   {
      R.set("postsolve." + e.substr(0, e.find(':')) + "." + what, e.substr(e.find(':') + 1));
      return;
   }
   {
      double want = dq(pobj), got = dq(redObj) + sm.getObjoffset() + dq(M.offset);
      double rel = std::fabs(want - got) / (1.0 + std::fabs(want));
      if(count) S.maxi("c08.objoffset/thr", rel / 1e-5);
      if(rel > 1e-5) R.set(std::string("objoffset.") + what, "reduced optimum + getObjoffset() = " + ds(got) + " but the postsolved solution has objective " + ds(want));
   }
   if(T.known && T.status == REF_OPTIMAL)
   {
      double rel = std::fabs(dq(pobj) - dq(T.objval)) / (1.0 + std::fabs(dq(T.objval)));
      if(count) S.maxi("c08.optimum/thr", rel / 1e-5);
      if(rel > 1e-5) R.set(std::string("optimum.") + what, "postsolved objective " + ds(dq(pobj)) + " differs from the certified optimum " + ds(dq(T.objval)));
   }
   if(!R.tag.empty()) return;
   // basis of the original LP
   std::vector<SPX::VarStatus> ors(M.m + 1), ocs(M.n + 1);
   sm.getBasis(ors.data(), ocs.data(), M.m, M.n);
   int nb = 0;
   std::vector<int> bind;
   for(int i = 0; i < M.m; i++)
   {
      SPX::VarStatus st = ors[i];
      if(st == SPX::BASIC)
      {
         nb++;
         bind.push_back(-1 - i);
      }
      else if(st == SPX::ON_LOWER && isNInf(M.lhs[i])) R.set(std::string("basis.bound.") + what, "row " + std::to_string(i) + " ON_LOWER with infinite lhs");
      else if(st == SPX::ON_UPPER && isPInf(M.rhs[i])) R.set(std::string("basis.bound.") + what, "row " + std::to_string(i) + " ON_UPPER with infinite rhs");
      else if(st == SPX::FIXED && !(isFin(M.lhs[i]) && M.lhs[i] == M.rhs[i])) R.set(std::string("basis.bound.") + what, "row " + std::to_string(i) + " FIXED with lhs != rhs");
      else if(st == SPX::ZERO && !(isNInf(M.lhs[i]) && isPInf(M.rhs[i]))) R.set(std::string("basis.bound.") + what, "row " + std::to_string(i) + " ZERO but not free");
      else if((int)st < 0 || (int)st > 4) R.set(std::string("basis.bound.") + what, "row " + std::to_string(i) + " has undefined status");
   }
   for(int j = 0; j < M.n; j++)
   {
      SPX::VarStatus st = ocs[j];
      if(st == SPX::BASIC)
      {
         nb++;
         bind.push_back(j);
      }
      else if(st == SPX::ON_LOWER && isNInf(M.lo[j])) R.set(std::string("basis.bound.") + what, "column " + std::to_string(j) + " ON_LOWER with infinite lower");
      else if(st == SPX::ON_UPPER && isPInf(M.up[j])) R.set(std::string("basis.bound.") + what, "column " + std::to_string(j) + " ON_UPPER with infinite upper");
      else if(st == SPX::FIXED && !(isFin(M.lo[j]) && M.lo[j] == M.up[j])) R.set(std::string("basis.bound.") + what, "column " + std::to_string(j) + " FIXED with lower != upper");
      else if(st == SPX::ZERO && !(isNInf(M.lo[j]) && isPInf(M.up[j]))) R.set(std::string("basis.bound.") + what, "column " + std::to_string(j) + " ZERO but not free");
      else if((int)st < 0 || (int)st > 4) R.set(std::string("basis.bound.") + what, "column " + std::to_string(j) + " has undefined status");
   }
   if(!R.tag.empty()) return;
   if(count) S.count("c08.bases_checked");
   if(nb != M.m)
   {
      R.set(std::string("basis.count.") + what, std::to_string(nb) + " basic variables for " + std::to_string(M.m) + " rows after postsolve");
      return;
   }
   if(M.m <= 60 && !nonsingularQ(basisMatrix(M, bind))) R.set(std::string("basis.singular.") + what, "postsolved basis matrix is exactly singular");
}

// Best normalised ray of an LP: optimise c.d over the recession cone intersected with the box [-1,1]^n (always feasible and
// bounded).  The LP is dual infeasible iff the optimum is nonzero; |optimum| / sum|c| is the rate at which the best ray improves.
static bool bestRayRate(const LPModel& L, Q& rate)
{
   LPModel D = L;
   Q csum = 0;
   for(int j = 0; j < D.n; j++)
   {
      D.lo[j] = isNInf(L.lo[j]) ? Q(-1) : Q(0);
      D.up[j] = isPInf(L.up[j]) ? Q(1) : Q(0);
      csum += qabs(L.obj[j]);
   }
   for(int i = 0; i < D.m; i++)
   {
      if(!isNInf(L.lhs[i])) D.lhs[i] = 0;
      if(!isPInf(L.rhs[i])) D.rhs[i] = 0;
   }
   D.offset = 0;
   RefResult rd = refSolve(D);
   if(!rd.certified || rd.status != REF_OPTIMAL) return false;
   rate = csum == 0 ? Q(0) : Q(qabs(rd.objval) / csum);
   return true;
}

static PRes c08Once(const LPModel& M, const Truth& T, bool keepbounds, uint32_t pseed, uint64_t vseed, bool count)
{
   Sink& S = sink();
   PRes R;
   std::shared_ptr<Tolerances> tol = std::make_shared<Tolerances>();
   SPxLPBase<double> lp;
   lp.setTolerances(tol);
   fillLP(lp, M);
   static SPxOut out;
   out.setVerbosity(SPxOut::ERROR);
   lp.setOutstream(out);      // simplify() takes its message handler from the LP
   SPxMainSM<double> sm;
   sm.setTolerances(tol);
   sm.setOutstream(out);
   SIMP::Result res;
   try
   {
      res = sm.simplify(lp, 1e20, keepbounds, pseed);
   }
   catch(const SPxException& e)
   {
      R.set("simplify.exception", std::string("simplify threw: ") + e.what());
      return R;
   }
   if(count)
   {
      S.count(std::string("c08.result.") + resName((int)res));
      S.count(keepbounds ? "c08.keepbounds.on" : "c08.keepbounds.off");
   }
   const char* tn = !T.known ? "unknown" : T.status == REF_OPTIMAL ? "OPTIMAL" : T.status == REF_INFEASIBLE ? "INFEASIBLE" : "UNBOUNDED";
   if(res == SIMP::INFEASIBLE)
   {
      if(T.known && T.robust)
      {
         if(count) S.count("c08.verdicts_checked");
         if(T.status != REF_INFEASIBLE) R.set("verdict.INFEASIBLE", std::string("simplifier says INFEASIBLE, certified truth is ") + tn);
      }
      return R;
   }
   if(res == SIMP::UNBOUNDED || res == SIMP::DUAL_INFEASIBLE)
   {
      if(T.known && T.robust)
      {
         if(count) S.count("c08.verdicts_checked");
         if(T.status == REF_OPTIMAL) R.set(std::string("verdict.") + resName((int)res), std::string("simplifier says ") + resName((int)res) + ", but the LP has the certified finite optimum " + ds(dq(T.objval)));
         if(T.status == REF_INFEASIBLE)
         {
            // the property groups the verdicts "unbounded/dual-infeasible": on an infeasible LP such a verdict is true iff the LP is
            // dual infeasible as well, i.e. iff it has a ray that improves the objective
            Q rate;
            if(bestRayRate(M, rate))
            {
               if(rate == 0) R.set(std::string("verdict.") + resName((int)res) + "-on-dual-feasible", std::string("simplifier says ") + resName((int)res) + ", but the LP is infeasible and has no improving ray (it is dual feasible)");
               else if(count) S.count("c08.unbounded_verdict_on_primal_and_dual_infeasible");
            }
         }
      }
      return R;
   }
   if(res == SIMP::VANISHED)
   {
      if(T.known && T.robust && T.status != REF_OPTIMAL)
      {
         R.set("verdict.VANISHED", std::string("simplifier solved the LP outright, certified truth is ") + tn);
         return R;
      }
      if(count) S.count("c08.vanished_checked");
      // exactly as SoPlexBase::_storeSolutionRealFromPresol does it: zero vectors of the ORIGINAL dimension and the slack
      // basis of the original LP
      std::vector<Q> x0(M.n, Q(0)), y0(M.m, Q(0));
      std::vector<int> rs0(M.m, VS_BASIC), cs0(M.n);
      for(int j = 0; j < M.n; j++) cs0[j] = !isNInf(M.lo[j]) ? (M.lo[j] == M.up[j] ? VS_FIXED : VS_ON_LOWER) : (!isPInf(M.up[j]) ? VS_ON_UPPER : VS_ZERO);
      judgePostsolve(M, T, sm, x0, y0, y0, x0, rs0, cs0, Q(0), "vanished", R, count);
      return R;
   }
   // OKAY: reduced LP in lp
   LPModel Rm = readLP(lp);
   Rm.offset = 0;
   if(verbose && count) fprintf(stderr, "ORIGINAL\n%s\nREDUCED (objoffset %.17g)\n%s\n", M.toLPText().c_str(), sm.getObjoffset(), Rm.toLPText().c_str());
   if(count)
   {
      S.count("c08.reduced_lps");
      if(Rm.m < M.m || Rm.n < M.n) S.count("c08.reduced_lps_smaller");
   }
   int nvert = cli.thorough() ? 8 : 4;
   std::set<std::string> seenVertex;
   for(int v = 0; v < nvert && R.tag.empty(); v++)
   {
      Rng vr(4242, vseed, (uint64_t)v);
      RefResult rr = refSolve(Rm, v == 0 ? nullptr : &vr);
      if(!rr.certified)
      {
         if(count) S.count("c08.reduced_not_certified");
         break;
      }
      if(rr.status != REF_OPTIMAL)
      {
         // the simplifier moves sides by rounding-level amounts (28 -> 28.000000000000004), which can make a degenerate reduced LP
         // exactly infeasible; a floating-point solver would not notice.  Judge the class of the reduced LP relaxed by 1e-9.
         LPModel Rr = perturbed(Rm, +1, Q(1) / Q(1000000000));
         RefResult r2 = refSolve(Rr, v == 0 ? nullptr : &vr);
         if(r2.certified && r2.status == REF_OPTIMAL)
         {
            if(count) S.count("c08.reduced_relaxed_used");
            rr = r2;
            // the vertex is optimal for the relaxed reduced LP: feasible for the reduced LP within 1e-9 relative
         }
      }
      if(rr.status == REF_UNBOUNDED)
      {
         // the same rounding in an objective coefficient (28/3 - 11 -> -1.6666666666666679 against a row coefficient 1.6666666666666665)
         // makes a reduced LP exactly unbounded along a ray that improves the objective at a rate of 1e-15: no floating-point solver
         // working with opttol would follow it.  Judge unboundedness by the best normalised ray: min c.d over the recession cone
         // intersected with the box [-1,1]^n; the class is "unbounded" only if that rate exceeds 1e-9 * sum|c|.
         Q rate;
         if(!bestRayRate(Rm, rate))
         {
            if(count) S.count("c08.reduced_not_certified");
            break;
         }
         if(rate <= Q(1) / Q(1000000000))
         {
            if(count) S.count("c08.reduced_unbounded_only_by_rounding");
            break;
         }
      }
      if(rr.status != REF_OPTIMAL)
      {
         // reduced LP without optimum: the original must be of the same class
         if(T.known && T.robust)
         {
            if(count) S.count("c08.reduced_class_checked");
            if(T.status == REF_OPTIMAL) R.set("reduced-class", std::string("reduced LP is ") + (rr.status == REF_INFEASIBLE ? "infeasible" : "unbounded") + " but the original has a certified finite optimum");
         }
         break;
      }
      if(!rr.basisOk)
      {
         if(count) S.count("c08.reduced_basis_unavailable");
         continue;
      }
      // basis of the reduced LP must be regular for unsimplify to be meaningful
      {
         std::vector<int> bind;
         for(int i = 0; i < Rm.m; i++) if(rr.rowStat[i] == VS_BASIC) bind.push_back(-1 - i);
         for(int j = 0; j < Rm.n; j++) if(rr.colStat[j] == VS_BASIC) bind.push_back(j);
         if((int)bind.size() != Rm.m || (Rm.m <= 60 && !nonsingularQ(basisMatrix(Rm, bind))))
         {
            if(count) S.count("c08.reduced_basis_unavailable");
            continue;
         }
      }
      std::string sig;
      for(auto& q : rr.x) sig += qs(q) + ",";
      for(auto& q : rr.y) sig += qs(q) + ",";
      if(!seenVertex.insert(sig).second) continue;
      if(count) S.count("c08.vertices_postsolved");
      judgePostsolve(M, T, sm, rr.x, rr.y, rr.s, rr.r, rr.rowStat, rr.colStat, rr.objval, "okay", R, count);
   }
   if(count) S.maxi("c08.distinct_vertices_per_lp", (double)seenVertex.size());
   return R;
}

static void caseC08(long long k, Rng& g)
{
   Sink& S = sink();
   static const std::vector<std::string> fams = {"presolve-rich", "presolve-rich", "presolve-rich", "planted-opt", "degenerate", "arbitrary", "planted-infeasible", "planted-unbounded"};
   std::string fam = fams[(size_t)(k % (long long)fams.size())];
   int mx = g.range(0, 9) == 0 ? 16 : 8;
   Instance I = genFamily(g, fam, mx, mx);
   bool keepbounds = ((k / 8) % 2) == 1;
   uint32_t pseed = (uint32_t)g.range(0, 1000);
   uint64_t vseed = g.next();
   S.begin(k, fam + " " + std::to_string(I.M.m) + "x" + std::to_string(I.M.n) + " keepbounds=" + std::to_string(keepbounds) + " tags=" + I.M.tags);
   if(!allExactDoubles(I.M) || I.M.n == 0)
   {
      S.count("gen.skipped");
      S.end(k);
      return;
   }
   I.M.offset = 0;
   if(I.P.has) I.P.objval = I.M.objval(I.P.x.empty() ? std::vector<Q>(I.M.n, Q(0)) : I.P.x);
   ensureTruth(I);
   S.count("cases");
   S.count("family." + fam);
   S.seen("nontrivial", I.M.signature() ^ (keepbounds ? 1 : 0));
   // structural tags as coverage evidence
   {
      std::string t = I.M.tags;
      size_t p0 = 0, p1;
      while((p1 = t.find(',', p0)) != std::string::npos)
      {
         if(p1 > p0) S.count("c08.structure." + t.substr(p0, p1 - p0));
         p0 = p1 + 1;
      }
   }
   PRes r = c08Once(I.M, I.T, keepbounds, pseed, vseed, true);
   if(!r.tag.empty())
   {
      // root-cause key: shrink the LP (greedy row/column deletion while the same monitor still fails) and name the PostStep
      // kinds of the minimal LP's presolve history
      LPModel Mm = I.M;
      PRes rm = r;
      int budget = 400;
      bool changed = true;
      auto stillFails = [&](const LPModel & C, PRes & out) -> bool
      {
         if(C.n == 0) return false;
         Truth T2 = computeTruth(C, true);
         out = c08Once(C, T2, keepbounds, pseed, vseed, false);
         return out.tag == r.tag;
      };
      while(changed && budget > 0)
      {
         changed = false;
         for(int i = Mm.m - 1; i >= 0 && budget > 0; i--)
         {
            budget--;
            LPModel C = Mm;
            std::vector<int> perm(C.m);
            int c2 = 0;
            for(int q = 0; q < C.m; q++) perm[q] = q == i ? -1 : c2++;
            C.removeRowsByPerm(perm);
            PRes o2;
            if(stillFails(C, o2))
            {
               Mm = C;
               rm = o2;
               changed = true;
            }
         }
         for(int j = Mm.n - 1; j >= 0 && budget > 0 && Mm.n > 1; j--)
         {
            budget--;
            LPModel C = Mm;
            std::vector<int> perm(C.n);
            int c2 = 0;
            for(int q = 0; q < C.n; q++) perm[q] = q == j ? -1 : c2++;
            C.removeColsByPerm(perm);
            PRes o2;
            if(stillFails(C, o2))
            {
               Mm = C;
               rm = o2;
               changed = true;
            }
         }
      }
      S.count("c08.shrink_runs");
      S.viol("C08:" + r.tag + ":{" + rm.kinds + "}", r.detail + " | family " + fam + " tags " + I.M.tags + " | minimal LP " + std::to_string(Mm.m) + "x" + std::to_string(
                Mm.n) + (keepbounds ? " keepbounds" : ""), Json().raw("lp", I.M.toJson()).str("lp_text", I.M.toLPText()).str("minimal_lp_text",
                      Mm.toLPText()).num("keepbounds", keepbounds).num("presolve_seed", pseed).done());
   }
   if(k < 4) S.sample(Json().str("family", fam).num("m", I.M.m).num("n", I.M.n).str("tags", I.M.tags).num("keepbounds", keepbounds).done());
   S.end(k);
}

int main(int argc, char** argv)
{
   cli.parse(argc, argv);
   verbose = cli.extra.count("verbose") > 0;
   Sink& S = sink();
   S.prop = cli.prop;
   selfTestOracles();
   for(long long k = cli.from; k < cli.to; k++)
   {
      Rng g(fnv(cli.prop), cli.seed, (uint64_t)k);
      if(cli.prop == "C08") caseC08(k, g);
      else
      {
         fprintf(stderr, "h_presolve: unknown property %s\n", cli.prop.c_str());
         return 2;
      }
   }
   S.finish();
   return 0;
}
